/-
  C01 (per-market clauses, the end-block)  WHAT LEAVES A MARKET'S LEDGER IS WHAT THE BLOCK PAYS FOR THAT MARKET.

  `c01m_custody_by_market` regroups the three custody balances by market, `c01m_endblock_frame` shows that an end-block
  keeps the ledgers of every market in neither settlement queue, `c04_block_balance` states what an end-block moves on
  every account. Combined here, for a reachable state `s`, the end-block `s' = (step s .endBlock).1` and a market `m`
  such that NO OTHER market is in a settlement queue of `s` (`c1o_onlyQueued s m`: the block can settle bets and pay
  participations of `m` only):

    c01m_outflow_ledgers_single   pool(s) − pool(s') = c1m_owed s m − c1m_owed s' m, likewise the bet-fee collector /
                                  `c1m_owedBetFee` and the house-fee collector / `c1m_owedHouseFee` (halting or not)
    c01m_outflow_single           … and, when the end-block does not halt, each of these decreases is exactly what the
                                  account pays in the block: minus the sum of the account's terms `c4b_betTerm` over the
                                  bets settled by the block and `c4b_bookTerm` over the participations paid by the block
                                  (the pool-side / collector-side terms of `c04_block_balance`)
    c01m_outflow_single_closed    the same with the closed forms of `c04_block_balance_closed` (`c4b_betShare`,
                                  `c4b_partShare`)

    c01m_outflow_queued           several markets queued: for every duplicate-free list `Q` containing the markets of
                                  both queues, the decrease of each custody balance is the SUM over `Q` of the decreases
                                  of the ledgers, and (no halt) equals what the account pays in the block

  NOT proved: the general per-market equation when several markets are settled in one block (ledger decrease of `m` =
  payments for the bets of `m` and the participations of `m`'s book ALONE); it needs the `c4b_BetAcc` / `c4b_PartAcc` fold
  of Lemmas/BlockPay.lean carried with a per-market indicator. Also not proved: that the records settled / paid by a
  block with `c1o_onlyQueued s m` all belong to `m` (the right-hand sides below range over all records of the block).
-/
import SgeProofs.Lemmas.C01MarketOutflow
import SgeProofs.Properties.C01MarketFrame
import SgeProofs.Properties.C04Block
namespace Sge.Core
open Sge Sge.Genesis

/-- no market other than `m` waits in a settlement queue of `s`: the end-block from `s` can settle bets of `m` and pay
    participations of the book of `m` only -/
def c1o_onlyQueued (s : State) (m : Nat) : Prop := ∀ m', m' ≠ m → m' ∉ s.mqueue ∧ m' ∉ s.obqueue

theorem c1o_neg_of_diff {A B T L : Int} (l : A - B = L) (b : B - A = T) : L = -T := by omega

theorem c1o_run_snoc (s0 : State) (ops : List Op) (op : Op) : run s0 (ops ++ [op]) = (step (run s0 ops) op).1 := by
  unfold run; rw [List.foldl_append]; rfl

theorem c1o_wf_snoc {ops : List Op} (hwf : ∀ op ∈ ops, op.userSigned') : ∀ op ∈ ops ++ [.endBlock], op.userSigned' := by
  intro op hop
  rcases List.mem_append.mp hop with h | h
  · exact hwf op h
  · have : op = .endBlock := by simpa using h
    subst this; trivial

/-- C01.m  THE DECREASE OF A CUSTODY ACCOUNT IS THE DECREASE OF THE ONE QUEUED MARKET'S LEDGER. In a reachable state `s`
    in which no market other than `m` waits in a settlement queue, the end-block (settling or halting, any budgets)
    lowers the pool by exactly `c1m_owed s m − c1m_owed s' m`, the bet-fee collector by the decrease of
    `c1m_owedBetFee · m` and the house-fee collector by the decrease of `c1m_owedHouseFee · m`: nothing leaves custody
    on account of any other market. -/
theorem c01m_outflow_ledgers_single (p : Params) (bal : List (Nat × Int)) (h t : Nat) (ops : List Op)
    (h0 : getBal bal ACC_POOL = 0 ∧ getBal bal ACC_BETFEE = 0 ∧ getBal bal ACC_HOUSEFEE = 0)
    (hwf : ∀ o ∈ ops, o.userSigned') :
    let s := run (initState p bal h t) ops
    let s' := (step s .endBlock).1
    ∀ m, c1o_onlyQueued s m →
      getBal s.bal ACC_POOL - getBal s'.bal ACC_POOL = c1m_owed s m - c1m_owed s' m ∧
      getBal s.bal ACC_BETFEE - getBal s'.bal ACC_BETFEE = c1m_owedBetFee s m - c1m_owedBetFee s' m ∧
      getBal s.bal ACC_HOUSEFEE - getBal s'.bal ACC_HOUSEFEE = c1m_owedHouseFee s m - c1m_owedHouseFee s' m := by
  intro s s' m honly
  have hrun : run (initState p bal h t) (ops ++ [.endBlock]) = s' := c1o_run_snoc _ ops .endBlock
  have c1 : getBal s.bal ACC_POOL = sumBy (c1m_owed s) (c1m_markets s) ∧
      getBal s.bal ACC_BETFEE = sumBy (c1m_owedBetFee s) (c1m_markets s) ∧
      getBal s.bal ACC_HOUSEFEE = sumBy (c1m_owedHouseFee s) (c1m_markets s) :=
    c01m_custody_by_market p bal h t ops h0 hwf
  have c2 : getBal s'.bal ACC_POOL = sumBy (c1m_owed s') (c1m_markets s') ∧
      getBal s'.bal ACC_BETFEE = sumBy (c1m_owedBetFee s') (c1m_markets s') ∧
      getBal s'.bal ACC_HOUSEFEE = sumBy (c1m_owedHouseFee s') (c1m_markets s') := by
    have := c01m_custody_by_market p bal h t (ops ++ [.endBlock]) h0 (c1o_wf_snoc hwf)
    simp only [hrun] at this
    exact this
  have n1 : (c1m_markets s).Nodup ∧
      ∀ x, x ∉ c1m_markets s → c1m_owed s x = 0 ∧ c1m_owedBetFee s x = 0 ∧ c1m_owedHouseFee s x = 0 :=
    c01m_no_book_nothing_owed p bal h t ops
  have n2 : (c1m_markets s').Nodup ∧
      ∀ x, x ∉ c1m_markets s' → c1m_owed s' x = 0 ∧ c1m_owedBetFee s' x = 0 ∧ c1m_owedHouseFee s' x = 0 := by
    have := c01m_no_book_nothing_owed p bal h t (ops ++ [.endBlock])
    simp only [hrun] at this
    exact this
  have fr : ∀ x, x ≠ m → c1m_owed s' x = c1m_owed s x ∧ c1m_owedBetFee s' x = c1m_owedBetFee s x ∧
      c1m_owedHouseFee s' x = c1m_owedHouseFee s x :=
    fun x hx => c01m_endblock_frame_reachable p bal h t ops x (honly x hx).1 (honly x hx).2
  have d1 := c1o_regroup_diff (c1m_markets s) (c1m_markets s') (c1m_owed s) (c1m_owed s') m n1.1 n2.1
    (fun x hx => (n1.2 x hx).1) (fun x hx => (n2.2 x hx).1) (fun x hx => (fr x hx).1.symm)
  have d2 := c1o_regroup_diff (c1m_markets s) (c1m_markets s') (c1m_owedBetFee s) (c1m_owedBetFee s') m n1.1 n2.1
    (fun x hx => (n1.2 x hx).2.1) (fun x hx => (n2.2 x hx).2.1) (fun x hx => (fr x hx).2.1.symm)
  have d3 := c1o_regroup_diff (c1m_markets s) (c1m_markets s') (c1m_owedHouseFee s) (c1m_owedHouseFee s') m n1.1 n2.1
    (fun x hx => (n1.2 x hx).2.2) (fun x hx => (n2.2 x hx).2.2) (fun x hx => (fr x hx).2.2.symm)
  rw [c1.1, c1.2.1, c1.2.2, c2.1, c2.2.1, c2.2.2]
  exact ⟨d1, d2, d3⟩

/-- C01.n  THE PER-MARKET OUTFLOW EQUATION, ONE MARKET QUEUED. In a reachable state `s` in which no market other than
    `m` waits in a settlement queue, for the end-block that does not halt: what leaves the pool's ledger of `m`
    (`c1m_owed s m − c1m_owed s' m`) is exactly what the pool pays in the block — minus the pool's terms of
    `c04_block_balance`: Σ over the bets settled by this block of the pool's payment to the bettor + Σ over the
    participations paid by this block of the pool's payment to the depositor; what leaves the bet-fee ledger of `m` is
    exactly the bet fees the collector pays out for the bets settled by this block (to the bettor on a refund, else to
    the market creator); what leaves the house-fee ledger of `m` is exactly the participation fees the collector pays
    out for the participations paid by this block (to the depositor or the creator). -/
theorem c01m_outflow_single (p : Params) (bal : List (Nat × Int)) (h t : Nat) (ops : List Op)
    (h0 : getBal bal ACC_POOL = 0 ∧ getBal bal ACC_BETFEE = 0 ∧ getBal bal ACC_HOUSEFEE = 0)
    (hwf : ∀ o ∈ ops, o.userSigned') :
    let s := run (initState p bal h t) ops
    let s' := (step s .endBlock).1
    (step s .endBlock).2 ≠ .halt → ∀ m, c1o_onlyQueued s m →
      c1m_owed s m - c1m_owed s' m =
        -(sumBy (c4b_betTerm ACC_POOL s.markets (c4b_openAt s.bets)) s'.bets
          + sumBy (c4b_bookTerm ACC_POOL s.markets (c4b_unpaidAt s.books)) s'.books) ∧
      c1m_owedBetFee s m - c1m_owedBetFee s' m =
        -(sumBy (c4b_betTerm ACC_BETFEE s.markets (c4b_openAt s.bets)) s'.bets
          + sumBy (c4b_bookTerm ACC_BETFEE s.markets (c4b_unpaidAt s.books)) s'.books) ∧
      c1m_owedHouseFee s m - c1m_owedHouseFee s' m =
        -(sumBy (c4b_betTerm ACC_HOUSEFEE s.markets (c4b_openAt s.bets)) s'.bets
          + sumBy (c4b_bookTerm ACC_HOUSEFEE s.markets (c4b_unpaidAt s.books)) s'.books) := by
  intro s s' hnh m honly
  obtain ⟨l1, l2, l3⟩ := c01m_outflow_ledgers_single p bal h t ops h0 hwf m honly
  have b := c04_block_balance p bal h t ops h0 hwf hnh
  have b1 := b ACC_POOL
  have b2 := b ACC_BETFEE
  have b3 := b ACC_HOUSEFEE
  refine ⟨?_, ?_, ?_⟩
  · exact c1o_neg_of_diff l1 b1
  · exact c1o_neg_of_diff l2 b2
  · exact c1o_neg_of_diff l3 b3

/-- C01.n with the closed forms of `c04_block_balance_closed`: the shares `c4b_betShare` / `c4b_partShare` of the
    custody account (for the pool: −`c4b_betPaid x` per bet settled by this block — Σ (stake + promised profit) of the
    backing parts if WON, the stake if REFUNDED, 0 if LOST — and −`c4b_partPaid` per participation paid by this
    block). -/
theorem c01m_outflow_single_closed (p : Params) (bal : List (Nat × Int)) (h t : Nat) (ops : List Op)
    (h0 : getBal bal ACC_POOL = 0 ∧ getBal bal ACC_BETFEE = 0 ∧ getBal bal ACC_HOUSEFEE = 0)
    (hwf : ∀ o ∈ ops, o.userSigned') :
    let s := run (initState p bal h t) ops
    let s' := (step s .endBlock).1
    let paid : Nat → Int := fun a =>
      -(sumBy (fun x => match getMarket s x.market with
            | some mk => c4b_betShare a mk.creator x
            | none => 0) (s'.bets.filter (c4b_settledNow s))
        + sumBy (fun b => match getMarket s b.uid with
            | some mk => sumBy (c4b_partShare a s'.bets b.uid mk) (b.parts.filter (c4b_paidNow s b.uid))
            | none => 0) s'.books)
    (step s .endBlock).2 ≠ .halt → ∀ m, c1o_onlyQueued s m →
      c1m_owed s m - c1m_owed s' m = paid ACC_POOL ∧
      c1m_owedBetFee s m - c1m_owedBetFee s' m = paid ACC_BETFEE ∧
      c1m_owedHouseFee s m - c1m_owedHouseFee s' m = paid ACC_HOUSEFEE := by
  intro s s' paid hnh m honly
  obtain ⟨l1, l2, l3⟩ := c01m_outflow_ledgers_single p bal h t ops h0 hwf m honly
  have b := c04_block_balance_closed p bal h t ops h0 hwf hnh
  have b1 := b ACC_POOL
  have b2 := b ACC_BETFEE
  have b3 := b ACC_HOUSEFEE
  refine ⟨?_, ?_, ?_⟩
  · exact c1o_neg_of_diff l1 b1
  · exact c1o_neg_of_diff l2 b2
  · exact c1o_neg_of_diff l3 b3

/-- C01.o  SEVERAL MARKETS QUEUED: THE SUM. Let `Q` be a duplicate-free list of markets containing every market that
    waits in a settlement queue of the reachable state `s` (e.g. the members of `s.mqueue ++ s.obqueue`). Then the
    end-block (settling or halting) lowers the pool by exactly the sum over `Q` of the decreases of the ledgers
    `c1m_owed · m`, likewise the two fee collectors; when it does not halt, this sum is exactly what the account pays in
    the block (the terms of `c04_block_balance`). The equation is for the SUM over the queued markets, not market by
    market. -/
theorem c01m_outflow_queued (p : Params) (bal : List (Nat × Int)) (h t : Nat) (ops : List Op)
    (h0 : getBal bal ACC_POOL = 0 ∧ getBal bal ACC_BETFEE = 0 ∧ getBal bal ACC_HOUSEFEE = 0)
    (hwf : ∀ o ∈ ops, o.userSigned') :
    let s := run (initState p bal h t) ops
    let s' := (step s .endBlock).1
    ∀ Q : List Nat, Q.Nodup → (∀ m', m' ∉ Q → m' ∉ s.mqueue ∧ m' ∉ s.obqueue) →
      (getBal s.bal ACC_POOL - getBal s'.bal ACC_POOL = sumBy (fun m => c1m_owed s m - c1m_owed s' m) Q ∧
       getBal s.bal ACC_BETFEE - getBal s'.bal ACC_BETFEE =
         sumBy (fun m => c1m_owedBetFee s m - c1m_owedBetFee s' m) Q ∧
       getBal s.bal ACC_HOUSEFEE - getBal s'.bal ACC_HOUSEFEE =
         sumBy (fun m => c1m_owedHouseFee s m - c1m_owedHouseFee s' m) Q) ∧
      ((step s .endBlock).2 ≠ .halt →
        sumBy (fun m => c1m_owed s m - c1m_owed s' m) Q =
          -(sumBy (c4b_betTerm ACC_POOL s.markets (c4b_openAt s.bets)) s'.bets
            + sumBy (c4b_bookTerm ACC_POOL s.markets (c4b_unpaidAt s.books)) s'.books) ∧
        sumBy (fun m => c1m_owedBetFee s m - c1m_owedBetFee s' m) Q =
          -(sumBy (c4b_betTerm ACC_BETFEE s.markets (c4b_openAt s.bets)) s'.bets
            + sumBy (c4b_bookTerm ACC_BETFEE s.markets (c4b_unpaidAt s.books)) s'.books) ∧
        sumBy (fun m => c1m_owedHouseFee s m - c1m_owedHouseFee s' m) Q =
          -(sumBy (c4b_betTerm ACC_HOUSEFEE s.markets (c4b_openAt s.bets)) s'.bets
            + sumBy (c4b_bookTerm ACC_HOUSEFEE s.markets (c4b_unpaidAt s.books)) s'.books)) := by
  intro s s' Q hQ honly
  have hrun : run (initState p bal h t) (ops ++ [.endBlock]) = s' := c1o_run_snoc _ ops .endBlock
  have c1 : getBal s.bal ACC_POOL = sumBy (c1m_owed s) (c1m_markets s) ∧
      getBal s.bal ACC_BETFEE = sumBy (c1m_owedBetFee s) (c1m_markets s) ∧
      getBal s.bal ACC_HOUSEFEE = sumBy (c1m_owedHouseFee s) (c1m_markets s) :=
    c01m_custody_by_market p bal h t ops h0 hwf
  have c2 : getBal s'.bal ACC_POOL = sumBy (c1m_owed s') (c1m_markets s') ∧
      getBal s'.bal ACC_BETFEE = sumBy (c1m_owedBetFee s') (c1m_markets s') ∧
      getBal s'.bal ACC_HOUSEFEE = sumBy (c1m_owedHouseFee s') (c1m_markets s') := by
    have := c01m_custody_by_market p bal h t (ops ++ [.endBlock]) h0 (c1o_wf_snoc hwf)
    simp only [hrun] at this
    exact this
  have n1 : (c1m_markets s).Nodup ∧
      ∀ x, x ∉ c1m_markets s → c1m_owed s x = 0 ∧ c1m_owedBetFee s x = 0 ∧ c1m_owedHouseFee s x = 0 :=
    c01m_no_book_nothing_owed p bal h t ops
  have n2 : (c1m_markets s').Nodup ∧
      ∀ x, x ∉ c1m_markets s' → c1m_owed s' x = 0 ∧ c1m_owedBetFee s' x = 0 ∧ c1m_owedHouseFee s' x = 0 := by
    have := c01m_no_book_nothing_owed p bal h t (ops ++ [.endBlock])
    simp only [hrun] at this
    exact this
  have fr : ∀ x, x ∉ Q → c1m_owed s' x = c1m_owed s x ∧ c1m_owedBetFee s' x = c1m_owedBetFee s x ∧
      c1m_owedHouseFee s' x = c1m_owedHouseFee s x :=
    fun x hx => c01m_endblock_frame_reachable p bal h t ops x (honly x hx).1 (honly x hx).2
  have d1 := c1o_regroup_diff_list (c1m_markets s) (c1m_markets s') Q (c1m_owed s) (c1m_owed s') n1.1 n2.1 hQ
    (fun x hx => (n1.2 x hx).1) (fun x hx => (n2.2 x hx).1) (fun x hx => (fr x hx).1.symm)
  have d2 := c1o_regroup_diff_list (c1m_markets s) (c1m_markets s') Q (c1m_owedBetFee s) (c1m_owedBetFee s') n1.1 n2.1
    hQ (fun x hx => (n1.2 x hx).2.1) (fun x hx => (n2.2 x hx).2.1) (fun x hx => (fr x hx).2.1.symm)
  have d3 := c1o_regroup_diff_list (c1m_markets s) (c1m_markets s') Q (c1m_owedHouseFee s) (c1m_owedHouseFee s') n1.1
    n2.1 hQ (fun x hx => (n1.2 x hx).2.2) (fun x hx => (n2.2 x hx).2.2) (fun x hx => (fr x hx).2.2.symm)
  rw [← c1.1, ← c2.1] at d1
  rw [← c1.2.1, ← c2.2.1] at d2
  rw [← c1.2.2, ← c2.2.2] at d3
  refine ⟨⟨d1, d2, d3⟩, ?_⟩
  intro hnh
  have b := c04_block_balance p bal h t ops h0 hwf hnh
  exact ⟨c1o_neg_of_diff d1 (b ACC_POOL), c1o_neg_of_diff d2 (b ACC_BETFEE), c1o_neg_of_diff d3 (b ACC_HOUSEFEE)⟩

/-- non-vacuity, on the two-market history of C01MarketFrame.lean: market 1 is declared and waits for settlement,
    market 2 is in neither queue, so only market 1 is queued; the end-block does not halt; the ledger of market 1 falls
    by 46999900 / 100 / 5000000, which is the fall of the three custody accounts and what they pay in the block (the
    pool 3999800 to the winning bettor and 43000100 to the depositor) -/
example :
    let tk : Tk := { ok := true, kycIgnore := true, kycApproved := false, kycId := 0 }
    let pl : WagerPayload :=
      { market := 1, odds := 11, oddsVal := some ⟨2 * PREC⟩, mult := ⟨PREC⟩, allOdds := [(11, ⟨PREC⟩), (12, ⟨PREC⟩)] }
    let ops : List Op := [.marketAdd 9 tk 1 50 500 [11, 12] MS_ACTIVE, .marketAdd 9 tk 2 50 500 [21, 22] MS_ACTIVE,
      .deposit 7 tk 1 50000000 0, .deposit 7 tk 2 30000000 0, .wager 8 tk 77 2000000 pl,
      .marketResolve tk 1 60 MS_DECLARED [11]]
    let s1 := run (initState {} [(7, 100000000), (8, 100000000), (9, 0)] 1 100) ops
    let s2 := (step s1 .endBlock).1
    c1o_onlyQueued s1 1 ∧ (step s1 .endBlock).2 ≠ .halt ∧
    (c1m_owed s1 1 - c1m_owed s2 1, c1m_owedBetFee s1 1 - c1m_owedBetFee s2 1,
      c1m_owedHouseFee s1 1 - c1m_owedHouseFee s2 1) = (46999900, 100, 5000000) ∧
    (getBal s1.bal ACC_POOL - getBal s2.bal ACC_POOL, getBal s1.bal ACC_BETFEE - getBal s2.bal ACC_BETFEE,
      getBal s1.bal ACC_HOUSEFEE - getBal s2.bal ACC_HOUSEFEE) = (46999900, 100, 5000000) ∧
    (sumBy (c4b_betTerm ACC_POOL s1.markets (c4b_openAt s1.bets)) s2.bets,
      sumBy (c4b_bookTerm ACC_POOL s1.markets (c4b_unpaidAt s1.books)) s2.books) = (-3999800, -43000100) ∧
    (sumBy (c4b_betTerm ACC_BETFEE s1.markets (c4b_openAt s1.bets)) s2.bets,
      sumBy (c4b_bookTerm ACC_HOUSEFEE s1.markets (c4b_unpaidAt s1.books)) s2.books) = (-100, -5000000) := by
  refine ⟨?_, by decide +kernel, by decide +kernel, by decide +kernel, by decide +kernel, by decide +kernel⟩
  intro m' hm'
  have hq : (run (initState {} [(7, 100000000), (8, 100000000), (9, 0)] 1 100)
      [.marketAdd 9 { ok := true, kycIgnore := true, kycApproved := false, kycId := 0 } 1 50 500 [11, 12] MS_ACTIVE,
       .marketAdd 9 { ok := true, kycIgnore := true, kycApproved := false, kycId := 0 } 2 50 500 [21, 22] MS_ACTIVE,
       .deposit 7 { ok := true, kycIgnore := true, kycApproved := false, kycId := 0 } 1 50000000 0,
       .deposit 7 { ok := true, kycIgnore := true, kycApproved := false, kycId := 0 } 2 30000000 0,
       .wager 8 { ok := true, kycIgnore := true, kycApproved := false, kycId := 0 } 77 2000000
         { market := 1, odds := 11, oddsVal := some ⟨2 * PREC⟩, mult := ⟨PREC⟩, allOdds := [(11, ⟨PREC⟩), (12, ⟨PREC⟩)] },
       .marketResolve { ok := true, kycIgnore := true, kycApproved := false, kycId := 0 } 1 60 MS_DECLARED [11]]).mqueue = [1] ∧
      (run (initState {} [(7, 100000000), (8, 100000000), (9, 0)] 1 100)
      [.marketAdd 9 { ok := true, kycIgnore := true, kycApproved := false, kycId := 0 } 1 50 500 [11, 12] MS_ACTIVE,
       .marketAdd 9 { ok := true, kycIgnore := true, kycApproved := false, kycId := 0 } 2 50 500 [21, 22] MS_ACTIVE,
       .deposit 7 { ok := true, kycIgnore := true, kycApproved := false, kycId := 0 } 1 50000000 0,
       .deposit 7 { ok := true, kycIgnore := true, kycApproved := false, kycId := 0 } 2 30000000 0,
       .wager 8 { ok := true, kycIgnore := true, kycApproved := false, kycId := 0 } 77 2000000
         { market := 1, odds := 11, oddsVal := some ⟨2 * PREC⟩, mult := ⟨PREC⟩, allOdds := [(11, ⟨PREC⟩), (12, ⟨PREC⟩)] },
       .marketResolve { ok := true, kycIgnore := true, kycApproved := false, kycId := 0 } 1 60 MS_DECLARED [11]]).obqueue = [] := by
    decide +kernel
  refine ⟨?_, ?_⟩
  · intro hin
    rw [hq.1] at hin
    exact hm' (by simpa using hin)
  · intro hin
    rw [hq.2] at hin
    exact absurd hin (List.not_mem_nil)

end Sge.Core
