/-
  C03  Each bet settles exactly once and pays exactly what the ticket promised.

  Proved here (model `Sge.Core`): the placement arithmetic for every split of a bet over the queue, the
  recorded stake, the charge, the settlement transfers, and that settlement needs an unsettled bet.
  NOT true of the code as it is (known finding KF-C03-negative-part / KF-C03-taken-exceeds-requested):
    full statement   ∀ accepted wager, ∀ part ∈ parts, 0 ≤ part.bet   and   Σ parts.bet ≤ requested stake
  see `c03_counterexample_negative_part`; the part that does hold is `c03_parts_partial`.
-/
import SgeProofs.Lemmas.Wager
import SgeProofs.Lemmas.CoreFrame
namespace Sge.Core
open Sge

/-- C03.a  Placement arithmetic, for every queue state and every way the bet is split: the stake taken is the
    sum of the backing parts, what is left of the requested stake is `A − taken`, every part promises a
    non-negative profit, and the profits promised add up to exactly the integer part of the payout profit
    `P = (A − fee)·(odds − 1)`. -/
theorem c03_wager_accounting (b b' : Book) (o betId : Nat) (ov mult : Dec) (mo : List Nat) (ms : List (Nat × Dec))
    (thr A : Int) (P : Dec) (fulfs : List Fulf) (taken : Int) (hP : 0 ≤ P.raw)
    (h : processWager b o betId ov mult mo ms thr A P = some (b', fulfs, taken)) :
    taken = sumBet fulfs ∧ sumProfit fulfs = P.truncInt ∧ (∀ x ∈ fulfs, 0 ≤ x.profit) := by
  unfold processWager at h
  simp only [bind, Option.bind_eq_some_iff] at h
  obtain ⟨q, _, f0, hf0, h⟩ := h
  have hacc0 : Acc A P.raw f0 := by
    unfold initFInfo at hf0
    simp only [bind, Option.bind_eq_some_iff, pure, Option.some.injEq] at hf0
    obtain ⟨_, _, _, _, _, _, _, _, rfl⟩ := hf0
    exact ⟨rfl, by simp, by simp [sumProfit], hP, by intro x hx; cases hx⟩
  have hacc := loop_acc A P.raw o ov mult mo ms thr q f0 hacc0
  unfold finishWager at h
  split at h
  · cases h
  · split at h
    · cases h
    · rename_i hlt
      simp only [Option.some.injEq, Prod.mk.injEq] at h
      obtain ⟨_, h2, h3⟩ := h
      obtain ⟨a1, a2, a3, a4, a5⟩ := hacc
      refine ⟨by rw [← h3, ← h2]; exact a1, ?_, by rw [← h2]; exact a5⟩
      rw [← h2]
      unfold Dec.truncInt
      rw [chopTrunc_nonneg hP]
      unfold PREC at *
      omega

theorem markSettled_lookup (s : State) (b : Bet) :
    lookup Bet.key [b.creator, b.id] (markSettled s b).bets = some { b with settleHeight := s.height } :=
  lookup_upsert_self Bet.key { b with settleHeight := s.height } s.bets

/-- C03.b  The bet record and the charge: an accepted wager stores a bet whose stake equals the sum of its
    backing parts; the bettor is charged (two transfers out of the bettor's account) the fee and exactly that
    stake; the promised profits sum to the integer part of (amount − fee)·(odds − 1). -/
theorem c03_bet_record_and_charge {s s' : State} {c : Nat} {tk : Tk} {u : Nat} {a : Int} {pl : WagerPayload}
    (h : wagerO s c tk u a pl = some s') (hfee : s.params.betFee ≤ a) :
    ∃ (bet : Bet) (ov : Dec) (s1 : State),
      lookup Bet.key [c, s.betCount + 1] s'.bets = some bet ∧ bet.uid = u ∧ bet.fee = s.params.betFee ∧
      bet.amount = sumBet bet.fulfs ∧
      pl.oddsVal = some ov ∧
      sumProfit bet.fulfs = ((ov.mulInt (a - s.params.betFee)).sub (Dec.ofInt (a - s.params.betFee))).truncInt ∧
      (∀ x ∈ bet.fulfs, 0 ≤ x.profit) ∧
      bankSend s c ACC_BETFEE s.params.betFee = some s1 ∧
      bankSend s1 c ACC_POOL (sumBet bet.fulfs) = some { s1 with bal := s'.bal } := by
  unfold wagerO at h
  simp only [bind, Option.bind_eq_some_iff, pure, Option.some.injEq] at h
  obtain ⟨_, _, _, _, _, _, _, _, _, _, _, _, _, _, m, _, _, _, _, _, _, _, _, _, _, _, _, _, ov, hov, _, h14, b, _, r, hr, s1, hs1, s2, hs2, rfl⟩ := h
  have h14 := chk_some h14
  have hP : 0 ≤ ((ov.mulInt (a - s.params.betFee)).sub (Dec.ofInt (a - s.params.betFee))).raw := by
    simp only [Dec.sub, Dec.mulInt, Dec.ofInt]
    have h1 : PREC < ov.raw := by simpa using h14
    have h2 : 0 ≤ a - s.params.betFee := by omega
    have : (a - s.params.betFee) * PREC ≤ ov.raw * (a - s.params.betFee) := by
      rw [Int.mul_comm ov.raw]
      exact Int.mul_le_mul_of_nonneg_left (by omega) h2
    omega
  obtain ⟨b', fulfs, taken⟩ := r
  have hacc := c03_wager_accounting _ _ _ _ _ _ _ _ _ _ _ _ _ hP hr
  obtain ⟨bal1, ht1, rfl⟩ := bankSend_shape hs1
  obtain ⟨bal2, ht2, rfl⟩ := bankSend_shape hs2
  refine ⟨⟨u, s.betCount + 1, c, pl.market, pl.odds, ov, (fulfs.map (·.bet)).sum, s.params.betFee, BS_PLACED, BR_PENDING,
      pl.mult, s.time, 0, fulfs⟩, ov, _, ?_, rfl, rfl, rfl, hov, hacc.2.1, hacc.2.2, hs1, ?_⟩
  · show lookup Bet.key (Bet.key ⟨u, s.betCount + 1, c, pl.market, pl.odds, ov, (fulfs.map (·.bet)).sum, s.params.betFee, BS_PLACED, BR_PENDING,
      pl.mult, s.time, 0, fulfs⟩) (upsert Bet.key _ s.bets) = _
    exact lookup_upsert_self Bet.key _ _
  · simp only at ht2 ⊢
    rw [← hacc.1]
    unfold bankSend
    simp only
    rw [ht2]
    rfl

/-- C03.c  Settlement needs an unsettled bet and leaves it settled: `Settle` fails on a bet that is already
    settled (so nothing is paid twice), and after it succeeds the bet is settled with the result dictated by
    the market's resolution. -/
theorem c03_settle_once {s s' : State} {c u : Nat} (h : settleBet s c u = some s') :
    ∃ bet m, lookup Bet.key [c, bet.id] s.bets = some bet ∧ bet.status ≠ BS_SETTLED ∧ getMarket s bet.market = some m ∧
      ∃ bet', lookup Bet.key [bet.creator, bet.id] s'.bets = some bet' ∧ bet'.status = BS_SETTLED ∧ bet'.settleHeight = s.height ∧
        bet'.result = (if m.status == MS_ABORTED || m.status == MS_CANCELED then BR_REFUNDED
                       else if m.winners.contains bet.odds then BR_WON else BR_LOST) := by
  unfold settleBet at h
  simp only [bind, Option.bind_eq_some_iff] at h
  obtain ⟨bet0, _, bet, hb, _, hst, m, hm, h⟩ := h
  have hst := chk_some hst
  have hns : bet.status ≠ BS_SETTLED := by
    intro e; simp [e] at hst
  have hid : bet0.id = bet.id := by
    unfold lookup at hb
    have := List.find?_some hb
    simp [Bet.key] at this
    exact this.2.symm
  rw [hid] at hb
  refine ⟨bet, m, hb, hns, hm, ?_⟩
  split at h
  · rename_i hc
    unfold settleRefund at h
    simp only [bind, Option.bind_eq_some_iff, pure, Option.some.injEq] at h
    obtain ⟨s1, h1, s2, h2, rfl⟩ := h
    obtain ⟨_, _, rfl⟩ := bankSend_shape h1
    obtain ⟨_, _, rfl⟩ := bankSend_shape h2
    refine ⟨{ { bet with status := BS_SETTLED, result := BR_REFUNDED } with settleHeight := s.height }, ?_, rfl, rfl, by simp [hc]⟩
    exact markSettled_lookup _ { bet with status := BS_SETTLED, result := BR_REFUNDED }
  · rename_i hc
    simp only [bind, Option.bind_eq_some_iff] at h
    obtain ⟨_, _, h⟩ := h
    unfold settleDeclared at h
    simp only [bind, Option.bind_eq_some_iff, pure, Option.some.injEq] at h
    obtain ⟨bk, _, r, hr, s2, h2, rfl⟩ := h
    obtain ⟨_, _, rfl⟩ := bankSend_shape h2
    refine ⟨{ { bet with status := BS_SETTLED, result := if m.winners.contains bet.odds then BR_WON else BR_LOST } with settleHeight := s.height }, ?_, rfl, rfl, by simp [hc]⟩
    exact markSettled_lookup _ { bet with status := BS_SETTLED, result := if m.winners.contains bet.odds then BR_WON else BR_LOST }

/-- C03.d  The refund of a cancelled or aborted market pays the bettor exactly the recorded stake (= the stake
    taken, C03.b) from the pool and exactly the fee from the fee collector. -/
theorem c03_refund_amounts {s s' : State} {bet : Bet} (h : settleRefund s bet = some s') :
    ∃ s1, bankSend s ACC_POOL bet.creator bet.amount = some s1 ∧
      bankSend s1 ACC_BETFEE bet.creator bet.fee = some { s1 with bal := s'.bal } := by
  unfold settleRefund at h
  simp only [bind, Option.bind_eq_some_iff, pure, Option.some.injEq] at h
  obtain ⟨s1, h1, s2, h2, rfl⟩ := h
  refine ⟨s1, h1, ?_⟩
  obtain ⟨bal2, ht2, rfl⟩ := bankSend_shape h2
  unfold bankSend; rw [ht2]; rfl

/-- C03.e  A winner is paid, part by part, stake + promised profit out of the pool; a loser is paid nothing
    (the balances are untouched by `BettorLoses`). -/
theorem c03_winner_paid (bettor : Nat) : ∀ (fs : List Fulf) (bal : List (Nat × Int)) (b : Book) (r : List (Nat × Int) × Book),
    bettorWins bal bettor b fs = some r → bettor ≠ ACC_POOL →
    getBal r.1 bettor = getBal bal bettor + sumBet fs + sumProfit fs ∧
    getBal r.1 ACC_POOL = getBal bal ACC_POOL - sumBet fs - sumProfit fs := by
  intro fs
  induction fs with
  | nil => intro bal b r h _; simp [bettorWins] at h; rw [← h]; simp [sumBet, sumProfit]
  | cons f rest ih =>
    intro bal b r h hne
    unfold bettorWins at h
    simp only [bind, Option.bind_eq_some_iff] at h
    obtain ⟨p, _, bal', ht, hrest⟩ := h
    have := ih _ _ _ hrest hne
    have hb : getBal bal' bettor = getBal bal bettor + (f.profit + f.bet) ∧ getBal bal' ACC_POOL = getBal bal ACC_POOL - (f.profit + f.bet) := by
      unfold transfer at ht
      split at ht
      · cases ht
      · split at ht
        · cases ht
        · split at ht
          · cases ht; omega
          · simp only [Option.some.injEq] at ht
            subst ht
            constructor
            · rw [getBal_setBal_self, getBal_setBal_ne _ _ _ _ (Ne.symm hne)]
            · rw [getBal_setBal_ne _ _ _ _ hne, getBal_setBal_self]
    simp only [sumBet, sumProfit, List.map_cons, List.sum_cons] at *
    omega

theorem c03_loser_paid_nothing {s : State} {b : Book} {fs : List Fulf} {r : List (Nat × Int) × Book}
    (h : settleOutcome s.bal false 0 b fs = some r) : r.1 = s.bal := by
  unfold settleOutcome at h
  simp only [Bool.false_eq_true, if_false, Option.map_eq_some_iff] at h
  obtain ⟨_, _, rfl⟩ := h
  rfl

/-- KNOWN FINDING (KF-C03-negative-part), proved on the model of the code as it is: eight participations with
    available liquidity 5,3,4,1,5,2,2,1000, threshold 0, odds 10, stake 21 — the fourth backing part has stake −1. -/
def kfBook : Book :=
  [5, 3, 4, 1, 5, 2, 2, 1000].foldl (fun (b : Book) (l : Int) => (b.addParticipation 1 l 0).1) (newBook 1 [11, 12])

theorem c03_counterexample_negative_part :
    ((processWager kfBook 11 1 ⟨10 * PREC⟩ ⟨PREC⟩ [11, 12] [(11, ⟨PREC⟩), (12, ⟨PREC⟩)] 0 21 ⟨189 * PREC⟩).map
      (fun r => r.2.1.map (·.bet))) = some [1, 0, 0, -1, 0, 0, 1, 20] := by
  decide +kernel

/-- C03.f (partial; the full statement "no backing part is negative" fails, see above)  The FIRST part of any
    bet that is cut by liquidity is non-negative, and so is any part computed with a carried residual of at
    least −½ token: `CalculateBetAmountInt` rounds `avail/(odds−1) + carry`, which is above −½.
    Excluded: bets split over three or more liquidity-limited participations, where the doubled carry can drop below −½. -/
theorem c03_parts_partial (ov : Dec) (avail : Int) (tr : Dec) (hov : PREC < ov.raw) (hav : 0 < avail)
    (htr : -PREC < 2 * tr.raw) : 0 ≤ (calcBetAmountInt ov avail tr).1 := by
  unfold calcBetAmountInt
  simp only [Dec.roundInt, Dec.add, Dec.quo, Dec.ofInt, Dec.sub, Dec.one]
  apply chopRound_nonneg_of_gt_neg_half
  have hq : 0 ≤ chopRound (tquo (avail * PREC * PREC * PREC) (ov.raw - PREC)) := by
    apply chopRound_nonneg
    unfold tquo
    apply Int.tdiv_nonneg
    · apply Int.mul_nonneg
      · apply Int.mul_nonneg
        · apply Int.mul_nonneg
          · omega
          · unfold PREC; omega
        · unfold PREC; omega
      · unfold PREC; omega
    · omega
  omega

end Sge.Core
