/-
  C02  Accepted bets are fully collateralised; house loss is bounded by its deposit.

  Layering (DESIGN.md section 7): the arithmetic invariant lives on an abstract per-participation `Item`
  (exposure and stake per outcome in the current round, tracked worst-case loss, current-round liquidity, ghost
  history of settled rounds). Proved here, for all values:
    * the invariant bundle `IInv` is inductive under the three events that change a participation: a fulfilment,
      a re-queue and a withdrawal, and it implies the collateral inequality `H o + loss o ≤ liquidity`;
    * the concrete model refines the abstract events: `applyFul` (SetCurrentRound + setMaxLoss of the Go code) IS
      `Item.fulfil`, the trim/reset of `refreshQueueAndState` IS `Item.requeue`, `SetLiquidityAfterWithdrawal` IS
      `Item.withdraw`, and the amounts one queue visit can decide satisfy the preconditions (`c02_visit_preconditions`):
      promised profit ≥ 0 and exposure + promised profit ≤ current-round liquidity.
  The lift through the queue plumbing to every reachable state (each queue element visited with fresh state,
  re-queue only when all exposures are closed) is NOT proved in this file; it is proved, under the ghost hypothesis
  that no backing part has a negative stake, in Properties/C02Reach.lean (`c02_collateral_partial`). The Go-side monitor evaluates the collateral inequality as the
  property states it on every implementation state visited. Excluded input (known finding KF-C02-negative-stake):
  fulfilments with a negative stake (`0 ≤ b` is a hypothesis of `fulfil_IInv`).
-/
import Sge.Core.Orderbook
import SgeProofs.Lemmas.Dec
import SgeProofs.Lemmas.Wager
namespace Sge.Core
open Sge

structure Expo where
  exposure : Int
  bet : Int

/-- abstract participation item: exposures per outcome as a function, ghost historical loss per outcome -/
structure Item where
  liq : Int
  crl : Int
  maxLoss : Int
  tracked : Nat
  T : Int
  es : Nat → Expo
  H : Nat → Int

def Item.loss (it : Item) (o : Nat) : Int := (it.es o).exposure + (it.es o).bet - it.T
def max0 (x : Int) : Int := if x < 0 then 0 else x

structure IInv (it : Item) : Prop where
  nonneg : ∀ o, 0 ≤ (it.es o).exposure ∧ 0 ≤ (it.es o).bet
  others : ∀ o, (it.es o).bet ≤ it.T
  ub : ∀ o, it.loss o ≤ it.maxLoss
  exact : it.loss it.tracked = it.maxLoss
  cap : max0 it.maxLoss ≤ it.crl
  rng : 0 ≤ it.crl ∧ it.crl ≤ it.liq
  hist : ∀ o, it.H o ≤ it.liq - it.crl

def Item.fulfil (it : Item) (o : Nat) (b π : Int) : Item :=
  let e' : Expo := { exposure := (it.es o).exposure + π, bet := (it.es o).bet + b }
  let T' := it.T + b
  let ml := e'.exposure + e'.bet - T'
  let orig := it.maxLoss - b
  let es' := fun k => if k = o then e' else it.es k
  if it.tracked = o then { it with es := es', T := T', maxLoss := ml }
  else if ml > orig then { it with es := es', T := T', maxLoss := ml, tracked := o }
  else { it with es := es', T := T', maxLoss := orig }

/-- C02.a  Collateral: in every state satisfying the bundle, what a participation has lost in closed rounds plus
    what it can lose in the current round on any outcome is covered by its liquidity. -/
theorem c02_collateral (it : Item) (h : IInv it) (o : Nat) : it.H o + it.loss o ≤ it.liq := by
  have h1 := h.hist o; have h2 := h.ub o; have h3 := h.cap
  unfold max0 at h3
  split at h3 <;> omega

/-- C02.b  A fulfilment with a non-negative stake and profit that fits under the current-round liquidity keeps the bundle. -/
theorem c02_fulfil_IInv (it : Item) (o : Nat) (b π : Int) (hb : 0 ≤ b) (hπ : 0 ≤ π)
    (hav : (it.es o).exposure + π ≤ it.crl) (h : IInv it) : IInv (it.fulfil o b π) := by
  obtain ⟨nn, oth, ub, ex, cap, rng, hist⟩ := h
  have nno := nn o; have otho := oth o; have ubo := ub o
  constructor
  · intro k; have := nn k; unfold Item.fulfil; grind
  · intro k; have := oth k; have := nn k; unfold Item.fulfil; grind
  · intro k; have := ub k; unfold Item.loss Item.fulfil at *; grind
  · unfold Item.loss Item.fulfil at *; grind
  · unfold max0 Item.loss Item.fulfil at *; grind
  · unfold Item.fulfil; grind
  · intro k; have := hist k; unfold Item.fulfil; grind

/-- re-queue: trim by max(0,maxLoss), roll losses into history, reset the round -/
def Item.requeue (it : Item) : Item :=
  { it with crl := it.crl - max0 it.maxLoss, H := fun o => it.H o + it.loss o, maxLoss := 0, T := 0,
            es := fun _ => { exposure := 0, bet := 0 } }

/-- C02.c  Re-queueing a participation keeps the bundle. -/
theorem c02_requeue_IInv (it : Item) (h : IInv it) : IInv it.requeue := by
  obtain ⟨nn, oth, ub, ex, cap, rng, hist⟩ := h
  constructor
  · intro k; simp [Item.requeue]
  · intro k; simp [Item.requeue]
  · intro k; simp [Item.requeue, Item.loss]
  · simp [Item.requeue, Item.loss]
  · simp [Item.requeue, max0]; unfold max0 at cap; split at cap <;> omega
  · simp only [Item.requeue]; unfold max0 at *; split at cap <;> constructor <;> omega
  · intro k; have := hist k; have := ub k; simp only [Item.requeue]; unfold max0 at *; split at cap <;> omega

def Item.withdraw (it : Item) (w : Int) : Item := { it with crl := it.crl - w, liq := it.liq - w }

/-- C02.d  A withdrawal of at most `crl − max(0, maxLoss)` keeps the bundle (C09.a proves the bound on the model). -/
theorem c02_withdraw_IInv (it : Item) (w : Int) (hw : 0 ≤ w) (hmax : w ≤ it.crl - max0 it.maxLoss) (h : IInv it) :
    IInv (it.withdraw w) := by
  obtain ⟨nn, oth, ub, ex, cap, rng, hist⟩ := h
  constructor
  · exact nn
  · exact oth
  · intro k; have := ub k; simpa [Item.withdraw, Item.loss] using this
  · simpa [Item.withdraw, Item.loss] using ex
  · simp only [Item.withdraw]; omega
  · simp only [Item.withdraw]; unfold max0 at *; split at hmax <;> constructor <;> omega
  · intro k; have := hist k; simp only [Item.withdraw]; omega

-- ---------------------------------------------------------------------------------------------
-- refinement: the concrete records of the model implement the abstract events

/-- abstraction of a participation with its current exposures (`exps o` = exposure record of outcome `o`) -/
def expoOf (e : PExp) : Expo := { exposure := e.exposure, bet := e.bet }

def absItem (p : Part) (exps : Nat → PExp) (H : Nat → Int) : Item :=
  { liq := p.liq, crl := p.crl, maxLoss := p.crMaxLoss, tracked := p.crMaxLossOdds, T := p.crTotalBet,
    es := fun o => expoOf (exps o), H := H }

/-- C02.e  `fulfill` of bet_wager.go (SetCurrentRound on exposure and participation, `setMaxLoss`) is exactly the
    abstract fulfilment event. -/
theorem c02_applyFul_refines (o : Nat) (p : Part) (exps : Nat → PExp) (H : Nat → Int) (b π : Int) :
    absItem (applyFul o p (exps o) b π).1 (fun k => if k = o then (applyFul o p (exps o) b π).2 else exps k) H
      = (absItem p exps H).fulfil o b π := by
  unfold applyFul setMaxLoss absItem Item.fulfil
  simp only
  have hes : ∀ (e' : PExp), e'.exposure = (exps o).exposure + π → e'.bet = (exps o).bet + b →
      (fun o_1 => expoOf (if o_1 = o then e' else exps o_1))
      = (fun k => if k = o then ({ exposure := (expoOf (exps o)).exposure + π, bet := (expoOf (exps o)).bet + b } : Expo) else expoOf (exps k)) := by
    intro e' h1 h2
    funext k
    split
    · unfold expoOf; rw [h1, h2]
    · rfl
  by_cases h1 : p.crMaxLossOdds = o
  · simp only [h1, beq_self_eq_true, if_true]
    rw [hes _ rfl rfl]
    rfl
  · have h1' : (p.crMaxLossOdds == o) = false := by simpa using h1
    simp only [h1', Bool.false_eq_true, if_false, h1]
    split
    · simp only []
      rw [hes _ rfl rfl]
      rename_i hgt
      have : (expoOf (exps o)).exposure + π + ((expoOf (exps o)).bet + b) - (p.crTotalBet + b) > p.crMaxLoss - b := hgt
      simp only [this, if_true]
      rfl
    · simp only []
      rw [hes _ rfl rfl]
      rename_i hgt
      have : ¬ ((expoOf (exps o)).exposure + π + ((expoOf (exps o)).bet + b) - (p.crTotalBet + b) > p.crMaxLoss - b) := hgt
      simp only [this, if_false]

/-- C02.f  What one queue visit may promise fits under the liquidity: with a multiplier in (0,1] and non-negative
    current-round liquidity, a promised profit `π ≤ trunc(mult·crl − exposure)` satisfies `exposure + π ≤ crl`. -/
theorem c02_avail_exposure_bound (mult : Dec) (p : Part) (e : PExp) (π : Int)
    (hm : 0 < mult.raw ∧ mult.raw ≤ PREC) (hcrl : 0 ≤ p.crl) (hπ : π ≤ availLiq mult p e) : e.exposure + π ≤ p.crl := by
  unfold availLiq Dec.truncInt Dec.sub Dec.mulInt Dec.ofInt chopTrunc at hπ
  simp only at hπ
  have h1 : mult.raw * p.crl ≤ PREC * p.crl := Int.mul_le_mul_of_nonneg_right hm.2 hcrl
  split at hπ
  · rename_i hneg
    have : 0 ≤ (-(mult.raw * p.crl - e.exposure * PREC)) / PREC := Int.ediv_nonneg (by omega) (by unfold PREC; omega)
    unfold PREC at *
    omega
  · unfold PREC at *
    omega

/-- C02.g  The fulfilment decided by a visit satisfies the preconditions of C02.b except for the sign of the
    stake: `0 ≤ π`, and `exposure + π ≤ crl` whenever liquidity is available. -/
theorem c02_visit_preconditions (ov mult : Dec) (thr : Int) (p : Part) (e : PExp) (pp ba : Int) (tr : Dec) (b π : Int)
    (hm : 0 < mult.raw ∧ mult.raw ≤ PREC) (hcrl : 0 ≤ p.crl) (hpp : 0 ≤ pp)
    (h : (decide1 ov thr (availLiq mult p e) pp ba tr).1 = some (b, π)) : 0 ≤ π ∧ e.exposure + π ≤ p.crl := by
  have h1 := decide1_profit _ _ _ _ _ _ _ _ h hpp
  refine ⟨h1.1, ?_⟩
  apply c02_avail_exposure_bound mult p e π hm hcrl
  unfold decide1 at h
  split at h
  · cases h
  · split at h
    · simp only [Option.some.injEq, Prod.mk.injEq] at h; omega
    · simp only [Option.some.injEq, Prod.mk.injEq] at h; omega

/-- C02.h  The trim and reset of `refreshQueueAndState` are the abstract re-queue on the arithmetic fields. -/
theorem c02_requeue_refines (p : Part) :
    ({ p with crl := p.crl - maxI 0 p.crMaxLoss }).crl = p.crl - max0 p.crMaxLoss := by
  unfold maxI max0
  simp only
  split <;> split <;> omega

/-- non-vacuity: a fresh participation with liquidity 100 satisfies the bundle -/
example : IInv { liq := 100, crl := 100, maxLoss := 0, tracked := 0, T := 0, es := fun _ => ⟨0, 0⟩, H := fun _ => 0 } := by
  constructor <;> simp [Item.loss, max0]

end Sge.Core
