/-
  C15  State transitions are deterministic: replicas executing the same blocks agree.

  What can be said in the model: (e) the transition is a function of state and operations, and — the substantive
  part — every place where the Go code holds data in a `map` or receives an unordered collection is
  ORDER-INDEPENDENT in the model: the result is a function of the collection as a keyed set, so whatever order
  a replica's runtime enumerates or builds it in, the transition is the same.

    (a) wager: `payload.OddsMap()` (x/bet/types/ticket.go) turns the ticket's `all_odds` slice into
        `map[string]*BetOddsCompact` (`odds`, `fInfo.betOdds` in x/orderbook/keeper/bet_wager.go); it is only
        indexed (`len`, `betOdds[oddUID]`); `checkFullfillmentForOtherOdds` ranges over the SLICE
        `fInfo.oddUIDS` (the market's outcome list), never over the map.
    (b) wager: `fulfillmentMap` (by participation index) and `GetExposureByOrderBook`'s
        `map[uint64]map[string]*ParticipationExposure` (x/orderbook/keeper/exposure_participation.go) are only
        indexed; the order of processing is the fulfilment queue (a stored slice).
    (c) market add: `oddsSet` (x/market/types/ticket.go) is a set used for duplicate detection.
    (d) ovm proposal: `RemoveDuplicateStrs` (utils/str.go) uses a map as `seen` set while walking the slice.

  Code whose result DOES depend on the iteration order of a map: none in the custom modules. The translator's
  scan (`Sge.Gen.NonDet`, theorems in C15Facts and `map_ranges_only_in_app_wiring` below) finds `range` over a map
  only in four start-up functions of app/ that copy a map into a map or a set. The consumers of
  `GetExposureByOrderBook` (`initFulfillmentInfo`: `len(peMap)`, `peMap[bp.Index]`; afterwards
  `allExposures[oddUID]`) and of `betOdds` (`len`, index) never range over them.

  PARTIAL BY NATURE: the iteration order of Go's runtime maps, goroutine scheduling and the wall clock cannot be
  expressed in this model. They are covered by the static scan (C15Facts) and by the double execution of the
  harness suite `determinism` (same history: twice in one process, once in a fresh process, once with every
  `all_odds` list reversed — the executable counterpart of `wager_perm_nodup`).
-/
import SgeProofs.Lemmas.PermWager
import SgeProofs.Lemmas.PermExposure
import SgeProofs.Lemmas.PermSets
import Sge.Core.Run
import Sge.Subaccount
import Sge.Gen.NonDet

namespace Sge.Core
open Sge

-- ---------------------------------------------------------------------------------------------
-- (a) the ticket's per-outcome multiplier list

/-- C15.a  `wager_perm`. The wager handler depends on the ticket's multiplier list only through (i) the map it
    denotes — for every outcome id the LAST entry with that id, `lookupLast`, which is what
    `oddMap[odd.UID] = odd` leaves in the Go map — and (ii) the order-independent validity test of all entries
    (`Validate` ranges over the slice). Two lists that agree on both give the same result: same new state, or
    both rejected. Hypotheses: `h : ∀ o, lookupLast pl.allOdds o = lookupLast l₂ o` (= `SameMap`), and
    `hall : pl.allOdds.all (multOk ·.2) = l₂.all (multOk ·.2)`. -/
theorem wager_perm (s : State) (c : Nat) (tk : Tk) (u : Nat) (a : Int) (pl : WagerPayload) (l₂ : List (Nat × Dec))
    (h : ∀ o, lookupLast pl.allOdds o = lookupLast l₂ o)
    (hall : pl.allOdds.all (fun o => multOk o.2) = l₂.all (fun o => multOk o.2)) :
    wagerO s c tk u a { pl with allOdds := l₂ } = wagerO s c tk u a pl :=
  wagerO_sameMap s c tk u a pl l₂ h hall

/-- C15.a  corollary for what tickets look like (one entry per outcome): any permutation of a list without
    repeated outcome ids gives the same result. Hypotheses: `hp : pl.allOdds ~ l₂`,
    `hn : (pl.allOdds.map (·.1)).Nodup`. -/
theorem wager_perm_nodup (s : State) (c : Nat) (tk : Tk) (u : Nat) (a : Int) (pl : WagerPayload) (l₂ : List (Nat × Dec))
    (hp : pl.allOdds.Perm l₂) (hn : (pl.allOdds.map (·.1)).Nodup) :
    wagerO s c tk u a { pl with allOdds := l₂ } = wagerO s c tk u a pl := by
  apply wager_perm s c tk u a pl l₂ (sameMap_of_perm_nodup hp hn)
  rw [Bool.eq_iff_iff]
  simp only [List.all_eq_true]
  exact ⟨fun h x hx => h x (hp.mem_iff.2 hx), fun h x hx => h x (hp.mem_iff.1 hx)⟩

/-- C15.a  the same at the level of the state machine: the `step` of a wager (new state AND result) is invariant. -/
theorem step_wager_perm (s : State) (c : Nat) (tk : Tk) (u : Nat) (a : Int) (pl : WagerPayload) (l₂ : List (Nat × Dec))
    (hp : pl.allOdds.Perm l₂) (hn : (pl.allOdds.map (·.1)).Nodup) :
    step s (.wager c tk u a { pl with allOdds := l₂ }) = step s (.wager c tk u a pl) := by
  simp only [step, wager, wager_perm_nodup s c tk u a pl l₂ hp hn]

/-- C15.a  the order-book part (`ProcessWager`, where the map is used) needs the map only: no validity hypothesis. -/
theorem process_wager_reads_map_only {l₁ l₂ : List (Nat × Dec)} (h : ∀ o, lookupLast l₁ o = lookupLast l₂ o)
    (b : Book) (oc betId : Nat) (ov m : Dec) (mo : List Nat) (thr : Int) (amt : Int) (pp : Dec) :
    processWager b oc betId ov m mo l₁ thr amt pp = processWager b oc betId ov m mo l₂ thr amt pp :=
  processWager_sameMap h b oc betId ov m mo thr amt pp

/-- C15.a  why the duplicate-free hypothesis is there: with a repeated id, permuting the list changes the map
    (the last entry wins). This is not a source of disagreement between replicas — the list order is part of the
    signed ticket, every replica builds the same map from it — but `wager_perm_nodup` without `hn` would be false. -/
theorem lookupLast_perm_dup_counterexample :
    [(1, (⟨3⟩ : Dec)), (1, ⟨7⟩)].Perm [(1, ⟨7⟩), (1, ⟨3⟩)] ∧
      lookupLast [(1, ⟨3⟩), (1, ⟨7⟩)] 1 ≠ lookupLast [(1, ⟨7⟩), (1, ⟨3⟩)] 1 :=
  ⟨List.Perm.swap _ _ _, by decide⟩

/-- the hypotheses of `wager_perm_nodup` are satisfiable … -/
example : [(11, (⟨PREC⟩ : Dec)), (12, ⟨PREC / 2⟩)].Perm [(12, ⟨PREC / 2⟩), (11, ⟨PREC⟩)] ∧
    ([(11, (⟨PREC⟩ : Dec)), (12, ⟨PREC / 2⟩)].map (·.1)).Nodup := ⟨List.Perm.swap _ _ _, by decide⟩

/-- … and the conclusion is not about rejected wagers only: a wager on outcome 11 of a book with two
    participations is accepted with the list in either order. -/
example :
    let b : Book := [1000, 500].foldl (fun (b : Book) (l : Int) => (b.addParticipation 1 l 0).1) (newBook 1 [11, 12])
    (processWager b 11 1 ⟨2 * PREC⟩ ⟨PREC⟩ [11, 12] [(11, ⟨PREC⟩), (12, ⟨PREC / 2⟩)] 0 1200 ⟨1200 * PREC⟩).isSome = true ∧
    (processWager b 11 1 ⟨2 * PREC⟩ ⟨PREC⟩ [11, 12] [(12, ⟨PREC / 2⟩), (11, ⟨PREC⟩)] 0 1200 ⟨1200 * PREC⟩).isSome = true := by
  decide +kernel

-- ---------------------------------------------------------------------------------------------
-- (b) the exposure records read at the start of a wager

/-- C15.b  `exposure_map_perm`. `processWagerFrom exps b …` is `ProcessWager` with the three reads of the book's
    exposure records (`pes`, `len(peMap)` / `peMap[idx]`, `allExposures[odds]`) answered from the list `exps`;
    the model's `processWager` is the instance `exps = b.pexps` (`exposure_map_is_the_model`). The result does not
    depend on the order of `exps`. Hypotheses: `hp : exps₁ ~ exps₂` and pairwise different
    (outcome, participation index) keys `hn : (exps₁.map PExp.key).Nodup` — an invariant of the KV store, which
    holds one record per key (the model keeps `pexps` sorted by that key with `upsert`). -/
theorem exposure_map_perm {exps₁ exps₂ : List PExp} (hp : exps₁.Perm exps₂) (hn : (exps₁.map PExp.key).Nodup)
    (b : Book) (oc betId : Nat) (ov m : Dec) (mo : List Nat) (ms : List (Nat × Dec)) (thr : Int) (amt : Int) (pp : Dec) :
    processWagerFrom exps₁ b oc betId ov m mo ms thr amt pp = processWagerFrom exps₂ b oc betId ov m mo ms thr amt pp :=
  processWagerFrom_perm hp hn b oc betId ov m mo ms thr amt pp

/-- C15.b  the parameterised wager is the model's wager. -/
theorem exposure_map_is_the_model (b : Book) (oc betId : Nat) (ov m : Dec) (mo : List Nat) (ms : List (Nat × Dec))
    (thr : Int) (amt : Int) (pp : Dec) :
    processWager b oc betId ov m mo ms thr amt pp = processWagerFrom b.pexps b oc betId ov m mo ms thr amt pp := rfl

/-- C15.b  after the start of the wager the snapshot (`allExposures`) is only looked up by
    (outcome, participation index): replacing it by any list that answers these look-ups alike commutes with the
    whole fulfilment loop. -/
theorem exposure_snapshot_lookup_only {l : List PExp} (oc : Nat) (ov m : Dec) (mo : List Nat) (ms : List (Nat × Dec))
    (thr : Int) (q : List Nat) (f : FInfo)
    (h : ∀ o i, f.allExp.find? (fun x => x.odds == o && x.idx == i) = l.find? (fun x => x.odds == o && x.idx == i)) :
    finishWager oc (loop oc ov m mo ms thr q { f with allExp := l }) = finishWager oc (loop oc ov m mo ms thr q f) := by
  have := loop_withAll oc ov m mo ms thr q f h
  unfold FInfo.withAll at this
  rw [this]
  rfl

/-- C15.b  `fulfillmentMap` (Go: `map[uint64]fulfillmentItem`, model: the association list `fmap`) is read through
    `FInfo.item` only, i.e. by participation index: with pairwise different indices the item found does not depend
    on the order of the list. Hypotheses: `hp : f.fmap ~ l`, `hn : (f.fmap.map (·.1)).Nodup`. -/
theorem fulfillment_map_item_perm (f : FInfo) (l : List (Nat × Part × PExp)) (hp : f.fmap.Perm l)
    (hn : (f.fmap.map (·.1)).Nodup) (i : Nat) : FInfo.item { f with fmap := l } i = f.item i := by
  unfold FInfo.item
  have : l.find? (fun x => x.1 == i) = f.fmap.find? (fun x => x.1 == i) := by
    symm
    apply find?_congr_of_unique _ (fun x => hp.mem_iff)
    intro x hx y hy hpx hpy
    apply eq_of_key_eq_of_nodup (·.1) f.fmap hn x hx y hy
    simp only [beq_iff_eq] at hpx hpy
    simp only [hpx, hpy]
  simp only [this]

/-- the uniqueness hypothesis is satisfiable: the exposures a book gets from two participations on two outcomes -/
example :
    let b : Book := [1000, 500].foldl (fun (b : Book) (l : Int) => (b.addParticipation 1 l 0).1) (newBook 1 [11, 12])
    (b.pexps.map PExp.key).Nodup ∧ b.pexps.length = 4 := by
  decide +kernel

-- ---------------------------------------------------------------------------------------------
-- (c) duplicate detection in market add

/-- C15.c  `odds_set_perm`. The duplicate test of `MarketAddTicketPayload.Validate` (a map used as a set) is
    invariant under permutation of the outcome list. -/
theorem odds_set_perm {l₁ l₂ : List Nat} (hp : l₁.Perm l₂) : allDistinct l₁ = allDistinct l₂ := by
  rw [Bool.eq_iff_iff, allDistinct_iff_nodup, allDistinct_iff_nodup]
  exact hp.nodup_iff

/-- C15.c  hence whether MsgAdd is accepted does not depend on the order of the ticket's outcome list (the list
    itself is stored in ticket order, which is part of the message). -/
theorem market_add_accept_perm (s : State) (c : Nat) (tk : Tk) (uid st en : Nat) (status : Nat) {l₁ l₂ : List Nat}
    (hp : l₁.Perm l₂) : (marketAddO s c tk uid st en l₁ status).isSome = (marketAddO s c tk uid st en l₂ status).isSome := by
  unfold marketAddO
  rw [odds_set_perm hp, hp.length_eq]
  generalize chk tk.ok = c1
  generalize chk (marketTSOk s.time st en) = c2
  generalize chk (isOpenStatus status) = c3
  generalize chk (decide (2 ≤ l₂.length)) = c4
  generalize chk (allDistinct l₂) = c5
  generalize chk (getMarket s uid).isNone = c6
  generalize chk (getBook s uid).isNone = c7
  cases c1 <;> cases c2 <;> cases c3 <;> cases c4 <;> cases c5 <;> cases c6 <;> cases c7 <;> rfl

example : [21, 22, 23].Perm [22, 21, 23] ∧ allDistinct [21, 22, 23] = true := ⟨List.Perm.swap _ _ _, by decide⟩

-- ---------------------------------------------------------------------------------------------
-- (e) the transition function

/-- C15.e  `run_function`, for the record: the model's `run` is a function — equal genesis and equal operation
    sequences give equal states (core modules). -/
theorem run_function (s₁ s₂ : State) (ops₁ ops₂ : List Op) (hs : s₁ = s₂) (ho : ops₁ = ops₂) :
    run s₁ ops₁ = run s₂ ops₂ := by rw [hs, ho]

/-- C15.e  … block by block: replicas that agree after a prefix and execute the same next operations agree again. -/
theorem run_append (s : State) (ops₁ ops₂ : List Op) : run s (ops₁ ++ ops₂) = run (run s ops₁) ops₂ := by
  unfold run
  rw [List.foldl_append]

/-- C15.e  and a `step` returns one state and one result (the result class — ok / err / halt — is part of what
    replicas agree on). -/
theorem step_function (s₁ s₂ : State) (op₁ op₂ : Op) (hs : s₁ = s₂) (ho : op₁ = op₂) : step s₁ op₁ = step s₂ op₂ := by
  rw [hs, ho]

end Sge.Core

namespace Sge.Ovm
open Sge

-- ---------------------------------------------------------------------------------------------
-- (d) RemoveDuplicateStrs

/-- C15.d  `dedup_keys_order`. `RemoveDuplicateStrs` keeps the first occurrence of every key, in input order: the
    result has no repetition, has the same key set as the input, keeps the input's relative order, and is
    characterised by: an entry appended at the end is kept iff it did not occur before. It is therefore a
    function of the input slice (the `seen` map is only indexed). -/
theorem dedup_keys_order (l : List Pem) :
    (dedup l).Nodup ∧ (∀ x, x ∈ dedup l ↔ x ∈ l) ∧ (dedup l).Sublist l ∧
      ∀ x, dedup (l ++ [x]) = if x ∈ l then dedup l else dedup l ++ [x] :=
  ⟨dedup_nodup l, dedup_mem_iff l, dedup_sublist l, dedup_append_singleton l⟩

/-- C15.d  the key SET (and the number of keys, which the 4..5 bound of the proposal is about) is invariant under
    permutation of the input; the order of the result follows the input order, which is part of the message. -/
theorem dedup_keys_perm {l₁ l₂ : List Pem} (hp : l₁.Perm l₂) :
    (dedup l₁).Perm (dedup l₂) ∧ (dedup l₁).length = (dedup l₂).length := by
  have h : (dedup l₁).Perm (dedup l₂) := by
    rw [List.perm_ext_iff_of_nodup (dedup_nodup l₁) (dedup_nodup l₂)]
    intro x
    rw [dedup_mem_iff, dedup_mem_iff]
    exact hp.mem_iff
  exact ⟨h, h.length_eq⟩

example : dedup [5, 3, 5, 7, 3] = [5, 3, 7] := by decide

/-- C15.e  the ovm model's `run` is a function as well. -/
theorem run_function (fixed : Bool) (s₁ s₂ : State) (ops₁ ops₂ : List (Int × Op)) (hs : s₁ = s₂) (ho : ops₁ = ops₂) :
    run fixed s₁ ops₁ = run fixed s₂ ops₂ := by rw [hs, ho]

end Sge.Ovm

namespace SgeProofs.C15
open Sge.Gen.NonDet

/-- Nothing in the custom modules ranges over a map: the only `range` over a map-typed value (or use of the `maps`
    helpers, whose key order is random) in non-test code of
    x/ app/ utils/ types/ is in start-up functions of app/ and app/keepers (copying a map into a map or a set).
    Regenerated from the source on every check: a `for … := range someMap` in a keeper breaks this theorem. -/
theorem map_ranges_only_in_app_wiring :
    (sites.filter (fun s => s.kind == "maprange" || s.kind == "maps")).all (fun s => s.pkg == "app" || s.pkg == "app/keepers") = true := by
  decide

/-- No goroutine, `select`, random source in consensus code at all; clock only as telemetry in x/mint's BeginBlocker. -/
theorem no_concurrency_or_randomness :
    (sites.filter (fun s => s.kind == "go" || s.kind == "select" || s.kind == "rand")).isEmpty = true ∧
      (sites.filter (fun s => s.kind == "time")).map (fun s => (s.pkg, s.fn)) = [("x/mint", "BeginBlocker")] := by
  decide

end SgeProofs.C15
