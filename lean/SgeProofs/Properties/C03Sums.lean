/-
  C03 (whole-history part)  Each bet settles exactly once and pays exactly what the ticket promised.

  All theorems hold for EVERY history `ops` of the core slice from an empty chain (market add / update / resolve,
  deposit, withdraw, wager, authz, bank and parameter traffic, new blocks AND the settling end-blocks; a halting
  end-block returns the unchanged state), with any number of markets, participations and bets. No hypothesis on the
  operations or on the initial balances is needed.

    c03_settlement_payout     the step that turns an unsettled bet into a settled one is an end-block; the bet's market
                              is resolved and dictates the recorded result; the bet was settled by ONE `Settle` call,
                              with the exact change of every balance in that call
    c03_winner_total          the winner's payment in terms of the bet record: recorded stake + Σ promised profits
    c03_charge_at_placement   the step that makes the bet store longer is an accepted wager; the record it stores and
                              the exact charge of every account; what the parts promise
    c03_ticket_origin         every bet of a reachable state was stored by one accepted wager of the history; its
                              ticket fields never changed since
    c03_nothing_further       a settled record never changes again, is never listed as pending again, and `Settle`
                              fails on it: no later step pays anything on its account
    c03_counterexample_fee_exceeds_stake   FINDING: "the promised profits sum to ⌊(requested stake − fee)·(odds − 1)⌋"
                              needs `fee ≤ requested stake`, which neither the handler nor the parameter validators
                              enforce: a wager of 10 with fee 50 on a book without liquidity is accepted, the bettor
                              pays 50 for a bet with stake 0 and no parts

  `sumBet fs` = Σ_{f ∈ fs} f.bet and `sumProfit fs` = Σ_{f ∈ fs} f.profit (SgeProofs/Lemmas/Wager.lean).
  Backing parts may carry negative stakes (known finding KF-C03-negative-part); nothing here assumes `0 ≤ f.bet`:
  the equations are exact regardless (a negative payment makes the transfer fail and the end-block halt, which
  returns the unchanged state, so no bet becomes settled in that step).
  The invariant is `BetIdx` (SgeProofs/Lemmas/BetIndex.lean); the per-call core is `bp_settleBet_exact`
  (SgeProofs/Lemmas/BettorPay.lean), the trace of the end-block `bp_step_settled` (SgeProofs/Lemmas/BettorPayTrace.lean).
-/
import SgeProofs.Lemmas.BettorPayRun
import SgeProofs.Properties.C07
namespace Sge.Core
open Sge Sge.Genesis

theorem bp_init_betIdx (p : Params) (bal : List (Nat × Int)) (h t : Nat) (ops : List Op) :
    BetIdx (run (initState p bal h t) ops) := run_betIdx _ ops (betIdx_init p bal h t)

/-- a resolved status, spelled out -/
theorem bp_resolved_cases {m : Market} (h : bpRefund m = true ∨ m.status = MS_DECLARED) :
    m.status = MS_DECLARED ∨ m.status = MS_CANCELED ∨ m.status = MS_ABORTED := by
  rcases h with h | h
  · unfold bpRefund at h
    simp only [Bool.or_eq_true, beq_iff_eq] at h
    rcases h with h | h
    · exact Or.inr (Or.inr h)
    · exact Or.inr (Or.inl h)
  · exact Or.inl h

/-- the result `Settle` records, as three equivalences -/
theorem bp_result_iff {m : Market} (x : Bet) (h : bpRefund m = true ∨ m.status = MS_DECLARED) :
    (bpResult m x = BR_WON ↔ m.status = MS_DECLARED ∧ x.odds ∈ m.winners) ∧
    (bpResult m x = BR_LOST ↔ m.status = MS_DECLARED ∧ x.odds ∉ m.winners) ∧
    (bpResult m x = BR_REFUNDED ↔ m.status = MS_CANCELED ∨ m.status = MS_ABORTED) := by
  unfold bpResult
  by_cases hw : x.odds ∈ m.winners
  · have hc : m.winners.contains x.odds = true := by simpa using hw
    rcases h with h | h
    · have h' := h
      unfold bpRefund at h'
      simp only [Bool.or_eq_true, beq_iff_eq] at h'
      rw [h]
      rcases h' with h' | h' <;> simp [h', BR_WON, BR_LOST, BR_REFUNDED, MS_DECLARED, MS_CANCELED, MS_ABORTED]
    · have hr : bpRefund m = false := by unfold bpRefund; rw [h]; decide
      rw [hr, hc]
      simp [h, hw, BR_WON, BR_LOST, BR_REFUNDED, MS_DECLARED, MS_CANCELED, MS_ABORTED]
  · have hc : m.winners.contains x.odds = false := by simpa using hw
    rcases h with h | h
    · have h' := h
      unfold bpRefund at h'
      simp only [Bool.or_eq_true, beq_iff_eq] at h'
      rw [h]
      rcases h' with h' | h' <;> simp [h', BR_WON, BR_LOST, BR_REFUNDED, MS_DECLARED, MS_CANCELED, MS_ABORTED]
    · have hr : bpRefund m = false := by unfold bpRefund; rw [h]; decide
      rw [hr, hc]
      simp [h, hw, BR_WON, BR_LOST, BR_REFUNDED, MS_DECLARED, MS_CANCELED, MS_ABORTED]

-- ---------------------------------------------------------------------------------------------
-- the settlement

/-- C03.k  THE SETTLEMENT OF A BET. Take any reachable state `s` and any operation `op`. If the bet `x` is stored
    unsettled in `s` and the record `x'` with the same id is settled in the state after `op`, then `op` is an
    end-block, and:
    * the market `m` of the bet is resolved (result declared, cancelled or aborted) in `s`, and stays exactly this
      record for ever (`later`);
    * `x'` is `x` with status := settled, the result, and settleHeight := the height of the block; the result is WON
      iff the market is declared and the bet's outcome is a declared winner, LOST iff declared and not a winner,
      REFUNDED iff cancelled or aborted;
    * the recorded stake of `x` is the sum of the stakes of its backing parts;
    * `x` was settled by ONE `Settle` call `settleBet τ x.creator x.uid = some τ'` made inside that end-block (same
      height, same markets), in a state `τ` that stores `x` and lists it as pending; `τ'` stores `x'` in place of `x`;
    * `pay`: the pool pays the bettor exactly Σ (stake + promised profit) of the backing parts if the bet WON, nothing
      if it LOST, the recorded stake if it is REFUNDED;
    * `feeTo`: the bet-fee collector pays the fee to the market creator on a declared result, back to the bettor on a
      cancelled / aborted market;
    * no other balance changes in that call (the equation holds for every account `a`). -/
theorem c03_settlement_payout (p : Params) (bal : List (Nat × Int)) (h t : Nat) (ops : List Op) (op : Op) :
    let s := run (initState p bal h t) ops
    let s' := (step s op).1
    ∀ x ∈ s.bets, x.status ≠ BS_SETTLED → ∀ x' ∈ s'.bets, x'.id = x.id → x'.status = BS_SETTLED →
      op = .endBlock ∧
      ∃ (m : Market) (τ τ' : State),
        getMarket s x.market = some m ∧ (∀ later, getMarket (run s' later) x.market = some m) ∧
        (m.status = MS_DECLARED ∨ m.status = MS_CANCELED ∨ m.status = MS_ABORTED) ∧
        x' = { x with status := BS_SETTLED, result := x'.result, settleHeight := s.height } ∧
        (x'.result = BR_WON ↔ m.status = MS_DECLARED ∧ x.odds ∈ m.winners) ∧
        (x'.result = BR_LOST ↔ m.status = MS_DECLARED ∧ x.odds ∉ m.winners) ∧
        (x'.result = BR_REFUNDED ↔ m.status = MS_CANCELED ∨ m.status = MS_ABORTED) ∧
        x.amount = sumBet x.fulfs ∧
        τ.height = s.height ∧ τ.markets = s.markets ∧ x ∈ τ.bets ∧ (x.market, x.id, x.uid, x.creator) ∈ τ.pending ∧
        settleBet τ x.creator x.uid = some τ' ∧ τ'.bets = upsert Bet.key x' τ.bets ∧
        ∀ pay : Int, pay = (if x'.result = BR_WON then sumBet x.fulfs + sumProfit x.fulfs
                            else if x'.result = BR_REFUNDED then x.amount else 0) →
        ∀ feeTo : Nat, feeTo = (if m.status = MS_DECLARED then m.creator else x.creator) →
          ∀ a, getBal τ'.bal a = getBal τ.bal a
                + (if a = x.creator then pay else 0) + (if a = feeTo then x.fee else 0)
                - (if a = ACC_POOL then pay else 0) - (if a = ACC_BETFEE then x.fee else 0) := by
  intro s s' x hx hns x' hx' hid hst
  have hI : BetIdx s := bp_init_betIdx p bal h t ops
  obtain ⟨hop, τ, τ', m, hIτ, hmk, hh, hxτ, hpend, hcall, hm, hrec, _⟩ := bp_step_settled s op hI x hx hns x' hx' hid hst
  refine ⟨hop, m, τ, τ', ?_⟩
  obtain ⟨_, m', hm', hres, hbets, _, _, hbal⟩ := bp_settleBet_exact hIτ hxτ hcall
  rw [hm] at hm'
  cases hm'
  have hms : getMarket s x.market = some m := by rw [← getMarket_congr hmk]; exact hm
  have hr : x'.result = bpResult m x := by rw [hrec]; rfl
  obtain ⟨r1, r2, r3⟩ := bp_result_iff x hres
  have hcases := bp_resolved_cases hres
  have hopen : isOpenStatus m.status = false := by
    rcases hcases with e | e | e <;> rw [e] <;> decide
  refine ⟨hms, ?_, hcases, ?_, by rw [hr]; exact r1, by rw [hr]; exact r2, by rw [hr]; exact r3, ?_, hh, hmk, hxτ,
    hpend, hcall, by rw [hbets, hrec, hh], ?_⟩
  · intro later
    apply c07_resolution_final
    · exact c07_resolved_frozen_step s op x.market m hms hopen
    · exact hopen
  · rw [hrec]; rfl
  · exact bp_reach_stake _ (betIdx_init p bal h t) rfl ops x hx
  · intro pay hpay feeTo hfee a
    have hp : pay = bpPay m x := by
      rw [hpay, hr]
      unfold bpPay bpResult
      cases hrf : bpRefund m
      · cases hw : m.winners.contains x.odds <;> simp [BR_WON, BR_LOST, BR_REFUNDED]
      · simp [BR_WON, BR_REFUNDED]
    have hf : feeTo = bpFeeTo m x := by
      rw [hfee]
      unfold bpFeeTo
      rcases hres with e | e
      · rw [e]
        have : m.status ≠ MS_DECLARED := by
          rcases r3.mp (by unfold bpResult; rw [e]; rfl) with e' | e' <;> rw [e'] <;> decide
        simp [this]
      · have e' : bpRefund m = false := by unfold bpRefund; rw [e]; decide
        rw [e']
        simp [e]
    rw [hp, hf]
    exact hbal a

-- ---------------------------------------------------------------------------------------------
-- nothing further

/-- C03.l  NOTHING FURTHER. Whatever happens after a bet was settled (any continuation `later` of the history,
    including any number of end-blocks): the very same record is stored; it is the only record with its id and the
    only one with its uid; the pending index — the only source of the `Settle` calls of an end-block — lists no
    entry with its id or its uid; and `Settle` fails when called with its uid, whatever the creator. So the
    hypothesis of `c03_settlement_payout` (unsettled before, settled after) can never hold for it again and no later
    operation pays anything on its account. -/
theorem c03_nothing_further (p : Params) (bal : List (Nat × Int)) (h t : Nat) (ops later : List Op) (x : Bet) :
    let s := run (initState p bal h t) ops
    let s' := run (initState p bal h t) (ops ++ later)
    x ∈ s.bets → x.status = BS_SETTLED →
      x ∈ s'.bets ∧ (∀ b' ∈ s'.bets, b'.id = x.id ∨ b'.uid = x.uid → b' = x) ∧
      (∀ e ∈ s'.pending, e.2.1 ≠ x.id ∧ e.2.2.1 ≠ x.uid) ∧
      (∀ c, settleBet s' c x.uid = none) ∧
      (∀ op, ∀ b' ∈ (step s' op).1.bets, b'.id = x.id → b' = x) := by
  intro s s' hx hst
  have hI' : BetIdx s' := bp_init_betIdx p bal h t (ops ++ later)
  have hx' : x ∈ s'.bets := (c03_settled_bets_frozen p bal h t ops later x hx hst).1
  refine ⟨hx', ?_, ?_, ?_, ?_⟩
  · intro b' hb' hor
    rcases hor with e | e
    · exact hI'.idInj b' hb' x hx' e
    · exact hI'.uidInj b' hb' x hx' e
  · intro e he
    obtain ⟨b, hb, hns, rfl⟩ := hI'.ofPend e he
    constructor
    · intro e'
      rw [hI'.idInj b hb x hx' e'] at hns
      exact hns hst
    · intro e'
      rw [hI'.uidInj b hb x hx' e'] at hns
      exact hns hst
  · intro c
    cases hsb : settleBet s' c x.uid with
    | none => rfl
    | some τ' =>
      exfalso
      obtain ⟨b0, hb0, hu, _, hns, _⟩ := settleBet_target hI' hsb
      rw [hI'.uidInj b0 hb0 x hx' hu] at hns
      exact hns hst
  · intro op b' hb' e
    have g := step_good s' op hI'
    exact g.1.idInj b' hb' x (g.2.1 x hx' hst) e

-- ---------------------------------------------------------------------------------------------
-- the winner's total, in terms of the bet record

/-- C03.m  THE WINNER'S TOTAL. In the setting of `c03_settlement_payout`, if the bet WON: in the one `Settle` call that
    settled it the pool pays the bettor exactly the recorded stake plus the sum of the profits its backing parts
    promise — `x.amount + Σ f.profit` — and the fee goes from the bet-fee collector to the market creator; no other
    balance changes. (By `c03_ticket_origin` the promised profits sum to the integer part of
    (requested stake − fee) × (odds − 1) of the wager that placed the bet.) -/
theorem c03_winner_total (p : Params) (bal : List (Nat × Int)) (h t : Nat) (ops : List Op) (op : Op) :
    let s := run (initState p bal h t) ops
    let s' := (step s op).1
    ∀ x ∈ s.bets, x.status ≠ BS_SETTLED → ∀ x' ∈ s'.bets, x'.id = x.id → x'.status = BS_SETTLED → x'.result = BR_WON →
      ∃ (m : Market) (τ τ' : State),
        getMarket s x.market = some m ∧ m.status = MS_DECLARED ∧ x.odds ∈ m.winners ∧
        settleBet τ x.creator x.uid = some τ' ∧
        ∀ a, getBal τ'.bal a = getBal τ.bal a
              + (if a = x.creator then x.amount + sumProfit x.fulfs else 0) + (if a = m.creator then x.fee else 0)
              - (if a = ACC_POOL then x.amount + sumProfit x.fulfs else 0) - (if a = ACC_BETFEE then x.fee else 0) := by
  intro s s' x hx hns x' hx' hid hst hwon
  obtain ⟨_, m, τ, τ', hm, _, _, _, r1, _, _, hamt, _, _, _, _, hcall, _, hbal⟩ :=
    c03_settlement_payout p bal h t ops op x hx hns x' hx' hid hst
  obtain ⟨hd, hw⟩ := r1.mp hwon
  refine ⟨m, τ, τ', hm, hd, hw, hcall, ?_⟩
  intro a
  have := hbal (x.amount + sumProfit x.fulfs) (by rw [if_pos hwon, hamt]) m.creator (by rw [if_pos hd]) a
  exact this

-- ---------------------------------------------------------------------------------------------
-- the charge at placement

/-- C03.n  THE CHARGE AT PLACEMENT. Take any reachable state `s` and any operation `op`. If the bet store is longer
    after `op`, then `op` is a wager — of bettor `c` with uid `u`, requested stake `a` and ticket payload `pl` — that
    was accepted, and it stored exactly one new record `nb` (every other record is a record of `s`):
    * `nb` carries uid `u`, the next sequence number, the bettor, market, outcome and odds of the ticket, the current
      bet fee, status PLACED, result PENDING, and its recorded stake is the sum of the stakes of its backing parts;
    * the bettor's balance drops by exactly fee + recorded stake, the pool rises by the recorded stake, the bet-fee
      collector by the fee, and no other balance changes (the equation holds for every account);
    * if the fee does not exceed the requested stake, the profits the parts promise are non-negative and sum to the
      integer part of (requested stake − fee) × (odds − 1). -/
theorem c03_charge_at_placement (p : Params) (bal : List (Nat × Int)) (h t : Nat) (ops : List Op) (op : Op) :
    let s := run (initState p bal h t) ops
    let s' := (step s op).1
    s.bets.length < s'.bets.length →
    ∃ (c : Nat) (tk : Tk) (u : Nat) (a : Int) (pl : WagerPayload), op = .wager c tk u a pl ∧
      wagerO s c tk u a pl = some s' ∧
      ∃ nb ∈ s'.bets, (∀ z ∈ s'.bets, z = nb ∨ z ∈ s.bets) ∧ nb ∉ s.bets ∧
        nb.uid = u ∧ nb.id = s.bets.length + 1 ∧ nb.creator = c ∧ nb.market = pl.market ∧ nb.odds = pl.odds ∧
        pl.oddsVal = some nb.oddsVal ∧ nb.fee = s.params.betFee ∧ nb.status = BS_PLACED ∧ nb.result = BR_PENDING ∧
        nb.amount = sumBet nb.fulfs ∧
        (∀ acct, getBal s'.bal acct = getBal s.bal acct - (if acct = c then nb.fee + nb.amount else 0)
            + (if acct = ACC_POOL then nb.amount else 0) + (if acct = ACC_BETFEE then nb.fee else 0)) ∧
        (nb.fee ≤ a →
          sumProfit nb.fulfs = ((nb.oddsVal.mulInt (a - nb.fee)).sub (Dec.ofInt (a - nb.fee))).truncInt ∧
          ∀ f ∈ nb.fulfs, 0 ≤ f.profit) := by
  intro s s' hlen
  have hI : BetIdx s := bp_init_betIdx p bal h t ops
  obtain ⟨c, tk, u, a, pl, hop, hw⟩ := bp_step_grows s op hI hlen
  refine ⟨c, tk, u, a, pl, hop, hw, ?_⟩
  obtain ⟨nb, ⟨q1, q2, q3, q4, q5, q6, q7, q8, q9, q10, q11, q12, q13⟩, hmem⟩ := bp_wagerO_placed hw
  refine ⟨nb, q1, hmem, ?_, q2, by rw [q3, hI.count], q4, q5, q6, q7, q8, q9, q10, q11, ?_, q13⟩
  · intro hin
    have := (hI.idLo nb hin).2
    omega
  · intro acct
    rw [q11]
    exact q12 acct

/-- C03.o  THE TICKET OF EVERY BET. Every bet record `x` of every reachable state was stored by ONE accepted wager of
    the history: `ops = pre ++ wager :: post`, the wager of bettor `x.creator` with uid `x.uid`, requested stake `a`
    and payload `pl` was accepted in the state after `pre` and stored the record `nb`; since then the record changed at
    most in status, result and settlement height. So, for `x` itself: the recorded stake is the sum of the stakes of
    the backing parts, the bettor was charged exactly `x.fee + x.amount` in that step, and — if the fee did not
    exceed the requested stake — the promised profits are non-negative and sum to the integer part of
    (requested stake − fee) × (odds − 1). -/
theorem c03_ticket_origin (p : Params) (bal : List (Nat × Int)) (h t : Nat) (ops : List Op) (x : Bet) :
    let s0 := initState p bal h t
    x ∈ (run s0 ops).bets →
    ∃ (pre post : List Op) (tk : Tk) (a : Int) (pl : WagerPayload) (nb : Bet),
      ops = pre ++ Op.wager x.creator tk x.uid a pl :: post ∧
      wagerO (run s0 pre) x.creator tk x.uid a pl = some (run s0 (pre ++ [Op.wager x.creator tk x.uid a pl])) ∧
      nb ∈ (run s0 (pre ++ [Op.wager x.creator tk x.uid a pl])).bets ∧
      x = { nb with status := x.status, result := x.result, settleHeight := x.settleHeight } ∧
      nb.status = BS_PLACED ∧ nb.result = BR_PENDING ∧
      x.market = pl.market ∧ x.odds = pl.odds ∧ pl.oddsVal = some x.oddsVal ∧ x.fee = (run s0 pre).params.betFee ∧
      x.amount = sumBet x.fulfs ∧
      (∀ acct, getBal (run s0 (pre ++ [Op.wager x.creator tk x.uid a pl])).bal acct =
          getBal (run s0 pre).bal acct - (if acct = x.creator then x.fee + x.amount else 0)
            + (if acct = ACC_POOL then x.amount else 0) + (if acct = ACC_BETFEE then x.fee else 0)) ∧
      (x.fee ≤ a →
        sumProfit x.fulfs = ((x.oddsVal.mulInt (a - x.fee)).sub (Dec.ofInt (a - x.fee))).truncInt ∧
        ∀ f ∈ x.fulfs, 0 ≤ f.profit) := by
  intro s0 hx
  rcases bp_bet_origin s0 (betIdx_init p bal h t) ops x hx with ⟨b0, hb0, _⟩ | ⟨pre, post, c, tk, u, a, pl, nb, e, hw, hp, hs⟩
  · cases hb0
  · obtain ⟨e1, e2, e3, e4, e5, e6, e7, e8, e9⟩ := hs.fields
    obtain ⟨q1, q2, q3, q4, q5, q6, q7, q8, q9, q10, q11, q12, q13⟩ := hp
    have hc : c = x.creator := by rw [e3, q4]
    have hu : u = x.uid := by rw [e1, q2]
    subst hc
    subst hu
    refine ⟨pre, post, tk, a, pl, nb, e, hw, q1, hs, q9, q10, by rw [e4, q5], by rw [e5, q6], by rw [e6]; exact q7,
      by rw [e8, q8], by rw [e7, e9, q11], ?_, ?_⟩
    · intro acct
      rw [e8, e7, q11]
      exact q12 acct
    · intro hfee
      rw [e8, e9, e6]
      rw [e8] at hfee
      exact q13 hfee

-- ---------------------------------------------------------------------------------------------
-- non-vacuity: a bet split over two participations that wins, one that loses, one refunded on a cancelled market

def bpTk : Tk := { ok := true, kycIgnore := true, kycApproved := false, kycId := 0 }
def bpParams : Params := { betMin := 2, betFee := 1, houseMin := 2, obThreshold := 0, obMaxPart := 6 }
def bpPl (mk o : Nat) (ov : Int) (o1 o2 : Nat) : WagerPayload :=
  { market := mk, odds := o, oddsVal := some ⟨PREC * ov⟩, mult := ⟨PREC⟩, allOdds := [(o1, ⟨PREC⟩), (o2, ⟨PREC⟩)] }
/-- market 7 (outcomes 11, 12; created by account 9) gets deposits 100 from account 1 and 300 from account 2, market 8
    a deposit of 200 from account 4; account 3 bets 61 on 11 at odds 3, account 5 bets 101 on 12 at odds 2 (both
    backed by both participations of market 7), account 6 bets 41 on market 8; market 7 is declared for 11, market 8
    cancelled; two end-blocks -/
def bpOps : List Op := [
  .marketAdd 9 bpTk 7 1 1000 [11, 12] MS_ACTIVE,
  .marketAdd 9 bpTk 8 1 1000 [21, 22] MS_ACTIVE,
  .deposit 1 bpTk 7 100 0,
  .deposit 2 bpTk 7 300 0,
  .deposit 4 bpTk 8 200 0,
  .wager 3 bpTk 501 61 (bpPl 7 11 3 11 12),
  .wager 5 bpTk 502 101 (bpPl 7 12 2 11 12),
  .wager 6 bpTk 503 41 (bpPl 8 21 2 21 22),
  .marketResolve bpTk 7 5 MS_DECLARED [11],
  .marketResolve bpTk 8 5 MS_CANCELED [],
  .endBlock, .newBlock 2 10, .endBlock ]
def bpInit : State :=
  initState bpParams [(1, 100000), (2, 100000), (3, 1000), (4, 100000), (5, 1000), (6, 1000), (9, 0)] 1 0
/-- the state after the first `n` operations -/
def bpS (n : Nat) : State := run bpInit (bpOps.take n)
/-- the bet records as (bettor, id, uid, recorded stake, fee, status, result, settlement height, parts (idx, stake, profit)) -/
def bpView (s : State) : List (Nat × Nat × Nat × Int × Int × Nat × Nat × Nat × List (Nat × Int × Int)) :=
  s.bets.map (fun x => (x.creator, x.id, x.uid, x.amount, x.fee, x.status, x.result, x.settleHeight,
    x.fulfs.map fun f => (f.idx, f.bet, f.profit)))

/-- placement (`c03_charge_at_placement`): the wager of account 3 makes the bet store longer; the bet is split over
    participations 1 and 2 (stakes 45 + 15 = recorded stake 60, promised profits 90 + 30 = 120 = (61 − 1)·(3 − 1));
    the bettor pays 61 = fee 1 + stake 60, the pool receives 60, the fee collector 1 -/
example :
    (decide ((bpS 5).bets.length < (step (bpS 5) (bpOps.getD 5 .endBlock)).1.bets.length) &&
    bpView (bpS 6) == [(3, 1, 501, 60, 1, BS_PLACED, BR_PENDING, 0, [(1, 45, 90), (2, 15, 30)])] &&
    (bpS 6).bets.map (fun x => sumProfit x.fulfs) == [bpPromised ⟨PREC * 3⟩ 61 1] &&
    (bpS 5).bal == [(1, 99900), (2, 99700), (3, 1000), (4, 99800), (5, 1000), (6, 1000), (9, 0),
      (ACC_POOL, 540), (ACC_HOUSEFEE, 60)] &&
    (bpS 6).bal == [(1, 99900), (2, 99700), (3, 939), (4, 99800), (5, 1000), (6, 1000), (9, 0),
      (ACC_POOL, 600), (ACC_HOUSEFEE, 60), (ACC_BETFEE, 1)]) = true := by
  decide +kernel

/-- before the end-block: the three bets are stored unsettled and listed as pending -/
example :
    (bpView (bpS 10) == [(3, 1, 501, 60, 1, BS_PLACED, BR_PENDING, 0, [(1, 45, 90), (2, 15, 30)]),
       (5, 2, 502, 100, 1, BS_PLACED, BR_PENDING, 0, [(1, 90, 90), (2, 10, 10)]),
       (6, 3, 503, 40, 1, BS_PLACED, BR_PENDING, 0, [(1, 40, 40)])] &&
    (bpS 10).pending == [(7, 1, 501, 3), (7, 2, 502, 5), (8, 3, 503, 6)] &&
    (bpS 10).bal == [(1, 99900), (2, 99700), (3, 939), (4, 99800), (5, 899), (6, 959), (9, 0),
      (ACC_POOL, 740), (ACC_HOUSEFEE, 60), (ACC_BETFEE, 3)]) = true := by
  decide +kernel

/-- the three `Settle` calls of the end-block, one after the other (`c03_settlement_payout`):
    bet 501 WON — the pool pays account 3 (45 + 90) + (15 + 30) = 180 = 60 + 120, the fee 1 goes to the market creator 9;
    bet 502 LOST — account 5 receives nothing, the fee 1 goes to the market creator;
    bet 503 REFUNDED — the pool pays account 6 the recorded stake 40 and the fee collector pays the fee 1 back;
    no other balance moves -/
example :
    ((settleBet (bpS 10) 3 501).map (·.bal) ==
      some [(1, 99900), (2, 99700), (3, 1119), (4, 99800), (5, 899), (6, 959), (9, 1),
        (ACC_POOL, 560), (ACC_HOUSEFEE, 60), (ACC_BETFEE, 2)] &&
    ((settleBet (bpS 10) 3 501).bind (settleBet · 5 502)).map (·.bal) ==
      some [(1, 99900), (2, 99700), (3, 1119), (4, 99800), (5, 899), (6, 959), (9, 2),
        (ACC_POOL, 560), (ACC_HOUSEFEE, 60), (ACC_BETFEE, 1)] &&
    (((settleBet (bpS 10) 3 501).bind (settleBet · 5 502)).bind (settleBet · 6 503)).map (·.bal) ==
      some [(1, 99900), (2, 99700), (3, 1119), (4, 99800), (5, 899), (6, 1000), (9, 2),
        (ACC_POOL, 520), (ACC_HOUSEFEE, 60), (ACC_BETFEE, 0)] &&
    (((settleBet (bpS 10) 3 501).bind (settleBet · 5 502)).bind (settleBet · 6 503)).map bpView ==
      some (bpView (bpS 11))) = true := by
  decide +kernel

/-- the end-block as a whole: the hypotheses of `c03_settlement_payout` hold for each of the three bets (stored
    unsettled before, settled with the same id after), the results are WON / LOST / REFUNDED, stamped with height 1;
    account 3 received 180, account 5 nothing, account 6 its 41 back (the remaining movements are the payouts of the
    participations, C04) -/
example :
    ((bpS 10).bets.all (fun x => x.status != BS_SETTLED &&
        (step (bpS 10) .endBlock).1.bets.any (fun x' => x'.id == x.id && x'.status == BS_SETTLED)) &&
    bpView (bpS 11) == [(3, 1, 501, 60, 1, BS_SETTLED, BR_WON, 1, [(1, 45, 90), (2, 15, 30)]),
       (5, 2, 502, 100, 1, BS_SETTLED, BR_LOST, 1, [(1, 90, 90), (2, 10, 10)]),
       (6, 3, 503, 40, 1, BS_SETTLED, BR_REFUNDED, 1, [(1, 40, 40)])] &&
    (bpS 11).pending == [] &&
    (bpS 11).bal == [(1, 99990), (2, 99950), (3, 1119), (4, 100000), (5, 899), (6, 1000), (9, 42),
      (ACC_POOL, 0), (ACC_HOUSEFEE, 0), (ACC_BETFEE, 0)]) = true := by
  decide +kernel

/-- nothing further (`c03_nothing_further`): the next block's end-block changes no bet record and no balance, and
    `Settle` fails on each of the settled bets -/
example :
    (bpView (bpS 13) == bpView (bpS 11) && (bpS 13).bal == (bpS 11).bal && (bpS 13).pending == [] &&
    (settleBet (bpS 13) 3 501).isNone && (settleBet (bpS 13) 5 502).isNone && (settleBet (bpS 13) 6 503).isNone) = true := by
  decide +kernel

-- ---------------------------------------------------------------------------------------------
-- FINDING: the hypothesis `fee ≤ requested stake` of the promised-profit clause cannot be dropped

/-- the bet fee (50) exceeds the minimum stake (2): accepted by the parameter validators (`Params.valid`) -/
def bpFeeParams : Params := { betMin := 2, betFee := 50, houseMin := 2, obThreshold := 0, obMaxPart := 6 }
/-- a market without any deposit; account 3 wagers 10 (< fee 50) on outcome 11 at odds 3; the market is declared for 11 -/
def bpFeeOps : List Op := [
  .marketAdd 9 bpTk 7 1 1000 [11, 12] MS_ACTIVE,
  .wager 3 bpTk 501 10 (bpPl 7 11 3 11 12),
  .marketResolve bpTk 7 5 MS_DECLARED [11],
  .endBlock ]

/-- FINDING (KF-C03-fee-exceeds-stake), proved on the model of the code as it is. The full statement
      "the profits promised by the parts of an accepted bet sum to the integer part of (requested stake − fee) × (odds − 1)"
    is false without the hypothesis `fee ≤ requested stake` of `c03_charge_at_placement` / `c03_ticket_origin`:
    the wager handler only checks `amount ≥ MinAmount`, and the parameter validators do not relate the fee to the
    minimum amount. With fee 50 and a requested stake of 10 the stake after the fee is −40 and the payout profit −80;
    on a book whose queue offers no liquidity nothing is matched, `ProcessWager` ends with payout profit < 1 — i.e.
    "fulfilled" — and the wager is ACCEPTED: the bettor is charged the fee 50 (five times the amount of the message),
    a bet with recorded stake 0 and no backing part is stored (promised profits 0 ≠ −80), and when its outcome is
    declared the winner the bet is settled as WON and paid 0 while its fee goes to the market creator.
    The charge and settlement equations of this file hold nevertheless (charged fee + matched stake = 50 + 0; a winner
    receives Σ (stake + profit) of its parts = 0). -/
theorem c03_counterexample_fee_exceeds_stake :
    let s0 := initState bpFeeParams [(3, 1000), (9, 0)] 1 0
    (bpFeeParams.valid &&
    (step (run s0 (bpFeeOps.take 1)) (bpFeeOps.getD 1 .endBlock)).2 == Res.ok &&
    bpView (run s0 (bpFeeOps.take 2)) == [(3, 1, 501, 0, 50, BS_PLACED, BR_PENDING, 0, [])] &&
    (run s0 (bpFeeOps.take 2)).bal == [(3, 950), (9, 0), (ACC_BETFEE, 50)] &&
    (run s0 (bpFeeOps.take 2)).bets.map (fun x => sumProfit x.fulfs) == [0] &&
    bpPromised ⟨PREC * 3⟩ 10 50 == -80 &&
    bpView (run s0 bpFeeOps) == [(3, 1, 501, 0, 50, BS_SETTLED, BR_WON, 1, [])] &&
    (run s0 bpFeeOps).bal == [(3, 950), (9, 50), (ACC_BETFEE, 0)]) = true := by
  decide +kernel

end Sge.Core
