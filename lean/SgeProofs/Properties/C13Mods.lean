/-
  C13 (second half, remaining executable models): "no betting, house, reward or subaccount operation creates or
  destroys tokens" as THEOREMS about the reward model, the stand-alone subaccount model and (trivially) the ovm model;
  the mint begin-blocker composed with the core slice block by block; InitGenesis never touches a balance.

  Core and combined (subaccount + core) models: `c13_core_supply_constant`, `c13_combined_supply_constant`.

  Shape of the statements.  The banks of the reward and subaccount models are TOTAL functions `Nat → Int`, so
  "the sum of all balances" does not exist.  Instead (`SgeProofs/Lemmas/SupplyMoves.lean`):

    `sup_Moves A b b' k`   the bank `b'` is the bank `b` after a finite list of movements, each of a NON-NEGATIVE
                           amount, each either a transfer between two accounts satisfying `A` or an inflow from outside
                           the modelled accounts into an account satisfying `A`; the inflows add up to `k`.

  From it, for EVERY duplicate-free list `accts` that contains every account satisfying `A`:
      Σ_{a ∈ accts} b' a = Σ_{a ∈ accts} b a + k              (`sup_Moves.sum`)
  and every account not satisfying `A` keeps its balance        (`sup_Moves.frame`).
  `A` is membership in `sup_touch s op` (one step) / `sup_touchRun s ops` (a history): the computable list of accounts
  the operations name in the states they are executed in (signers, promoters, receivers, the pool, subaccount
  addresses, the lumped custody account).  For a movement list the general law (any duplicate-free list, closed or
  not: the sum changes by the net flow across its boundary) is `sup_sumOn_apply`.

  No theorem below has a hypothesis on the state, the flags or the operations.  In particular all variants
  (`fixed` / `codecFixed` / `promoterFixed` of the reward model, `fixed` / `fixedNeg` / `fixedRet` of the subaccount
  model) are covered, since the flags are fields of the (universally quantified) state.  The only "hypotheses" are on
  the list of accounts one chooses to sum over (duplicate-free, contains the touched accounts).

  The subaccount model has ONE operation that is not a transfer: the environment operation `fund`
  ("tokens entering the modelled accounts from outside: genesis balances, faucet"), i.e. a transfer from an account
  that is not modelled.  The theorem is therefore exact: the sum changes by the total of the successful `fund`
  amounts (`sup_fundRun`), and is constant over histories without `fund`.
-/
import SgeProofs.Lemmas.SupplyReward
import SgeProofs.Lemmas.SupplySub
import SgeProofs.Lemmas.SupplyGenesis
import SgeProofs.Lemmas.SupplyBlock
import Sge.Ovm

namespace Sge
open Sge

-- =============================================================================================
-- 1. reward model

/-- C13.g (reward, one step)  Every operation of the reward model, successful or not, in every state and variant,
    changes the bank by finitely many TRANSFERS of non-negative amounts between accounts it names (`sup_touch`:
    promoter and pool for campaign funding / top-up / withdrawal, pool → receiver and pool → receiver's subaccount
    for a grant, the two parties of a bank send); nothing comes from outside (`k = 0`). -/
theorem c13_reward_step_transfers (s : Reward.State) (op : Reward.Op) :
    sup_Moves (· ∈ Reward.sup_touch s op) s.bank (Reward.step s op).bank 0 :=
  Reward.sup_step_moves s op

/-- C13.g (reward, whole history)  The same for every history of reward operations. -/
theorem c13_reward_run_transfers (s : Reward.State) (ops : List Reward.Op) :
    sup_Moves (· ∈ Reward.sup_touchRun s ops) s.bank (Reward.run s ops).bank 0 :=
  Reward.sup_run_moves ops s

/-- C13.g (reward)  SUPPLY NEUTRALITY: for every state, every history of reward operations (promoters, campaigns,
    top-ups, withdrawals, grants, authz, bets, subaccounts, bank sends, time) and every duplicate-free list of
    accounts that contains the accounts touched by the history, the sum of the balances is unchanged. -/
theorem c13_reward_supply_constant (s : Reward.State) (ops : List Reward.Op) (accts : List Nat)
    (hn : accts.Nodup) (hall : ∀ a ∈ Reward.sup_touchRun s ops, a ∈ accts) :
    sup_sumOn (Reward.run s ops).bank accts = sup_sumOn s.bank accts := by
  have := (Reward.sup_run_moves ops s).sum accts hn hall
  simpa using this

/-- C13.g (reward)  the same with a STATE-INDEPENDENT account list: it suffices that `accts` contains the accounts the
    operations name by themselves (`sup_namedRun`: promoter of a campaign creation / withdrawal, receiver of a grant and
    its subaccount address, the parties of a bank send, the pool) and the promoters of the campaigns that exist at the
    start. From a genesis state (no campaigns, e.g. `Reward.init`) the named accounts alone suffice. -/
theorem c13_reward_supply_constant_named (s : Reward.State) (ops : List Reward.Op) (accts : List Nat)
    (hn : accts.Nodup) (hnamed : ∀ a ∈ Reward.sup_namedRun ops, a ∈ accts)
    (hprom : ∀ c ∈ s.campaigns, c.promoter ∈ accts) :
    sup_sumOn (Reward.run s ops).bank accts = sup_sumOn s.bank accts := by
  apply c13_reward_supply_constant s ops accts hn
  intro a ha
  rcases Reward.sup_touchRun_sub ops s a ha with h | h
  · exact hnamed a h
  · obtain ⟨c, hc, rfl⟩ := List.mem_map.mp h
    exact hprom c hc

/-- C13.g (reward)  … and every account outside the touched list keeps its balance: so the "supply" is well defined
    although the bank is a total function — the history changes finitely many balances and their sum is constant. -/
theorem c13_reward_untouched (s : Reward.State) (ops : List Reward.Op) (a : Nat)
    (ha : a ∉ Reward.sup_touchRun s ops) : (Reward.run s ops).bank a = s.bank a :=
  (Reward.sup_run_moves ops s).frame a ha

/-- C13.g (reward), hypothesis-free form: there is a duplicate-free list (the touched accounts) on which the sum is
    constant and outside which no balance changes. -/
theorem c13_reward_supply_support (s : Reward.State) (ops : List Reward.Op) :
    ∃ l : List Nat, l.Nodup ∧ (∀ a, a ∉ l → (Reward.run s ops).bank a = s.bank a) ∧
      sup_sumOn (Reward.run s ops).bank l = sup_sumOn s.bank l := by
  obtain ⟨h1, h2, h3, h4⟩ := (Reward.sup_run_moves ops s).support
  refine ⟨_, h1, fun a ha => h4 a (fun h => ha ((h2 a).mpr h)), ?_⟩
  simpa using h3

-- =============================================================================================
-- 2. stand-alone subaccount model

/-- C13.h (subaccount, one step)  Every operation of the stand-alone subaccount model (create, top-up, withdraw,
    reward grant, subaccount wager incl. the `fixedRet` return leg, house deposit / withdrawal through the lumped
    custody account, settlement with hooks, bank send), successful or not, in every state and variant, changes the
    bank by transfers of non-negative amounts between accounts it names; the environment operation `fund a v` is the
    only inflow from outside, of exactly `v` when it succeeds (`v ≥ 0`). -/
theorem c13_sub_step_transfers (s : Subaccount.State) (op : Subaccount.Op) :
    sup_Moves (· ∈ Subaccount.sup_touch s op) s.bank (Subaccount.step s op).1.bank (Subaccount.sup_fundAmt op) :=
  Subaccount.sup_step_moves s op

/-- C13.h (subaccount, whole history)  For every state, every history and every duplicate-free list of accounts
    containing the touched ones: the sum of the balances grows by exactly the total of the `fund` operations
    (tokens handed in from accounts outside the model) and by nothing else. -/
theorem c13_sub_supply_exact (s : Subaccount.State) (ops : List Subaccount.Op) (accts : List Nat)
    (hn : accts.Nodup) (hall : ∀ a ∈ Subaccount.sup_touchRun s ops, a ∈ accts) :
    sup_sumOn (Subaccount.run s ops).bank accts = sup_sumOn s.bank accts + Subaccount.sup_fundRun ops :=
  (Subaccount.sup_run_moves ops s).sum accts hn hall

/-- C13.h (subaccount)  SUPPLY NEUTRALITY: over a history without the environment operation `fund` the sum of the
    balances of any duplicate-free list containing the touched accounts is unchanged. -/
theorem c13_sub_supply_constant (s : Subaccount.State) (ops : List Subaccount.Op) (accts : List Nat)
    (hn : accts.Nodup) (hall : ∀ a ∈ Subaccount.sup_touchRun s ops, a ∈ accts)
    (hnf : ∀ op ∈ ops, ∀ a v, op ≠ .fund a v) :
    sup_sumOn (Subaccount.run s ops).bank accts = sup_sumOn s.bank accts := by
  have := c13_sub_supply_exact s ops accts hn hall
  rw [Subaccount.sup_fundRun_zero ops hnf] at this
  simpa using this

/-- C13.h (subaccount)  accounts outside the touched list keep their balance -/
theorem c13_sub_untouched (s : Subaccount.State) (ops : List Subaccount.Op) (a : Nat)
    (ha : a ∉ Subaccount.sup_touchRun s ops) : (Subaccount.run s ops).bank a = s.bank a :=
  (Subaccount.sup_run_moves ops s).frame a ha

/-- C13.h (subaccount), hypothesis-free form -/
theorem c13_sub_supply_support (s : Subaccount.State) (ops : List Subaccount.Op) :
    ∃ l : List Nat, l.Nodup ∧ (∀ a, a ∉ l → (Subaccount.run s ops).bank a = s.bank a) ∧
      sup_sumOn (Subaccount.run s ops).bank l = sup_sumOn s.bank l + Subaccount.sup_fundRun ops ∧
      0 ≤ Subaccount.sup_fundRun ops := by
  have hm := Subaccount.sup_run_moves ops s
  obtain ⟨h1, h2, h3, h4⟩ := hm.support
  exact ⟨_, h1, fun a ha => h4 a (fun h => ha ((h2 a).mpr h)), h3, hm.minted_nonneg⟩

-- =============================================================================================
-- 3. ovm model

/-- C13.i (ovm)  The ovm model has no bank: its state IS the key vault, the two proposal stores and the proposal
    counter, none of which is a balance, so no ovm operation can mint, burn or move tokens. (That the CODE of x/ovm
    makes no bank call is the generated fact `only_reads_and_sends_outside_mint` of C13Facts.) -/
theorem c13_ovm_state_has_no_balances (s : Ovm.State) :
    s = { vault := s.vault, active := s.active, finished := s.finished, count := s.count } := rfl

-- =============================================================================================
-- 4. mint begin-blocker + core traffic, block by block
--    (`sup_Chain` = mint chain × core state × balance of all other accounts, `sup_Chain.block` = BeginBlock of x/mint
--    then the block's core traffic, `sup_Chain.Ledger` = "supply record = sum of all balances":
--    SgeProofs/Lemmas/SupplyBlock.lean; the pairing lives in the proof files, no executable model is changed)

/-- C13.j  MINT + CORE, one block: over a block consisting of the mint begin-blocker followed by ANY list of core
    operations
      (1) the supply record grows by exactly what the fee collector receives, which is never negative,
      (2) the core slice's total is unchanged,
      (3) hence the sum of all balances grows by exactly that amount, and "supply record = sum of all balances" is
          preserved,
      (4) and that amount is the block provision: if `BeginBlocker` returns `ok n` on a running chain, it is `n`. -/
theorem c13_block_supply (p : Mint.Params) (c : sup_Chain) (h : Int) (ops : List Core.Op) :
    let c' := c.block p h ops
    c'.mint.supply - c.mint.supply = c'.mint.collector - c.mint.collector ∧
    0 ≤ c'.mint.supply - c.mint.supply ∧
    c'.core.total = c.core.total ∧
    c'.balances - c.balances = c'.mint.supply - c.mint.supply ∧
    (c.Ledger → c'.Ledger) ∧
    (∀ m n, c.mint.halted = false → Mint.beginBlock p c.mint.minter h c.mint.supply = (m, .ok n) →
      c'.mint.supply = c.mint.supply + n ∧ c'.mint.collector = c.mint.collector + n) := by
  intro c'
  obtain ⟨hm, hr⟩ := sup_block_mint p c h ops
  have ht := sup_block_core_total p c h ops
  obtain ⟨h1, h2⟩ := Mint.c13_minted_to_collector p c.mint h
  have e1 : c'.mint = c.mint.begin p h := hm
  have e2 : c'.rest = c.rest := hr
  have e3 : c'.core.total = c.core.total := ht
  refine ⟨by rw [e1]; exact h1, by rw [e1]; exact h2, e3, ?_, ?_, ?_⟩
  · unfold sup_Chain.balances
    rw [e1, e2, e3]; omega
  · intro hl
    unfold sup_Chain.Ledger sup_Chain.balances at *
    rw [e1, e2, e3]; omega
  · intro m n hh hb
    rw [e1]
    unfold Mint.Chain.begin
    rw [if_neg (by simp [hh]), hb]
    exact ⟨rfl, rfl⟩

/-- C13.j  MINT + CORE, any number of blocks with arbitrary heights and traffic: the core total never changes, the
    supply record and the fee collector grow by the same non-negative amount (the sum of the block provisions), the sum
    of all balances grows by exactly that amount, and the ledger identity is preserved. -/
theorem c13_blocks_supply (p : Mint.Params) (bs : List (Int × List Core.Op)) (c : sup_Chain) :
    let c' := c.blocks p bs
    c'.mint.supply - c.mint.supply = c'.mint.collector - c.mint.collector ∧
    0 ≤ c'.mint.supply - c.mint.supply ∧
    c'.core.total = c.core.total ∧
    c'.balances - c.balances = c'.mint.supply - c.mint.supply ∧
    (c.Ledger → c'.Ledger) := by
  induction bs generalizing c with
  | nil =>
    refine ⟨by simp [sup_Chain.blocks], by simp [sup_Chain.blocks], rfl, by simp [sup_Chain.blocks], fun h => h⟩
  | cons b rest ih =>
    intro c'
    obtain ⟨a1, a2, a3, a4, a5, _⟩ := c13_block_supply p c b.1 b.2
    obtain ⟨b1, b2, b3, b4, b5⟩ := ih (c.block p b.1 b.2)
    have e : c' = (c.block p b.1 b.2).blocks p rest := rfl
    rw [e]
    refine ⟨by omega, by omega, by rw [b3, a3], by omega, fun h => b5 (a5 h)⟩

-- =============================================================================================
-- 5. genesis import never touches a balance

/-- C13.k (core genesis)  Whatever the genesis file contains, InitGenesis of bet, market, orderbook and house leaves
    every balance — hence the total — of the chain it is imported into unchanged. -/
theorem c13_import_core_balances (g : Genesis.CoreGen) (base s' : Core.State) (h : Genesis.importCore g base = some s') :
    s'.bal = base.bal ∧ s'.total = base.total := by
  have e := Genesis.sup_importCore_bal g base s' h
  exact ⟨e, by unfold Core.State.total; rw [e]⟩

/-- C13.k  export followed by import into the fresh chain keeps every balance and the total -/
theorem c13_import_export_core_balances (s s' : Core.State)
    (h : Genesis.importCore (Genesis.exportCore s) (Genesis.freshCore s) = some s') :
    s'.bal = s.bal ∧ s'.total = s.total :=
  c13_import_core_balances (Genesis.exportCore s) (Genesis.freshCore s) s' h

/-- C13.k (subaccount genesis)  Whatever the genesis file contains, InitGenesis of x/subaccount leaves the bank of the
    chain it is imported into unchanged; in particular import ∘ export keeps every balance. (The genesis states of
    reward, ovm and mint in `Sge.Genesis` — `RewardStores`, `Ovm.State`, `Minter × Params` — have no balance field:
    campaign pools are bookkeeping records, the supply is the bank's.) -/
theorem c13_import_sub_balances (g : Genesis.SubGen) (base : Subaccount.State) :
    (Genesis.importSub g base).bank = base.bank :=
  Genesis.sup_importSub_bank g base

theorem c13_import_export_sub_balances (s : Subaccount.State) (g : Genesis.SubGen) (_ : Genesis.exportSub s = some g) :
    (Genesis.importSub g s).bank = s.bank :=
  Genesis.sup_importSub_bank g s

-- =============================================================================================
-- non-vacuity

/-- reward: promoter 1 funds a campaign with 1000, one grant pays 25 to account 3 and 100 to its subaccount; the
    touched accounts are {1, 3, 500 (pool), 1003}; their sum stays 10000 while every one of them changed -/
example :
    let s0 := Reward.init false (fun a => if a < 12 then 5000 else 0)
    let ops : List Reward.Op :=
      [ .time 100,
        .createPromoter { creator := 1, tv := true, uid := 7, uidOk := true, conf := [(1, 2)] },
        .createCampaign { creator := 1, uid := 20, funds := some 1000, tv := true, promoter := 1, startTS := 100, endTS := 200,
                          category := 1, rtype := 1, amtType := 1,
                          ra := some { main := some 25, sub := some 100, unlock := 10, mainPct := none, subPct := none },
                          active := true, capCount := 1, cons := none },
        .grant { creator := 2, uid := 30, campaign := 20, tv := true, receiver := 3, kyc := some (false, true, true),
                 srcOk := true, referee := 0, bet := 0 } ]
    let accts := [1, 3, 500, 1003]
    accts.Nodup ∧ (∀ a ∈ Reward.sup_touchRun s0 ops, a ∈ accts) ∧ (∀ a ∈ Reward.sup_namedRun ops, a ∈ accts) ∧
    s0.campaigns = [] ∧
    accts.map s0.bank = [5000, 5000, 0, 0] ∧ accts.map (Reward.run s0 ops).bank = [4000, 5025, 875, 100] ∧
    sup_sumOn (Reward.run s0 ops).bank accts = 10000 := by
  decide +kernel

/-- subaccount: the lock history of C11 (fund 1000, create with 200 locked, two withdrawals): the touched accounts are
    {0, 1, 1001}; their sum grows by the funded 1000 and by nothing else -/
example :
    let s0 := Subaccount.init false (fun _ => 0)
    let ops : List Subaccount.Op :=
      [.fund 0 1000, .create 0 1 [(10, 100), (20, 100)], .advance 15, .withdrawUnlocked 1, .withdrawUnlocked 1]
    let accts := [0, 1, 1001]
    accts.Nodup ∧ (∀ a ∈ Subaccount.sup_touchRun s0 ops, a ∈ accts) ∧ Subaccount.sup_fundRun ops = 1000 ∧
    accts.map (Subaccount.run s0 ops).bank = [800, 200, 0] ∧
    sup_sumOn (Subaccount.run s0 ops).bank accts = sup_sumOn s0.bank accts + 1000 := by
  decide +kernel

/-- mint + core: a block that mints 123 tokens (phase of 10 blocks, provisions 1234.5) and carries a market, a house
    deposit and a bet; the ledger identity holds before and after, the core total is unchanged -/
example :
    let p : Mint.Params := { blocksPerYear := 20, exclude := 0, phases := [⟨⟨PREC / 10⟩, ⟨PREC / 2⟩⟩] }
    let tk : Core.Tk := { ok := true, kycIgnore := true, kycApproved := false, kycId := 0 }
    let pl : Core.WagerPayload :=
      { market := 1, odds := 11, oddsVal := some ⟨2 * PREC⟩, mult := ⟨PREC⟩, allOdds := [(11, ⟨PREC⟩), (12, ⟨PREC⟩)] }
    let c : sup_Chain :=
      { mint := { supply := 200000500, collector := 0,
                  minter := { inflation := ⟨PREC / 10⟩, phaseStep := 1, phaseProvisions := ⟨1234 * PREC + PREC / 2⟩, truncated := ⟨0⟩ } },
        core := { bal := [(7, 100000000), (8, 100000000), (9, 0)], time := 100 },
        rest := 500 }
    let ops : List Core.Op :=
      [.marketAdd 9 tk 1 50 500 [11, 12] Core.MS_ACTIVE, .deposit 7 tk 1 50000000 0, .wager 8 tk 77 2000000 pl]
    let c' := c.block p 2 ops
    c.Ledger ∧ c'.Ledger ∧ c'.mint.supply = 200000623 ∧ c'.mint.collector = 123 ∧ c'.core.total = 200000000 ∧
    Core.getBal c'.core.bal Core.ACC_POOL = 46999900 := by
  decide +kernel

end Sge
