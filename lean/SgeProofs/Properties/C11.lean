/-
  C11  Subaccount balances add up and time locks cannot be bypassed.

  Model: `Sge.Subaccount` (x/subaccount message servers, keeper, hooks; reward top-ups). Histories are arbitrary
  lists of `Op` (create / top-up / withdraw-unlocked / wager / house-deposit / house-withdraw / reward grant /
  settlement callbacks in any order / direct bank sends / block-time advances) run from `initCfg fixed fixedNeg fixedRet bank0`.
  `init false …` is the code as it is. Three independent model flags select the patched code:
    `fixed`    repo_patches/sub_unlocked_withdraw.diff    (unlocked total minus what was already withdrawn)
    `fixedNeg` repo_patches/sub_wager_nonneg_deduct.diff  (wager ticket payload rejects negative deductions)
    `fixedRet` repo_patches/sub_wager_return_untaken.diff (what the bet module did not take goes back to the subaccount)

  The calls into x/bet, x/house, x/orderbook are parameters of the operations (modelling boundary); theorems that
  depend on what those modules do state the contract they need (`ExtOK`, `ExtExact`, `charged`), the
  correspondence suite checks that contract on the real modules (monitor `ext_contract`, `locked_exit_only_staked`).

  STATUS on the unchanged tree (each reproduced on /repo by the suite):
   * `lock_bound` is FALSE of the code as it is (`c11_lock_bound_counterexample`, monitor class
     `withdraw-unlocked-repeated`); what does hold is `c11_lock_bound_partial`; the full bound `c11_lock_bound` is
     proved for the patched variant.
   * "a subaccount wager never increases the owner's free balance" is FALSE of the code as it is
     (`c11_wager_negative_deduct_counterexample`, class `wager-negative-main-deduct`;
      `c11_wager_undercharged_counterexample`, class `wager-undercharged-by-bet-module`); what does hold is
     `c11_wager_no_gain_partial`; `c11_wager_no_gain` is proved for the patched variant.
-/
import SgeProofs.Lemmas.SubaccountWager
namespace Sge.Subaccount

/-- C11.a `summary_nonneg`: in every reachable state none of Deposited / Spent / Withdrawn / Lost is negative. -/
theorem c11_summary_nonneg (fixed fixedNeg fixedRet : Bool) (bank0 : Nat → Int) (hb : ∀ a, 0 ≤ bank0 a) (ops : List Op)
    (a : Nat) (sub : Sub) (h : (run (initCfg fixed fixedNeg fixedRet bank0) ops).subs a = some sub) :
    0 ≤ sub.sum.deposited ∧ 0 ≤ sub.sum.spent ∧ 0 ≤ sub.sum.withdrawn ∧ 0 ≤ sub.sum.lost := by
  have := ((run_inv (initCfg_inv fixed fixedNeg fixedRet bank0 hb) ops).subOK a sub h).sum
  exact ⟨this.dep, this.spent, this.wd, this.lost⟩

/-- C11.b `one_sub_per_owner`: the owner→subaccount and subaccount→owner stores are mutually inverse, hence no owner
    has two subaccounts; every subaccount record has both map entries. -/
theorem c11_one_sub_per_owner (fixed fixedNeg fixedRet : Bool) (bank0 : Nat → Int) (hb : ∀ a, 0 ≤ bank0 a) (ops : List Op) :
    let s := run (initCfg fixed fixedNeg fixedRet bank0) ops
    (∀ o a, s.ownerMap o = some a ↔ s.subMap a = some o) ∧
    (∀ a1 a2 o, s.subMap a1 = some o → s.subMap a2 = some o → a1 = a2) ∧
    (∀ a, (s.subs a).isSome ↔ (s.subMap a).isSome) := by
  intro s
  have hinv := run_inv (initCfg_inv fixed fixedNeg fixedRet bank0 hb) ops
  refine ⟨hinv.mapsInv, ?_, hinv.subsDom⟩
  intro a1 a2 o h1 h2
  have e1 := (hinv.mapsInv o a1).mpr h1
  have e2 := (hinv.mapsInv o a2).mpr h2
  rw [e1] at e2
  exact Option.some.inj e2

/-- C11.c `bank_ge_available`: if every operation respects the boundary contract `ExtOK` (signers are key-holding
    accounts; the house deposit takes at most the amount; the house withdrawal pays at least what it reports; each
    settlement payout covers what its hook books), every subaccount address holds at least
    Deposited − Withdrawn − Spent − Lost. -/
theorem c11_bank_ge_available (fixed fixedNeg fixedRet : Bool) (bank0 : Nat → Int) (hb : ∀ a, 0 ≤ bank0 a) (ops : List Op)
    (hok : ∀ op ∈ ops, ExtOK op) (a : Nat) (sub : Sub) (h : (run (initCfg fixed fixedNeg fixedRet bank0) ops).subs a = some sub) :
    sub.sum.available ≤ (run (initCfg fixed fixedNeg fixedRet bank0) ops).bank a := by
  have hinv0 := initCfg_inv fixed fixedNeg fixedRet bank0 hb
  have hinv := run_inv hinv0 ops
  have h0 : ∀ x, subBase ≤ x → 0 ≤ surplus (initCfg fixed fixedNeg fixedRet bank0) x := by
    intro x _
    simp only [surplus, availOf, initCfg]
    have := hb x; omega
  have := (run_surplus_nonneg hinv0 (by intro a o h; simp [initCfg] at h) h0 ops hok).2 a (hinv.range a (by simp [h])).1
  simp only [surplus, availOf, h] at this
  omega

/-- C11.c' `bank_eq_available`: … with equality when, in addition, the contract holds exactly (`ExtExact`), no
    address of the subaccount range was pre-funded, and nobody sent tokens directly (ghost flag `clean`: cleared only
    by a bank send / funding to an address of the subaccount range, or by a custody payout to such an address that
    has no subaccount). -/
theorem c11_bank_eq_available (fixed fixedNeg fixedRet : Bool) (bank0 : Nat → Int) (hb : ∀ a, 0 ≤ bank0 a) (hz : ∀ a, subBase ≤ a → bank0 a = 0)
    (ops : List Op) (hok : ∀ op ∈ ops, ExtOK op ∧ ExtExact op)
    (hclean : (run (initCfg fixed fixedNeg fixedRet bank0) ops).clean = true)
    (a : Nat) (sub : Sub) (h : (run (initCfg fixed fixedNeg fixedRet bank0) ops).subs a = some sub) :
    (run (initCfg fixed fixedNeg fixedRet bank0) ops).bank a = sub.sum.available := by
  have hinv0 := initCfg_inv fixed fixedNeg fixedRet bank0 hb
  have hinv := run_inv hinv0 ops
  have hb0 : InvBank (initCfg fixed fixedNeg fixedRet bank0) := by
    refine ⟨by intro a o h; simp [initCfg] at h, ?_, ?_⟩
    · intro x _
      simp only [surplus, availOf, initCfg]
      have := hb x; omega
    · intro _ x hx
      simp only [surplus, availOf, initCfg, hz x hx]
      omega
  have := (run_invBank hinv0 hb0 ops hok).eq hclean a (hinv.range a (by simp [h])).1
  simp only [surplus, availOf, h] at this
  omega

/-- C11.d `hooks_total`: a settlement hook cannot fail (panic — which inside the end-blocker halts the chain) when
    the amount to un-spend is within [0, Spent], the loss is non-negative, and (house win) the profit is
    non-negative and covered by the subaccount's bank balance. Addresses without a subaccount are ignored. -/
theorem c11_hooks_total (fixed fixedNeg fixedRet : Bool) (bank0 : Nat → Int) (hb : ∀ a, 0 ≤ bank0 a) (ops : List Op)
    (k : HookKind) (house : Nat) (x y : Int) :
    let s := run (initCfg fixed fixedNeg fixedRet bank0) ops
    (s.subs house = none → (hook s k house x y).2 = .ok) ∧
    (∀ sub, s.subs house = some sub → 0 ≤ x → x ≤ sub.sum.spent →
      (k = .loss → 0 ≤ y) → (k = .win → 0 ≤ y ∧ y ≤ s.bank house) → (hook s k house x y).2 = .ok) := by
  intro s
  have hinv : Inv s := run_inv (initCfg_inv fixed fixedNeg fixedRet bank0 hb) ops
  constructor
  · intro hs
    unfold hook
    cases k <;> simp [hookWin, hookLoss, hookRefund, hs]
  · intro sub hs h0 h1 hl hw
    obtain ⟨m1, hm1⟩ := unspend_isSome h0 h1
    cases k with
    | win =>
      obtain ⟨hy0, hy1⟩ := hw rfl
      have hdom := (hinv.subsDom house).mp (by simp [hs])
      obtain ⟨owner, ho⟩ := Option.isSome_iff_exists.mp hdom
      obtain ⟨b', hb'⟩ := send_isSome (f := house) (t := owner) (b := s.bank) hy0 hy1
      simp [hook, hookWin, hs, hm1, ho, hb']
    | loss =>
      obtain ⟨m2, hm2⟩ := addLoss_isSome (m := m1) (hl rfl)
      simp [hook, hookLoss, hs, hm1, hm2]
    | refund => simp [hook, hookRefund, hs, hm1]
    | feeRefund => simp [hook, hookRefund, hs, hm1]

/-- C11.d' the precondition is sharp: asking a hook to un-spend more than Spent panics (every kind). -/
theorem c11_hook_panics_beyond_spent (s : State) (k : HookKind) (house : Nat) (x y : Int) (sub : Sub)
    (hs : s.subs house = some sub) (hx : sub.sum.spent < x) : (hook s k house x y).2 = .panic := by
  have := unspend_none_of_gt hx
  cases k <;> simp [hook, hookWin, hookLoss, hookRefund, hs, this]

/-- C11.e `lock_bound` (code with sub_unlocked_withdraw.diff, `fixed = true`, with or without the other two patches): at every point of every history the total released by
    unlocked-balance withdrawals is at most the total of the locks whose unlock time has passed. -/
theorem c11_lock_bound (fixedNeg fixedRet : Bool) (bank0 : Nat → Int) (hb : ∀ a, 0 ≤ bank0 a) (ops : List Op)
    (a : Nat) (sub : Sub) (h : (run (initCfg true fixedNeg fixedRet bank0) ops).subs a = some sub) :
    sub.released ≤ unlockedSum (run (initCfg true fixedNeg fixedRet bank0) ops).now sub.locks := by
  have hinv := run_inv (initCfg_inv true fixedNeg fixedRet bank0 hb) ops
  have hfix : (run (initCfg true fixedNeg fixedRet bank0) ops).fixed = true := by
    have : ∀ (s : State) (ops : List Op), (run s ops).fixed = s.fixed := by
      intro s ops
      unfold run
      induction ops generalizing s with
      | nil => rfl
      | cons op rest ih =>
        simp only [List.foldl_cons]
        rw [ih]
        exact (step_fixed s op)
    rw [this]; rfl
  exact (hinv.subOK a sub h).lockFull hfix

/-
  Full statement for the code as it is (FALSE, see the counter-example below):

    theorem c11_lock_bound_asis (bank0) (hb) (ops) (a sub) (h : (run (init false bank0) ops).subs a = some sub) :
        sub.released ≤ unlockedSum (run (init false bank0) ops).now sub.locks
-/

/-- the history of DESIGN.md §9.4: 200 locked in two halves (unlock 10 and 20), block time 15, two withdrawals -/
def lockCex : List Op :=
  [.fund 0 1000, .create 0 1 [(10, 100), (20, 100)], .advance 15, .withdrawUnlocked 1, .withdrawUnlocked 1]

/-- C11.e COUNTER-EXAMPLE for the code as it is: after `lockCex` the subaccount has released 200 although only 100
    has reached its unlock time; the owner's free balance is 200. -/
theorem c11_lock_bound_counterexample :
    ∃ sub, (run (init false (fun _ => 0)) lockCex).subs (addrOf 1) = some sub ∧
      sub.released = 200 ∧ unlockedSum (run (init false (fun _ => 0)) lockCex).now sub.locks = 100 ∧
      (run (init false (fun _ => 0)) lockCex).bank 1 = 200 ∧
      ¬ sub.released ≤ unlockedSum (run (init false (fun _ => 0)) lockCex).now sub.locks := by
  have h : ((run (init false (fun _ => 0)) lockCex).subs (addrOf 1)).isSome = true := by decide
  obtain ⟨sub, hs⟩ := Option.isSome_iff_exists.mp h
  refine ⟨sub, hs, ?_⟩
  have h1 : ((run (init false (fun _ => 0)) lockCex).subs (addrOf 1)).map (·.released) = some 200 := by decide
  have h2 : ((run (init false (fun _ => 0)) lockCex).subs (addrOf 1)).map
      (fun sub => unlockedSum (run (init false (fun _ => 0)) lockCex).now sub.locks) = some 100 := by decide
  have h3 : (run (init false (fun _ => 0)) lockCex).bank 1 = 200 := by decide
  rw [hs] at h1 h2
  simp only [Option.map_some, Option.some.injEq] at h1 h2
  refine ⟨h1, h2, h3, ?_⟩
  rw [h1, h2]; decide

/-- the same history on the patched code releases exactly the unlocked 100 (the second withdrawal is refused) -/
theorem c11_lock_bound_cex_fixed :
    ((run (init true (fun _ => 0)) lockCex).subs (addrOf 1)).map (·.released) = some 100 ∧
    (step (run (init true (fun _ => 0)) (lockCex.take 4)) (.withdrawUnlocked 1)).2 = .err .nothing := by
  constructor <;> decide

/-- C11.e `lock_bound_partial` (what does hold of the code as it is, and of the patched code): every single
    unlocked-balance withdrawal releases at most the unlocked total, so the total released is at most
    (number of successful unlocked-balance withdrawals) × (total whose unlock time has passed). In particular the
    bound of C11 holds as long as the subaccount made at most one such withdrawal.
    Excluded: histories with a second successful WithdrawUnlockedBalances of the same subaccount. -/
theorem c11_lock_bound_partial (fixed fixedNeg fixedRet : Bool) (bank0 : Nat → Int) (hb : ∀ a, 0 ≤ bank0 a) (ops : List Op)
    (a : Nat) (sub : Sub) (h : (run (initCfg fixed fixedNeg fixedRet bank0) ops).subs a = some sub) :
    sub.released ≤ sub.nRel * unlockedSum (run (initCfg fixed fixedNeg fixedRet bank0) ops).now sub.locks ∧
    (sub.nRel ≤ 1 → sub.released ≤ unlockedSum (run (initCfg fixed fixedNeg fixedRet bank0) ops).now sub.locks) ∧
    sub.released ≤ sub.sum.withdrawn := by
  have hinv := run_inv (initCfg_inv fixed fixedNeg fixedRet bank0 hb) ops
  have hok := hinv.subOK a sub h
  have hU := unlockedSum_nonneg (run (initCfg fixed fixedNeg fixedRet bank0) ops).now sub.locks hok.locks
  refine ⟨hok.lockPartial, ?_, ?_⟩
  · intro hn
    have h1 := hok.lockPartial
    have hcases : sub.nRel = 0 ∨ sub.nRel = 1 := by omega
    rcases hcases with e | e
    · rw [e] at h1; simp at h1; omega
    · rw [e] at h1; simp at h1; exact h1
  · have := hok.wdSplit
    have := hok.wagNonneg
    omega

/-- C11.f `transfers_to_owner_kinds`: every bank transfer from a subaccount address to its owner that the module
    performs is an unlocked-balance withdrawal, a wager deduction or forwarded house profit (`toOwner` counts all
    of them at the three call sites of `SendCoins(subaccount → owner)`), and Withdrawn = released + wagered. -/
theorem c11_transfers_to_owner_kinds (fixed fixedNeg fixedRet : Bool) (bank0 : Nat → Int) (hb : ∀ a, 0 ≤ bank0 a) (ops : List Op)
    (a : Nat) (sub : Sub) (h : (run (initCfg fixed fixedNeg fixedRet bank0) ops).subs a = some sub) :
    sub.toOwner = sub.released + sub.wagered + sub.profitOut ∧ sub.sum.withdrawn = sub.released + sub.wagered ∧
    0 ≤ sub.released ∧ 0 ≤ sub.wagered ∧ 0 ≤ sub.profitOut := by
  have hok := (run_inv (initCfg_inv fixed fixedNeg fixedRet bank0 hb) ops).subOK a sub h
  exact ⟨hok.toOwnerSplit, hok.wdSplit, hok.relNonneg, hok.wagNonneg, hok.profNonneg⟩

/-- C11.g `locked_exit_only_staked`, wager step: a successful subaccount wager of a key-holding owner (not a
    custody module account) changes the owner's free balance by exactly
    (subaccount deduction − what the bet module charged − what the patched code sends back). On the code as it
    is (`fixedRet = false`, nothing is sent back) the deduction is therefore moved on into custody — the owner's
    free balance does not grow — iff the bet module charges at least the deduction. On the unchanged tree it does
    not always: under-charged and zero-part bets, DESIGN.md §9 items 1–2 (suite monitor class
    `wager-undercharged-by-bet-module`), and tickets with a negative main-account deduction (class
    `wager-negative-main-deduct`). -/
theorem c11_wager_owner_balance (s : State) (hinv : Inv s) (hop : OwnersPlain s) (owner : Nat) (main sub : Int) (x : WagerExt)
    (hne : owner ≠ extAcct) (hok : (wager s owner main sub x).2 = .ok) :
    (wager s owner main sub x).1.bank owner =
      s.bank owner + sub - x.charged - (if s.fixedRet then max 0 (min (main + sub - x.charged) sub) else 0) := by
  have := wager_owner_balance hinv hop hne hok
  simpa [returned] using this

/-
  Full statement wanted for every wager step (FALSE of the code as it is, see the two counter-examples below):
    "a successful subaccount wager never increases the owner's free balance"
      theorem c11_wager_no_gain_asis (s) (hinv) (hop) (owner main sub x) (hne) (hok : (wager s owner main sub x).2 = .ok) :
        (wager s owner main sub x).1.bank owner ≤ s.bank owner
-/

/-- 100 locked until time 50; at time 0 a ticket with main-account deduction −95 and subaccount deduction 100 for a
    bet of 5 (the parts add up to the bet amount, which is all the payload validation checks) -/
def negCex : List Op :=
  [.fund 0 1000, .create 0 1 [(50, 100)],
   .wager 1 (-95) 100 { pre := 0, betAmount := 5, wagerOk := true, charged := 5 }]

/-- C11.g COUNTER-EXAMPLE 1 for the code as it is: the bet module charges the full bet amount (5), yet 95 locked
    tokens end up in the owner's free balance although nothing has been unlocked or released. -/
theorem c11_wager_negative_deduct_counterexample :
    (run (init false (fun _ => 0)) negCex).bank 1 = 95 ∧
    ((run (init false (fun _ => 0)) negCex).subs (addrOf 1)).map
      (fun sub => (sub.released, unlockedSum (run (init false (fun _ => 0)) negCex).now sub.locks, sub.wagered, sub.staked))
      = some (0, 0, 100, 5) := by
  constructor <;> decide

/-- with repo_patches/sub_wager_nonneg_deduct.diff the same message is rejected by the payload validation -/
theorem c11_wager_negative_deduct_cex_fixed :
    (step (run (init2 false true (fun _ => 0)) (negCex.take 2))
      (.wager 1 (-95) 100 { pre := 0, betAmount := 5, wagerOk := true, charged := 5 })).2 = .err .payload ∧
    (run (init2 false true (fun _ => 0)) negCex).bank 1 = 0 := by
  constructor <;> decide

/-- 100 locked until time 50; a wager of 9 paid entirely by the subaccount of which the bet module takes only 1
    (a bet whose stake needs no liquidity is charged the fee only — observed on the unchanged tree) -/
def underCex : List Op :=
  [.fund 0 1000, .create 0 1 [(50, 100)],
   .wager 1 0 9 { pre := 0, betAmount := 9, wagerOk := true, charged := 1 }]

/-- C11.g COUNTER-EXAMPLE 2 for the code as it is: 8 locked tokens stay in the owner's free balance. -/
theorem c11_wager_undercharged_counterexample :
    (run (init2 false true (fun _ => 0)) underCex).bank 1 = 8 ∧
    ((run (init2 false true (fun _ => 0)) underCex).subs (addrOf 1)).map
      (fun sub => (sub.released, unlockedSum (run (init2 false true (fun _ => 0)) underCex).now sub.locks, sub.sum.withdrawn))
      = some (0, 0, 9) := by
  constructor <;> decide

/-- with repo_patches/sub_wager_return_untaken.diff the 8 tokens go back to the subaccount -/
theorem c11_wager_undercharged_cex_fixed :
    (run (initFixed (fun _ => 0)) underCex).bank 1 = 0 ∧
    (run (initFixed (fun _ => 0)) underCex).bank (addrOf 1) = 99 ∧
    ((run (initFixed (fun _ => 0)) underCex).subs (addrOf 1)).map (fun sub => sub.sum.withdrawn) = some 1 := by
  refine ⟨?_, ?_, ?_⟩ <;> decide

/-- C11.g `wager_no_gain` (code with sub_wager_nonneg_deduct.diff and sub_wager_return_untaken.diff): a successful
    subaccount wager never increases the owner's free balance, whatever the bet module charges — the whole
    subaccount deduction is either moved on into custody or returned to the subaccount. -/
theorem c11_wager_no_gain (s : State) (hinv : Inv s) (hop : OwnersPlain s) (owner : Nat) (main sub : Int) (x : WagerExt)
    (hne : owner ≠ extAcct) (hneg : s.fixedNeg = true) (hret : s.fixedRet = true) (hch : 0 ≤ x.charged)
    (hok : (wager s owner main sub x).2 = .ok) :
    (wager s owner main sub x).1.bank owner ≤ s.bank owner := by
  obtain ⟨_, _, _, hsum, hnn⟩ := wager_ok_spec hok
  have := hnn hneg
  rw [c11_wager_owner_balance s hinv hop owner main sub x hne hok, hret]
  simp only [if_true]
  omega

/-- C11.g `wager_no_gain_partial` (code as it is): the same conclusion when the ticket's main-account deduction is
    non-negative and the bet module charges exactly the bet amount.
    Excluded: tickets with a negative deduction; bets the bet module charges less than the requested amount. -/
theorem c11_wager_no_gain_partial (s : State) (hinv : Inv s) (hop : OwnersPlain s) (owner : Nat) (main sub : Int) (x : WagerExt)
    (hne : owner ≠ extAcct) (hmain : 0 ≤ main) (hch : x.charged = x.betAmount)
    (hok : (wager s owner main sub x).2 = .ok) :
    (wager s owner main sub x).1.bank owner ≤ s.bank owner := by
  obtain ⟨_, _, _, hsum, _⟩ := wager_ok_spec hok
  rw [c11_wager_owner_balance s hinv hop owner main sub x hne hok]
  split <;> omega

/-- non-vacuity: a concrete history with real structure (two owners, top-up by a third party, reward grant, house
    deposit, settlement callbacks, wager) satisfies the hypotheses of the theorems above: every op respects
    `ExtOK ∧ ExtExact`, the state is `clean`, and the subaccounts are non-trivial. -/
def sampleOps : List Op :=
  [.fund 0 1000, .fund 2 500, .fund poolAcct 300, .fund extAcct 100, .params true true,
   .create 0 1 [(10, 100), (20, 100)], .topUp 2 1 [(30, 50)], .grant 2 3 40 5, .advance 12,
   .withdrawUnlocked 1,
   .houseDeposit 1 60 { tkOk := true, depOk := true, taken := 60 },
   .settle .win (addrOf 1) 70 54 16, .settle .feeRefund (addrOf 1) 6 6 0,
   .wager 1 0 30 { pre := 0, betAmount := 30, wagerOk := true, charged := 30 }]

example : (∀ op ∈ sampleOps, ExtOK op ∧ ExtExact op) ∧ (run (init true (fun _ => 0)) sampleOps).clean = true ∧
    ((run (init true (fun _ => 0)) sampleOps).subs (addrOf 1)).map (fun s => (s.sum, s.released, s.wagered, s.profitOut))
      = some ({ deposited := 250, spent := 0, withdrawn := 130, lost := 0 }, 100, 30, 16) ∧
    (run (init true (fun _ => 0)) sampleOps).bank (addrOf 1) = 120 := by
  refine ⟨?_, by decide, by decide, by decide⟩
  intro op hop
  simp only [sampleOps, List.mem_cons, List.mem_nil_iff, or_false] at hop
  rcases hop with rfl | rfl | rfl | rfl | rfl | rfl | rfl | rfl | rfl | rfl | rfl | rfl | rfl | rfl <;>
    simp [ExtOK, ExtExact, hookBooks, subBase]

end Sge.Subaccount
