/-
  C10  The bet records and the order-book records always tell the same story.
  Proved on the model (for every state, per event): a fulfilment books the same stake and promised profit into the
  bet's backing part, the participation's totals and the participation's exposure of that outcome, names the
  in-process participation and its depositor, and records the participation–bet pair; a deposit adds exactly one
  participation and increments the book's counter to its index; the model keeps ONE exposure list, the by-odds
  and by-index stores of the implementation are compared for equality after every operation by the harness
  (monitor `index_equal`), as are the whole-history sums (monitors `total_bet_eq`, `exposure_eq`). The inductive
  proof of the whole-history sums — via the queue well-formedness invariant `QInv` (each index visited at most once
  per wager) — is in SgeProofs/Properties/C10Sums.lean (`c10_total_bet_eq`, `c10_exposure_eq`, `c10_parts_wellformed`,
  `c10_participation_count`, `c10_queues_wellformed`).
-/
import SgeProofs.Lemmas.CustodyOps
namespace Sge.Core
open Sge Sge.Genesis

/-- C10.a  One fulfilment: the part appended to the bet carries exactly the amounts added to the participation's
    totals and to its exposure for the wagered outcome; it names that participation and its depositor; the
    participation–bet pair is recorded; nothing else of participation and exposure changes. -/
theorem c10_fulfilment_books_both_sides (o : Nat) (ov mult : Dec) (thr : Int) (f : FInfo) (pe : Part × PExp)
    (b π : Int) (h : (decide1 ov thr (availLiq mult pe.1 pe.2) f.payoutProfit.truncInt f.betAmount f.trunc).1 = some (b, π)) :
    let r := stage1 o ov mult thr f pe
    r.2.2.2.fulfs = f.fulfs ++ [{ addr := pe.1.addr, idx := pe.1.idx, bet := b, profit := π }] ∧
    r.1.totalBet = pe.1.totalBet + b ∧ r.1.crTotalBet = pe.1.crTotalBet + b ∧
    r.2.1.exposure = pe.2.exposure + π ∧ r.2.1.bet = pe.2.bet + b ∧
    r.1.idx = pe.1.idx ∧ r.1.addr = pe.1.addr ∧ r.2.1.odds = pe.2.odds ∧ r.2.1.idx = pe.2.idx ∧ r.2.1.round = pe.2.round ∧
    r.2.2.2.book = f.book.addPair pe.1.idx f.betId := by
  intro r
  have hc := applyFul_sameCust o pe.1 pe.2 b π
  have hr : r = stage1 o ov mult thr f pe := rfl
  unfold stage1 at hr
  simp only [h] at hr
  have ht : (applyFul o pe.1 pe.2 b π).1.totalBet = pe.1.totalBet + b ∧ (applyFul o pe.1 pe.2 b π).1.crTotalBet = pe.1.crTotalBet + b := by
    unfold applyFul setMaxLoss
    simp only
    split
    · exact ⟨rfl, rfl⟩
    · split <;> exact ⟨rfl, rfl⟩
  rw [hr]
  simp only
  refine ⟨?_, ht.1, ht.2, rfl, rfl, hc.1, hc.2.2.2.2.2, rfl, rfl, rfl, ?_⟩
  · rw [hc.1, hc.2.2.2.2.2]
  · rw [hc.1]

/-- C10.b  A visit that decides no fulfilment leaves the bet's parts alone. -/
theorem c10_no_fulfilment_no_part (o : Nat) (ov mult : Dec) (thr : Int) (f : FInfo) (pe : Part × PExp)
    (h : (decide1 ov thr (availLiq mult pe.1 pe.2) f.payoutProfit.truncInt f.betAmount f.trunc).1 = none) :
    (stage1 o ov mult thr f pe).2.2.2.fulfs = f.fulfs ∧ (stage1 o ov mult thr f pe).1 = pe.1 ∧ (stage1 o ov mult thr f pe).2.1 = pe.2 := by
  unfold stage1
  simp [h]

theorem upsert_length_of_new {α : Type} (key : α → List Nat) (x : α) (l : List α) (h : ∀ y ∈ l, key y ≠ key x) :
    (upsert key x l).length = l.length + 1 := by
  induction l with
  | nil => rfl
  | cons y ys ih =>
    unfold upsert
    have h1 : (key y == key x) = false := by
      have := h y (List.mem_cons_self ..); simpa using this
    simp only [h1, Bool.false_eq_true, if_false]
    split
    · rfl
    · simp only [List.length_cons]
      rw [ih (fun z hz => h z (List.mem_cons_of_mem _ hz))]

/-- C10.c  A deposit adds exactly one participation — index = old counter + 1 — and sets the counter to it;
    all other participations are kept. -/
theorem c10_deposit_counter (b : Book) (addr : Nat) (liq fee : Int) (hs : Sorted Part.key b.parts)
    (hnew : b.getPart (b.partCount + 1) = none) :
    (b.addParticipation addr liq fee).1.partCount = b.partCount + 1 ∧
    (b.addParticipation addr liq fee).2 = b.partCount + 1 ∧
    (b.addParticipation addr liq fee).1.getPart (b.partCount + 1) = some (b.newPart addr liq fee) ∧
    (b.addParticipation addr liq fee).1.parts.length = b.parts.length + 1 := by
  have hf := initExposuresFold_parts (b.partCount + 1) (b.setPart (b.newPart addr liq fee)).queues (b.setPart (b.newPart addr liq fee))
  refine ⟨rfl, rfl, ?_, ?_⟩
  · unfold Book.addParticipation Book.getPart
    simp only
    rw [hf.1]
    exact lookup_upsert_self Part.key (b.newPart addr liq fee) b.parts
  · unfold Book.addParticipation
    simp only
    rw [hf.1]
    show (upsert Part.key (b.newPart addr liq fee) b.parts).length = _
    apply upsert_length_of_new
    intro y hy hk
    have : lookup Part.key (Part.key (b.newPart addr liq fee)) b.parts = none := hnew
    unfold lookup at this
    rw [List.find?_eq_none] at this
    exact this y hy (by simpa using hk)

/-- C10.d  The wager loop never creates or removes a participation and never changes whom it belongs to
    (every participation after the wager has the same index, depositor, liquidity, fee as one before). -/
theorem c10_wager_keeps_participations (b b' : Book) (o betId : Nat) (ov mult : Dec) (mo : List Nat) (ms : List (Nat × Dec))
    (thr A : Int) (P : Dec) (fulfs : List Fulf) (taken : Int) (hs : Sorted Part.key b.parts)
    (h : processWager b o betId ov mult mo ms thr A P = some (b', fulfs, taken)) :
    ∀ q ∈ b'.parts, ∃ q0 ∈ b.parts, q.idx = q0.idx ∧ q.addr = q0.addr ∧ q.liq = q0.liq ∧ q.fee = q0.fee := by
  intro q hq
  obtain ⟨q0, hq0, hc⟩ := (processWager_custody _ _ _ _ _ _ _ _ _ _ _ _ _ hs h).2.2.2.2 q hq
  exact ⟨q0, hq0, hc.1, hc.2.2.2.2.2, hc.2.1, hc.2.2.2.1⟩

end Sge.Core
