/-
  C16 (genesis): order of InitGenesis, read off `app/modules.go` by the translator (`Sge.Gen.Consts`).
-/
import Sge.Gen.Consts

namespace SgeProofs.C16Facts
open Sge.Gen.Consts

def before (a b : String) (l : List String) : Bool :=
  match l.dropWhile (· != a) with
  | [] => false
  | _ :: rest => rest.contains b

/-- What the code has: bet genesis is imported before market and order-book genesis; auth and bank (balances of
    the custody accounts) before all custom modules. -/
theorem custom_init_genesis_order :
    initGenesis.filter (fun m => ["auth", "bank", "bet", "house", "market", "mint", "orderbook", "ovm", "reward", "subaccount"].contains m) =
      ["auth", "bank", "mint", "bet", "market", "orderbook", "ovm", "house", "reward", "subaccount"] := by decide

theorem bet_genesis_before_orderbook : before "bet" "orderbook" initGenesis = true := by decide

theorem bank_genesis_before_custom_modules :
    ["bet", "market", "orderbook", "ovm", "house", "reward", "subaccount"].all (fun m => before "bank" m initGenesis) = true := by
  decide

/-- Every module with a begin/end-blocker entry also has a genesis entry and vice versa (same set of names). -/
theorem same_modules_in_all_orders :
    beginBlockers.all (fun m => endBlockers.contains m && initGenesis.contains m) = true ∧
      endBlockers.all (fun m => beginBlockers.contains m) = true ∧
      initGenesis.all (fun m => beginBlockers.contains m) = true := by decide

end SgeProofs.C16Facts
