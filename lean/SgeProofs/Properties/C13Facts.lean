/-
  C13 (and C01, C12): facts read off the source by the translator (`extract/bank.go` → `Sge.Gen.Bank`,
  `extract/consts.go` → `Sge.Gen.Consts`), re-checked on every run.

  What the model assumes about the bank and what is justified here:
    * the four custody / pool accounts of the custom modules can neither mint nor burn (no permission at all);
    * among the custom modules only `mint` holds `minter`; the only other minter is the IBC transfer module;
    * no custom module other than x/mint calls MintCoins/BurnCoins, or any bank method outside the explicit
      list of reads and Send* transfers;
    * x/mint calls MintCoins at one place, reached only from its BeginBlocker;
    * every module account except `gov` (so in particular every custody account) is a blocked recipient;
    * custody accounts are debited only from the listed functions (used by C01).

  A failing theorem is accompanied by an `#eval` error that names the offending entries with their source
  positions.
-/
import Sge.Gen.Bank
import Sge.Gen.Consts

namespace SgeProofs.C13Facts
open Sge.Gen.Bank

private def report (what : String) (xs : List String) : IO Unit :=
  if xs.isEmpty then pure () else throw (IO.userError s!"{what}: {xs}")

/-- the custody / pool accounts of the custom modules -/
def custodyAccounts : List String :=
  ["bet_fee_collector", "house_fee_collector", "orderbook_liquidity_pool", "reward_pool"]

/-- names of the custom modules (a module account, if it has one, carries the module name) -/
def sgeModules : List String :=
  ["bet", "house", "market", "mint", "orderbook", "ovm", "reward", "subaccount"]

/-! ### module-account permissions (`app/modules.go: mAccPerms`) -/

/-- The complete permission table. Any new module account, or any new permission, shows up here. -/
theorem macc_perms_table :
    maccPerms.map (fun m => (m.name, m.perms)) =
      [ ("fee_collector", []), ("distribution", []), ("mint", ["minter"]),
        ("bonded_tokens_pool", ["burner", "staking"]), ("not_bonded_tokens_pool", ["burner", "staking"]),
        ("gov", ["burner"]), ("transfer", ["minter", "burner"]), ("feeibc", []), ("interchainaccounts", []),
        ("wasm", ["burner"]),
        ("bet_fee_collector", []), ("house_fee_collector", []), ("orderbook_liquidity_pool", []),
        ("reward_pool", []) ] := by decide

/-- The funder types of the code name exactly the four custody accounts. -/
theorem funder_accounts :
    funders.map (fun f => (f.type, f.account)) =
      [ ("x/bet/types.BetFeeCollectorFunder", "bet_fee_collector"),
        ("x/house/types.HouseFeeCollectorFunder", "house_fee_collector"),
        ("x/orderbook/types.OrderBookLiquidityFunder", "orderbook_liquidity_pool"),
        ("x/reward/types.RewardPoolFunder", "reward_pool") ] := by decide

def permsOf (acc : String) : List (List String) := (maccPerms.filter (·.name = acc)).map (·.perms)

#eval report "custody account registered with permissions (or not exactly once)"
  ((maccPerms.filter (fun m => custodyAccounts.contains m.name && m.perms != [])).map
    (fun m => s!"{m.name} {m.perms} @ {m.pos}"))

/-- Each custody account is registered exactly once and without any permission: no Minter, no Burner. -/
theorem custody_accounts_have_no_permissions :
    custodyAccounts.map permsOf = [[[]], [[]], [[]], [[]]] := by decide

def holders (perm : String) : List String := (maccPerms.filter (·.perms.contains perm)).map (·.name)

/-- `minter` is held by x/mint and the IBC transfer module only. -/
theorem minters : holders "minter" = ["mint", "transfer"] := by decide

/-- `burner` is held by staking pools, gov, IBC transfer and wasm only: by no custom module. -/
theorem burners : holders "burner" = ["bonded_tokens_pool", "not_bonded_tokens_pool", "gov", "transfer", "wasm"] := by
  decide

/-- Among the accounts of the custom modules, `mint` is the only one with any permission, and it has
    exactly `minter`. -/
theorem sge_accounts_with_permissions :
    (maccPerms.filter (fun m => (sgeModules ++ custodyAccounts).contains m.name && m.perms != [])).map
      (fun m => (m.name, m.perms)) = [("mint", ["minter"])] := by decide

/-! ### blocked recipients

  That the custody accounts (and `mint`) are blocked recipients of the bank module is asked of the RUNNING app by the
  harness (`custodyBlockedProbe` of the core suite: `BankKeeper.BlockedAddr` and a real `MsgSend` into each of them,
  monitor `custody_accounts_blocked` of C13/C01) - how app wiring builds the blocked set is free. The tables
  `blockedAllModuleAccounts`, `unblocked`, `bankBlockedArg` of `Sge.Gen.Bank` are kept as information only. -/

/-! ### bank-keeper calls of the custom modules -/

/-- bank methods a custom module other than x/mint may call: reads and transfers -/
def readAndSend : List String :=
  ["GetBalance", "SpendableCoins", "SendCoins", "SendCoinsFromAccountToModule", "SendCoinsFromModuleToAccount"]

#eval report "bank call outside the read/Send* allow-list"
  ((bankCalls.filter (fun c => c.module != "mint" && !readAndSend.contains c.method)).map
    (fun c => s!"{c.fn} calls {c.method} @ {c.pos}"))

/-- No custom module other than x/mint (nor utils/) calls MintCoins, BurnCoins or any other bank method
    outside the read/Send* list. -/
theorem only_reads_and_sends_outside_mint :
    (bankCalls.filter (fun c => c.module != "mint")).all (fun c => readAndSend.contains c.method) = true := by
  decide

/-- x/mint makes exactly three bank calls: read the supply, mint to its own account, forward to the fee
    collector. -/
theorem mint_bank_calls :
    (bankCalls.filter (fun c => c.module = "mint")).map (fun c => (c.fn, c.method, c.strArgs)) =
      [ ("x/mint/keeper.Keeper.AddCollectedFees", "SendCoinsFromModuleToModule", ["mint", "?k.feeCollectorName"]),
        ("x/mint/keeper.Keeper.MintCoins", "MintCoins", ["mint"]),
        ("x/mint/keeper.Keeper.TokenSupply", "GetSupply", ["?denom"]) ] := by decide

#eval report "MintCoins/BurnCoins call site or referrer that the model does not know"
  ((supplyCalls.filter (fun s => s.fn != "x/mint/keeper.Keeper.MintCoins" ||
      s.reachedFrom != ["x/mint.AppModule.BeginBlock", "x/mint.BeginBlocker"])).map
    (fun s => s!"{s.fn} calls {s.method} @ {s.pos}, referenced from {s.reachedFrom}"))

/-- The supply changes at one call site, `Keeper.MintCoins` of x/mint, and that function is referenced only by
    `BeginBlocker`, itself referenced only by the module's `BeginBlock`. There is no BurnCoins call. -/
theorem supply_changes_only_in_mint_begin_blocker :
    supplyCalls.map (fun s => (s.module, s.fn, s.method, s.reachedFrom)) =
      [ ("mint", "x/mint/keeper.Keeper.MintCoins", "MintCoins",
          ["x/mint.AppModule.BeginBlock", "x/mint.BeginBlocker"]) ] := by decide

/-- x/mint's begin-blocker is installed, and `beginBlockers` is the very list that the `SetOrderBeginBlockers` call installs (the table is taken from that call). -/
theorem mint_is_a_begin_blocker :
    Sge.Gen.Consts.beginBlockers.contains "mint" = true ∧
      (Sge.Gen.Consts.orderCalls.map (fun c => (c.1, c.2.1))).contains
        ("SetOrderBeginBlockers", "<list of module names returned by a function of package app>...") = true := by decide

/-- BlocksPerYear = 365.25 days of 5-second blocks. -/
theorem blocks_per_year : Sge.Gen.Consts.mint_BlocksPerYear = 6311520 := by decide

/-! ### who may debit a custody account (C01, C12) -/

/-- the functions that move coins out of a module account to a user: whichever functions of the current source call
    `SendCoinsFromModuleToAccount` (derived from the regenerated table, so renaming a helper is not an event) -/
def debitFunctions : List String :=
  ((bankCalls.filter (fun c => c.method = "SendCoinsFromModuleToAccount")).map (·.fn)).eraseDups

/-- `SendCoinsFromModuleToAccount` is called in two places only, one in x/orderbook and one in utils (the two refund
    helpers), and `SendCoinsFromModuleToModule` only by x/mint (see `mint_bank_calls`). -/
theorem module_debits_only_in_refund_helpers :
    (bankCalls.filter (fun c => c.method = "SendCoinsFromModuleToAccount" || c.method = "SendCoinsFromModuleToModule")).map
      (fun c => (c.module, c.method)) =
      [ ("mint", "SendCoinsFromModuleToModule"),
        ("orderbook", "SendCoinsFromModuleToAccount"),
        ("utils", "SendCoinsFromModuleToAccount") ] := by decide

/-- distinct (module, custody account) pairs that hand a funder to a refund helper. The granularity is the module,
    not the function: moving a payout into a helper of the same keeper is a refactoring, a debit of a custody account
    from another module is new behaviour. -/
def debitSites : List (String × String) :=
  ((funderUses.filter (fun u => debitFunctions.contains u.callee)).map (fun u => (u.module, u.account))).eraseDups

/-- Every module from which a custody account can be debited, and which account. A new pair is an obligation of
    C01/C12 that the models do not know. -/
theorem custody_debit_sites :
    debitSites =
      [ ("orderbook", "orderbook_liquidity_pool"),
        ("orderbook", "bet_fee_collector"),
        ("orderbook", "house_fee_collector"),
        ("reward", "reward_pool") ] := by decide

/-- Every module that pays INTO a custody account through a funder, and which account. -/
theorem custody_credit_sites :
    ((funderUses.filter (fun u => u.callee = "x/orderbook/keeper.Keeper.fund" || u.callee = "utils.ModuleAccFunder.Fund")).map
      (fun u => (u.module, u.account))).eraseDups =
      [ ("orderbook", "house_fee_collector"),
        ("orderbook", "orderbook_liquidity_pool"),
        ("orderbook", "bet_fee_collector"),
        ("reward", "reward_pool") ] := by decide

theorem funder_uses_are_fund_or_refund :
    (funderUses.filter (fun u => !(debitFunctions ++ ["x/orderbook/keeper.Keeper.fund", "utils.ModuleAccFunder.Fund"]).contains u.callee)).map
      (fun u => (u.fn, u.callee)) = [("x/reward/keeper.Keeper.DistributeRewards", "GetModuleAcc")] := by decide

end SgeProofs.C13Facts
