/-
  C07  Market life cycle is monotone and resolution is final.
  Model: `Sge.Core` (market add / update / resolve handlers and everything else that runs on the chain).
-/
import SgeProofs.Lemmas.CoreFrame
namespace Sge.Core
open Sge

theorem getMarket_setMarket_self (s : State) (m : Market) : getMarket (setMarket s m) m.uid = some m := by
  unfold getMarket setMarket
  exact lookup_upsert_self Market.key m s.markets

theorem getMarket_setMarket_ne (s : State) (m : Market) (uid : Nat) (h : m.uid ≠ uid) :
    getMarket (setMarket s m) uid = getMarket s uid := by
  unfold getMarket setMarket
  exact lookup_upsert_ne Market.key m [uid] s.markets (by simp [Market.key, h])

theorem getMarket_congr {s s' : State} (h : s'.markets = s.markets) (uid : Nat) : getMarket s' uid = getMarket s uid := by
  unfold getMarket; rw [h]

theorem getMarket_uid {s : State} {uid : Nat} {m : Market} (h : getMarket s uid = some m) : m.uid = uid := by
  unfold getMarket lookup at h
  have := List.find?_some h
  simpa [Market.key] using this

def isResolvedStatus (st : Nat) : Bool := st == MS_CANCELED || st == MS_ABORTED || st == MS_DECLARED

/-- C07.a  A market is created once: the add message succeeds only for a fresh market id (and a fresh book),
    with at least two pairwise distinct outcomes, in status active or inactive; it stores exactly that market. -/
theorem c07_add_once {s s' : State} {c : Nat} {tk : Tk} {u st en : Nat} {o : List Nat} {stt : Nat}
    (h : marketAddO s c tk u st en o stt = some s') :
    getMarket s u = none ∧ getBook s u = none ∧ 2 ≤ o.length ∧ allDistinct o = true ∧ isOpenStatus stt = true ∧
    getMarket s' u = some { uid := u, creator := c, startTS := st, endTS := en, odds := o, status := stt } := by
  unfold marketAddO at h
  simp only [bind, Option.bind_eq_some_iff, pure, Option.some.injEq] at h
  obtain ⟨_, _, _, _, _, h3, _, h4, _, h5, _, h6, _, h7, rfl⟩ := h
  have h3 := chk_some h3; have h4 := chk_some h4; have h5 := chk_some h5
  have h6 := chk_some h6; have h7 := chk_some h7
  refine ⟨by simpa using h6, by simpa using h7, by simpa using h4, h5, h3, ?_⟩
  exact getMarket_setMarket_self _ _

/-- C07.b  Update only touches start / end time and the active–inactive switch of an unresolved market. -/
theorem c07_update_only_times_status {s s' : State} {tk : Tk} {u st en stt : Nat}
    (h : marketUpdateO s tk u st en stt = some s') :
    ∃ m, getMarket s u = some m ∧ isOpenStatus m.status = true ∧ isOpenStatus stt = true ∧
      getMarket s' u = some { m with startTS := st, endTS := en, status := stt } := by
  unfold marketUpdateO at h
  simp only [bind, Option.bind_eq_some_iff, pure, Option.some.injEq] at h
  obtain ⟨_, _, m, hm, _, h2, _, h3, _, _, rfl⟩ := h
  refine ⟨m, hm, chk_some h2, chk_some h3, ?_⟩
  have hu := getMarket_uid hm
  have := getMarket_setMarket_self s { m with startTS := st, endTS := en, status := stt }
  simpa [hu] using this

/-- C07.c  Resolution: only an unresolved market can be resolved, to cancelled / aborted / declared; a declared
    result names exactly one winner and it is one of the market's own outcomes; nothing else of the record changes. -/
theorem c07_resolve {s s' : State} {tk : Tk} {u ts stt : Nat} {w : List Nat}
    (h : marketResolveO s tk u ts stt w = some s') :
    ∃ m, getMarket s u = some m ∧ isOpenStatus m.status = true ∧ isResolvedStatus stt = true ∧
      (stt = MS_DECLARED → w.length = 1 ∧ ∀ x ∈ w, x ∈ m.odds) ∧
      getMarket s' u = some { m with resolutionTS := ts, status := stt, winners := if stt == MS_DECLARED then w else m.winners } := by
  unfold marketResolveO at h
  simp only [bind, Option.bind_eq_some_iff, pure, Option.some.injEq] at h
  obtain ⟨_, _, _, h1, m, hm, _, h2, _, h3, rfl⟩ := h
  have h1 := chk_some h1; have h2 := chk_some h2; have h3 := chk_some h3
  unfold resolutionPayloadOk at h1
  simp only [Bool.and_eq_true, Bool.or_eq_true] at h1
  obtain ⟨⟨hst, hw⟩, _⟩ := h1
  refine ⟨m, hm, h2, ?_, ?_, ?_⟩
  · unfold isResolvedStatus; simpa using hst
  · intro hd
    subst hd
    simp only [beq_self_eq_true, if_true, beq_iff_eq] at hw
    refine ⟨hw, ?_⟩
    simp only [beq_self_eq_true, Bool.true_and, Bool.not_eq_true', Bool.or_eq_false_iff,
      Bool.not_eq_false', decide_eq_false_iff_not, List.all_eq_true, List.contains_eq_mem, decide_eq_true_eq] at h3
    intro x hx
    exact h3.2 x hx
  · have hu := getMarket_uid hm
    have := getMarket_setMarket_self { s with mqueue := s.mqueue ++ [u] }
      { m with resolutionTS := ts, status := stt, winners := if stt == MS_DECLARED then w else m.winners }
    simpa [hu] using this

/-- C07.d  Resolution is final (one step): once a market is resolved no operation changes its record. -/
theorem c07_resolved_frozen_step (s : State) (op : Op) (uid : Nat) (m : Market)
    (hm : getMarket s uid = some m) (hr : isOpenStatus m.status = false) :
    getMarket (step s op).1 uid = some m := by
  cases op with
  | marketAdd c tk u st en o stt =>
    simp only [step, marketAdd, commit]
    cases h : marketAddO s c tk u st en o stt with
    | none => exact hm
    | some s' =>
      have hf := (c07_add_once h).1
      have hne : u ≠ uid := by intro e; rw [e] at hf; rw [hf] at hm; cases hm
      unfold marketAddO at h
      simp only [bind, Option.bind_eq_some_iff, pure, Option.some.injEq] at h
      obtain ⟨_, _, _, _, _, _, _, _, _, _, _, _, _, _, rfl⟩ := h
      show getMarket (setMarket _ _) uid = _
      rw [getMarket_setMarket_ne _ _ _ hne]
      exact hm
  | marketUpdate tk u st en stt =>
    simp only [step, marketUpdate, commit]
    cases h : marketUpdateO s tk u st en stt with
    | none => exact hm
    | some s' =>
      obtain ⟨m0, hm0, ho, _, _⟩ := c07_update_only_times_status h
      have hne : u ≠ uid := by intro e; rw [e] at hm0; rw [hm0] at hm; cases hm; rw [ho] at hr; cases hr
      unfold marketUpdateO at h
      simp only [bind, Option.bind_eq_some_iff, pure, Option.some.injEq] at h
      obtain ⟨_, _, m1, hm1, _, _, _, _, _, _, rfl⟩ := h
      have hu := getMarket_uid hm1
      show getMarket (setMarket _ _) uid = _
      rw [getMarket_setMarket_ne _ _ _ (by simpa [hu] using hne)]
      exact hm
  | marketResolve tk u ts stt w =>
    simp only [step, marketResolve, commit]
    cases h : marketResolveO s tk u ts stt w with
    | none => exact hm
    | some s' =>
      obtain ⟨m0, hm0, ho, _, _, _⟩ := c07_resolve h
      have hne : u ≠ uid := by intro e; rw [e] at hm0; rw [hm0] at hm; cases hm; rw [ho] at hr; cases hr
      unfold marketResolveO at h
      simp only [bind, Option.bind_eq_some_iff, pure, Option.some.injEq] at h
      obtain ⟨_, _, _, _, m1, hm1, _, _, _, _, rfl⟩ := h
      have hu := getMarket_uid hm1
      show getMarket (setMarket _ _) uid = _
      rw [getMarket_setMarket_ne _ _ _ (by simpa [hu] using hne)]
      exact hm
  | deposit c tk mk a pd =>
    simp only [step, houseDeposit]
    cases h : houseDepositO s c tk mk a pd with
    | none => exact hm
    | some r => show getMarket r.1 uid = _; rw [getMarket_congr (houseDepositO_markets h).1]; exact hm
  | withdraw c tk mk i md a pd =>
    simp only [step, houseWithdraw, commit]
    cases h : houseWithdrawO s c tk mk i md a pd with
    | none => exact hm
    | some s' => show getMarket s' uid = _; rw [getMarket_congr (houseWithdrawO_markets h).1]; exact hm
  | wager c tk u a pl =>
    simp only [step, wager, commit]
    cases h : wagerO s c tk u a pl with
    | none => exact hm
    | some s' => show getMarket s' uid = _; rw [getMarket_congr (wagerO_markets h).1]; exact hm
  | grant g e k l x => exact hm
  | revoke g e k => exact hm
  | send a b x =>
    simp only [step]
    split
    · exact hm
    · unfold commit
      cases h : bankSend s a b x with
      | none => exact hm
      | some s' =>
        obtain ⟨_, _, rfl⟩ := bankSend_shape h
        exact hm
  | setParams p => simp only [step]; split <;> exact hm
  | endBlock =>
    simp only [step, endBlock]
    cases h : endBlockO s with
    | none => exact hm
    | some s' => show getMarket s' uid = _; rw [getMarket_congr (endBlockO_markets h)]; exact hm
  | newBlock h t => exact hm

/-- C07.e  Resolution is final, for every history: after a market is resolved (cancelled, aborted or result
    declared) its status, winner, resolution time — the whole record — never change again. -/
theorem c07_resolution_final (s : State) (ops : List Op) (uid : Nat) (m : Market)
    (hm : getMarket s uid = some m) (hr : isOpenStatus m.status = false) :
    getMarket (run s ops) uid = some m := by
  induction ops generalizing s with
  | nil => exact hm
  | cons op rest ih => exact ih _ (c07_resolved_frozen_step s op uid m hm hr)

/-- non-vacuity: a concrete market gets created, resolved, and stays so through further traffic -/
example :
    let tk : Tk := { ok := true, kycIgnore := true, kycApproved := false, kycId := 0 }
    let s0 : State := { time := 100 }
    let s1 := run s0 [.marketAdd 0 tk 1 50 500 [11, 12] MS_ACTIVE, .marketResolve tk 1 60 MS_DECLARED [12]]
    (getMarket s1 1).map (·.status) = some MS_DECLARED ∧
    (getMarket (run s1 [.marketUpdate tk 1 50 900 MS_ACTIVE, .marketResolve tk 1 70 MS_CANCELED [], .endBlock]) 1) = getMarket s1 1 := by
  decide

end Sge.Core
