/-
  The proof-level tie of the ARITHMETIC KERNELS (extract/KERNELS.md, bin/kernelstie).

  extract/kernels.go translates a fixed list of pure arithmetic functions of the repository from their Go AST into
  `Sge.Gen.Kernels.*` (lean/Sge/Gen/Kernels.lean, regenerated on every run). For each of them one file
  SgeProofs/Properties/KernelsTie/<K>.lean proves, FOR ALL INPUTS, that the translated definition equals the
  hand-written model function that the property theorems C01–C17 are about. A change of that arithmetic in the
  repository (TruncateInt → RoundInt, GT → GTE, a swapped operand, …) therefore breaks one of these theorems at build
  time; no generator of the differential suites has to reach the difference.

  The generated module `Sge.Gen.KernelsTieList` imports the theorem file of every kernel that was translated; a kernel
  recorded as "unsupported:<construct>" in `kernelStatus` has no definition and its theorem is left out.
-/
import Sge.Gen.KernelsTieList
namespace Sge.KernelsTie
open Sge.Gen.Kernels

/-- The status table names exactly the kernels requested in extract/kernels.go (each as "translated" or
    "unsupported:<construct>"), and every kernel with a tie module is one of them. -/
theorem krn_requested_kernels :
    kernelStatus.map (·.1) =
      ["bet_CalculateBetAmountInt", "bet_CalculatePayoutProfit", "house_Deposit_CalcHouseParticipationFeeAmount",
       "mint_Minter_BlockProvisions", "mint_Minter_NextPhaseProvisions", "mint_Params_getPhaseBlocks",
       "orderbook_OrderBookParticipation_IsEligibleForNextRound",
       "orderbook_OrderBookParticipation_IsEligibleForNextRoundPreLiquidityReduction",
       "orderbook_OrderBookParticipation_SetCurrentRound", "orderbook_OrderBookParticipation_SetLiquidityAfterWithdrawal",
       "orderbook_OrderBookParticipation_TrimCurrentRoundLiquidity", "orderbook_OrderBookParticipation_WithdrawableAmount",
       "orderbook_OrderBookParticipation_maxWithdrawalAmount", "orderbook_OrderBookParticipation_setMaxLoss",
       "orderbook_ParticipationExposure_SetCurrentRound", "orderbook_fulfillmentItem_calcAvailableLiquidity",
       "reward_Pool_AvailableAmount", "reward_Pool_CheckBalance", "subaccount_AccountSummary_AddLoss",
       "subaccount_AccountSummary_Available", "subaccount_AccountSummary_Spend", "subaccount_AccountSummary_Unspend",
       "subaccount_AccountSummary_Withdraw", "subaccount_AccountSummary_WithdrawableBalance",
       "subaccount_AccountSummary_WithdrawableUnlockedBalance"] ∧
    kernelTie.all (fun t => (kernelStatus.map (·.1)).contains t.1) = true := by
  constructor <;> decide

/-- the table is inhabited as expected: 25 requested kernels, 22 of them with a tie module -/
example : kernelStatus.length = 25 ∧ kernelTie.length = 22 := by decide

end Sge.KernelsTie
