/-
  C11 / C13 over the COMBINED model (`Sge.Combined`: the core chain together with x/subaccount, the x/subaccount
  handlers calling the real core handlers, the settling end-block calling back through the order-book hooks).
  All statements are about ALL histories `run (init …) ops`, no bound on sizes.
-/
import SgeProofs.Properties.C01Combined
import SgeProofs.Properties.C13Core
namespace Sge.Combined
open Sge Sge.Core

-- ---------------------------------------------------------------------------------------------
-- C13 over combined histories

/-- C13 (combined), one step: every combined operation — core operations, subaccount creation / top-up /
    unlocked-balance withdrawal, subaccount wagers, subaccount house deposits / withdrawals, the settling end-block
    with its hooks, failing messages and halting blocks included — leaves the sum of all balances as it was. -/
theorem c13_combined_step_supply_constant (s : State) (op : Op) (hI : OwnInv s) (hwf : op.wf) :
    (step s op).1.core.total = s.core.total := by
  obtain ⟨cops, _, e⟩ := cmb_simulation s op hI hwf
  rw [e]
  exact c13_core_supply_constant s.core cops

/-- C13 (combined): from a chain without subaccounts, after ANY combined history, the sum of all balances (user
    accounts, subaccount addresses and the three custody module accounts) is what it was at the start: no combined
    operation mints or burns. -/
theorem c13_combined_supply_constant (p : Params) (bal : List (Nat × Int)) (h t : Nat) (we de : Bool) (ops : List Op)
    (hwf : ∀ op ∈ ops, op.wf) :
    (run (init p bal h t we de) ops).core.total = totalBal bal := by
  obtain ⟨cops, _, e⟩ := cmb_simulation_run (init p bal h t we de) ops (cmb_init_ownInv p bal h t we de) hwf
  rw [e]
  exact c13_core_supply_constant _ cops

end Sge.Combined
