/-
  C11 / C13 over the COMBINED model (`Sge.Combined`: the core chain together with x/subaccount, the x/subaccount
  handlers calling the real core handlers, the settling end-block calling back through the order-book hooks).
  All statements are about ALL histories `run (init …) ops`, no bound on sizes.
-/
import SgeProofs.Properties.C01Combined
import SgeProofs.Properties.C13Core
import SgeProofs.Lemmas.CombinedHooksTotalInv
import SgeProofs.Lemmas.CombinedBankExactInv
import SgeProofs.Lemmas.CombinedLock
namespace Sge.Combined
open Sge Sge.Core Sge.Genesis

-- ---------------------------------------------------------------------------------------------
-- C13 over combined histories

/-- C13 (combined), one step: every combined operation — core operations, subaccount creation / top-up /
    unlocked-balance withdrawal, subaccount wagers, subaccount house deposits / withdrawals, the settling end-block
    with its hooks, failing messages and halting blocks included — leaves the sum of all balances as it was. -/
theorem c13_combined_step_supply_constant (s : State) (op : Op) (hI : OwnInv s) (hwf : op.wf) :
    (step s op).1.core.total = s.core.total := by
  obtain ⟨cops, _, e⟩ := cmb_simulation s op hI hwf
  rw [e]
  exact c13_core_supply_constant s.core cops

/-- C13 (combined): from a chain without subaccounts, after ANY combined history, the sum of all balances (user
    accounts, subaccount addresses and the three custody module accounts) is what it was at the start: no combined
    operation mints or burns. -/
theorem c13_combined_supply_constant (p : Params) (bal : List (Nat × Int)) (h t : Nat) (we de : Bool) (ops : List Op)
    (hwf : ∀ op ∈ ops, op.wf) :
    (run (init p bal h t we de) ops).core.total = totalBal bal := by
  obtain ⟨cops, _, e⟩ := cmb_simulation_run (init p bal h t we de) ops (cmb_init_ownInv p bal h t we de) hwf
  rw [e]
  exact c13_core_supply_constant _ cops

-- ---------------------------------------------------------------------------------------------
-- C11.1 over combined histories: the settlement hooks never fail

theorem cmb2_init_htinv (p : Params) (bal : List (Nat × Int)) (h t : Nat) (we de : Bool)
    (h0 : getBal bal ACC_POOL = 0 ∧ getBal bal ACC_BETFEE = 0 ∧ getBal bal ACC_HOUSEFEE = 0)
    (hb : ∀ x, SUB_BASE ≤ x → 0 ≤ getBal bal x) : cmb2_HTInv (init p bal h t we de) := by
  refine ⟨cmb_init_linv p bal h t we de h0 hb,
    ⟨settleInv_init p bal h t h0, obInv_init p bal h t, retInv_init p bal h t⟩, ?_, ?_, ?_⟩
  · intro b hb; cases hb
  · intro a _ L _
    have hz : sumBy (cmb2_val (init p bal h t we de).core a) L = 0 := by
      apply sumBy_zero
      intro k _
      obtain ⟨u, i⟩ := k
      exact cmb2_val_noBook rfl
    rw [hz]
    exact Int.le_refl _
  · intro a r e; simp [init, aget] at e

theorem cmb2_reach_htinv (p : Params) (bal : List (Nat × Int)) (h t : Nat) (we de : Bool) (ops : List Op)
    (h0 : getBal bal ACC_POOL = 0 ∧ getBal bal ACC_BETFEE = 0 ∧ getBal bal ACC_HOUSEFEE = 0)
    (hb : ∀ x, SUB_BASE ≤ x → 0 ≤ getBal bal x) (hwf : ∀ op ∈ ops, op.wfU) :
    cmb2_HTInv (run (init p bal h t we de) ops) :=
  cmb2_run_htinv ops _ (cmb2_init_htinv p bal h t we de h0 hb) hwf

/-- C11 (combined), THE INDUCTIVE INVARIANT behind "the hooks never fail". `cmb2_val c a (uid, idx)` is what the
    UNPAID participation `idx` of order book `uid` holds of address `a`: its liquidity (deposit − fee − what was withdrawn
    since) plus its house fee, and 0 if there is no such record, it is paid, or it belongs to another address.
    In every reachable state, for every subaccount address `a` with account summary `r` and every duplicate-free list
    `L` of participation keys, these values add up to at most `r.sum.spent`; and `Available()` is never negative.
    It is an inequality and not an equation: when a market is settled with a declared result and the participation
    received stake, the fee goes to the market creator and NO hook is called for it — `Spent` keeps that fee for ever
    (it is never booked as lost either). Every subaccount house deposit raises both sides by the deposit, every
    withdrawal lowers both by the amount paid out, a settlement lowers the left side by liquidity + fee and `Spent`
    by what `AfterHouseWin/Loss/Refund/FeeRefund` un-spend. -/
theorem c11_spent_covers_combined (p : Params) (bal : List (Nat × Int)) (h t : Nat) (we de : Bool) (ops : List Op)
    (h0 : getBal bal ACC_POOL = 0 ∧ getBal bal ACC_BETFEE = 0 ∧ getBal bal ACC_HOUSEFEE = 0)
    (hb : ∀ x, SUB_BASE ≤ x → 0 ≤ getBal bal x) (hwf : ∀ op ∈ ops, op.wfU) :
    let s := run (init p bal h t we de) ops
    ∀ a r, aget s.subs a = some r →
      (∀ L : List (Nat × Nat), L.Nodup → sumBy (cmb2_val s.core a) L ≤ r.sum.spent) ∧ 0 ≤ r.sum.available := by
  intro s a r har
  have hI := cmb2_reach_htinv p bal h t we de ops h0 hb hwf
  refine ⟨fun L hL => ?_, hI.avail a r har⟩
  have := hI.spent a (hI.linv.inRange.of har) L hL
  unfold cmb2_spentOf at this
  rw [har] at this
  exact this

/-- C11 (combined), HOOKS TOTAL. From a chain without subaccounts whose custody accounts are empty, after ANY history of
    core operations, subaccount creation / top-up / unlocked-balance withdrawal, subaccount wagers, subaccount house
    deposits and (partial or full) withdrawals on real markets and settling end-blocks (signers, creators, owners and
    the depositors of direct house deposits are key-holding accounts, `Op.wfU`): whenever the core end-block
    (x/bet settlement, then x/orderbook settlement with all its payments) succeeds, every hook call that
    `settleParticipation` makes into x/subaccount succeeds as well — `Unspend(liquidity)` and `Unspend(fee)` stay within
    `Spent`, the amounts are non-negative, the owner of the subaccount exists and the `AfterHouseWin` transfer of the
    profit is covered by the balance. The combined end-block therefore succeeds: x/subaccount adds no way to halt the
    chain. -/
theorem c11_hooks_total_combined (p : Params) (bal : List (Nat × Int)) (h t : Nat) (we de : Bool) (ops : List Op)
    (h0 : getBal bal ACC_POOL = 0 ∧ getBal bal ACC_BETFEE = 0 ∧ getBal bal ACC_HOUSEFEE = 0)
    (hb : ∀ x, SUB_BASE ≤ x → 0 ≤ getBal bal x) (hwf : ∀ op ∈ ops, op.wfU) :
    let s := run (init p bal h t we de) ops
    ∀ c', Core.endBlockO s.core = some c' → ∃ s', endBlockO s = some s' ∧ applyHooks { s with core := c' } (endBlockHooks s.core c') = some s' := by
  intro s c' hc
  have hI := cmb2_reach_htinv p bal h t we de ops h0 hb hwf
  obtain ⟨s', e, _, _⟩ := cmb2_endBlock_total hI.linv hI.spent hI.avail hI.ret hI.parts hc
  refine ⟨s', e, ?_⟩
  unfold endBlockO at e
  rw [hc] at e
  exact e

/-- the same, as a statement about the result codes: in every reachable state the combined end-block halts only if the
    core end-block halts -/
theorem c11_endBlock_halts_only_with_core (p : Params) (bal : List (Nat × Int)) (h t : Nat) (we de : Bool) (ops : List Op)
    (h0 : getBal bal ACC_POOL = 0 ∧ getBal bal ACC_BETFEE = 0 ∧ getBal bal ACC_HOUSEFEE = 0)
    (hb : ∀ x, SUB_BASE ≤ x → 0 ≤ getBal bal x) (hwf : ∀ op ∈ ops, op.wfU) :
    let s := run (init p bal h t we de) ops
    (step s (.core .endBlock)).2 = .halt → (Core.step s.core .endBlock).2 = .halt := by
  intro s hh
  show (Core.endBlock s.core).2 = .halt
  unfold Core.endBlock
  cases hc : Core.endBlockO s.core with
  | none => rfl
  | some c' =>
    exfalso
    obtain ⟨s', e, _⟩ := c11_hooks_total_combined p bal h t we de ops h0 hb hwf c' hc
    have : (step s (.core .endBlock)).2 = (endBlock s).2 := rfl
    rw [this] at hh
    unfold endBlock at hh
    rw [e] at hh
    cases hh

-- ---------------------------------------------------------------------------------------------
-- C11.2 over combined histories: bank = available when nobody sent tokens directly

theorem cmb2_init_bxinv (p : Params) (bal : List (Nat × Int)) (h t : Nat) (we de : Bool)
    (h0 : getBal bal ACC_POOL = 0 ∧ getBal bal ACC_BETFEE = 0 ∧ getBal bal ACC_HOUSEFEE = 0)
    (hb : ∀ x, SUB_BASE ≤ x → getBal bal x = 0) : cmb2_BXInv (init p bal h t we de) := by
  refine ⟨cmb2_init_htinv p bal h t we de h0 (fun x hx => by rw [hb x hx]; exact Int.le_refl _), betIdx_init p bal h t,
    ⟨fun b hb => (by cases hb), fun m hm => (by cases hm)⟩, ?_, ?_⟩
  · intro u b i q hbk
    have : getBook (init p bal h t we de).core u = none := rfl
    rw [this] at hbk
    cases hbk
  · intro x hx
    show getBal bal x - 0 = 0
    rw [hb x hx]
    rfl

/-- C11 (combined), BANK = AVAILABLE. The naive equation of the property is TRUE of the combined model (the fee that is
    routed to the market creator is no exception: it left the bank balance when the deposit was made and stays in `Spent`,
    so both sides miss it). From a chain without subaccounts in which the custody accounts and all addresses of the
    subaccount range hold nothing, after ANY history (core operations, subaccount creation / top-up / unlocked-balance
    withdrawal, subaccount wagers, subaccount house deposits and withdrawals on real markets, settling end-blocks with
    their hooks) that is `wfU` (signers, creators, owners are key-holding accounts) and `clean` — the decidable
    predicate `Op.clean` on every operation: no bank send goes to an address of the subaccount range, and markets are
    created / direct house withdrawals are made by / for key-holding accounts (a market creator is paid the fees of its
    market; a withdrawal for a subaccount address outside x/subaccount would need an authz grant signed by that
    address) — in every reachable state:
    the bank balance of every subaccount equals Deposited − Withdrawn − Spent − Lost, and an address of the subaccount
    range without subaccount holds nothing. -/
theorem c11_bank_eq_available_combined (p : Params) (bal : List (Nat × Int)) (h t : Nat) (we de : Bool) (ops : List Op)
    (h0 : getBal bal ACC_POOL = 0 ∧ getBal bal ACC_BETFEE = 0 ∧ getBal bal ACC_HOUSEFEE = 0)
    (hb : ∀ x, SUB_BASE ≤ x → getBal bal x = 0) (hwf : ∀ op ∈ ops, op.wfU) (hcl : ops.all Op.clean = true) :
    let s := run (init p bal h t we de) ops
    (∀ a r, aget s.subs a = some r →
      s.bal a = r.sum.available ∧ r.sum.available = r.sum.deposited - r.sum.withdrawn - r.sum.spent - r.sum.lost) ∧
    (∀ x, SUB_BASE ≤ x → aget s.subs x = none → s.bal x = 0) := by
  intro s
  have hI : cmb2_BXInv s := cmb2_run_bxinv ops _ (cmb2_init_bxinv p bal h t we de h0 hb) hwf hcl
  constructor
  · intro a r har
    have hz := hI.zero a (hI.ht.linv.inRange.of har)
    unfold surplus led at hz
    rw [har] at hz
    simp only at hz
    exact ⟨by omega, rfl⟩
  · intro x hx hn
    have hz := hI.zero x hx
    unfold surplus led at hz
    rw [hn] at hz
    simp only at hz
    omega

/-- consequences of the same invariant: in such a history no address of the subaccount range ever is a bettor or a
    market creator, and every participation held by an address of the subaccount range belongs to an existing subaccount -/
theorem c11_subaccount_only_deposits_combined (p : Params) (bal : List (Nat × Int)) (h t : Nat) (we de : Bool) (ops : List Op)
    (h0 : getBal bal ACC_POOL = 0 ∧ getBal bal ACC_BETFEE = 0 ∧ getBal bal ACC_HOUSEFEE = 0)
    (hb : ∀ x, SUB_BASE ≤ x → getBal bal x = 0) (hwf : ∀ op ∈ ops, op.wfU) (hcl : ops.all Op.clean = true) :
    let s := run (init p bal h t we de) ops
    (∀ b ∈ s.core.bets, b.creator < SUB_BASE) ∧ (∀ m ∈ s.core.markets, m.creator < SUB_BASE) ∧
    (∀ bk ∈ s.core.books, ∀ q ∈ bk.parts, SUB_BASE ≤ q.addr → (aget s.subs q.addr).isSome) := by
  intro s
  have hI : cmb2_BXInv s := cmb2_run_bxinv ops _ (cmb2_init_bxinv p bal h t we de h0 hb) hwf hcl
  refine ⟨hI.keys.1, hI.keys.2, ?_⟩
  intro bk hbk q hq hge
  have hs := hI.ht.ret.sett.cmb2_srt
  exact hI.owned bk.uid bk q.idx q (mem_getBook hs.1 hbk) (Book.mem_getPart (hs.2 bk hbk) hq) hge

-- ---------------------------------------------------------------------------------------------
-- C11.3 over combined histories: locked funds stay locked

/-- C11 (combined), LOCK BOUND. The combined model is the code of /repo as it is, i.e. WITH the repair of
    `WithdrawableUnlockedBalance` (fix commit b540483: the unlocked total is reduced by what was already withdrawn;
    `withdrawUnlockedO` calls `Summary.withdrawableUnlocked true`). The unrepaired variant is not part of the combined
    model; its counter-example (`fixed = false`: the same unlocked amount is paid out again and again) stays in
    Properties/C11.lean on the x/subaccount slice.
    For EVERY combined history — no well-formedness of signers is needed — in which block times never decrease
    (`cmb2_timesMono`, a decidable predicate on the operation list: every `newBlock` carries a time ≥ the previous one),
    in every reachable state and for every subaccount: the total paid out so far by `MsgWithdrawUnlockedBalances`
    (ghost counter `released`, increased by exactly the amount sent to the owner and by nothing else) is at most
    `Withdrawn` and at most the sum of the locks whose unlock time lies before the current block time. Wagers paid by
    the subaccount, house deposits / withdrawals, settlement hooks and top-ups never move it. -/
theorem c11_lock_bound_combined (p : Params) (bal : List (Nat × Int)) (h t : Nat) (we de : Bool) (ops : List Op)
    (hmono : cmb2_timesMono t ops = true) :
    let s := run (init p bal h t we de) ops
    ∀ a r, aget s.subs a = some r →
      0 ≤ r.released ∧ r.released ≤ r.sum.withdrawn ∧ r.released ≤ Sge.Subaccount.unlockedSum s.core.time r.locks := by
  intro s a r har
  have h0 : cmb2_LockInv (init p bal h t we de) := by
    intro b rb hb; simp [init, aget] at hb
  have hI := cmb2_run_lock ops (init p bal h t we de) h0 hmono
  have := hI a r har
  exact ⟨this.rel0, this.relWd, this.lock⟩

end Sge.Combined
