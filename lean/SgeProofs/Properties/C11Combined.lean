/-
  C11 / C13 over the COMBINED model (`Sge.Combined`: the core chain together with x/subaccount, the x/subaccount
  handlers calling the real core handlers, the settling end-block calling back through the order-book hooks).
  All statements are about ALL histories `run (init …) ops`, no bound on sizes.
-/
import SgeProofs.Properties.C01Combined
import SgeProofs.Properties.C13Core
import SgeProofs.Lemmas.CombinedHooksTotalInv
import SgeProofs.Lemmas.CombinedBankExactInv
import SgeProofs.Lemmas.CombinedLock
import SgeProofs.Lemmas.CombinedWagerNoGain
namespace Sge.Combined
open Sge Sge.Core Sge.Genesis

-- ---------------------------------------------------------------------------------------------
-- C13 over combined histories

/-- C13 (combined), one step: every combined operation — core operations, subaccount creation / top-up /
    unlocked-balance withdrawal, subaccount wagers, subaccount house deposits / withdrawals, the settling end-block
    with its hooks, failing messages and halting blocks included — leaves the sum of all balances as it was. -/
theorem c13_combined_step_supply_constant (s : State) (op : Op) (hI : OwnInv s) (hwf : op.wf) :
    (step s op).1.core.total = s.core.total := by
  obtain ⟨cops, _, e⟩ := cmb_simulation s op hI hwf
  rw [e]
  exact c13_core_supply_constant s.core cops

/-- C13 (combined): from a chain without subaccounts, after ANY combined history, the sum of all balances (user
    accounts, subaccount addresses and the three custody module accounts) is what it was at the start: no combined
    operation mints or burns. -/
theorem c13_combined_supply_constant (p : Params) (bal : List (Nat × Int)) (h t : Nat) (we de : Bool) (ops : List Op)
    (hwf : ∀ op ∈ ops, op.wf) :
    (run (init p bal h t we de) ops).core.total = totalBal bal := by
  obtain ⟨cops, _, e⟩ := cmb_simulation_run (init p bal h t we de) ops (cmb_init_ownInv p bal h t we de) hwf
  rw [e]
  exact c13_core_supply_constant _ cops

-- ---------------------------------------------------------------------------------------------
-- C11.1 over combined histories: the settlement hooks never fail

theorem cmb2_init_htinv (p : Params) (bal : List (Nat × Int)) (h t : Nat) (we de : Bool)
    (h0 : getBal bal ACC_POOL = 0 ∧ getBal bal ACC_BETFEE = 0 ∧ getBal bal ACC_HOUSEFEE = 0)
    (hb : ∀ x, SUB_BASE ≤ x → 0 ≤ getBal bal x) : cmb2_HTInv (init p bal h t we de) := by
  refine ⟨cmb_init_linv p bal h t we de h0 hb,
    ⟨settleInv_init p bal h t h0, obInv_init p bal h t, retInv_init p bal h t⟩, ?_, ?_, ?_⟩
  · intro b hb; cases hb
  · intro a _ L _
    have hz : sumBy (cmb2_val (init p bal h t we de).core a) L = 0 := by
      apply sumBy_zero
      intro k _
      obtain ⟨u, i⟩ := k
      exact cmb2_val_noBook rfl
    rw [hz]
    exact Int.le_refl _
  · intro a r e; simp [init, aget] at e

theorem cmb2_reach_htinv (p : Params) (bal : List (Nat × Int)) (h t : Nat) (we de : Bool) (ops : List Op)
    (h0 : getBal bal ACC_POOL = 0 ∧ getBal bal ACC_BETFEE = 0 ∧ getBal bal ACC_HOUSEFEE = 0)
    (hb : ∀ x, SUB_BASE ≤ x → 0 ≤ getBal bal x) (hwf : ∀ op ∈ ops, op.wfU) :
    cmb2_HTInv (run (init p bal h t we de) ops) :=
  cmb2_run_htinv ops _ (cmb2_init_htinv p bal h t we de h0 hb) hwf

/-- C11 (combined), THE INDUCTIVE INVARIANT behind "the hooks never fail". `cmb2_val c a (uid, idx)` is what the
    UNPAID participation `idx` of order book `uid` holds of address `a`: its liquidity (deposit − fee − what was withdrawn
    since) plus its house fee, and 0 if there is no such record, it is paid, or it belongs to another address.
    In every reachable state, for every subaccount address `a` with account summary `r` and every duplicate-free list
    `L` of participation keys, these values add up to at most `r.sum.spent`; and `Available()` is never negative.
    It is an inequality and not an equation: when a market is settled with a declared result and the participation
    received stake, the fee goes to the market creator and NO hook is called for it — `Spent` keeps that fee for ever
    (it is never booked as lost either). Every subaccount house deposit raises both sides by the deposit, every
    withdrawal lowers both by the amount paid out, a settlement lowers the left side by liquidity + fee and `Spent`
    by what `AfterHouseWin/Loss/Refund/FeeRefund` un-spend. -/
theorem c11_spent_covers_combined (p : Params) (bal : List (Nat × Int)) (h t : Nat) (we de : Bool) (ops : List Op)
    (h0 : getBal bal ACC_POOL = 0 ∧ getBal bal ACC_BETFEE = 0 ∧ getBal bal ACC_HOUSEFEE = 0)
    (hb : ∀ x, SUB_BASE ≤ x → 0 ≤ getBal bal x) (hwf : ∀ op ∈ ops, op.wfU) :
    let s := run (init p bal h t we de) ops
    ∀ a r, aget s.subs a = some r →
      (∀ L : List (Nat × Nat), L.Nodup → sumBy (cmb2_val s.core a) L ≤ r.sum.spent) ∧ 0 ≤ r.sum.available := by
  intro s a r har
  have hI := cmb2_reach_htinv p bal h t we de ops h0 hb hwf
  refine ⟨fun L hL => ?_, hI.avail a r har⟩
  have := hI.spent a (hI.linv.inRange.of har) L hL
  unfold cmb2_spentOf at this
  rw [har] at this
  exact this

/-- C11 (combined), HOOKS TOTAL. From a chain without subaccounts whose custody accounts are empty, after ANY history of
    core operations, subaccount creation / top-up / unlocked-balance withdrawal, subaccount wagers, subaccount house
    deposits and (partial or full) withdrawals on real markets and settling end-blocks (signers, creators, owners and
    the depositors of direct house deposits are key-holding accounts, `Op.wfU`): whenever the core end-block
    (x/bet settlement, then x/orderbook settlement with all its payments) succeeds, every hook call that
    `settleParticipation` makes into x/subaccount succeeds as well — `Unspend(liquidity)` and `Unspend(fee)` stay within
    `Spent`, the amounts are non-negative, the owner of the subaccount exists and the `AfterHouseWin` transfer of the
    profit is covered by the balance. The combined end-block therefore succeeds: x/subaccount adds no way to halt the
    chain. -/
theorem c11_hooks_total_combined (p : Params) (bal : List (Nat × Int)) (h t : Nat) (we de : Bool) (ops : List Op)
    (h0 : getBal bal ACC_POOL = 0 ∧ getBal bal ACC_BETFEE = 0 ∧ getBal bal ACC_HOUSEFEE = 0)
    (hb : ∀ x, SUB_BASE ≤ x → 0 ≤ getBal bal x) (hwf : ∀ op ∈ ops, op.wfU) :
    let s := run (init p bal h t we de) ops
    ∀ c', Core.endBlockO s.core = some c' → ∃ s', endBlockO s = some s' ∧ applyHooks { s with core := c' } (endBlockHooks s.core c') = some s' := by
  intro s c' hc
  have hI := cmb2_reach_htinv p bal h t we de ops h0 hb hwf
  obtain ⟨s', e, _, _⟩ := cmb2_endBlock_total hI.linv hI.spent hI.avail hI.ret hI.parts hc
  refine ⟨s', e, ?_⟩
  unfold endBlockO at e
  rw [hc] at e
  exact e

/-- the same, as a statement about the result codes: in every reachable state the combined end-block halts only if the
    core end-block halts -/
theorem c11_endBlock_halts_only_with_core (p : Params) (bal : List (Nat × Int)) (h t : Nat) (we de : Bool) (ops : List Op)
    (h0 : getBal bal ACC_POOL = 0 ∧ getBal bal ACC_BETFEE = 0 ∧ getBal bal ACC_HOUSEFEE = 0)
    (hb : ∀ x, SUB_BASE ≤ x → 0 ≤ getBal bal x) (hwf : ∀ op ∈ ops, op.wfU) :
    let s := run (init p bal h t we de) ops
    (step s (.core .endBlock)).2 = .halt → (Core.step s.core .endBlock).2 = .halt := by
  intro s hh
  show (Core.endBlock s.core).2 = .halt
  unfold Core.endBlock
  cases hc : Core.endBlockO s.core with
  | none => rfl
  | some c' =>
    exfalso
    obtain ⟨s', e, _⟩ := c11_hooks_total_combined p bal h t we de ops h0 hb hwf c' hc
    have : (step s (.core .endBlock)).2 = (endBlock s).2 := rfl
    rw [this] at hh
    unfold endBlock at hh
    rw [e] at hh
    cases hh

-- ---------------------------------------------------------------------------------------------
-- C11.2 over combined histories: bank = available when nobody sent tokens directly

theorem cmb2_init_bxinv (p : Params) (bal : List (Nat × Int)) (h t : Nat) (we de : Bool)
    (h0 : getBal bal ACC_POOL = 0 ∧ getBal bal ACC_BETFEE = 0 ∧ getBal bal ACC_HOUSEFEE = 0)
    (hb : ∀ x, SUB_BASE ≤ x → getBal bal x = 0) : cmb2_BXInv (init p bal h t we de) := by
  refine ⟨cmb2_init_htinv p bal h t we de h0 (fun x hx => by rw [hb x hx]; exact Int.le_refl _), betIdx_init p bal h t,
    ⟨fun b hb => (by cases hb), fun m hm => (by cases hm)⟩, ?_, ?_⟩
  · intro u b i q hbk
    have : getBook (init p bal h t we de).core u = none := rfl
    rw [this] at hbk
    cases hbk
  · intro x hx
    show getBal bal x - 0 = 0
    rw [hb x hx]
    rfl

/-- C11 (combined), BANK = AVAILABLE. The naive equation of the property is TRUE of the combined model (the fee that is
    routed to the market creator is no exception: it left the bank balance when the deposit was made and stays in `Spent`,
    so both sides miss it). From a chain without subaccounts in which the custody accounts and all addresses of the
    subaccount range hold nothing, after ANY history (core operations, subaccount creation / top-up / unlocked-balance
    withdrawal, subaccount wagers, subaccount house deposits and withdrawals on real markets, settling end-blocks with
    their hooks) that is `wfU` (signers, creators, owners are key-holding accounts) and `clean` — the decidable
    predicate `Op.clean` on every operation: no bank send goes to an address of the subaccount range, and markets are
    created / direct house withdrawals are made by / for key-holding accounts (a market creator is paid the fees of its
    market; a withdrawal for a subaccount address outside x/subaccount would need an authz grant signed by that
    address) — in every reachable state:
    the bank balance of every subaccount equals Deposited − Withdrawn − Spent − Lost, and an address of the subaccount
    range without subaccount holds nothing. -/
theorem c11_bank_eq_available_combined (p : Params) (bal : List (Nat × Int)) (h t : Nat) (we de : Bool) (ops : List Op)
    (h0 : getBal bal ACC_POOL = 0 ∧ getBal bal ACC_BETFEE = 0 ∧ getBal bal ACC_HOUSEFEE = 0)
    (hb : ∀ x, SUB_BASE ≤ x → getBal bal x = 0) (hwf : ∀ op ∈ ops, op.wfU) (hcl : ops.all Op.clean = true) :
    let s := run (init p bal h t we de) ops
    (∀ a r, aget s.subs a = some r →
      s.bal a = r.sum.available ∧ r.sum.available = r.sum.deposited - r.sum.withdrawn - r.sum.spent - r.sum.lost) ∧
    (∀ x, SUB_BASE ≤ x → aget s.subs x = none → s.bal x = 0) := by
  intro s
  have hI : cmb2_BXInv s := cmb2_run_bxinv ops _ (cmb2_init_bxinv p bal h t we de h0 hb) hwf hcl
  constructor
  · intro a r har
    have hz := hI.zero a (hI.ht.linv.inRange.of har)
    unfold surplus led at hz
    rw [har] at hz
    simp only at hz
    exact ⟨by omega, rfl⟩
  · intro x hx hn
    have hz := hI.zero x hx
    unfold surplus led at hz
    rw [hn] at hz
    simp only at hz
    omega

/-- consequences of the same invariant: in such a history no address of the subaccount range ever is a bettor or a
    market creator, and every participation held by an address of the subaccount range belongs to an existing subaccount -/
theorem c11_subaccount_only_deposits_combined (p : Params) (bal : List (Nat × Int)) (h t : Nat) (we de : Bool) (ops : List Op)
    (h0 : getBal bal ACC_POOL = 0 ∧ getBal bal ACC_BETFEE = 0 ∧ getBal bal ACC_HOUSEFEE = 0)
    (hb : ∀ x, SUB_BASE ≤ x → getBal bal x = 0) (hwf : ∀ op ∈ ops, op.wfU) (hcl : ops.all Op.clean = true) :
    let s := run (init p bal h t we de) ops
    (∀ b ∈ s.core.bets, b.creator < SUB_BASE) ∧ (∀ m ∈ s.core.markets, m.creator < SUB_BASE) ∧
    (∀ bk ∈ s.core.books, ∀ q ∈ bk.parts, SUB_BASE ≤ q.addr → (aget s.subs q.addr).isSome) := by
  intro s
  have hI : cmb2_BXInv s := cmb2_run_bxinv ops _ (cmb2_init_bxinv p bal h t we de h0 hb) hwf hcl
  refine ⟨hI.keys.1, hI.keys.2, ?_⟩
  intro bk hbk q hq hge
  have hs := hI.ht.ret.sett.cmb2_srt
  exact hI.owned bk.uid bk q.idx q (mem_getBook hs.1 hbk) (Book.mem_getPart (hs.2 bk hbk) hq) hge

-- ---------------------------------------------------------------------------------------------
-- C11.3 over combined histories: locked funds stay locked

/-- C11 (combined), LOCK BOUND. The combined model is the code of /repo as it is, i.e. WITH the repair of
    `WithdrawableUnlockedBalance` (fix commit b540483: the unlocked total is reduced by what was already withdrawn;
    `withdrawUnlockedO` calls `Summary.withdrawableUnlocked true`). The unrepaired variant is not part of the combined
    model; its counter-example (`fixed = false`: the same unlocked amount is paid out again and again) stays in
    Properties/C11.lean on the x/subaccount slice.
    For EVERY combined history — no well-formedness of signers is needed — in which block times never decrease
    (`cmb2_timesMono`, a decidable predicate on the operation list: every `newBlock` carries a time ≥ the previous one),
    in every reachable state and for every subaccount: the total paid out so far by `MsgWithdrawUnlockedBalances`
    (ghost counter `released`, increased by exactly the amount sent to the owner and by nothing else) is at most
    `Withdrawn` and at most the sum of the locks whose unlock time lies before the current block time. Wagers paid by
    the subaccount, house deposits / withdrawals, settlement hooks and top-ups never move it. -/
theorem c11_lock_bound_combined (p : Params) (bal : List (Nat × Int)) (h t : Nat) (we de : Bool) (ops : List Op)
    (hmono : cmb2_timesMono t ops = true) :
    let s := run (init p bal h t we de) ops
    ∀ a r, aget s.subs a = some r →
      0 ≤ r.released ∧ r.released ≤ r.sum.withdrawn ∧ r.released ≤ Sge.Subaccount.unlockedSum s.core.time r.locks := by
  intro s a r har
  have h0 : cmb2_LockInv (init p bal h t we de) := by
    intro b rb hb; simp [init, aget] at hb
  have hI := cmb2_run_lock ops (init p bal h t we de) h0 hmono
  have := hI a r har
  exact ⟨this.rel0, this.relWd, this.lock⟩

-- ---------------------------------------------------------------------------------------------
-- C11.4/5 over combined histories: how tokens leave a subaccount

/-- C11 (combined), EVERY OUTFLOW IS BOOKED. In a `wfU` and `clean` history, for every operation `op` applied to a
    reachable state and every subaccount that exists before and after it: what leaves the bank balance of the
    subaccount address in that operation is exactly the increase of Withdrawn (unlocked-balance withdrawal, or the
    subaccount's share of a wager net of what is returned) + Spent (house deposit, net of withdrawals and of what the
    settlement hooks un-spend) + Lost (house loss booked at settlement) − Deposited (top-up). In particular the house
    profit forwarded to the owner by `AfterHouseWin` is paid out of the payout that arrived in the same block. -/
theorem c11_outflow_booked_combined (p : Params) (bal : List (Nat × Int)) (h t : Nat) (we de : Bool) (ops : List Op) (op : Op)
    (h0 : getBal bal ACC_POOL = 0 ∧ getBal bal ACC_BETFEE = 0 ∧ getBal bal ACC_HOUSEFEE = 0)
    (hb : ∀ x, SUB_BASE ≤ x → getBal bal x = 0) (hwf : ∀ o ∈ ops ++ [op], o.wfU) (hcl : (ops ++ [op]).all Op.clean = true) :
    let s := run (init p bal h t we de) ops
    let s' := (step s op).1
    ∀ a r r', aget s.subs a = some r → aget s'.subs a = some r' →
      s.bal a - s'.bal a = (r'.sum.withdrawn - r.sum.withdrawn) + (r'.sum.spent - r.sum.spent) + (r'.sum.lost - r.sum.lost)
        - (r'.sum.deposited - r.sum.deposited) := by
  intro s s' a r r' har har'
  have hcl' : ops.all Op.clean = true ∧ op.clean = true := by
    rw [List.all_append, Bool.and_eq_true] at hcl
    refine ⟨hcl.1, ?_⟩
    have := hcl.2
    simp only [List.all_cons, List.all_nil, Bool.and_true] at this
    exact this
  have hI : cmb2_BXInv s := cmb2_run_bxinv ops _ (cmb2_init_bxinv p bal h t we de h0 hb)
    (fun o ho => hwf o (List.mem_append_left _ ho)) hcl'.1
  have hI' : cmb2_BXInv s' := cmb2_step_bxinv s op hI (hwf op (List.mem_append_right _ (List.mem_singleton.mpr rfl))) hcl'.2
  have z := hI.zero a (hI.ht.linv.inRange.of har)
  have z' := hI'.zero a (hI'.ht.linv.inRange.of har')
  unfold surplus led at z z'
  rw [har] at z
  rw [har'] at z'
  simp only [Sge.Subaccount.Summary.available] at z z'
  omega

/-- C11 (combined), A SUBACCOUNT WAGER NEVER RAISES THE OWNER'S FREE BALANCE. In every reachable state (`Op.wfU`
    history), after a successful MsgWager of x/subaccount — the subaccount's deduction is moved to the owner, the REAL
    bet-module wager charges the owner bet fee + matched stake, what was not taken is returned to the subaccount — the
    owner's bank balance is at most what it was before: locked subaccount funds cannot be turned into free funds of the
    owner by betting. -/
theorem c11_subWager_no_gain_combined (p : Params) (bal : List (Nat × Int)) (h t : Nat) (we de : Bool) (ops : List Op)
    (h0 : getBal bal ACC_POOL = 0 ∧ getBal bal ACC_BETFEE = 0 ∧ getBal bal ACC_HOUSEFEE = 0)
    (hb : ∀ x, SUB_BASE ≤ x → 0 ≤ getBal bal x) (hwf : ∀ op ∈ ops, op.wfU)
    (owner : Nat) (outerOk : Bool) (ic : Nat) (main sub : Int) (tk : Tk) (uid : Nat) (amount : Int) (pl : WagerPayload) :
    let s := run (init p bal h t we de) ops
    ∀ s', subWagerO s owner outerOk ic main sub tk uid amount pl = some s' → s'.bal owner ≤ s.bal owner := by
  intro s s' hs'
  have hI : LInv s := cmb_run_linv ops _ (cmb_init_linv p bal h t we de h0 hb) hwf
  exact cmb2_subWager_owner hI.inRange hI.users hs'

-- ---------------------------------------------------------------------------------------------
-- non-vacuity and sharpness on concrete histories

/-- decidable form of `isUser` / `Op.wfU`, to discharge the hypotheses of the theorems above on concrete histories -/
def cmb2_isUserb (x : Nat) : Bool := decide (x < SUB_BASE) && !isModuleAcc x

theorem cmb2_isUserb_sound {x : Nat} (h : cmb2_isUserb x = true) : isUser x := by
  unfold cmb2_isUserb at h
  simp only [Bool.and_eq_true, decide_eq_true_eq, Bool.not_eq_true'] at h
  exact h

def cmb2_wfUb : Op → Bool
  | .core (.marketAdd c _ _ _ _ _ _) => !isModuleAcc c
  | .core (.deposit c _ _ _ pd) => cmb2_isUserb (depositFor c pd)
  | .core (.withdraw c _ _ _ _ _ pd) => !isModuleAcc (if pd != 0 then pd else c)
  | .core (.wager c _ _ _ _) => cmb2_isUserb c
  | .core (.send a _ _) => decide (a < SUB_BASE)
  | .core _ => true
  | .create c o _ => cmb2_isUserb c && cmb2_isUserb o
  | .topUp c _ _ => cmb2_isUserb c
  | _ => true

theorem cmb2_not_true {b : Bool} (h : (!b) = true) : b = false := by cases b <;> simp_all

theorem cmb2_wfUb_sound {op : Op} (h : cmb2_wfUb op = true) : op.wfU := by
  cases op with
  | core cop =>
    cases cop with
    | marketAdd c tk u st en o stt => exact cmb2_not_true h
    | deposit c tk m a pd => exact cmb2_isUserb_sound h
    | withdraw c tk m i md a pd => exact cmb2_not_true h
    | wager c tk u a pl => exact cmb2_isUserb_sound h
    | send a b v =>
      show a < SUB_BASE
      exact of_decide_eq_true h
    | marketUpdate _ _ _ _ _ => trivial
    | marketResolve _ _ _ _ _ => trivial
    | grant _ _ _ _ _ => trivial
    | revoke _ _ _ => trivial
    | setParams _ => trivial
    | endBlock => trivial
    | newBlock _ _ => trivial
  | create c o ls =>
    simp only [cmb2_wfUb, Bool.and_eq_true] at h
    exact ⟨cmb2_isUserb_sound h.1, cmb2_isUserb_sound h.2⟩
  | topUp c o ls => exact cmb2_isUserb_sound h
  | subParams _ _ => trivial
  | withdrawUnlocked _ => trivial
  | subWager _ _ _ _ _ _ _ _ _ => trivial
  | subDeposit _ _ _ _ _ => trivial
  | subWithdraw _ _ _ _ _ _ _ => trivial

theorem cmb2_wfUb_all {ops : List Op} (h : ops.all cmb2_wfUb = true) : ∀ op ∈ ops, op.wfU :=
  fun op hop => cmb2_wfUb_sound (List.all_eq_true.mp h op hop)

def exBal : List (Nat × Int) := [(7, 100000000), (2, 100000000), (3, 100000000), (9, 0)]
def exInit : State := init {} exBal 1 100 true true
def exPl (o : Nat) : WagerPayload :=
  { market := 1, odds := o, oddsVal := some ⟨2 * PREC⟩, mult := ⟨PREC⟩, allOdds := [(11, ⟨PREC⟩), (12, ⟨PREC⟩)] }

/-- market 1 by account 9; account 7 creates the subaccount of owner 2 with 60000000 locked until time 300; the
    subaccount deposits 50000000 into the house of market 1 (fee 5000000, liquidity 45000000), withdraws 5000000 of it
    again (partial withdrawal), and account 3 bets 2000000 on outcome 11 against it -/
def exPre : List Op :=
  [.core (.marketAdd 9 sampleTk 1 50 500 [11, 12] MS_ACTIVE),
   .create 7 2 [(300, 60000000)],
   .subDeposit 2 sampleTk 1 50000000 0,
   .subWithdraw 2 sampleTk 1 1 WM_PARTIAL 5000000 0,
   .core (.wager 3 sampleTk 77 2000000 (exPl 11))]

/-- … outcome 12 is declared (the bettor loses, the house wins), the end-block settles, time passes the unlock time, the
    owner withdraws the unlocked balance -/
def exWin : List Op :=
  exPre ++ [.core (.marketResolve sampleTk 1 60 MS_DECLARED [12]), .core .endBlock, .core (.newBlock 2 400), .withdrawUnlocked 2]
/-- … outcome 11 is declared (the bettor wins, the house loses) … -/
def exLoss : List Op :=
  exPre ++ [.core (.marketResolve sampleTk 1 60 MS_DECLARED [11]), .core .endBlock, .core (.newBlock 2 400), .withdrawUnlocked 2]
/-- … the market is cancelled … -/
def exCancel : List Op :=
  exPre ++ [.core (.marketResolve sampleTk 1 60 MS_CANCELED []), .core .endBlock, .core (.newBlock 2 400), .withdrawUnlocked 2]

theorem exBal_range (x : Nat) (hx : SUB_BASE ≤ x) : getBal exBal x = 0 := by
  unfold SUB_BASE at hx
  simp only [exBal, getBal]
  rw [if_neg (by omega), if_neg (by omega), if_neg (by omega), if_neg (by omega)]

/-- the hypotheses of the four theorems are satisfiable: the three histories are `wfU`, `clean`, have non-decreasing
    block times, and start from empty custody accounts and an empty subaccount range -/
example :
    (∀ ops ∈ [exWin, exLoss, exCancel], (∀ op ∈ ops, op.wfU) ∧ ops.all Op.clean = true ∧ cmb2_timesMono 100 ops = true) ∧
    (getBal exBal ACC_POOL = 0 ∧ getBal exBal ACC_BETFEE = 0 ∧ getBal exBal ACC_HOUSEFEE = 0) ∧
    (∀ x, SUB_BASE ≤ x → getBal exBal x = 0) := by
  refine ⟨?_, by decide, exBal_range⟩
  have h : ∀ ops ∈ [exWin, exLoss, exCancel], ops.all cmb2_wfUb = true ∧ ops.all Op.clean = true ∧ cmb2_timesMono 100 ops = true := by
    decide +kernel
  intro ops hops
  exact ⟨cmb2_wfUb_all (h ops hops).1, (h ops hops).2⟩

/-- the summary (deposited, spent, withdrawn, lost), the ghost counter and the bank balance of subaccount 1 -/
def exView (s : State) : Option (Int × Int × Int × Int × Int) × Int :=
  ((aget s.subs (subAddr 1)).map fun r => (r.sum.deposited, r.sum.spent, r.sum.withdrawn, r.sum.lost, r.released), s.bal (subAddr 1))

/-- HOUSE WINS. Before the block: spent = 50000000 − 5000000 = liquidity 40000000 + fee 5000000. The end-block calls
    AfterHouseWin(liquidity 40000000, profit 1999900): un-spend, forward the profit to the owner; the fee goes to the
    market creator (account 9) and stays `Spent` for ever. After the unlock time the whole bank balance is released. -/
example :
    let s1 := run exInit (exPre ++ [.core (.marketResolve sampleTk 1 60 MS_DECLARED [12])])
    let s2 := run s1 [.core .endBlock]
    let s3 := run exInit exWin
    exView s1 = (some (60000000, 45000000, 0, 0, 0), 15000000) ∧
    (Core.step s1.core .endBlock).2 = .ok ∧ (step s1 (.core .endBlock)).2 = .ok ∧
    endBlockHooks s1.core (Core.step s1.core .endBlock).1 = [.win (subAddr 1) 40000000 1999900] ∧
    exView s2 = (some (60000000, 5000000, 0, 0, 0), 55000000) ∧ s2.bal 2 = 101999900 ∧ s2.bal 9 = 5000100 ∧
    exView s3 = (some (60000000, 5000000, 55000000, 0, 55000000), 0) ∧ s3.bal 2 = 156999900 ∧ s3.core.time = 400 ∧
    s3.core.total = totalBal exBal := by
  dsimp only
  refine ⟨?_, ?_, ?_, ?_, ?_, ?_, ?_, ?_, ?_, ?_, ?_⟩ <;> decide +kernel

/-- HOUSE LOSES. AfterHouseLoss(liquidity 40000000, lost 1999900): un-spend the liquidity, book the loss. -/
example :
    let s1 := run exInit (exPre ++ [.core (.marketResolve sampleTk 1 60 MS_DECLARED [11])])
    let s2 := run s1 [.core .endBlock]
    let s3 := run exInit exLoss
    (step s1 (.core .endBlock)).2 = .ok ∧
    endBlockHooks s1.core (Core.step s1.core .endBlock).1 = [.loss (subAddr 1) 40000000 1999900] ∧
    exView s2 = (some (60000000, 5000000, 0, 1999900, 0), 53000100) ∧
    exView s3 = (some (60000000, 5000000, 53000100, 1999900, 53000100), 0) ∧ s3.bal 2 = 153000100 := by
  dsimp only
  refine ⟨?_, ?_, ?_, ?_, ?_⟩ <;> decide +kernel

/-- CANCELLED MARKET. AfterHouseRefund(liquidity 40000000) and AfterHouseFeeRefund(fee 5000000): `Spent` returns to 0. -/
example :
    let s1 := run exInit (exPre ++ [.core (.marketResolve sampleTk 1 60 MS_CANCELED [])])
    let s2 := run s1 [.core .endBlock]
    let s3 := run exInit exCancel
    (step s1 (.core .endBlock)).2 = .ok ∧
    endBlockHooks s1.core (Core.step s1.core .endBlock).1 = [.refund (subAddr 1) 40000000, .refund (subAddr 1) 5000000] ∧
    exView s2 = (some (60000000, 0, 0, 0, 0), 60000000) ∧
    exView s3 = (some (60000000, 0, 60000000, 0, 60000000), 0) ∧ s3.bal 2 = 160000000 ∧ s3.bal 3 = 100000000 := by
  dsimp only
  refine ⟨?_, ?_, ?_, ?_, ?_, ?_⟩ <;> decide +kernel

/-- before the unlock time nothing can be withdrawn: the message fails -/
example : (step (run exInit exPre) (.withdrawUnlocked 2)).2 = .err := by decide +kernel

/-- SHARPNESS of `c11_hooks_total_combined` (NOT a finding: it needs an authz grant SIGNED BY A SUBACCOUNT ADDRESS,
    which has no key). If a direct house deposit could name a subaccount address as depositor — the history below
    satisfies `Op.wf` (no custody account signs) but not `Op.wfU` — the participation would belong to the subaccount
    address without `Spend`, and at settlement `AfterHouseRefund` would un-spend more than `Spent`: the core end-block
    succeeds, the combined end-block HALTS. This is the reason for the key-holding hypothesis. -/
theorem c11_hooks_total_needs_keyholders :
    let ops : List Op :=
      [.core (.marketAdd 9 sampleTk 1 50 500 [11, 12] MS_ACTIVE),
       .create 7 2 [(300, 60000000)],
       .core (.grant (subAddr 1) 3 0 50000000 none),
       .core (.deposit 3 sampleTk 1 50000000 (subAddr 1)),
       .core (.marketResolve sampleTk 1 60 MS_CANCELED [])]
    let s := run exInit ops
    (Core.step s.core .endBlock).2 = .ok ∧ (step s (.core .endBlock)).2 = .halt ∧
    exView s = (some (60000000, 0, 0, 0, 0), 10000000) := by
  dsimp only
  decide +kernel

/-- SHARPNESS of `c11_bank_eq_available_combined`: after a direct bank send to the subaccount address (the one operation
    below that is not `clean`) the bank balance exceeds Deposited − Withdrawn − Spent − Lost; `c11_ledger_combined`
    (bank ≥ available) still holds. -/
theorem c11_bank_eq_available_needs_no_direct_send :
    let ops : List Op := [.create 7 2 [(300, 60000000)], .core (.send 3 (subAddr 1) 5)]
    let s := run exInit ops
    ops.all cmb2_wfUb = true ∧ ops.map Op.clean = [true, false] ∧
    exView s = (some (60000000, 0, 0, 0, 0), 60000005) := by
  dsimp only
  decide +kernel

end Sge.Combined
