/-
  C01 (per-market clauses)  Custody accounts hold exactly what the chain owes, PER MARKET.

  `c01_custody` (C01.lean) proves the three GLOBAL custody equations for every reachable state. Here the ledgers are
  split by market (SgeProofs/Lemmas/C01Market.lean):

    c1m_owed s m         = Σ_{unpaid participations of m's book} (liquidity + realised profit) + Σ_{unsettled bets on m} Σ parts.stake
    c1m_owedBetFee s m   = Σ_{unsettled bets on m} fee
    c1m_owedHouseFee s m = Σ_{unpaid participations of m's book} fee
    c1m_markets s        = the uids of the order books of `s` (a market gets its book in the transaction that adds it;
                           a uid without a book has all three ledgers 0: `c01m_no_book_nothing_owed`)

  Proved for every history of all 12 operations from a chain with empty custody accounts (hypotheses of `c01_custody`):

    c01m_custody_by_market        the three custody balances are the sums over the markets of the per-market ledgers
    c01m_message_frame            a message changes the three ledgers of no market but the one it names (the wager's,
                                  the deposit's, the withdrawal's market, the uid of the add / update / resolve ticket);
                                  authz, bank, parameter and new-block operations change no market's ledgers
    c01m_no_book_nothing_owed     nothing is owed on a uid that has no order book
    c01m_endblock_idle_frame      an end-block with both settlement queues empty changes nothing (the general end-block
                                  frame is `c01m_endblock_frame`, C01MarketFrame.lean; the per-market outflow equation
                                  is NOT proved)
    c01m_owed_nonneg_partial      (PARTIAL: under the ghost hypothesis `NonNegParts` of C02 — no backing part with a
                                  negative stake, KF-C03-negative-part — and valid parameters) `0 ≤ c1m_owed s m` for
                                  every market in every reachable state: the pool never holds less for a market than
                                  nothing, i.e. no market is paid out of another market's custody
-/
import SgeProofs.Lemmas.C01MarketFrame
namespace Sge.Core
open Sge Sge.Genesis

/-- C01.e  REGROUPING BY MARKET. In every reachable state (any history of all 12 operations, settling end-blocks
    included, from a chain whose custody accounts are empty, messages signed by user accounts) the liquidity-pool
    balance is the sum, over the markets of the state, of what the pool owes on account of that market (liquidity +
    realised profit of the unpaid participations of its book, plus the stakes of the unsettled bets on it); likewise
    the bet-fee collector (fees of the market's unsettled bets) and the house-fee collector (fees of the unpaid
    participations of the market's book). Every book and every bet is counted under exactly one market. -/
theorem c01m_custody_by_market (p : Params) (bal : List (Nat × Int)) (h t : Nat) (ops : List Op)
    (h0 : getBal bal ACC_POOL = 0 ∧ getBal bal ACC_BETFEE = 0 ∧ getBal bal ACC_HOUSEFEE = 0)
    (hwf : ∀ op ∈ ops, op.userSigned') :
    let s := run (initState p bal h t) ops
    getBal s.bal ACC_POOL = sumBy (c1m_owed s) (c1m_markets s) ∧
    getBal s.bal ACC_BETFEE = sumBy (c1m_owedBetFee s) (c1m_markets s) ∧
    getBal s.bal ACC_HOUSEFEE = sumBy (c1m_owedHouseFee s) (c1m_markets s) := by
  intro s
  have hC := c01_custody p bal h t ops h0 hwf
  have hI : ObInv s := c10_invariant p bal h t ops
  exact ⟨hC.1.trans (c1m_owedPool_regroup hI), hC.2.1.trans (c1m_owedBetFee_regroup hI),
    hC.2.2.trans (c1m_owedHouseFee_regroup hI)⟩

/-- C01.f  Nothing is owed on a uid without an order book: in every reachable state the three per-market ledgers of
    such a uid are 0 (no bet is recorded on a market without a book), so the sums of `c01m_custody_by_market` leave
    nothing out. The books of a reachable state carry pairwise distinct uids. -/
theorem c01m_no_book_nothing_owed (p : Params) (bal : List (Nat × Int)) (h t : Nat) (ops : List Op) :
    let s := run (initState p bal h t) ops
    (c1m_markets s).Nodup ∧
    ∀ m, m ∉ c1m_markets s → c1m_owed s m = 0 ∧ c1m_owedBetFee s m = 0 ∧ c1m_owedHouseFee s m = 0 := by
  intro s
  have hI : ObInv s := c10_invariant p bal h t ops
  refine ⟨c1m_markets_nodup hI.sB, ?_⟩
  intro m hm
  apply c1m_owed_no_book hI
  cases hg : getBook s m with
  | none => rfl
  | some b =>
    exfalso
    apply hm
    obtain ⟨hbm, hbu⟩ := getBook_mem hg
    exact List.mem_map.mpr ⟨b, hbm, hbu⟩

/-- C01.g  AN ACTION ON ONE MARKET NEVER CHANGES WHAT IS OWED ON ANOTHER. For every state whose stores are keyed and
    whose bet ids are bounded by the bet counter (`CustI`: every reachable state, `c01_custody`), every operation other
    than the end-block and every market `m` that the operation does not name: what the pool, the bet-fee collector and
    the house-fee collector owe on account of `m` is the same before and after — whether the operation succeeds or
    fails. Authz, bank, parameter and new-block operations name no market and change no market's ledgers. -/
theorem c01m_message_frame (s : State) (hI : CustI s) (op : Op) (hne : op ≠ .endBlock) (m : Nat)
    (hm : c1m_named op ≠ some m) :
    c1m_owed (step s op).1 m = c1m_owed s m ∧ c1m_owedBetFee (step s op).1 m = c1m_owedBetFee s m ∧
    c1m_owedHouseFee (step s op).1 m = c1m_owedHouseFee s m :=
  (c1m_step_frame s hI op hne m hm).same

/-- C01.h  (PARTIAL: histories in which some wager produced a backing part with a negative stake —
    KF-C03-negative-part — are excluded by the ghost hypothesis `NonNegParts` of `c02_collateral_partial`; parameters
    valid.) NO MARKET IS PAID OUT OF ANOTHER MARKET'S CUSTODY: in every reachable state what the pool owes on account
    of any single market — unpaid liquidity ± realised profit plus open stakes — is non-negative, also in the middle of
    a settlement, when winners have already been paid and the stakes of the losers are not yet booked as profit.
    Without the hypothesis a single participation can be owed a negative amount
    (`c02_counterexample_loss_exceeds_deposit`: participation 4 holds liquidity 2 and realised profit −3) and the
    end-blocker halts rather than pay it (`c05_counterexample_halt`); no counter-example with a negative MARKET total is
    among the recorded ones. -/
theorem c01m_owed_nonneg_partial (p : Params) (bal : List (Nat × Int)) (h t : Nat) (ops : List Op)
    (h0 : getBal bal ACC_POOL = 0 ∧ getBal bal ACC_BETFEE = 0 ∧ getBal bal ACC_HOUSEFEE = 0)
    (hp : p.valid = true) (hwf : ∀ op ∈ ops, op.userSigned') :
    let s := run (initState p bal h t) ops
    NonNegParts s → ∀ m, 0 ≤ c1m_owed s m := by
  intro s hnn m
  obtain ⟨_, hR, hH, hV⟩ := c05_no_halt_history_of_nonneg_parts p bal h t ops h0 hp hwf hnn
  exact c1m_owed_nonneg hR.inv (c10_invariant p bal h t ops) hH hV m

/-- C01.i  (the end-block, the part proved so far.) An end-block that finds both settlement queues empty — no market
    waiting for bet settlement, no book waiting for the payment of its participations — changes nothing at all, so the
    ledgers of every market stay; a halting end-block changes nothing either (`c04_block_halt_unchanged`). The general
    frame "a market in neither queue keeps its ledgers over an end-block that settles other markets" is
    `c01m_endblock_frame` (C01MarketFrame.lean); the per-market outflow equation is NOT proved. -/
theorem c01m_endblock_idle_frame (s : State) (hm : s.mqueue = []) (ho : s.obqueue = []) : (step s .endBlock).1 = s := by
  have h1 : betEndBlock (s.mqueue.length + 1) s s.params.betBatch = some s := by
    unfold betEndBlock
    split
    · rfl
    · rw [hm]
  have h2 : obEndBlock (s.obqueue.length + 1) s s.params.obBatch 0 = some s := by
    unfold obEndBlock
    split
    · rfl
    · rw [ho]; rfl
  have : endBlockO s = some s := by
    unfold endBlockO
    simp only [bind, Option.bind]
    rw [h1]
    exact h2
  simp only [step, endBlock, this]

/-- non-vacuity: two markets, a deposit on each, a wager on market 1. The pool holds 46999900 + 27000000, split by
    market as the ledgers say; the wager on market 1 left the ledgers of market 2 alone; no backing part is negative;
    uid 3 has no book and nothing is owed on it -/
example :
    let tk : Tk := { ok := true, kycIgnore := true, kycApproved := false, kycId := 0 }
    let pl : WagerPayload :=
      { market := 1, odds := 11, oddsVal := some ⟨2 * PREC⟩, mult := ⟨PREC⟩, allOdds := [(11, ⟨PREC⟩), (12, ⟨PREC⟩)] }
    let ops : List Op := [.marketAdd 9 tk 1 50 500 [11, 12] MS_ACTIVE, .marketAdd 9 tk 2 50 500 [21, 22] MS_ACTIVE,
      .deposit 7 tk 1 50000000 0, .deposit 7 tk 2 30000000 0]
    let s1 := run (initState {} [(7, 100000000), (8, 100000000), (9, 0)] 1 100) ops
    let s2 := (step s1 (.wager 8 tk 77 2000000 pl)).1
    (∀ op ∈ ops ++ [.wager 8 tk 77 2000000 pl], op.userSigned') ∧ NonNegParts s2 ∧
    c1m_markets s2 = [1, 2] ∧
    (c1m_owed s1 1, c1m_owed s1 2, c1m_owed s2 1, c1m_owed s2 2, c1m_owed s2 3) = (45000000, 27000000, 46999900, 27000000, 0) ∧
    (c1m_owedBetFee s2 1, c1m_owedBetFee s2 2, c1m_owedHouseFee s2 1, c1m_owedHouseFee s2 2) = (100, 0, 5000000, 3000000) ∧
    (getBal s2.bal ACC_POOL, getBal s2.bal ACC_BETFEE, getBal s2.bal ACC_HOUSEFEE) = (73999900, 100, 8000000) := by
  refine ⟨?_, ?_, ?_⟩
  · intro op hop
    simp only [List.cons_append, List.nil_append, List.mem_cons, List.not_mem_nil, or_false] at hop
    rcases hop with rfl | rfl | rfl | rfl | rfl <;> first | trivial | (show isModuleAcc _ = false; decide)
  · intro x hx fl hfl
    revert fl
    revert x
    decide +kernel
  · decide +kernel

end Sge.Core
