/-
  C01 (per-market clauses, the end-block)  "An action on one market never changes what is owed on another" — for the
  end-block, which names no market but settles the markets of its two queues.

  `c01m_message_frame` (C01Market.lean) covers the 11 message operations. The end-blocker works on
    s.mqueue   the markets waiting for the settlement of their bets (a market enters at resolution), and
    s.obqueue  the order books waiting for the payment of their participations (a book enters when the last pending bet
               of its market is settled).
  Proved here (lemmas in SgeProofs/Lemmas/C01MarketEnd.lean):

    c01m_endblock_frame             for every state whose bet index is consistent (`BetIdx`) and whose book store is
                                    keyed, and every market `m` in neither queue: the three ledgers of `m` are the same
                                    before and after the end-block — settling or halting, whatever the budgets
    c01m_endblock_frame_reachable   the same for every reachable state `run (initState …) ops` (no further hypothesis)
    c01m_step_frame_reachable       message frame + end-block frame in one statement over any operation
    c01m_history_frame              over any continuation `ops'` of a reachable state in which no message names `m` and
                                    `m` is in neither queue at any end-block of the continuation, the ledgers of `m` stay

  NOT proved: the per-market outflow equation (ledger of `m` before − after = what the block pays out of the pool for
  bets of `m` and participations of `m`'s book).
-/
import SgeProofs.Lemmas.C01MarketEnd
import SgeProofs.Properties.C01Market
namespace Sge.Core
open Sge Sge.Genesis

/-- C01.j  THE END-BLOCK FRAME. Let `s` be a state whose bet index is consistent (`BetIdx`: every pending entry is the
    entry of a stored unsettled bet under that bet's market, ids and uids identify bets) and whose order books are
    stored under their uids (both hold in every reachable state, `c01m_endblock_frame_reachable`). Let `m` be a market
    that is in neither settlement queue: not waiting for the settlement of its bets (`m ∉ s.mqueue`) and its book not
    waiting for the payment of its participations (`m ∉ s.obqueue`). Then what the pool, the bet-fee collector and the
    house-fee collector owe on account of `m` is the same before and after the end-block — for every batch budget,
    however many bets of other markets are settled and participations of other books paid, and also when the
    end-blocker halts. -/
theorem c01m_endblock_frame (s : State) (hI : BetIdx s) (hsB : Sorted Book.key s.books) (m : Nat)
    (hq : m ∉ s.mqueue) (ho : m ∉ s.obqueue) :
    c1m_owed (step s .endBlock).1 m = c1m_owed s m ∧ c1m_owedBetFee (step s .endBlock).1 m = c1m_owedBetFee s m ∧
    c1m_owedHouseFee (step s .endBlock).1 m = c1m_owedHouseFee s m :=
  (c1f_step_endBlock_frame s m hI hsB hq ho).same

/-- C01.j for reachable states: after any history of all 12 operations from any initial chain, an end-block leaves the
    three ledgers of every market that is in neither settlement queue unchanged. -/
theorem c01m_endblock_frame_reachable (p : Params) (bal : List (Nat × Int)) (h t : Nat) (ops : List Op) (m : Nat) :
    let s := run (initState p bal h t) ops
    m ∉ s.mqueue → m ∉ s.obqueue →
    c1m_owed (step s .endBlock).1 m = c1m_owed s m ∧ c1m_owedBetFee (step s .endBlock).1 m = c1m_owedBetFee s m ∧
    c1m_owedHouseFee (step s .endBlock).1 m = c1m_owedHouseFee s m := by
  intro s hq ho
  exact c01m_endblock_frame s (run_betIdx _ ops (betIdx_init p bal h t)) (c10_invariant p bal h t ops).sB m hq ho

/-- the operation leaves market `m` alone in state `s`: a message does not name `m`; an end-block does not find `m` in
    either settlement queue -/
def c1f_leaves (s : State) (op : Op) (m : Nat) : Prop :=
  match op with
  | .endBlock => m ∉ s.mqueue ∧ m ∉ s.obqueue
  | op => c1m_named op ≠ some m

/-- C01.k  ONE OPERATION, ANY KIND. In a reachable state (custody accounts empty at genesis — needed for `CustI` — and
    messages signed by user accounts) an operation that leaves market `m` alone (`c1f_leaves`) keeps the three ledgers
    of `m`. -/
theorem c01m_step_frame_reachable (p : Params) (bal : List (Nat × Int)) (h t : Nat) (ops : List Op)
    (h0 : getBal bal ACC_POOL = 0 ∧ getBal bal ACC_BETFEE = 0 ∧ getBal bal ACC_HOUSEFEE = 0)
    (hwf : ∀ op ∈ ops, op.userSigned') (op : Op) (m : Nat) :
    let s := run (initState p bal h t) ops
    c1f_leaves s op m →
    c1m_owed (step s op).1 m = c1m_owed s m ∧ c1m_owedBetFee (step s op).1 m = c1m_owedBetFee s m ∧
    c1m_owedHouseFee (step s op).1 m = c1m_owedHouseFee s m := by
  intro s hl
  have hS : SettleInv s := run_settleInv _ ops (settleInv_init p bal h t h0) hwf
  by_cases he : op = .endBlock
  · subst he
    exact c01m_endblock_frame_reachable p bal h t ops m hl.1 hl.2
  · refine c01m_message_frame s hS.toCustI op he m ?_
    cases op <;> first | exact hl | exact absurd rfl he

/-- every operation of the list leaves `m` alone in the state it is applied to -/
def c1f_leavesAll (m : Nat) : State → List Op → Prop
  | _, [] => True
  | s, op :: rest => c1f_leaves s op m ∧ c1f_leavesAll m (step s op).1 rest

/-- C01.l  OVER A WHOLE CONTINUATION. From a reachable state, any further history in which every message names a
    market other than `m` and every end-block finds `m` in neither settlement queue — however much is wagered,
    deposited, withdrawn, resolved, settled and paid on other markets — leaves the three ledgers of `m` exactly as they
    were. -/
theorem c01m_history_frame (p : Params) (bal : List (Nat × Int)) (h t : Nat)
    (h0 : getBal bal ACC_POOL = 0 ∧ getBal bal ACC_BETFEE = 0 ∧ getBal bal ACC_HOUSEFEE = 0) (m : Nat) :
    ∀ (ops' ops : List Op), (∀ op ∈ ops ++ ops', op.userSigned') →
    let s := run (initState p bal h t) ops
    c1f_leavesAll m s ops' →
    c1m_owed (run s ops') m = c1m_owed s m ∧ c1m_owedBetFee (run s ops') m = c1m_owedBetFee s m ∧
    c1m_owedHouseFee (run s ops') m = c1m_owedHouseFee s m := by
  intro ops'
  induction ops' with
  | nil => intro ops _ s _; exact ⟨rfl, rfl, rfl⟩
  | cons op rest ih =>
    intro ops hwf s hl
    have hwf1 : ∀ o ∈ ops, o.userSigned' := fun o ho => hwf o (List.mem_append_left _ ho)
    have f1 := c01m_step_frame_reachable p bal h t ops h0 hwf1 op m hl.1
    have hrun : run (initState p bal h t) (ops ++ [op]) = (step s op).1 := by
      show run (initState p bal h t) (ops ++ [op]) = (step (run (initState p bal h t) ops) op).1
      unfold run; rw [List.foldl_append]; rfl
    have f2 := ih (ops ++ [op]) (by rw [List.append_assoc]; exact hwf) (by rw [hrun]; exact hl.2)
    rw [hrun] at f2
    have hr : run s (op :: rest) = run (step s op).1 rest := rfl
    rw [hr]
    exact ⟨f2.1.trans f1.1, f2.2.1.trans f1.2.1, f2.2.2.trans f1.2.2⟩

/-- non-vacuity: two markets with a deposit each, a wager on market 1, market 1 declared for the bettor's outcome. The
    state is reachable, market 1 waits in the bet-settlement queue and market 2 is in neither queue; the end-block
    settles the bet of market 1 and pays its participation (its ledgers go 46999900 / 100 / 5000000 → 0 / 0 / 0 and the
    pool pays out), while the ledgers of market 2 stay 27000000 / 0 / 3000000 -/
example :
    let tk : Tk := { ok := true, kycIgnore := true, kycApproved := false, kycId := 0 }
    let pl : WagerPayload :=
      { market := 1, odds := 11, oddsVal := some ⟨2 * PREC⟩, mult := ⟨PREC⟩, allOdds := [(11, ⟨PREC⟩), (12, ⟨PREC⟩)] }
    let ops : List Op := [.marketAdd 9 tk 1 50 500 [11, 12] MS_ACTIVE, .marketAdd 9 tk 2 50 500 [21, 22] MS_ACTIVE,
      .deposit 7 tk 1 50000000 0, .deposit 7 tk 2 30000000 0, .wager 8 tk 77 2000000 pl,
      .marketResolve tk 1 60 MS_DECLARED [11]]
    let s1 := run (initState {} [(7, 100000000), (8, 100000000), (9, 0)] 1 100) ops
    let s2 := (step s1 .endBlock).1
    (s1.mqueue, s1.obqueue) = ([1], []) ∧ c1f_leaves s1 .endBlock 2 ∧ (step s1 .endBlock).2 ≠ .halt ∧
    (c1m_owed s1 1, c1m_owedBetFee s1 1, c1m_owedHouseFee s1 1) = (46999900, 100, 5000000) ∧
    (c1m_owed s2 1, c1m_owedBetFee s2 1, c1m_owedHouseFee s2 1) = (0, 0, 0) ∧
    (c1m_owed s1 2, c1m_owedBetFee s1 2, c1m_owedHouseFee s1 2) = (27000000, 0, 3000000) ∧
    (c1m_owed s2 2, c1m_owedBetFee s2 2, c1m_owedHouseFee s2 2) = (27000000, 0, 3000000) ∧
    (getBal s1.bal ACC_POOL, getBal s2.bal ACC_POOL) = (73999900, 27000000) := by
  refine ⟨by decide +kernel, ⟨by decide +kernel, by decide +kernel⟩, by decide +kernel, by decide +kernel,
    by decide +kernel, by decide +kernel, by decide +kernel, by decide +kernel⟩

end Sge.Core
