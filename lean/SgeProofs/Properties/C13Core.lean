/-
  C13 (second half): no betting, house or market operation creates or destroys tokens.
  For every history of core-slice operations the sum of all balances is what it was at the start.
  (The bank of the model has `transfer` only; `Sge.Gen.Bank` + C13Facts show that the code calls nothing else.)
-/
import Sge.Core.Run
import SgeProofs.Lemmas.CoreSupply
namespace Sge.Core
open Sge

theorem step_total (s : State) (op : Op) : (step s op).1.total = s.total := by
  cases op with
  | marketAdd c tk u st en o stt => exact commit_total _ _ (fun _ h => marketAddO_total h)
  | marketUpdate tk u st en stt => exact commit_total _ _ (fun _ h => marketUpdateO_total h)
  | marketResolve tk u ts stt w => exact commit_total _ _ (fun _ h => marketResolveO_total h)
  | deposit c tk m a pd =>
    simp only [step, houseDeposit]
    cases h : houseDepositO s c tk m a pd with
    | none => rfl
    | some r => exact houseDepositO_total h
  | withdraw c tk m i md a pd => exact commit_total _ _ (fun _ h => houseWithdrawO_total h)
  | wager c tk u a pl => exact commit_total _ _ (fun _ h => wagerO_total h)
  | grant g e k l x => rfl
  | revoke g e k => rfl
  | send a b x =>
    simp only [step]
    split
    · rfl
    · exact commit_total _ _ (fun _ h => bankSend_total h)
  | setParams p => simp only [step]; split <;> rfl
  | endBlock =>
    simp only [step, endBlock]
    cases h : endBlockO s with
    | none => rfl
    | some s' => exact endBlockO_total h
  | newBlock h t => rfl

/-- C13.f  For all histories of market / house / bet operations, bank traffic, parameter updates and
    block ends, the total of all balances (the supply held by the accounts of the slice) never changes. -/
theorem c13_core_supply_constant (s : State) (ops : List Op) : (run s ops).total = s.total := by
  induction ops generalizing s with
  | nil => rfl
  | cons op rest ih =>
    show (run (step s op).1 rest).total = s.total
    rw [ih, step_total]

end Sge.Core
