/-
  C17  Parameters accepted by validation keep the chain live and the ledgers sound.

  "For every combination of module parameters that genesis validation or a parameter-update message accepts,
   block processing does not abort and C01–C05, C11 and C13 continue to hold; in particular no accepted value can
   make an amount negative, a divisor zero, or a fee exceed the amount it is taken from."

  Model: `Sge.Params` (the validators of all eight modules through their three entry points, checked against the
  real validators on a boundary lattice by the suite `params`), `Sge.Mint` (BeginBlocker), `Sge.Core`
  (`Op.setParams`, deposits, wagers, end-blockers; checked under accepted extremes by the suite `params_core`).

  THE FULL STATEMENT IS FALSE OF THE CODE AS IT IS.  Kept here, with the proved counter-examples below:

    theorem c17_mint_no_halt (m : MintParams) (hv : MintParams.validate {} m = true) (n : Nat) (h : Int) (c : Chain)
        (h1 : 1 ≤ h) (hh : c.halted = false) (hm : MinterOK c.minter) : (runBlocks m.p n h c).halted = false
      -- false: c17_mint_halt_short_first_phase, c17_mint_halt_negative_inflation, c17_mint_halt_exclude_exceeds_supply

    theorem c17_core_wager_fee (s s' : State) … (hv : s.params.valid = true) (h : wagerO s c tk u a pl = some s') :
        s.params.betFee ≤ a
      -- false: c17_core_wager_fee_counterexample (`MinAmount = 2`, `Fee = 3` is accepted)

  What is proved for ALL accepted parameter values (no bound):
    · the provable part for the code as it is (`…_partial`, with the excluded accepted values spelled out), and the
      exact description of the excluded values (`c17_mint_zero_divisor_exact`, `c17_mint_block_halts_iff`);
    · the full statement for the tree with repo_patches/params_mint_validate.diff + params_mint_exclude_clamp.diff
      (`c17_mint_no_halt_patched`) and params_bet_fee_lt_min.diff (`c17_core_wager_fee_patched`);
    · house fee: a successful deposit never stores a negative liquidity or fee, for every accepted fee including
      ≥ 100 % (`c17_core_deposit_fee`, full strength);
    · parameter updates: invalid parameters change nothing, valid parameters stay valid along every history, the
      batch sizes are positive and each settlement step makes progress.
-/
import SgeProofs.Lemmas.ParamsMint
import SgeProofs.Lemmas.ParamsCore
namespace Sge.Params
open Sge Sge.Mint Sge.Core

-- =============================================================================================
-- A. the validators

/-- C17.A1  `Sge.Mint.paramsValid` is exactly `Params.Validate()` of x/mint as the code is (the denomination, which
    the mint model does not carry, aside). -/
theorem c17_mint_paramsValid_exact (m : MintParams) :
    MintParams.validate {} m = (denomOk m.denom && Mint.paramsValid m.p) := by
  simp only [MintParams.validate, MintParams.fields, MintParams.phasesValid, Mint.paramsValid, List.all_cons,
    List.all_nil, id, Bool.not_false, Bool.true_or, Bool.and_true]
  cases denomOk m.denom <;> cases decide (0 < m.p.blocksPerYear) <;> cases Mint.phasesValid m.p.phases <;>
    cases decide (0 ≤ m.p.exclude) <;> rfl

/-- C17.A2  `Sge.Core.Params.valid` — the guard of `Op.setParams` — is exactly "accepted by `MsgUpdateParams` of
    x/bet, x/house and x/orderbook" (`Params.Validate()` and the per-field validators that `SetParamSet` runs), for
    the fields the core model has. -/
theorem c17_core_valid_exact (b : BetParams) (h : HouseParams) (o : ObParams) (hq : 0 < b.maxQuery) :
    (toCore b h o).valid = (BetParams.accepted {} b && HouseParams.accepted {} h && ObParams.accepted {} o) := by
  rw [Bool.eq_iff_iff, valid_iff]
  simp only [toCore, BetParams.accepted, BetParams.validate, BetParams.fields,
    BetParams.constraintsValid, HouseParams.accepted, HouseParams.validate, HouseParams.fields,
    HouseParams.feeValid, ObParams.accepted, ObParams.validate, ObParams.fields, List.all_cons, List.all_nil, id,
    Bool.not_false, Bool.true_or, Bool.and_true, Bool.and_eq_true, decide_eq_true_eq, ne_eq]
  omega

/-- C17.A3  The two validation entry points of x/house differ: `MaxWithdrawalCount = 0` passes `Params.Validate()`
    (hence `GenesisState.Validate` and `MsgUpdateParams.ValidateBasic`) but not the per-field validator, so
    `SetParamSet` panics — inside a transaction the update fails, in `InitGenesis` the chain does not start.
    With params_house_validate.diff the two agree on it. -/
theorem c17_house_validate_gap :
    HouseParams.validate {} ⟨100, ⟨PREC / 10⟩, 0⟩ = true ∧ HouseParams.accepted {} ⟨100, ⟨PREC / 10⟩, 0⟩ = false ∧
    HouseParams.validate Cfg.patched ⟨100, ⟨PREC / 10⟩, 0⟩ = false := by decide

/-- C17.A4  With the house patch, and for every other module already today, whatever `Params.Validate()` accepts
    also passes every per-field validator: a validated genesis never panics in `InitGenesis`. -/
theorem c17_validate_implies_fields (cfg : Cfg) :
    (∀ m, MintParams.validate cfg m = true → MintParams.accepted cfg m = true) ∧
    (∀ b, BetParams.validate cfg b = true → BetParams.accepted cfg b = true) ∧
    (∀ o, ObParams.validate cfg o = true → ObParams.accepted cfg o = true) ∧
    (∀ s, SubParams.validate cfg s = true → SubParams.accepted cfg s = true) ∧
    (cfg.house = true → ∀ h, HouseParams.validate cfg h = true → HouseParams.accepted cfg h = true) := by
  refine ⟨?_, ?_, ?_, ?_, ?_⟩
  · intro m h
    unfold MintParams.accepted
    rw [h]
    unfold MintParams.validate at h
    simp only [Bool.and_eq_true] at h
    simp [h.1]
  · intro b h; unfold BetParams.accepted; rw [h]; unfold BetParams.validate at h; simp [h]
  · intro o h; unfold ObParams.accepted; rw [h]; unfold ObParams.validate at h; simp [h]
  · intro s _; rfl
  · intro hc hp h
    unfold HouseParams.accepted
    rw [h]
    unfold HouseParams.validate at h
    simp only [hc, Bool.not_true, Bool.false_or, Bool.and_eq_true, decide_eq_true_eq] at h
    simp [HouseParams.fields, h.1.1, h.1.2, h.2]

/-- C17.A5  No handler stores parameters for a signer other than the configured authority. -/
theorem c17_update_needs_authority (accepted : Bool) : updateOk false accepted = false := rfl

/-- C17.A6  The proposed patches only reject more: every value the patched validators accept is accepted today. -/
theorem c17_patches_only_restrict (cfg : Cfg) :
    (∀ m, MintParams.validate cfg m = true → MintParams.validate {} m = true) ∧
    (∀ b, BetParams.validate cfg b = true → BetParams.validate {} b = true) ∧
    (∀ h, HouseParams.validate cfg h = true → HouseParams.validate {} h = true) := by
  refine ⟨?_, ?_, ?_⟩
  · intro m h
    simp only [MintParams.validate, MintParams.fields, MintParams.phasesValid, List.all_cons, List.all_nil, id,
      Bool.and_true, Bool.and_eq_true, Bool.not_false, Bool.true_or] at h ⊢
    obtain ⟨⟨h1, h2, ⟨h3, _⟩, h4⟩, _⟩ := h
    exact ⟨h1, h2, h3, h4⟩
  · intro b h
    simp only [BetParams.validate, BetParams.fields, BetParams.constraintsValid, List.all_cons, List.all_nil, id,
      Bool.and_true, Bool.and_eq_true, Bool.not_false, Bool.true_or] at h ⊢
    obtain ⟨h1, h2, ⟨h3, h4⟩, _⟩ := h
    exact ⟨h1, h2, h3, h4⟩
  · intro hp h
    simp only [HouseParams.validate, HouseParams.feeValid, Bool.and_eq_true, Bool.not_false, Bool.true_or,
      Bool.and_true] at h ⊢
    obtain ⟨⟨h1, h2, _⟩, _⟩ := h
    exact ⟨h1, h2⟩

-- =============================================================================================
-- B. x/mint: BeginBlocker under accepted parameters

/-- C17.B1  When exactly one block of x/mint aborts: the phase in force has non-zero inflation and either its
    block count truncates to zero (`PhaseProvisions.Quo(0)`: division by zero) or the amount to mint is negative
    (`sdk.NewCoin` panics). -/
theorem c17_mint_block_halts_iff (p : Mint.Params) (m : Minter) (h s : Int) :
    (beginBlock p m h s).2 = .halt ↔
      ((refresh p m (currentPhase p h).1 (currentPhase p h).2 s).inflation.raw ≠ 0 ∧
        ((phaseBlocks p (currentPhase p h).1).truncDec.raw = 0 ∨
          ∃ a t, blockProvisions (refresh p m (currentPhase p h).1 (currentPhase p h).2 s) (phaseBlocks p (currentPhase p h).1) = some (a, t) ∧ a < 0)) := by
  unfold beginBlock provision
  simp only
  generalize refresh p m (currentPhase p h).1 (currentPhase p h).2 s = m1
  generalize phaseBlocks p (currentPhase p h).1 = bl
  by_cases hz : m1.inflation.raw = 0
  · simp [hz]
  · simp only [hz, if_false, ne_eq, not_false_eq_true, true_and]
    cases hb : blockProvisions m1 bl with
    | none =>
      simp only [reduceCtorEq, false_and, exists_false, or_false, true_iff]
      by_cases h0 : bl.truncDec.raw = 0
      · exact h0
      · unfold blockProvisions at hb
        simp [h0] at hb
    | some r =>
      obtain ⟨a, t⟩ := r
      have hnz : ¬ bl.truncDec.raw = 0 := by
        intro h0
        unfold blockProvisions at hb
        simp [h0] at hb
      simp only [hnz, false_or, Option.some.injEq, Prod.mk.injEq]
      by_cases ha : a < 0
      · simp only [ha, if_true, true_iff]
        exact ⟨a, t, ⟨rfl, rfl⟩, ha⟩
      · simp only [ha, if_false, reduceCtorEq, false_iff, not_exists, not_and]
        intro a' t' ⟨ha', _⟩
        omega

/-- C17.B2  The zero divisor, exactly: under accepted parameters and at a height ≥ 1, the phase in force has
    non-zero inflation and a block count of zero IF AND ONLY IF the height is 1 and the FIRST phase has non-zero
    inflation and is shorter than one block (trunc(YearCoefficient · BlocksPerYear) = 0). At every other height the
    phase walk only yields phases that contain the block, so short later phases are skipped harmlessly. -/
theorem c17_mint_zero_divisor_exact (p : Mint.Params) (h : Int) (hv : Mint.paramsValid p = true) (h1 : 1 ≤ h) :
    ((currentPhase p h).1.inflation.raw ≠ 0 ∧ (phaseBlocks p (currentPhase p h).1).truncDec.raw = 0) ↔
    (h = 1 ∧ ∃ ph rest, p.phases = ph :: rest ∧ ph.inflation.raw ≠ 0 ∧ MintParams.phaseLen p ph = 0) := by
  have hne : p.phases ≠ [] := by
    unfold Mint.paramsValid at hv
    simp only [Bool.and_eq_true] at hv
    exact (phasesValid_coef hv.1.2).1
  constructor
  · intro ⟨hi, hz⟩
    by_cases he : h = 1
    · subst he
      cases hp : p.phases with
      | nil => exact absurd hp hne
      | cons ph rest =>
        rw [currentPhase_one p ph rest hp] at hi hz
        refine ⟨rfl, ph, rest, rfl, hi, ?_⟩
        rw [(phaseBlocks_shape p ph).2] at hz
        unfold PREC at hz; omega
    · rcases currentPhase_walk p h h1 he with h0 | ⟨_, hlen⟩
      · exact absurd h0 hi
      · rw [(phaseBlocks_shape p _).2] at hz
        unfold PREC at hz; omega
  · intro ⟨he, ph, rest, hp, hi, hlen⟩
    subst he
    rw [currentPhase_one p ph rest hp]
    refine ⟨hi, ?_⟩
    rw [(phaseBlocks_shape p ph).2, hlen]; simp

/-- C17.B3  Consequently: whenever the first phase has non-zero inflation and is shorter than one block, the first
    block aborts — for every minter and every supply. -/
theorem c17_mint_short_first_phase_halts (p : Mint.Params) (m : Minter) (supply : Int) (ph : Phase) (rest : List Phase)
    (hp : p.phases = ph :: rest) (hi : ph.inflation.raw ≠ 0) (hlen : MintParams.phaseLen p ph = 0) :
    (beginBlock p m 1 supply).2 = .halt :=
  beginBlock_short_first_phase_halts p m supply ph rest hp hi hlen

/-- C17.B4  Counter-example (division by zero): `BlocksPerYear = 1`, one phase with inflation 10 % and year
    coefficient 0.5 passes `Params.Validate()`; the phase has trunc(0.5 · 1) = 0 blocks and the first block aborts. -/
theorem c17_mint_halt_short_first_phase :
    MintParams.validate {} ⟨['u', 's', 'g', 'e'], { blocksPerYear := 1, exclude := 0, phases := [⟨⟨PREC / 10⟩, ⟨PREC / 2⟩⟩] }⟩ = true ∧
    (beginBlock { blocksPerYear := 1, exclude := 0, phases := [⟨⟨PREC / 10⟩, ⟨PREC / 2⟩⟩] } initialMinter 1 1000000).2 = .halt := by
  decide

/-- C17.B5  Counter-example (negative coin): a phase with inflation −10 % passes `validatePhases`; with a supply of
    1 000 000 the first block tries to mint −10 000 and aborts. -/
theorem c17_mint_halt_negative_inflation :
    MintParams.validate {} ⟨['u', 's', 'g', 'e'], { blocksPerYear := 10, exclude := 0, phases := [⟨⟨-(PREC / 10)⟩, ⟨PREC⟩⟩] }⟩ = true ∧
    (beginBlock { blocksPerYear := 10, exclude := 0, phases := [⟨⟨-(PREC / 10)⟩, ⟨PREC⟩⟩] } initialMinter 1 1000000).2 = .halt := by
  decide

/-- C17.B6  Counter-example (negative coin, second cause): `ExcludeAmount = 2 000 000` with a supply of 1 000 000 is
    accepted (the validator only asks for a non-negative amount); the inflation base supply − exclude is negative and
    the first block aborts. With params_mint_exclude_clamp.diff the same block mints nothing. -/
theorem c17_mint_halt_exclude_exceeds_supply :
    MintParams.validate {} ⟨['u', 's', 'g', 'e'], { blocksPerYear := 10, exclude := 2000000, phases := [⟨⟨PREC / 10⟩, ⟨PREC⟩⟩] }⟩ = true ∧
    (beginBlock { blocksPerYear := 10, exclude := 2000000, phases := [⟨⟨PREC / 10⟩, ⟨PREC⟩⟩] } initialMinter 1 1000000).2 = .halt ∧
    (mintBeginBlock Cfg.patched { blocksPerYear := 10, exclude := 2000000, phases := [⟨⟨PREC / 10⟩, ⟨PREC⟩⟩] } initialMinter 1 1000000).2 = .ok 0 := by
  decide

/-- C17.B7  The three counter-example parameter sets are rejected or made harmless by the patched tree. -/
theorem c17_mint_counterexamples_rejected_when_patched :
    MintParams.validate Cfg.patched ⟨['u', 's', 'g', 'e'], { blocksPerYear := 1, exclude := 0, phases := [⟨⟨PREC / 10⟩, ⟨PREC / 2⟩⟩] }⟩ = false ∧
    MintParams.validate Cfg.patched ⟨['u', 's', 'g', 'e'], { blocksPerYear := 10, exclude := 0, phases := [⟨⟨-(PREC / 10)⟩, ⟨PREC⟩⟩] }⟩ = false := by
  decide

/-- C17.B8  (the provable part for the code as it is)  For ALL parameters accepted by `Params.Validate()` EXCEPT
      (i)   those with a phase of negative inflation,
      (ii)  those whose first phase has non-zero inflation and is shorter than one block
            (trunc(YearCoefficient · BlocksPerYear) = 0) — only when the chain executes height 1,
      (iii) and as long as ExcludeAmount does not exceed the supply,
    no block of x/mint ever aborts: for every number of blocks, every start height ≥ 1 and every chain state whose
    stored minter amounts are non-negative (true of `DefaultInitialMinter`), the chain is not halted, the stored
    provisions and the carried fraction stay non-negative, the supply never shrinks and grows by exactly what the fee
    collector receives. (i)–(iii) are accepted today: B4, B5, B6. `MintLive` is (i) ∧ (ii); the hypothesis named in
    the brief, "every phase at least one block long and 0 ≤ inflation", implies it (`c17_mint_live_of_all_phases_long`). -/
theorem c17_mint_no_halt_partial (p : Mint.Params) (hv : Mint.paramsValid p = true) (hl : MintLive p)
    (n : Nat) (h : Int) (c : Chain) (h1 : 1 ≤ h) (hh : c.halted = false) (hs : p.exclude ≤ c.supply)
    (hm : MinterOK c.minter) :
    (runBlocks p n h c).halted = false ∧ MinterOK (runBlocks p n h c).minter ∧
    c.supply ≤ (runBlocks p n h c).supply ∧
    (runBlocks p n h c).supply - c.supply = (runBlocks p n h c).collector - c.collector := by
  rw [← mintRun_asis]
  exact mintRun_live {} p hv hl n h c h1 hh (Or.inr hs) hm

/-- the hypothesis of the brief implies `MintLive` -/
theorem c17_mint_live_of_all_phases_long (p : Mint.Params)
    (hlen : ∀ ph ∈ p.phases, 1 ≤ MintParams.phaseLen p ph) (hinf : ∀ ph ∈ p.phases, 0 ≤ ph.inflation.raw) :
    MintLive p :=
  ⟨hinf, fun ph rest hp => Or.inr (hlen ph (by rw [hp]; exact List.mem_cons_self ..))⟩

/-- C17.B9  After height 1 the first condition is the only one: a parameter update that arrives on a running chain
    (height ≥ 2) can install phases of any length — a block aborts only through a negative amount. -/
theorem c17_mint_block_live_after_genesis (p : Mint.Params) (m : Minter) (h supply : Int)
    (hv : Mint.paramsValid p = true) (hinf : ∀ ph ∈ p.phases, 0 ≤ ph.inflation.raw)
    (h2 : 2 ≤ h) (hs : p.exclude ≤ supply) (hm : MinterOK m) :
    ∃ m' n, beginBlock p m h supply = (m', .ok n) ∧ 0 ≤ n ∧ MinterOK m' := by
  unfold Mint.paramsValid at hv
  simp only [Bool.and_eq_true, decide_eq_true_eq] at hv
  obtain ⟨hne, hcoef⟩ := phasesValid_coef hv.1.2
  unfold beginBlock
  simp only
  have hsh := (phaseBlocks_shape p (currentPhase p h).1).2
  rcases currentPhase_walk p h (by omega) (by omega) with h0 | ⟨hmem, hlen⟩
  · have hz : (refresh p m (currentPhase p h).1 (currentPhase p h).2 supply).inflation.raw = 0 := by
      rw [refresh_inflation]; exact h0
    rw [provision_zero _ _ _ hz]
    refine ⟨_, 0, rfl, by omega, ?_⟩
    unfold refresh
    split
    · refine ⟨?_, hm.2⟩
      unfold nextPhaseProvisions Dec.mul Dec.mulInt
      rw [h0]
      apply chopRound_nonneg
      simp
    · exact hm
  · exact provision_ok m _ _ _ hsh (Or.inr hlen)
      (refresh_ok p m _ _ supply (hinf _ hmem) hs (by have := hcoef _ hmem; omega) hm)

/-- C17.B10  (full statement, patched tree)  With params_mint_validate.diff and params_mint_exclude_clamp.diff: for
    EVERY parameter set accepted by `Params.Validate()` — no further hypothesis on the parameters or on the supply —
    no block of x/mint aborts, and the stored amounts stay non-negative. -/
theorem c17_mint_no_halt_patched (cfg : Cfg) (hc1 : cfg.mintValidate = true) (hc2 : cfg.mintClamp = true)
    (m : MintParams) (hv : MintParams.validate cfg m = true)
    (n : Nat) (h : Int) (c : Chain) (h1 : 1 ≤ h) (hh : c.halted = false) (hm : MinterOK c.minter) :
    (mintRun cfg m.p n h c).halted = false ∧ MinterOK (mintRun cfg m.p n h c).minter ∧
    c.supply ≤ (mintRun cfg m.p n h c).supply ∧
    (mintRun cfg m.p n h c).supply - c.supply = (mintRun cfg m.p n h c).collector - c.collector := by
  obtain ⟨hpv, hl⟩ := validate_patched_live cfg hc1 m hv
  exact mintRun_live cfg m.p hpv hl n h c h1 hh (Or.inl hc2) hm

/-- C17.B11  (patched tree, with parameter updates)  The same when a `MsgUpdateParams` installs a new accepted
    parameter set before any block: for every sequence of accepted parameter sets, one per block, no block aborts. -/
theorem c17_mint_no_halt_patched_updates (cfg : Cfg) (hc1 : cfg.mintValidate = true) (hc2 : cfg.mintClamp = true)
    (ms : List MintParams) (hv : ∀ m ∈ ms, MintParams.validate cfg m = true)
    (h : Int) (c : Chain) (h1 : 1 ≤ h) (hh : c.halted = false) (hm : MinterOK c.minter) :
    (mintRunUpd cfg (ms.map (·.p)) h c).halted = false ∧ MinterOK (mintRunUpd cfg (ms.map (·.p)) h c).minter ∧
    c.supply ≤ (mintRunUpd cfg (ms.map (·.p)) h c).supply := by
  apply mintRunUpd_live cfg _ h c h1 hh hm
  intro p hp
  simp only [List.mem_map] at hp
  obtain ⟨m, hmem, rfl⟩ := hp
  obtain ⟨hpv, hl⟩ := validate_patched_live cfg hc1 m (hv m hmem)
  exact ⟨hpv, hl, Or.inl hc2⟩

/-- non-vacuity: the default parameters of the chain (ten half-year phases) are accepted by the patched validators,
    and the default initial minter satisfies the state hypothesis -/
example : MintParams.validate Cfg.patched ⟨['u', 's', 'g', 'e'],
    { blocksPerYear := 6311520, exclude := 0, phases := [⟨⟨229787234042553191⟩, ⟨PREC / 2⟩⟩, ⟨⟨3903708523096942⟩, ⟨PREC / 2⟩⟩] }⟩ = true ∧
    MinterOK initialMinter := by
  refine ⟨by decide, ?_⟩
  exact ⟨Int.le_refl _, Int.le_refl _⟩

-- =============================================================================================
-- C. core: fees, parameter updates, batches

/-- C17.C1  (full strength, every accepted house fee including ≥ 100 %)  A successful deposit computed a fee
    between 0 and the deposited amount, and the participation it stored carries exactly liquidity = amount − fee ≥ 0
    and that fee: no accepted `HouseParticipationFee` makes a stored amount negative or the fee exceed the deposit.
    (A fee above 100 % makes the liquidity negative, `sdk.NewCoin` panics inside the transaction and the deposit
    fails; at exactly 100 % the participation has liquidity 0.) -/
theorem c17_core_deposit_fee {s : State} {r : State × Nat} {c : Nat} {tk : Tk} {m : Nat} {a : Int} {pd : Nat}
    (hv : s.params.valid = true) (h : houseDepositO s c tk m a pd = some r) :
    0 ≤ (s.params.houseFee.mulInt a).roundInt ∧ (s.params.houseFee.mulInt a).roundInt ≤ a ∧
    ∃ b part, getBook r.1 m = some b ∧ b.getPart r.2 = some part ∧
      part.liq = a - (s.params.houseFee.mulInt a).roundInt ∧ part.fee = (s.params.houseFee.mulInt a).roundInt ∧
      0 ≤ part.liq ∧ 0 ≤ part.fee := by
  unfold Core.Params.valid at hv
  simp only [Bool.and_eq_true, decide_eq_true_eq] at hv
  have hfee0 : 0 ≤ s.params.houseFee.raw := hv.1.1.1.2
  unfold houseDepositO at h
  simp only [bind, Option.bind_eq_some_iff, pure, Option.some.injEq] at h
  obtain ⟨_, ha, _, _, _, _, s1, h1, _, _, mk, _, b, hb, _, _, _, _, _, _, _, _, s2, h2, s3, h3, rfl⟩ := h
  have ha := chk_some ha
  simp only [decide_eq_true_eq] at ha
  have hf : 0 ≤ (s.params.houseFee.mulInt a).roundInt := by
    unfold Dec.roundInt Dec.mulInt
    apply chopRound_nonneg
    exact Int.mul_nonneg hfee0 (by omega)
  -- the liquidity transfer succeeded, so the liquidity is not negative
  have hliq : 0 ≤ a - (s.params.houseFee.mulInt a).roundInt := by
    obtain ⟨_, ht, _⟩ := bankSend_shape h2
    unfold transfer at ht
    split at ht
    · cases ht
    · omega
  have huid : b.uid = m := by
    have := lookup_key_eq hb
    simpa [Book.key] using this
  obtain ⟨hu, part, hpart, hl, hfe, _, _⟩ := addParticipation_part b
    (depositFor c pd) (a - (s.params.houseFee.mulInt a).roundInt) (s.params.houseFee.mulInt a).roundInt
  refine ⟨hf, by omega, _, part, ?_, hpart, hl, hfe, by rw [hl]; exact hliq, by rw [hfe]; exact hf⟩
  show lookup Book.key [m] (upsert Book.key _ s3.books) = _
  have : [m] = Book.key (b.addParticipation (depositFor c pd) (a - (s.params.houseFee.mulInt a).roundInt)
      (s.params.houseFee.mulInt a).roundInt).1 := by
    simp [Book.key, hu, huid]
  rw [this]
  exact lookup_upsert_self Book.key _ _

/-- C17.C2  The boundary case is real: with the accepted fee of exactly 100 % a deposit of 1000 succeeds and stores
    a participation with liquidity 0 and fee 1000 (allowed by the property: the fee does not exceed the amount). -/
theorem c17_core_deposit_full_fee_example :
    fullFeeState.params.valid = true ∧
    (houseDeposit fullFeeState 1 tkOk 1 1000 0).2.1 = .ok ∧
    ((getBook (houseDeposit fullFeeState 1 tkOk 1 1000 0).1 1).bind (·.getPart 1)).map (fun p => (p.liq, p.fee)) = some (0, 1000) := by
  decide

/-- C17.C3  Counter-example (fee exceeds the amount): `MinAmount = 2`, `Fee = 3` passes `validateConstraints`; on a
    market nobody has provided liquidity for, a wager of 2 tokens (payout profit of the negative stake −1 is below
    one token, so no liquidity is needed) succeeds and charges the bettor 3 tokens for it. -/
theorem c17_core_wager_fee_counterexample :
    feeExceedsAmountState.params.valid = true ∧
    (wager feeExceedsAmountState 6 tkOk 1 2 feeExceedsAmountPayload).2 = .ok ∧
    getBal (wager feeExceedsAmountState 6 tkOk 1 2 feeExceedsAmountPayload).1.bal 6 = 100 - 3 ∧
    getBal (wager feeExceedsAmountState 6 tkOk 1 2 feeExceedsAmountPayload).1.bal ACC_BETFEE = 3 := by
  decide

/-- C17.C4  (the provable part for the code as it is)  For all accepted parameters EXCEPT those with
    `Fee > MinAmount` (accepted today, C3): a successful wager was charged a fee between 0 and the wagered amount,
    so the requested stake amount − fee is not negative. -/
theorem c17_core_wager_fee_partial {s s' : State} {c : Nat} {tk : Tk} {u : Nat} {a : Int} {pl : WagerPayload}
    (hv : s.params.valid = true) (hle : s.params.betFee ≤ s.params.betMin)
    (h : wagerO s c tk u a pl = some s') :
    0 ≤ s.params.betFee ∧ s.params.betFee ≤ a ∧ 0 ≤ a - s.params.betFee := by
  unfold Core.Params.valid at hv
  simp only [Bool.and_eq_true, decide_eq_true_eq] at hv
  have hf0 : 0 ≤ s.params.betFee := hv.1.1.1.1.1.2
  unfold wagerO at h
  simp only [bind, Option.bind_eq_some_iff, pure, Option.some.injEq] at h
  obtain ⟨_, _, _, _, _, _, _, _, _, _, _, _, _, _, m, _, _, _, _, _, _, _, _, _, _, _, _, h13, _⟩ := h
  have h13 := chk_some h13
  simp only [decide_eq_true_eq] at h13
  exact ⟨hf0, by omega, by omega⟩

/-- C17.C5  (full statement, patched tree)  With params_bet_fee_lt_min.diff every accepted parameter set has
    `Fee < MinAmount`, so every successful wager has 0 ≤ fee < amount: the requested stake is at least one token. -/
theorem c17_core_wager_fee_patched {s s' : State} {c : Nat} {tk : Tk} {u : Nat} {a : Int} {pl : WagerPayload}
    (cfg : Cfg) (hc : cfg.betFee = true) (hv : coreValid cfg s.params = true)
    (h : wagerO s c tk u a pl = some s') :
    0 ≤ s.params.betFee ∧ s.params.betFee < a ∧ 1 ≤ a - s.params.betFee := by
  unfold coreValid at hv
  simp only [hc, Bool.not_true, Bool.false_or, Bool.and_eq_true, decide_eq_true_eq] at hv
  obtain ⟨⟨hv, hlt⟩, _⟩ := hv
  have := c17_core_wager_fee_partial hv (by omega) h
  unfold wagerO at h
  simp only [bind, Option.bind_eq_some_iff, pure, Option.some.injEq] at h
  obtain ⟨_, _, _, _, _, _, _, _, _, _, _, _, _, _, m, _, _, _, _, _, _, _, _, _, _, _, _, h13, _⟩ := h
  have h13 := chk_some h13
  simp only [decide_eq_true_eq] at h13
  exact ⟨this.1, by omega, by omega⟩

/-- C17.C6  A parameter update with values the validators reject changes nothing. -/
theorem c17_core_setParams_invalid_noop (s : State) (p : Core.Params) (h : p.valid = false) :
    step s (.setParams p) = (s, .err) := by
  simp [step, h]

/-- C17.C7  Along every history of core operations — including any number of parameter updates — the parameters in
    force are ones the validators accept. -/
theorem c17_core_params_stay_valid (s : State) (ops : List Op) (hv : s.params.valid = true) :
    (run s ops).params.valid = true := by
  induction ops generalizing s with
  | nil => exact hv
  | cons op rest ih =>
    show (run (step s op).1 rest).params.valid = true
    apply ih
    rcases step_params s op with he | ⟨p, _, hp, he⟩
    · rw [he]; exact hv
    · rw [he]; exact hp

/-- C17.C8  Hence, in every state reached from a validly parameterised one by any history, every successful
    deposit stores non-negative liquidity and fee with fee ≤ amount (C1 over `run`). -/
theorem c17_core_run_deposit_fee (s : State) (ops : List Op) (hv : s.params.valid = true)
    {r : State × Nat} {c : Nat} {tk : Tk} {m : Nat} {a : Int} {pd : Nat}
    (h : houseDepositO (run s ops) c tk m a pd = some r) :
    0 ≤ ((run s ops).params.houseFee.mulInt a).roundInt ∧ ((run s ops).params.houseFee.mulInt a).roundInt ≤ a :=
  let t := c17_core_deposit_fee (c17_core_params_stay_valid s ops hv) h
  ⟨t.1, t.2.1⟩

/-- C17.C9  Accepted batch sizes and limits are positive (no end-block loop is asked to fetch zero items; at least one
    participation and one withdrawal are possible). -/
theorem c17_core_batches_positive (p : Core.Params) (hv : p.valid = true) :
    0 < p.betBatch ∧ 0 < p.obBatch ∧ 0 < p.obMaxPart ∧ 1 ≤ p.houseMaxW ∧ 1 < p.betMin ∧ 1 < p.houseMin := by
  unfold Core.Params.valid at hv
  simp only [Bool.and_eq_true, decide_eq_true_eq] at hv
  obtain ⟨⟨⟨⟨⟨⟨⟨h1, h2⟩, _⟩, h4⟩, _⟩, h6⟩, h7⟩, h8⟩ := hv
  exact ⟨h1, h8, h7, h6, h2, h4⟩

/-- C17.C10  Progress of the bet end-blocker: with a batch size ≥ 1 one step on a market that still has a pending bet
    settles at least one bet (or aborts — never spins). -/
theorem c17_core_bet_batch_progress {s : State} {mk n : Nat} {r : State × Nat}
    (h : betEndBlockStep s mk n = some r) (hn : 1 ≤ n) (hp : s.pending.any (fun x => x.1 == mk) = true) :
    1 ≤ r.2 := by
  unfold betEndBlockStep at h
  simp only [bind, Option.bind_eq_some_iff] at h
  obtain ⟨r0, h0, h⟩ := h
  have hc := settlePage_count _ _ _ h0
  have hlen : 1 ≤ ((s.pending.filter (fun x => x.1 == mk)).take n).length := by
    simp only [List.length_take]
    have : 1 ≤ (s.pending.filter (fun x => x.1 == mk)).length := by
      simp only [List.any_eq_true] at hp
      obtain ⟨x, hx, hxm⟩ := hp
      have : x ∈ s.pending.filter (fun x => x.1 == mk) := List.mem_filter.mpr ⟨hx, hxm⟩
      exact List.length_pos_of_mem this
    omega
  have hr0 : 1 ≤ r0.2 := by omega
  split at h
  · simp only [pure, Option.some.injEq] at h; rw [← h]; exact hr0
  · simp only [bind, Option.bind_eq_some_iff, pure, Option.some.injEq] at h
    obtain ⟨_, _, _, _, rfl⟩ := h
    exact hr0

/-- C17.C11  Progress of the order-book end-blocker: a pass over a non-empty list of participations processes at
    least one of them, for every batch size. -/
theorem c17_core_ob_batch_progress (m : Market) (count : Nat) (p : Part) (rest : List Part) (s : State) (b : Book)
    (sc pr : Nat) (r : State × Book × Nat × Nat) (h : settleParts m count (p :: rest) s b sc pr = some r) :
    pr + 1 ≤ r.2.2.2 := by
  unfold settleParts at h
  simp only [bind, Option.bind_eq_some_iff] at h
  obtain ⟨r1, _, h⟩ := h
  split at h
  · simp only [pure, Option.some.injEq] at h; rw [← h]; exact Nat.le_refl _
  · exact (settleParts_processed_ge m count rest _ _ _ _ _ h).2

/-- non-vacuity: the default parameters are valid, and so are the extreme ones the suite runs -/
example : ({} : Core.Params).valid = true ∧
    ({ betBatch := 1, betMin := 2, betFee := 0, houseMin := 2, houseFee := ⟨100 * PREC⟩, houseMaxW := 1,
       obMaxPart := 1, obBatch := 1, obThreshold := 18446744073709551615 } : Core.Params).valid = true := by decide

end Sge.Params
