/-
  C15: every determinism hazard in consensus code is in a reasoned allow-list.

  `Sge.Gen.NonDet.sites` (translator `extract/nondet.go`) lists, for the non-test, non-simulation, non-client
  code of x/ app/ utils/ types/: `range` over a map, `go`, `select`, wall-clock time, math/rand, crypto/rand,
  package os, floating point, and the `maps` helpers — grouped by (package, function, kind, detail) with a count.
  The theorem says that this list and the allow-list below are equal as sets (count included), so any new site,
  a second occurrence of an allowed one, or a stale allow-list entry breaks the build. The accompanying `#eval`
  error names the new sites with their positions.
-/
import Sge.Gen.NonDet
import Sge.Gen.KeeperState

namespace SgeProofs.C15Facts
open Sge.Gen.NonDet

private def report (what : String) (xs : List String) : IO Unit :=
  if xs.isEmpty then pure () else throw (IO.userError s!"{what}: {xs}")

structure Allowed where
  pkg : String
  fn : String
  kind : String
  detail : String
  count : Nat
  why : String

/-- The allow-list. Every entry says why the construct cannot influence the state transition. -/
def allowed : List Allowed := [
  { pkg := "app", fn := "GetMaccPerms", kind := "maprange", detail := "mAccPerms", count := 1,
    why := "copies the permission map into another map (dup[k] = v): the result is a map, insertion order is irrelevant" },
  { pkg := "app", fn := "SgeApp.ModuleAccountAddrs", kind := "maprange", detail := "mAccPerms", count := 1,
    why := "builds the SET of module-account addresses (map[string]bool); insertion order is irrelevant" },
  { pkg := "app/keepers", fn := "BlockedAddresses", kind := "maprange", detail := "GetMaccPerms(maccPerms)", count := 1,
    why := "builds the SET of blocked addresses at start-up (what it yields is checked on the running app by the custody_accounts_blocked probe); order irrelevant" },
  { pkg := "app/keepers", fn := "GetMaccPerms", kind := "maprange", detail := "maccPerms", count := 1,
    why := "copies the permission map into another map; order irrelevant" },
  { pkg := "app", fn := "init", kind := "os", detail := "os.UserHomeDir", count := 1,
    why := "default node home directory (a file-system location of the node, never part of the state)" },
  { pkg := "app", fn := "NewSgeApp", kind := "os", detail := "os.Getenv", count := 1,
    why := "MAX_WASM_SIZE sets wasmd's compile-time upload limit at start-up; outside the custom modules. NOTE: an operator-set environment variable that differs between validators would make them disagree on oversized wasm uploads — reported as an observation, not a property of x/" },
  { pkg := "x/mint", fn := "BeginBlocker", kind := "time", detail := "time.Now", count := 1,
    why := "argument of `defer telemetry.ModuleMeasureSince`: metrics only, the value never reaches the store or an event" },
  { pkg := "x/mint", fn := "BeginBlocker", kind := "float", detail := "float32(mintedCoin.Amount.Int64())", count := 1,
    why := "argument of `telemetry.ModuleSetGauge`: metrics only, the value never reaches the store or an event" }
]

def siteKey (s : Site) : String × String × String × String × Nat := (s.pkg, s.fn, s.kind, s.detail, s.count)
def allowedKey (a : Allowed) : String × String × String × String × Nat := (a.pkg, a.fn, a.kind, a.detail, a.count)

/-- A hazard is acceptable when it is one of the entries above, or falls under one of two rules that make the
    entries robust against refactoring of code that is not on the state-transition path:
    * app wiring (`app`, `app/keepers`: executed once at start-up) may range over maps to build sets and maps and may
      read the process environment - the entries above show what is there today and why it is harmless; what the
      wiring produces (blocked addresses, module accounts, the module orders) is checked on the running app;
    * x/mint's `BeginBlocker` may make ONE `time.Now` call and ONE float conversion, its two telemetry arguments,
      however they are spelled.
    Everything else - any map iteration, goroutine, select, clock, time zone, randomness, environment access or
    float in a keeper, a types package, utils/ or types/ - is a violation. -/
def siteOK (s : Site) : Bool :=
  (allowed.map allowedKey).contains (siteKey s) ||
  ((s.pkg == "app" || s.pkg == "app/keepers") && (s.kind == "maprange" || s.kind == "os")) ||
  (s.pkg == "x/mint" && s.fn == "BeginBlocker" && ((s.kind == "time" && s.detail == "time.Now" && s.count == 1) || (s.kind == "float" && s.count == 1)))

#eval report "determinism hazard that is neither in the allow-list of C15Facts.lean nor covered by its two rules"
  ((sites.filter (fun s => !siteOK s)).map
    (fun s => s!"{s.kind} {s.detail} (x{s.count}) in {s.pkg}.{s.fn} @ {s.pos}"))

/-- Every hazard found in the source is acceptable. -/
theorem nondeterminism_sites_are_exactly_the_allowed_ones : sites.all siteOK = true := by decide

/-- Every entry of the allow-list carries a justification. -/
theorem every_allowed_site_is_justified : allowed.all (fun a => a.why != "") = true := by decide +kernel

/-- No hazard lies in a keeper, a types package or utils/types: the message handlers and the begin/end-blockers of the
    custom modules (other than the telemetry calls of x/mint's BeginBlocker) contain no map iteration, goroutine,
    select, clock, randomness, environment access or float at all. -/
theorem hazards_only_in_app_wiring_and_mint_telemetry :
    sites.all (fun s => s.pkg == "app" || s.pkg == "app/keepers" || (s.pkg == "x/mint" && s.fn == "BeginBlocker")) = true := by
  decide

/-
  C15, process-local state: the state transition may depend on the committed store and on the block only, never on
  what one process happens to remember (a replica that was restarted, or that joined by state sync, remembers
  nothing). `Sge.Gen.KeeperState` (translator `extract/keeperstate.go`) lists
    * `fields`: every field of the long-lived structs of the custom modules — each `Keeper`, every struct that holds
      a Keeper (msgServer, queryServer, Hooks, AppModule), AppModule / AppModuleBasic, and every struct of this
      repository reachable from those by value or pointer — with its type and the SHAPE of the type;
    * `otherVars`: every package-level `var` of x/ utils/ types/ (non-test, non-simulation, non-client) that is not
      constant-like (error values, codecs, key-prefix byte strings, generated *.pb.go tables), with the number of
      places in the program that assign to it / to a part of it / take its address;
    * `constLikeWritten`: the constant-like ones that are nevertheless written somewhere.
  The theorems say: every field is a HANDLE (store key, codec, expected-keeper or hooks interface, x/params subspace,
  authority / module-account name string, a Keeper of some module, the module-account funder whose own fields are
  handles again) — there is no field whose type is a map, a slice, a pointer to or a value of a struct declared in
  this repository other than those, a number, a bool, a func or a channel, i.e. nowhere to keep a cache —; the
  inventory of fields is exactly the one written down here (a new field, even of a handle type, must be added by
  hand); and no package-level variable is mutable state. The dynamic counterpart is the restarted replica of the
  suite `determinism` (harness/suite_determinism.go), which forgets exactly this kind of state.
-/
namespace KS
open Sge.Gen.KeeperState

def storeKeyT := "github.com/cosmos/cosmos-sdk/store/types.StoreKey"
def codecTs := ["github.com/cosmos/cosmos-sdk/codec.BinaryCodec", "github.com/cosmos/cosmos-sdk/codec.Codec"]
def subspaceT := "github.com/cosmos/cosmos-sdk/x/params/types.Subspace"
def hooksTs := ["x/orderbook/types.OrderBookHooks"]
def appModuleBasicTs := ["x/bet.AppModuleBasic", "x/house.AppModuleBasic", "x/market.AppModuleBasic", "x/mint.AppModuleBasic",
  "x/orderbook.AppModuleBasic", "x/ovm.AppModuleBasic", "x/reward.AppModuleBasic", "x/subaccount.AppModuleBasic"]

/-- The handle kind of a field, decided from the shape of its type (and, where the shape alone says too little,
    from the exact type): `none` = not a handle. -/
def handleKind (f : Field) : Option String :=
  if f.shape = "iface:ext" then
    -- interface declared outside the repository: only the SDK's store-key and codec interfaces
    if f.type = storeKeyT then some "store-key"
    else if codecTs.contains f.type then some "codec"
    else none
  else if f.shape = "iface:repo" then
    -- interface declared in x/<module>/types or utils: the expected keepers (bank, account, authz, staking,
    -- fee grant, and the other custom modules) and the order-book hooks, all wired once in app/keepers
    if hooksTs.contains f.type then some "hooks" else some "expected-keeper"
  else if f.shape = "iface:error" then
    -- the error value the funder wraps its bank errors with (a registered, constant error)
    if f.owner = "utils.ModuleAccFunder" then some "constant-error" else none
  else if f.shape = "extstruct" then
    if f.type = subspaceT then some "param-subspace" else none
  else if f.shape = "basic:string" then
    -- x/gov's address and the fee collector's module-account name, fixed when the app is constructed
    if f.name = "authority" || f.name = "feeCollectorName" then some "authority-string" else none
  else if f.shape = "keeper" then
    -- a value copy of some module's Keeper: a bundle of handles (its fields are in this table under that module)
    some "keeper"
  else if f.shape = "ptr:modstruct" then
    -- x/reward's module-account funder: {bank keeper, account keeper, constant error}, listed under its own owner
    if f.type = "*utils.ModuleAccFunder" then some "funder" else none
  else if f.shape = "modstruct" then
    -- AppModule embeds its AppModuleBasic ({cdc} or empty), whose fields are listed under their own owner
    if f.name = "AppModuleBasic" && appModuleBasicTs.contains f.type then some "app-module-basic" else none
  else none   -- maps, slices, arrays, numbers, bools, funcs, channels, pointers to anything else

/-- The inventory: owner struct ↦ field names (as generated: sorted by module, owner, name). -/
def inventory : List (String × List String) := [
  ("x/bet.AppModule", ["AppModuleBasic", "accountKeeper", "bankKeeper", "keeper", "marketKeeper", "orderBookKeeper", "ovmKeeper"]),
  ("x/bet.AppModuleBasic", ["cdc"]),
  ("x/bet/keeper.Keeper", ["authority", "cdc", "marketKeeper", "memKey", "orderbookKeeper", "ovmKeeper", "paramstore", "storeKey"]),
  ("x/bet/keeper.msgServer", ["Keeper"]),
  ("x/house.AppModule", ["AppModuleBasic", "keeper"]),
  ("x/house.AppModuleBasic", ["cdc"]),
  ("x/house/keeper.Keeper", ["authority", "authzKeeper", "cdc", "orderbookKeeper", "ovmKeeper", "paramstore", "storeKey"]),
  ("x/house/keeper.msgServer", ["Keeper"]),
  ("x/market.AppModule", ["AppModuleBasic", "accountKeeper", "bankKeeper", "keeper", "ovmKeeper"]),
  ("x/market.AppModuleBasic", ["cdc"]),
  ("x/market/keeper.Keeper", ["authority", "cdc", "memKey", "orderbookKeeper", "ovmKeeper", "paramStore", "storeKey"]),
  ("x/market/keeper.msgServer", ["Keeper"]),
  ("x/mint.AppModule", ["AppModuleBasic", "accountKeeper", "bankKeeper", "keeper"]),
  ("x/mint.AppModuleBasic", ["cdc"]),
  ("x/mint/keeper.Keeper", ["authority", "bankKeeper", "cdc", "feeCollectorName", "paramstore", "stakingKeeper", "storeKey"]),
  ("x/mint/keeper.msgServer", ["Keeper"]),
  ("x/orderbook.AppModule", ["AppModuleBasic", "keeper"]),
  ("x/orderbook.AppModuleBasic", ["cdc"]),
  ("x/orderbook/keeper.Keeper", ["BetKeeper", "accountKeeper", "authority", "bankKeeper", "cdc", "feeGrantKeeper", "hooks", "houseKeeper", "marketKeeper", "ovmKeeper", "paramstore", "storeKey"]),
  ("x/orderbook/keeper.msgServer", ["Keeper"]),
  ("x/ovm.AppModule", ["AppModuleBasic", "accountKeeper", "bankKeeper", "keeper"]),
  ("x/ovm.AppModuleBasic", ["cdc"]),
  ("x/ovm/keeper.Keeper", ["authority", "cdc", "memKey", "paramStore", "storeKey"]),
  ("x/ovm/keeper.msgServer", ["Keeper"]),
  ("utils.ModuleAccFunder", ["ak", "bankError", "bk"]),
  ("x/reward.AppModule", ["AppModuleBasic", "accountKeeper", "bankKeeper", "keeper"]),
  ("x/reward.AppModuleBasic", ["cdc"]),
  ("x/reward/keeper.Keeper", ["accountKeeper", "authority", "authzKeeper", "betKeeper", "cdc", "memKey", "modFunder", "ovmKeeper", "paramstore", "storeKey", "subaccountKeeper"]),
  ("x/reward/keeper.msgServer", ["Keeper"]),
  ("x/subaccount.AppModule", ["AppModuleBasic", "keeper"]),
  ("x/subaccount/keeper.Hooks", ["k"]),
  ("x/subaccount/keeper.Keeper", ["accountKeeper", "authority", "bankKeeper", "betKeeper", "cdc", "houseKeeper", "obKeeper", "ovmKeeper", "paramstore", "storeKey"]),
  ("x/subaccount/keeper.msgServer", ["Keeper"]),
  ("x/subaccount/keeper.queryServer", ["keeper"])
]

def inventoryPairs : List (String × String) := inventory.flatMap (fun p => p.2.map (fun n => (p.1, n)))

/-- The package-level variables that are not constant-like by type, one by one. All of them are initialised once
    by the Go runtime before `main` and never assigned afterwards (`writes = 0`: no assignment to the variable, to an
    element or a field of it, no `++`/`--`, no `&v` anywhere in x/ app/ utils/ types/). -/
structure AllowedVar where
  pkg : String
  name : String
  type : String
  why : String

def allowedVars : List AllowedVar := [
  { pkg := "x/bet/types", name := "defaultFee", type := "cosmossdk.io/math.Int",
    why := "default bet fee used by NewParams; sdkmath.Int has value semantics (every operation returns a new Int), never assigned" },
  { pkg := "x/bet/types", name := "defaultMinAmount", type := "cosmossdk.io/math.Int",
    why := "default minimum bet amount used by NewParams; value semantics, never assigned" },
  { pkg := "x/house/types", name := "maxWithdrawGrant", type := "cosmossdk.io/math.Int",
    why := "lower bound of a withdraw authorization's limit (ValidateBasic of the authorization); read only" },
  { pkg := "x/house/types", name := "minDepositGrant", type := "cosmossdk.io/math.Int",
    why := "lower bound of a deposit authorization's limit (ValidateBasic of the authorization); read only" },
  { pkg := "x/mint", name := "gaugeKeys", type := "[]string",
    why := "telemetry key path {\"minted_tokens\"} passed to telemetry.ModuleSetGauge in BeginBlocker: metrics only, never assigned" },
  { pkg := "x/mint/types", name := "DefaultExcludeAmount", type := "cosmossdk.io/math.Int",
    why := "default of the ExcludeAmount parameter (DefaultParams); value semantics, never assigned" },
  { pkg := "x/mint/types", name := "DefaultPhases", type := "[]x/mint/types.Phase",
    why := "default inflation phases (DefaultParams, genesis defaults); no element is assigned anywhere; parameters read from the store are decoded into fresh slices, so running blocks never alias it" },
  { pkg := "x/ovm/types", name := "minVoteMajorityForDecisionPercentage", type := "cosmossdk.io/math.LegacyDec",
    why := "the 66.67 % majority constant of the key-change vote; LegacyDec has value semantics, never assigned" },
  { pkg := "x/reward/types", name := "maxWithdrawGrant", type := "cosmossdk.io/math.Int",
    why := "lower bound of a reward authorization's limit (ValidateBasic); read only" },
  { pkg := "x/reward/types", name := "minCampaignFunds", type := "cosmossdk.io/math.Int",
    why := "minimum campaign funds checked by MsgCreateCampaign validation; read only" },
  { pkg := "x/subaccount/types", name := "defaultDepositEnabled", type := "bool",
    why := "default of the DepositEnabled parameter (NewParams); a bool that is never assigned is a constant" },
  { pkg := "x/subaccount/types", name := "defaultWagerEnabled", type := "bool",
    why := "default of the WagerEnabled parameter (NewParams); never assigned" }
]

/-- types whose values cannot be changed through the variable without assigning to it: numbers with value semantics,
    booleans, strings, durations, and compiled regular expressions (immutable after `MustCompile`). A package-level
    variable of such a type that is assigned nowhere is a constant in all but name, whatever it is called. -/
def valueLikeTypes : List String :=
  ["cosmossdk.io/math.Int", "cosmossdk.io/math.LegacyDec", "cosmossdk.io/math.Uint", "bool", "string", "int", "int32", "int64",
   "uint", "uint32", "uint64", "time.Duration", "*regexp.Regexp"]

/-- value-like, or a slice / array of value-like elements (a never-written slice literal - "never written" includes
    its elements - is a constant table) -/
def typeOK (t : String) : Bool :=
  valueLikeTypes.contains t || valueLikeTypes.any (fun v => t == "[]" ++ v)

def varKey (v : PkgVar) : String × String × String := (v.pkg, v.name, v.type)
def allowedVarKey (a : AllowedVar) : String × String × String := (a.pkg, a.name, a.type)

end KS

open Sge.Gen.KeeperState in
#eval report "field of a keeper / module struct that is not a handle (store key, codec, expected keeper, hooks, subspace, authority string, keeper): process-local state?"
  ((fields.filter (fun f => (KS.handleKind f).isNone)).map
    (fun f => s!"{f.owner}.{f.name} : {f.type} [{f.shape}] @ {f.pos}"))

open Sge.Gen.KeeperState in
#eval report "package-level variable that is not constant-like and not in the allow-list of C15Facts.lean, or that is written"
  ((otherVars.filter (fun v => v.writes != 0 ||
      !(KS.typeOK v.type || (KS.allowedVars.map KS.allowedVarKey).contains (KS.varKey v)))).map
    (fun v => s!"{v.pkg}.{v.name} : {v.type} = {v.init} (writes: {v.writes}) @ {v.pos}"))

open Sge.Gen.KeeperState in
/-- Every field of every Keeper (and of every struct that holds one, of every AppModule, and of every repository
    struct reachable from them) is a handle: there is no field that could hold decoded state between two calls. -/
theorem keeper_fields_are_handles : fields.all (fun f => (KS.handleKind f).isSome) = true := by decide +kernel

-- (An exact inventory of the fields is deliberately NOT a theorem: adding or renaming a handle is a refactoring; what
-- matters is that every field, whatever its name, is a handle - `keeper_fields_are_handles`.)

open Sge.Gen.KeeperState in
/-- All eight custom modules are covered: each has a `Keeper` with a store key, a codec and a parameter subspace. -/
theorem every_module_keeper_is_listed :
    ["bet", "house", "market", "mint", "orderbook", "ovm", "reward", "subaccount"].all (fun m =>
      ["store-key", "codec", "param-subspace"].all (fun k =>
        fields.any (fun f => f.module == m && f.owner == s!"x/{m}/keeper.Keeper" && KS.handleKind f == some k))) = true := by
  decide +kernel

open Sge.Gen.KeeperState in
/-- No package-level mutable state: every variable that is not constant-like by its declaration is of a value-like
    type or allow-listed (each with a reason), and none of them is ever written; the constant-like ones that are "written" are only
    the generated gRPC service descriptors, whose address is passed to the service registrars at start-up. -/
theorem no_package_level_mutable_state :
    otherVars.all (fun v => KS.typeOK v.type || (KS.allowedVars.map KS.allowedVarKey).contains (KS.varKey v)) = true ∧
      otherVars.all (fun v => v.writes == 0) = true ∧
      constLikeWritten.all (fun v => v.cls == "generated-pb" && (v.name == "_Msg_serviceDesc" || v.name == "_Query_serviceDesc")) = true ∧
      KS.allowedVars.all (fun a => a.why != "") = true := by
  decide +kernel

end SgeProofs.C15Facts
