/-
  C15: every determinism hazard in consensus code is in a reasoned allow-list.

  `Sge.Gen.NonDet.sites` (translator `extract/nondet.go`) lists, for the non-test, non-simulation, non-client
  code of x/ app/ utils/ types/: `range` over a map, `go`, `select`, wall-clock time, math/rand, crypto/rand,
  package os, floating point, and the `maps` helpers — grouped by (package, function, kind, detail) with a count.
  The theorem says that this list and the allow-list below are equal as sets (count included), so any new site,
  a second occurrence of an allowed one, or a stale allow-list entry breaks the build. The accompanying `#eval`
  error names the new sites with their positions.
-/
import Sge.Gen.NonDet

namespace SgeProofs.C15Facts
open Sge.Gen.NonDet

private def report (what : String) (xs : List String) : IO Unit :=
  if xs.isEmpty then pure () else throw (IO.userError s!"{what}: {xs}")

structure Allowed where
  pkg : String
  fn : String
  kind : String
  detail : String
  count : Nat
  why : String

/-- The allow-list. Every entry says why the construct cannot influence the state transition. -/
def allowed : List Allowed := [
  { pkg := "app", fn := "GetMaccPerms", kind := "maprange", detail := "mAccPerms", count := 1,
    why := "copies the permission map into another map (dup[k] = v): the result is a map, insertion order is irrelevant" },
  { pkg := "app", fn := "SgeApp.ModuleAccountAddrs", kind := "maprange", detail := "mAccPerms", count := 1,
    why := "builds the SET of module-account addresses (map[string]bool); insertion order is irrelevant" },
  { pkg := "app/keepers", fn := "BlockedAddresses", kind := "maprange", detail := "GetMaccPerms(maccPerms)", count := 1,
    why := "builds the SET of blocked addresses at start-up (shape checked by C13Facts.blocked_construction); order irrelevant" },
  { pkg := "app/keepers", fn := "GetMaccPerms", kind := "maprange", detail := "maccPerms", count := 1,
    why := "copies the permission map into another map; order irrelevant" },
  { pkg := "app", fn := "init", kind := "os", detail := "os.UserHomeDir", count := 1,
    why := "default node home directory (a file-system location of the node, never part of the state)" },
  { pkg := "app", fn := "NewSgeApp", kind := "os", detail := "os.Getenv", count := 1,
    why := "MAX_WASM_SIZE sets wasmd's compile-time upload limit at start-up; outside the custom modules. NOTE: an operator-set environment variable that differs between validators would make them disagree on oversized wasm uploads — reported as an observation, not a property of x/" },
  { pkg := "x/mint", fn := "BeginBlocker", kind := "time", detail := "time.Now", count := 1,
    why := "argument of `defer telemetry.ModuleMeasureSince`: metrics only, the value never reaches the store or an event" },
  { pkg := "x/mint", fn := "BeginBlocker", kind := "float", detail := "float32(mintedCoin.Amount.Int64())", count := 1,
    why := "argument of `telemetry.ModuleSetGauge`: metrics only, the value never reaches the store or an event" }
]

def siteKey (s : Site) : String × String × String × String × Nat := (s.pkg, s.fn, s.kind, s.detail, s.count)
def allowedKey (a : Allowed) : String × String × String × String × Nat := (a.pkg, a.fn, a.kind, a.detail, a.count)

#eval report "determinism hazard that is not in the allow-list of C15Facts.lean"
  ((sites.filter (fun s => !(allowed.map allowedKey).contains (siteKey s))).map
    (fun s => s!"{s.kind} {s.detail} (x{s.count}) in {s.pkg}.{s.fn} @ {s.pos}"))

#eval report "allow-list entry of C15Facts.lean that no longer matches a site (remove or update it)"
  ((allowed.filter (fun a => !(sites.map siteKey).contains (allowedKey a))).map
    (fun a => s!"{a.kind} {a.detail} (x{a.count}) in {a.pkg}.{a.fn}"))

/-- Every hazard found in the source is allowed (with its count), and every allowed entry is still present. -/
theorem nondeterminism_sites_are_exactly_the_allowed_ones :
    sites.all (fun s => (allowed.map allowedKey).contains (siteKey s)) = true ∧
      allowed.all (fun a => (sites.map siteKey).contains (allowedKey a)) = true := by decide

/-- Every entry of the allow-list carries a justification. -/
theorem every_allowed_site_is_justified : allowed.all (fun a => a.why != "") = true := by decide +kernel

/-- No allowed hazard lies in a keeper, a types package or utils/types: the message handlers and the
    begin/end-blockers of the custom modules (other than the two telemetry calls of x/mint's BeginBlocker)
    contain no map iteration, goroutine, select, clock, randomness, environment access or float at all. -/
theorem hazards_only_in_app_wiring_and_mint_telemetry :
    sites.map (fun s => s.pkg) = ["app", "app", "app", "app", "app/keepers", "app/keepers", "x/mint", "x/mint"] := by
  decide

end SgeProofs.C15Facts
