/-
  C01 / C11 over histories in which subaccounts bet and provide liquidity on REAL markets.

  Model: `Sge.Combined` (lean/Sge/Combined.lean) = the core chain (`Sge.Core`: markets, house, bets, order book,
  settling end-blockers) plus the x/subaccount stores; the x/subaccount handlers call the real core handlers
  `wagerO` / `houseDepositO` / `houseWithdrawO`, and the end-block runs the core end-block followed by the
  order-book hooks (AfterHouseWin / AfterHouseLoss / AfterHouseRefund / AfterHouseFeeRefund) that x/subaccount
  implements. Correspondence with /repo: suite `combined` (harness/suite_combined.go).

  (a) `cmb_simulation`: the core projection of every combined step is `Core.run` of user-signed core operations.
  (b) `c01_custody_combined`, `c01_all_settled_empty_combined`: the custody equations of C01 hold after ANY combined
      history (direct wagers AND wagers / house deposits / withdrawals through subaccounts, settlement with hooks).
-/
import SgeProofs.Lemmas.CombinedSim
import SgeProofs.Properties.C01
namespace Sge.Combined
open Sge Sge.Core

/-- (a) SIMULATION. In a state whose x/subaccount maps relate non-custody accounts (`OwnInv`, an invariant of all
    histories, see `cmb_run_sim`), every combined operation whose signer / creator / owner is not one of the three
    custody module accounts acts on the core projection exactly like a list of core operations (bank sends between
    non-custody accounts, an authz grant that lives inside the message, at most one core handler op; or the core
    end-block followed by the bank sends of the hooks), each of which satisfies `Op.userSigned'`. A failing message
    and a halting end-block correspond to the empty list. -/
theorem cmb_simulation (s : State) (op : Op) (hI : OwnInv s) (hwf : op.wf) :
    ∃ cops : List Core.Op, (∀ o ∈ cops, o.userSigned') ∧ (step s op).1.core = Core.run s.core cops :=
  (cmb_step_sim s op hI hwf).1

/-- the same for whole histories -/
theorem cmb_simulation_run (s : State) (ops : List Op) (hI : OwnInv s) (hwf : ∀ op ∈ ops, op.wf) :
    ∃ cops : List Core.Op, (∀ o ∈ cops, o.userSigned') ∧ (run s ops).core = Core.run s.core cops :=
  (cmb_run_sim ops s hI hwf).1

/-- a chain without subaccounts -/
def init (p : Params) (bal : List (Nat × Int)) (h t : Nat) (we de : Bool) : State :=
  { core := { bal := bal, params := p, height := h, time := t }, wagerEnabled := we, depositEnabled := de }

theorem cmb_init_ownInv (p : Params) (bal : List (Nat × Int)) (h t : Nat) (we de : Bool) : OwnInv (init p bal h t we de) :=
  ⟨fun o a e => by simp [init, aget] at e, fun a o e => by simp [init, aget] at e⟩

/-- C01.a over combined histories. From a chain whose custody accounts are empty and that has no subaccounts yet,
    after ANY history of core operations (market add/update/resolve, direct house deposits / withdrawals, direct
    wagers, authz, bank, parameter traffic, new blocks), subaccount creation / top-up / unlocked-balance withdrawal,
    wagers paid partly by a subaccount, house deposits and withdrawals of subaccounts on the same markets, and
    settling end-blocks that call back into x/subaccount through the order-book hooks: the liquidity-pool balance
    equals what is owed to unpaid participations plus the stakes of open bets, and the two fee collectors hold exactly
    the fees of open bets / unpaid participations. Signers, creators and subaccount owners are not custody accounts. -/
theorem c01_custody_combined (p : Params) (bal : List (Nat × Int)) (h t : Nat) (we de : Bool) (ops : List Op)
    (h0 : getBal bal ACC_POOL = 0 ∧ getBal bal ACC_BETFEE = 0 ∧ getBal bal ACC_HOUSEFEE = 0)
    (hwf : ∀ op ∈ ops, op.wf) :
    let c := (run (init p bal h t we de) ops).core
    getBal c.bal ACC_POOL = owedPool c ∧ getBal c.bal ACC_BETFEE = owedBetFee c ∧ getBal c.bal ACC_HOUSEFEE = owedHouseFee c := by
  intro c
  obtain ⟨cops, hw, e⟩ := cmb_simulation_run (init p bal h t we de) ops (cmb_init_ownInv p bal h t we de) hwf
  have hc : c = Core.run { bal := bal, params := p, height := h, time := t } cops := e
  clear_value c
  subst hc
  exact c01_custody p bal h t cops h0 hw

/-- C01.d over combined histories: once every bet is settled and every participation is paid, the three custody
    accounts are empty. -/
theorem c01_all_settled_empty_combined (p : Params) (bal : List (Nat × Int)) (h t : Nat) (we de : Bool) (ops : List Op)
    (h0 : getBal bal ACC_POOL = 0 ∧ getBal bal ACC_BETFEE = 0 ∧ getBal bal ACC_HOUSEFEE = 0)
    (hwf : ∀ op ∈ ops, op.wf) :
    let c := (run (init p bal h t we de) ops).core
    (∀ b ∈ c.bets, b.status = BS_SETTLED) → (∀ bk ∈ c.books, ∀ q ∈ bk.parts, q.isSettled = true) →
    getBal c.bal ACC_POOL = 0 ∧ getBal c.bal ACC_BETFEE = 0 ∧ getBal c.bal ACC_HOUSEFEE = 0 := by
  intro c
  obtain ⟨cops, hw, e⟩ := cmb_simulation_run (init p bal h t we de) ops (cmb_init_ownInv p bal h t we de) hwf
  have hc : c = Core.run { bal := bal, params := p, height := h, time := t } cops := e
  clear_value c
  subst hc
  exact c01_all_settled_empty p bal h t cops h0 hw

/-- the whole invariant bundle of the C01 proof (`SettleInv`) holds of the core projection after any combined history -/
theorem cmb_settleInv_run (s : State) (ops : List Op) (hI : OwnInv s) (hS : SettleInv s.core) (hwf : ∀ op ∈ ops, op.wf) :
    SettleInv (run s ops).core := by
  obtain ⟨cops, hw, e⟩ := cmb_simulation_run s ops hI hwf
  rw [e]
  exact run_settleInv _ cops hS hw

-- ---------------------------------------------------------------------------------------------
-- non-vacuity: a subaccount provides liquidity and its owner bets (paid by the subaccount) on the same market,
-- the bettor's outcome is declared, the end-block settles the bet and pays the participation through the hooks

def sampleTk : Tk := { ok := true, kycIgnore := true, kycApproved := false, kycId := 0 }
def samplePl : WagerPayload :=
  { market := 1, odds := 11, oddsVal := some ⟨2 * PREC⟩, mult := ⟨PREC⟩, allOdds := [(11, ⟨PREC⟩), (12, ⟨PREC⟩)] }
def sampleOps : List Op :=
  [.core (.marketAdd 9 sampleTk 1 50 500 [11, 12] MS_ACTIVE),
   .create 7 2 [(300, 60000000)],
   .subDeposit 2 sampleTk 1 50000000 0,
   .subWager 2 true 2 500000 1500000 sampleTk 77 2000000 samplePl,
   .core (.marketResolve sampleTk 1 60 MS_DECLARED [11])]
def sampleInit : State := init {} [(7, 100000000), (2, 100000000), (9, 0)] 1 100 true true

example :
    let s1 := run sampleInit sampleOps
    let s2 := run s1 [.core .endBlock]
    (∀ op ∈ sampleOps ++ [.core .endBlock], op.wf) ∧
    -- before the end-block: the subaccount (address `subAddr 1`) has spent 50000000 and paid 1500000 of the wager
    (aget s1.subs (subAddr 1)).map (·.sum) = some { deposited := 60000000, spent := 50000000, withdrawn := 1500000, lost := 0 } ∧
    s1.bal (subAddr 1) = 8500000 ∧
    (getBal s1.core.bal ACC_POOL, getBal s1.core.bal ACC_BETFEE, getBal s1.core.bal ACC_HOUSEFEE) = (46999900, 100, 5000000) ∧
    (owedPool s1.core, owedBetFee s1.core, owedHouseFee s1.core) = (46999900, 100, 5000000) ∧
    -- the end-block settles the winning bet, pays the participation and books the house loss through AfterHouseLoss
    s2.core.bets.map (·.status) = [BS_SETTLED] ∧ s2.core.books.map (fun b => b.parts.map (·.isSettled)) = [[true]] ∧
    (getBal s2.core.bal ACC_POOL, getBal s2.core.bal ACC_BETFEE, getBal s2.core.bal ACC_HOUSEFEE) = (0, 0, 0) ∧
    (aget s2.subs (subAddr 1)).map (·.sum) = some { deposited := 60000000, spent := 5000000, withdrawn := 1500000, lost := 1999900 } ∧
    s2.bal (subAddr 1) = 51500100 := by
  refine ⟨?_, ?_⟩
  · intro op hop
    simp only [sampleOps, List.cons_append, List.nil_append, List.mem_cons, List.not_mem_nil, or_false] at hop
    rcases hop with rfl | rfl | rfl | rfl | rfl | rfl <;>
      first | trivial | (show isModuleAcc _ = false; decide) | (exact ⟨by decide, by decide⟩)
  · decide +kernel

end Sge.Combined
