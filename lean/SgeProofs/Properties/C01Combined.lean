/-
  C01 / C11 over histories in which subaccounts bet and provide liquidity on REAL markets.

  Model: `Sge.Combined` (lean/Sge/Combined.lean) = the core chain (`Sge.Core`: markets, house, bets, order book,
  settling end-blockers) plus the x/subaccount stores; the x/subaccount handlers call the real core handlers
  `wagerO` / `houseDepositO` / `houseWithdrawO`, and the end-block runs the core end-block followed by the
  order-book hooks (AfterHouseWin / AfterHouseLoss / AfterHouseRefund / AfterHouseFeeRefund) that x/subaccount
  implements. Correspondence with /repo: suite `combined` (harness/suite_combined.go).

  (a) `cmb_simulation`: the core projection of every combined step is `Core.run` of user-signed core operations.
  (b) `c01_custody_combined`, `c01_all_settled_empty_combined`: the custody equations of C01 hold after ANY combined
      history (direct wagers AND wagers / house deposits / withdrawals through subaccounts, settlement with hooks).
  (c) `c11_ext_wager`, `c11_ext_houseDeposit`, `c11_ext_houseWithdraw`, `c11_ext_settlement`: the contract that
      `Sge.Subaccount` (C11.lean: `ExtOK`, `ExtExact`, `0 ≤ charged`) ASSUMES of its x/bet / x/house / x/orderbook parameters
      is MET by the real core handlers and the real settlement.
  (d) `c11_ledger_combined`: the C11 ledger invariant for all combined histories: every subaccount address holds at
      least Deposited − Withdrawn − Spent − Lost, no component is negative, the two maps are mutually inverse.
  Proved in Properties/C11Combined.lean for all combined histories (and monitored by the suite `combined`, monitor
  `hooks_total`): a hook never panics on a reachable state (Unspend ≤ Spent for every participation of a subaccount),
  equality bank = available when nobody sent tokens directly, the lock bound (released ≤ unlocked), supply constant.
-/
import SgeProofs.Lemmas.CombinedLedgerStep
import SgeProofs.Properties.C01
namespace Sge.Combined
open Sge Sge.Core

/-- (a) SIMULATION. In a state whose x/subaccount maps relate non-custody accounts (`OwnInv`, an invariant of all
    histories, see `cmb_run_sim`), every combined operation whose signer / creator / owner is not one of the three
    custody module accounts acts on the core projection exactly like a list of core operations (bank sends between
    non-custody accounts, an authz grant that lives inside the message, at most one core handler op; or the core
    end-block followed by the bank sends of the hooks), each of which satisfies `Op.userSigned'`. A failing message
    and a halting end-block correspond to the empty list. -/
theorem cmb_simulation (s : State) (op : Op) (hI : OwnInv s) (hwf : op.wf) :
    ∃ cops : List Core.Op, (∀ o ∈ cops, o.userSigned') ∧ (step s op).1.core = Core.run s.core cops :=
  (cmb_step_sim s op hI hwf).1

/-- the same for whole histories -/
theorem cmb_simulation_run (s : State) (ops : List Op) (hI : OwnInv s) (hwf : ∀ op ∈ ops, op.wf) :
    ∃ cops : List Core.Op, (∀ o ∈ cops, o.userSigned') ∧ (run s ops).core = Core.run s.core cops :=
  (cmb_run_sim ops s hI hwf).1

/-- a chain without subaccounts -/
def init (p : Params) (bal : List (Nat × Int)) (h t : Nat) (we de : Bool) : State :=
  { core := { bal := bal, params := p, height := h, time := t }, wagerEnabled := we, depositEnabled := de }

theorem cmb_init_ownInv (p : Params) (bal : List (Nat × Int)) (h t : Nat) (we de : Bool) : OwnInv (init p bal h t we de) :=
  ⟨fun o a e => by simp [init, aget] at e, fun a o e => by simp [init, aget] at e⟩

/-- C01.a over combined histories. From a chain whose custody accounts are empty and that has no subaccounts yet,
    after ANY history of core operations (market add/update/resolve, direct house deposits / withdrawals, direct
    wagers, authz, bank, parameter traffic, new blocks), subaccount creation / top-up / unlocked-balance withdrawal,
    wagers paid partly by a subaccount, house deposits and withdrawals of subaccounts on the same markets, and
    settling end-blocks that call back into x/subaccount through the order-book hooks: the liquidity-pool balance
    equals what is owed to unpaid participations plus the stakes of open bets, and the two fee collectors hold exactly
    the fees of open bets / unpaid participations. Signers, creators and subaccount owners are not custody accounts. -/
theorem c01_custody_combined (p : Params) (bal : List (Nat × Int)) (h t : Nat) (we de : Bool) (ops : List Op)
    (h0 : getBal bal ACC_POOL = 0 ∧ getBal bal ACC_BETFEE = 0 ∧ getBal bal ACC_HOUSEFEE = 0)
    (hwf : ∀ op ∈ ops, op.wf) :
    let c := (run (init p bal h t we de) ops).core
    getBal c.bal ACC_POOL = owedPool c ∧ getBal c.bal ACC_BETFEE = owedBetFee c ∧ getBal c.bal ACC_HOUSEFEE = owedHouseFee c := by
  intro c
  obtain ⟨cops, hw, e⟩ := cmb_simulation_run (init p bal h t we de) ops (cmb_init_ownInv p bal h t we de) hwf
  have hc : c = Core.run { bal := bal, params := p, height := h, time := t } cops := e
  clear_value c
  subst hc
  exact c01_custody p bal h t cops h0 hw

/-- C01.d over combined histories: once every bet is settled and every participation is paid, the three custody
    accounts are empty. -/
theorem c01_all_settled_empty_combined (p : Params) (bal : List (Nat × Int)) (h t : Nat) (we de : Bool) (ops : List Op)
    (h0 : getBal bal ACC_POOL = 0 ∧ getBal bal ACC_BETFEE = 0 ∧ getBal bal ACC_HOUSEFEE = 0)
    (hwf : ∀ op ∈ ops, op.wf) :
    let c := (run (init p bal h t we de) ops).core
    (∀ b ∈ c.bets, b.status = BS_SETTLED) → (∀ bk ∈ c.books, ∀ q ∈ bk.parts, q.isSettled = true) →
    getBal c.bal ACC_POOL = 0 ∧ getBal c.bal ACC_BETFEE = 0 ∧ getBal c.bal ACC_HOUSEFEE = 0 := by
  intro c
  obtain ⟨cops, hw, e⟩ := cmb_simulation_run (init p bal h t we de) ops (cmb_init_ownInv p bal h t we de) hwf
  have hc : c = Core.run { bal := bal, params := p, height := h, time := t } cops := e
  clear_value c
  subst hc
  exact c01_all_settled_empty p bal h t cops h0 hw

/-- the whole invariant bundle of the C01 proof (`SettleInv`) holds of the core projection after any combined history -/
theorem cmb_settleInv_run (s : State) (ops : List Op) (hI : OwnInv s) (hS : SettleInv s.core) (hwf : ∀ op ∈ ops, op.wf) :
    SettleInv (run s ops).core := by
  obtain ⟨cops, hw, e⟩ := cmb_simulation_run s ops hI hwf
  rw [e]
  exact run_settleInv _ cops hS hw

-- ---------------------------------------------------------------------------------------------
-- (c) the boundary contract of `Sge.Subaccount`, met by the real handlers

/-- C11 contract, wager (`WagerExt.charged`, hypothesis `0 ≤ x.charged` of `c11_wager_no_gain`): a successful real
    `wagerO` of a non-custody bettor charges the bettor a non-negative amount (bet fee + matched stake) and changes the
    balance of no other non-custody account — in particular not that of a subaccount address. -/
theorem c11_ext_wager {c c' : Core.State} {creator : Nat} {tk : Tk} {uid : Nat} {amount : Int} {pl : WagerPayload}
    (h : wagerO c creator tk uid amount pl = some c') (hc : isModuleAcc creator = false) :
    ∃ charged, 0 ≤ charged ∧ getBal c'.bal creator = getBal c.bal creator - charged ∧
      (∀ x, x ≠ creator → isModuleAcc x = false → getBal c'.bal x = getBal c.bal x) :=
  cmb_wagerO_bal h hc

/-- C11 contract, house deposit (`ExtOK`: taken ≤ amount, `ExtExact`: taken = amount): a successful real
    `houseDepositO` takes exactly the deposit amount from the depositor and nothing from any other non-custody account. -/
theorem c11_ext_houseDeposit {c : Core.State} {creator : Nat} {tk : Tk} {market : Nat} {amount : Int} {pd : Nat} {r : Core.State × Nat}
    (h : houseDepositO c creator tk market amount pd = some r) (hd : isModuleAcc (depositFor creator pd) = false) :
    getBal r.1.bal (depositFor creator pd) = getBal c.bal (depositFor creator pd) - amount ∧
    (∀ x, x ≠ depositFor creator pd → isModuleAcc x = false → getBal r.1.bal x = getBal c.bal x) :=
  cmb_houseDepositO_bal h hd

/-- C11 contract, house withdrawal (`ExtOK`: amount ≤ paid, `ExtExact`: amount = paid): a successful real
    `houseWithdrawO` pays the depositor exactly the amount `CalcWithdrawalAmount` computed (the amount the subaccount
    handler then un-spends) and changes no other non-custody account. -/
theorem c11_ext_houseWithdraw {c c' : Core.State} {creator : Nat} {tk : Tk} {market idx mode : Nat} {amount : Int} {pd : Nat}
    (h : houseWithdrawO c creator tk market idx mode amount pd = some c')
    (hd : isModuleAcc (if pd != 0 then pd else creator) = false) :
    ∃ d b w, lookup Deposit.key [if pd != 0 then pd else creator, market, idx] c.deposits = some d ∧ getBook c market = some b ∧
      calcWithdrawal b idx (if pd != 0 then pd else creator) mode amount d.wtotal = some w ∧ 0 ≤ w ∧
      getBal c'.bal (if pd != 0 then pd else creator) = getBal c.bal (if pd != 0 then pd else creator) + w ∧
      (∀ x, x ≠ (if pd != 0 then pd else creator) → isModuleAcc x = false → getBal c'.bal x = getBal c.bal x) :=
  cmb_houseWithdrawO_bal h hd

/-- C11 contract, settlement (`ExtOK`: what the hook books ≤ the custody payout before it): in one real core end-block
    every non-custody account receives at least the total that the order-book hooks called for it book
    (un-spent liquidity / fee + forwarded profit − booked loss), and no such account loses anything. -/
theorem c11_ext_settlement {c c' : Core.State} (h : Core.endBlockO c = some c') (hS : SettleInv c)
    (a : Nat) (ha : isModuleAcc a = false) :
    getBal c.bal a + hooksFor a (endBlockHooks c c') ≤ getBal c'.bal a ∧ getBal c.bal a ≤ getBal c'.bal a :=
  ⟨cmb_endBlockO_covers h (cmb_obRef_sorted hS) a ha, cmb_endBlockO_mono h (cmb_obRef_sorted hS) a ha⟩

-- ---------------------------------------------------------------------------------------------
-- (d) the ledger invariant over all combined histories

theorem cmb_init_linv (p : Params) (bal : List (Nat × Int)) (h t : Nat) (we de : Bool)
    (h0 : getBal bal ACC_POOL = 0 ∧ getBal bal ACC_BETFEE = 0 ∧ getBal bal ACC_HOUSEFEE = 0)
    (hb : ∀ x, SUB_BASE ≤ x → 0 ≤ getBal bal x) : LInv (init p bal h t we de) := by
  refine ⟨settleInv_init p bal h t h0, ?_, ?_, ?_, ?_, ?_, ?_⟩
  · intro o a e; simp [init, aget] at e
  · intro o a; simp [init, aget]
  · intro a; simp [init, aget]
  · intro a e; simp [init, aget] at e
  · intro a r e; simp [init, aget] at e
  · intro x hx
    have := hb x hx
    show 0 ≤ getBal bal x - 0
    omega

/-- C11 over combined histories (`bank_ge_available`, `summary_nonneg`, `one_sub_per_owner`). From a chain without
    subaccounts whose custody accounts are empty and where no address of the subaccount range has a negative balance,
    after ANY history of core operations (markets, direct house deposits / withdrawals and wagers, authz, bank sends —
    also straight to subaccount addresses —, parameters, blocks), subaccount creation / top-up / unlocked-balance
    withdrawal, subaccount wagers, subaccount house deposits and withdrawals on real markets through the REAL core
    handlers, and settling end-blocks whose hooks call back into x/subaccount:
    every subaccount address holds at least Deposited − Withdrawn − Spent − Lost, none of the four is negative, the
    owner→subaccount and subaccount→owner maps are mutually inverse (so no owner has two subaccounts) and every
    account summary has its map entries. Signers, creators and owners are key-holding accounts (`Op.wfU`: below the
    subaccount address range and not custody accounts — a subaccount address has no key). No contract about x/bet,
    x/house or x/orderbook is assumed: they are the real handlers. -/
theorem c11_ledger_combined (p : Params) (bal : List (Nat × Int)) (h t : Nat) (we de : Bool) (ops : List Op)
    (h0 : getBal bal ACC_POOL = 0 ∧ getBal bal ACC_BETFEE = 0 ∧ getBal bal ACC_HOUSEFEE = 0)
    (hb : ∀ x, SUB_BASE ≤ x → 0 ≤ getBal bal x) (hwf : ∀ op ∈ ops, op.wfU) :
    let s := run (init p bal h t we de) ops
    (∀ a r, aget s.subs a = some r →
      r.sum.available ≤ s.bal a ∧ 0 ≤ r.sum.deposited ∧ 0 ≤ r.sum.spent ∧ 0 ≤ r.sum.withdrawn ∧ 0 ≤ r.sum.lost) ∧
    (∀ o a, aget s.owners o = some a ↔ aget s.subOwner a = some o) ∧
    (∀ a1 a2 o, aget s.subOwner a1 = some o → aget s.subOwner a2 = some o → a1 = a2) ∧
    (∀ a, (aget s.subs a).isSome ↔ (aget s.subOwner a).isSome) := by
  intro s
  have hI : LInv s := cmb_run_linv ops _ (cmb_init_linv p bal h t we de h0 hb) hwf
  refine ⟨?_, hI.mapsInv, ?_, hI.dom⟩
  · intro a r har
    have hn := hI.nn a r har
    have hs := hI.sur a (hI.inRange a (by rw [har]; rfl))
    unfold surplus led at hs
    rw [har] at hs
    simp only at hs
    exact ⟨by omega, hn.dep, hn.spent, hn.wd, hn.lost⟩
  · intro a1 a2 o h1 h2
    have e1 := (hI.mapsInv o a1).mpr h1
    have e2 := (hI.mapsInv o a2).mpr h2
    rw [e1] at e2
    exact Option.some.inj e2

-- ---------------------------------------------------------------------------------------------
-- non-vacuity: a subaccount provides liquidity and its owner bets (paid by the subaccount) on the same market,
-- the bettor's outcome is declared, the end-block settles the bet and pays the participation through the hooks

def sampleTk : Tk := { ok := true, kycIgnore := true, kycApproved := false, kycId := 0 }
def samplePl : WagerPayload :=
  { market := 1, odds := 11, oddsVal := some ⟨2 * PREC⟩, mult := ⟨PREC⟩, allOdds := [(11, ⟨PREC⟩), (12, ⟨PREC⟩)] }
def sampleOps : List Op :=
  [.core (.marketAdd 9 sampleTk 1 50 500 [11, 12] MS_ACTIVE),
   .create 7 2 [(300, 60000000)],
   .subDeposit 2 sampleTk 1 50000000 0,
   .subWager 2 true 2 500000 1500000 sampleTk 77 2000000 samplePl,
   .core (.marketResolve sampleTk 1 60 MS_DECLARED [11])]
def sampleInit : State := init {} [(7, 100000000), (2, 100000000), (9, 0)] 1 100 true true

example :
    let s1 := run sampleInit sampleOps
    let s2 := run s1 [.core .endBlock]
    (∀ op ∈ sampleOps ++ [.core .endBlock], op.wf ∧ op.wfU) ∧
    (∀ x, SUB_BASE ≤ x → 0 ≤ getBal sampleInit.core.bal x) ∧
    -- before the end-block: the subaccount (address `subAddr 1`) has spent 50000000 and paid 1500000 of the wager
    (aget s1.subs (subAddr 1)).map (·.sum) = some { deposited := 60000000, spent := 50000000, withdrawn := 1500000, lost := 0 } ∧
    s1.bal (subAddr 1) = 8500000 ∧
    (getBal s1.core.bal ACC_POOL, getBal s1.core.bal ACC_BETFEE, getBal s1.core.bal ACC_HOUSEFEE) = (46999900, 100, 5000000) ∧
    (owedPool s1.core, owedBetFee s1.core, owedHouseFee s1.core) = (46999900, 100, 5000000) ∧
    -- the end-block settles the winning bet, pays the participation and books the house loss through AfterHouseLoss
    s2.core.bets.map (·.status) = [BS_SETTLED] ∧ s2.core.books.map (fun b => b.parts.map (·.isSettled)) = [[true]] ∧
    (getBal s2.core.bal ACC_POOL, getBal s2.core.bal ACC_BETFEE, getBal s2.core.bal ACC_HOUSEFEE) = (0, 0, 0) ∧
    (aget s2.subs (subAddr 1)).map (·.sum) = some { deposited := 60000000, spent := 5000000, withdrawn := 1500000, lost := 1999900 } ∧
    s2.bal (subAddr 1) = 51500100 := by
  refine ⟨?_, ?_, ?_⟩
  · intro op hop
    simp only [sampleOps, List.cons_append, List.nil_append, List.mem_cons, List.not_mem_nil, or_false] at hop
    rcases hop with rfl | rfl | rfl | rfl | rfl | rfl
    · exact ⟨by show isModuleAcc _ = false; decide, by show isModuleAcc _ = false; decide⟩
    · exact ⟨⟨by decide, by decide⟩, ⟨⟨by decide, by decide⟩, ⟨by decide, by decide⟩⟩⟩
    · exact ⟨trivial, trivial⟩
    · exact ⟨trivial, trivial⟩
    · exact ⟨trivial, trivial⟩
    · exact ⟨trivial, trivial⟩
  · intro x hx
    have e : getBal sampleInit.core.bal x = 0 := by
      show getBal [(7, 100000000), (2, 100000000), (9, 0)] x = 0
      unfold SUB_BASE at hx
      simp only [getBal]
      rw [if_neg (by omega), if_neg (by omega), if_neg (by omega)]
    omega
  · decide +kernel

end Sge.Combined
