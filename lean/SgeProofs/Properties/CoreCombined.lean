/-
  C02 / C03 / C04 / C05 / C08 / C10 / C16 over COMBINED histories: "wager (direct AND via subaccount)".

  The whole-history theorems of the core slice quantify over `Core.run (initState …) ops`: direct wagers, direct house
  deposits / withdrawals, market, bank, authz and parameter traffic, blocks. Here they are transferred to the core
  component of every state the COMBINED model (`Sge.Combined`: the core chain plus x/subaccount, whose MsgWager /
  MsgHouseDeposit / MsgHouseWithdraw call the REAL core handlers, and whose hooks run in the settling end-block)
  reaches from a chain without subaccounts, by the simulation `cmb_simulation_run` (C01Combined.lean): the core
  component of `run (init …) ops` is `Core.run (initState …) cops` for user-signed core operations `cops`.
  All hypotheses of the form "signed by user accounts" become `Op.wf` (signers, creators and subaccount owners are not
  custody module accounts); the ghost hypothesis `NonNegParts` of C02 / C05 is stated on the core component of the
  final combined state.

  State invariants (one state of the history) transfer by `cml_transfer`; statements about a state and a later state
  (`…_frozen`) by `cml_transfer2`; statements about the steps of the history (C05: no end-block halts, the settlement
  bound; C16 `betInv`: positive block heights) by the STEP-WISE simulation `cml_run_trace` (Lemmas/CombinedPlainSim.lean).
-/
import SgeProofs.Properties.C11Combined
import SgeProofs.Properties.C08Index
import SgeProofs.Properties.C10Sums
import SgeProofs.Properties.C02Reach
import SgeProofs.Properties.C03Sums
import SgeProofs.Properties.C04Sums
import SgeProofs.Properties.C05NoHalt
import SgeProofs.Properties.C16Reach
import SgeProofs.Lemmas.CombinedPlainSim
namespace Sge.Combined
open Sge Sge.Core Sge.Genesis

-- ---------------------------------------------------------------------------------------------
-- transfer principles

theorem cml_run_append (s : State) (a b : List Op) : run s (a ++ b) = run (run s a) b := by
  unfold run
  exact List.foldl_append ..

/-- TRANSFER, one state: what holds of the core state after every user-signed core history from the empty chain holds
    of the core component after every combined history from the chain without subaccounts. -/
theorem cml_transfer (p : Params) (bal : List (Nat × Int)) (h t : Nat) (we de : Bool) (ops : List Op)
    (hwf : ∀ op ∈ ops, op.wf) (P : Core.State → Prop)
    (hP : ∀ cops : List Core.Op, (∀ o ∈ cops, o.userSigned') → P (Core.run (initState p bal h t) cops)) :
    P (run (init p bal h t we de) ops).core := by
  obtain ⟨cops, hw, e⟩ := cmb_simulation_run (init p bal h t we de) ops (cmb_init_ownInv p bal h t we de) hwf
  rw [e]
  exact hP cops hw

/-- TRANSFER, a state and a later state of the same history. -/
theorem cml_transfer2 (p : Params) (bal : List (Nat × Int)) (h t : Nat) (we de : Bool) (ops later : List Op)
    (hwf : ∀ op ∈ ops ++ later, op.wf) (P : Core.State → Core.State → Prop)
    (hP : ∀ c1 c2 : List Core.Op, (∀ o ∈ c1 ++ c2, o.userSigned') →
      P (Core.run (initState p bal h t) c1) (Core.run (initState p bal h t) (c1 ++ c2))) :
    P (run (init p bal h t we de) ops).core (run (init p bal h t we de) (ops ++ later)).core := by
  obtain ⟨⟨c1, w1, e1⟩, hI⟩ := cmb_run_sim ops (init p bal h t we de) (cmb_init_ownInv p bal h t we de)
    (fun o ho => hwf o (List.mem_append_left _ ho))
  obtain ⟨c2, w2, e2⟩ := cmb_simulation_run (run (init p bal h t we de) ops) later hI
    (fun o ho => hwf o (List.mem_append_right _ ho))
  have e3 : (run (init p bal h t we de) (ops ++ later)).core = Core.run (initState p bal h t) (c1 ++ c2) := by
    rw [cml_run_append, e2, e1, cmb_run_append]
    rfl
  rw [e3, e1]
  refine hP c1 c2 ?_
  intro o ho
  rcases List.mem_append.mp ho with h' | h'
  · exact w1 o h'
  · exact w2 o h'

-- ---------------------------------------------------------------------------------------------
-- C08: the bet index

/-- C08 (combined), transfers the invariant `BetIdx` (`run_betIdx`, Lemmas/BetIndex.lean): after every combined
    history — direct wagers and wagers through subaccounts alike — the pending / settled stores are the two indexes of
    the bet store, ids and uids are unique, the counter counts the bets. -/
theorem c08_betIdx_combined (p : Params) (bal : List (Nat × Int)) (h t : Nat) (we de : Bool) (ops : List Op)
    (hwf : ∀ op ∈ ops, op.wf) : BetIdx (run (init p bal h t we de) ops).core :=
  cml_transfer p bal h t we de ops hwf BetIdx (fun cops _ => run_betIdx _ cops (betIdx_init p bal h t))

/-- C08.d (combined), transfers `c08_bet_count_eq`: the bet counter equals the number of stored bets, subaccount
    wagers included. -/
theorem c08_bet_count_eq_combined (p : Params) (bal : List (Nat × Int)) (h t : Nat) (we de : Bool) (ops : List Op)
    (hwf : ∀ op ∈ ops, op.wf) :
    let c := (run (init p bal h t we de) ops).core
    c.bets.length = c.betCount :=
  cml_transfer p bal h t we de ops hwf (fun c => c.bets.length = c.betCount)
    (fun cops _ => c08_bet_count_eq p bal h t cops)

/-- C08.e (combined), transfers `c08_ids_are_sequence`: the bet ids are exactly 1..betCount, no two stored bets share
    an id or a UID, whether the bets were placed directly or through a subaccount. -/
theorem c08_ids_are_sequence_combined (p : Params) (bal : List (Nat × Int)) (h t : Nat) (we de : Bool) (ops : List Op)
    (hwf : ∀ op ∈ ops, op.wf) :
    let c := (run (init p bal h t we de) ops).core
    (∀ b ∈ c.bets, 1 ≤ b.id ∧ b.id ≤ c.betCount) ∧
    (∀ k, 1 ≤ k → k ≤ c.betCount → ∃ b ∈ c.bets, b.id = k) ∧
    c.bets.Pairwise (fun a b => a.id ≠ b.id) ∧
    c.bets.Pairwise (fun a b => a.uid ≠ b.uid) ∧
    (c.bets.map (·.id)).Perm (List.range' 1 c.betCount) :=
  cml_transfer p bal h t we de ops hwf
    (fun c => (∀ b ∈ c.bets, 1 ≤ b.id ∧ b.id ≤ c.betCount) ∧
      (∀ k, 1 ≤ k → k ≤ c.betCount → ∃ b ∈ c.bets, b.id = k) ∧
      c.bets.Pairwise (fun a b => a.id ≠ b.id) ∧
      c.bets.Pairwise (fun a b => a.uid ≠ b.uid) ∧
      (c.bets.map (·.id)).Perm (List.range' 1 c.betCount))
    (fun cops _ => c08_ids_are_sequence p bal h t cops)

/-- C08.g (combined), transfers `c08_listed_exactly_once`: every bet is listed exactly once — as pending until it is
    settled, as settled at its settlement height afterwards —, every index entry belongs to a stored bet of that status,
    and the two indexes together have as many entries as there are bets. -/
theorem c08_listed_exactly_once_combined (p : Params) (bal : List (Nat × Int)) (h t : Nat) (we de : Bool) (ops : List Op)
    (hwf : ∀ op ∈ ops, op.wf) :
    let c := (run (init p bal h t we de) ops).core
    (∀ b ∈ c.bets,
      (b.status ≠ BS_SETTLED →
        c.pending.filter (fun x => x.2.1 == b.id) = [(b.market, b.id, b.uid, b.creator)] ∧
        c.settled.filter (fun x => x.2.1 == b.id) = []) ∧
      (b.status = BS_SETTLED →
        c.settled.filter (fun x => x.2.1 == b.id) = [(b.settleHeight, b.id, b.uid, b.creator)] ∧
        c.pending.filter (fun x => x.2.1 == b.id) = [])) ∧
    (∀ x ∈ c.pending, ∃ b ∈ c.bets, b.status ≠ BS_SETTLED ∧ x = (b.market, b.id, b.uid, b.creator)) ∧
    (∀ x ∈ c.settled, ∃ b ∈ c.bets, b.status = BS_SETTLED ∧ x = (b.settleHeight, b.id, b.uid, b.creator)) ∧
    Sorted Bet.key c.bets ∧ Sorted ikey c.pending ∧ Sorted ikey c.settled ∧
    c.pending.length + c.settled.length = c.bets.length := by
  intro c
  have hI : BetIdx c := c08_betIdx_combined p bal h t we de ops hwf
  exact ⟨fun b hb => hI.listed_once b hb, hI.ofPend, hI.ofSett, hI.sBets, hI.sPend, hI.sSett, hI.lens⟩

/-- C03.h (combined), transfers `c03_settled_bets_frozen`: a settled bet record never changes again, whatever combined
    operations follow (subaccount traffic and settling end-blocks with hooks included); it stays the only bet with its
    id, listed exactly once as settled and not at all as pending. -/
theorem c03_settled_bets_frozen_combined (p : Params) (bal : List (Nat × Int)) (h t : Nat) (we de : Bool)
    (ops later : List Op) (b : Bet) (hwf : ∀ op ∈ ops ++ later, op.wf) :
    let c := (run (init p bal h t we de) ops).core
    let c' := (run (init p bal h t we de) (ops ++ later)).core
    b ∈ c.bets → b.status = BS_SETTLED →
    b ∈ c'.bets ∧ (∀ b' ∈ c'.bets, b'.id = b.id → b' = b) ∧
    c'.settled.filter (fun x => x.2.1 == b.id) = [(b.settleHeight, b.id, b.uid, b.creator)] ∧
    c'.pending.filter (fun x => x.2.1 == b.id) = [] :=
  cml_transfer2 p bal h t we de ops later hwf
    (fun c c' => b ∈ c.bets → b.status = BS_SETTLED →
      b ∈ c'.bets ∧ (∀ b' ∈ c'.bets, b'.id = b.id → b' = b) ∧
      c'.settled.filter (fun x => x.2.1 == b.id) = [(b.settleHeight, b.id, b.uid, b.creator)] ∧
      c'.pending.filter (fun x => x.2.1 == b.id) = [])
    (fun c1 c2 _ => c03_settled_bets_frozen p bal h t c1 c2 b)

-- ---------------------------------------------------------------------------------------------
-- C10: order-book sums = bet records

/-- C10.e (combined), transfers `c10_invariant` (`ObInv`, Lemmas/ObSums.lean): the whole-history invariant "the
    order-book records and the bet records tell the same story" holds of the core component after every combined
    history. -/
theorem c10_invariant_combined (p : Params) (bal : List (Nat × Int)) (h t : Nat) (we de : Bool) (ops : List Op)
    (hwf : ∀ op ∈ ops, op.wf) : ObInv (run (init p bal h t we de) ops).core :=
  cml_transfer p bal h t we de ops hwf ObInv (fun cops _ => c10_invariant p bal h t cops)

/-- C10.f/g/h (combined), transfers `c10_total_bet_eq`, `c10_exposure_eq`, `c10_exposure_bet_eq`: for every
    participation — of a direct depositor or of a subaccount address — the total stake it reports equals the stakes of
    the backing parts naming it over all bets of the market (direct and subaccount wagers), and per outcome its current
    plus historical exposures (promised winnings, and recorded stakes) equal those of the backing parts naming it. -/
theorem c10_sums_combined (p : Params) (bal : List (Nat × Int)) (h t : Nat) (we de : Bool) (ops : List Op)
    (hwf : ∀ op ∈ ops, op.wf) :
    let c := (run (init p bal h t we de) ops).core
    ∀ b ∈ c.books, ∀ pt ∈ b.parts,
      pt.totalBet = (((c.bets.filter (fun bet => bet.market == b.uid)).map (fun bet => bet.stakeOn pt.idx)).sum) ∧
      ∀ o : Nat,
        (((b.pexps ++ b.hist).filter (fun e => e.odds == o && e.idx == pt.idx)).map (·.exposure)).sum =
          (((c.bets.filter (fun bet => bet.market == b.uid && bet.odds == o)).map (fun bet => bet.profitOn pt.idx)).sum) ∧
        (((b.pexps ++ b.hist).filter (fun e => e.odds == o && e.idx == pt.idx)).map (·.bet)).sum =
          (((c.bets.filter (fun bet => bet.market == b.uid && bet.odds == o)).map (fun bet => bet.stakeOn pt.idx)).sum) :=
  cml_transfer p bal h t we de ops hwf
    (fun c => ∀ b ∈ c.books, ∀ pt ∈ b.parts,
      pt.totalBet = (((c.bets.filter (fun bet => bet.market == b.uid)).map (fun bet => bet.stakeOn pt.idx)).sum) ∧
      ∀ o : Nat,
        (((b.pexps ++ b.hist).filter (fun e => e.odds == o && e.idx == pt.idx)).map (·.exposure)).sum =
          (((c.bets.filter (fun bet => bet.market == b.uid && bet.odds == o)).map (fun bet => bet.profitOn pt.idx)).sum) ∧
        (((b.pexps ++ b.hist).filter (fun e => e.odds == o && e.idx == pt.idx)).map (·.bet)).sum =
          (((c.bets.filter (fun bet => bet.market == b.uid && bet.odds == o)).map (fun bet => bet.stakeOn pt.idx)).sum))
    (fun cops _ b hb pt hpt =>
      ⟨c10_total_bet_eq p bal h t cops b hb pt hpt, fun o =>
        ⟨c10_exposure_eq p bal h t cops b hb pt hpt o, c10_exposure_bet_eq p bal h t cops b hb pt hpt o⟩⟩)

/-- C10.i/j/k (combined), transfers `c10_parts_wellformed`, `c10_participation_count`, `c10_queues_wellformed`: every
    backing part names a participation of the bet's own market and its depositor; the participations of a book are
    numbered 1..counter; every fulfilment queue is duplicate-free and lists open participations only. -/
theorem c10_wellformed_combined (p : Params) (bal : List (Nat × Int)) (h t : Nat) (we de : Bool) (ops : List Op)
    (hwf : ∀ op ∈ ops, op.wf) :
    let c := (run (init p bal h t we de) ops).core
    (∀ bet ∈ c.bets, ∀ f ∈ bet.fulfs, ∃ b ∈ c.books, b.uid = bet.market ∧ ∃ pt ∈ b.parts, pt.idx = f.idx ∧ pt.addr = f.addr) ∧
    (∀ b ∈ c.books, b.parts.length = b.partCount ∧ b.parts.map (·.idx) = List.range' 1 b.partCount) ∧
    (∀ b ∈ c.books, ∀ oq ∈ b.queues, oq.2.Nodup ∧
      ∀ i ∈ oq.2, (∃ pt ∈ b.parts, pt.idx = i) ∧ ∃ e ∈ b.pexps, e.odds = oq.1 ∧ e.idx = i ∧ e.fulfilled = false) :=
  cml_transfer p bal h t we de ops hwf
    (fun c =>
      (∀ bet ∈ c.bets, ∀ f ∈ bet.fulfs, ∃ b ∈ c.books, b.uid = bet.market ∧ ∃ pt ∈ b.parts, pt.idx = f.idx ∧ pt.addr = f.addr) ∧
      (∀ b ∈ c.books, b.parts.length = b.partCount ∧ b.parts.map (·.idx) = List.range' 1 b.partCount) ∧
      (∀ b ∈ c.books, ∀ oq ∈ b.queues, oq.2.Nodup ∧
        ∀ i ∈ oq.2, (∃ pt ∈ b.parts, pt.idx = i) ∧ ∃ e ∈ b.pexps, e.odds = oq.1 ∧ e.idx = i ∧ e.fulfilled = false))
    (fun cops _ => ⟨c10_parts_wellformed p bal h t cops, c10_participation_count p bal h t cops,
      c10_queues_wellformed p bal h t cops⟩)

-- ---------------------------------------------------------------------------------------------
-- C02: collateral (partial: no negative backing part)

/-- C02.i (combined, PARTIAL like the core theorem), transfers `c02_collateral_partial`: if no backing part of any bet
    in the core component of the final combined state has a negative stake (`NonNegParts`; bets are only appended and
    their parts never change, so this excludes exactly the histories in which some wager — direct or through a
    subaccount — produced a negative part, KF-C03-negative-part), then every participation of every book — those of
    subaccount addresses included — satisfies the collateral bundle `IInv` of Properties/C02.lean (`ColSt`). -/
theorem c02_collateral_partial_combined (p : Params) (bal : List (Nat × Int)) (h t : Nat) (we de : Bool) (ops : List Op)
    (hwf : ∀ op ∈ ops, op.wf) :
    let c := (run (init p bal h t we de) ops).core
    NonNegParts c → ColSt c :=
  cml_transfer p bal h t we de ops hwf (fun c => NonNegParts c → ColSt c)
    (fun cops _ => c02_collateral_partial p bal h t cops)

/-- C02.j (combined), transfers `c02_nonneg_parts_monotone`: the ghost hypothesis is monotone along a combined history. -/
theorem c02_nonneg_parts_monotone_combined (p : Params) (bal : List (Nat × Int)) (h t : Nat) (we de : Bool)
    (ops later : List Op) (hwf : ∀ op ∈ ops ++ later, op.wf) :
    NonNegParts (run (init p bal h t we de) (ops ++ later)).core → NonNegParts (run (init p bal h t we de) ops).core :=
  cml_transfer2 p bal h t we de ops later hwf (fun c c' => NonNegParts c' → NonNegParts c)
    (fun c1 c2 _ => c02_nonneg_parts_monotone p bal h t c1 c2)

/-- C02.l (combined, PARTIAL: same exclusion), transfers `c02_monitor_inequality_partial`: for every participation and
    outcome the promised winnings over all rounds are covered by the liquidity plus the stakes received on the other
    outcomes — the inequality the Go-side monitor evaluates. -/
theorem c02_monitor_inequality_partial_combined (p : Params) (bal : List (Nat × Int)) (h t : Nat) (we de : Bool)
    (ops : List Op) (hwf : ∀ op ∈ ops, op.wf) :
    let c := (run (init p bal h t we de) ops).core
    NonNegParts c → ∀ b ∈ c.books, ∀ pt ∈ b.parts, ∀ o : Nat,
      b.promised pt.idx o ≤ pt.liq + b.otherStakes pt.idx o ∧
      b.promised pt.idx o + b.stakeOn pt.idx o ≤ pt.liq + pt.totalBet :=
  cml_transfer p bal h t we de ops hwf
    (fun c => NonNegParts c → ∀ b ∈ c.books, ∀ pt ∈ b.parts, ∀ o : Nat,
      b.promised pt.idx o ≤ pt.liq + b.otherStakes pt.idx o ∧
      b.promised pt.idx o + b.stakeOn pt.idx o ≤ pt.liq + pt.totalBet)
    (fun cops _ => c02_monitor_inequality_partial p bal h t cops)

/-- C02.o (combined, PARTIAL: same exclusion), transfers `c02_house_loss_bounded_partial`: from empty custody
    accounts, for every book that has left the active state the payout of every participation is non-negative — a
    depositor, subaccount or not, never loses more than the liquidity it put in. -/
theorem c02_house_loss_bounded_partial_combined (p : Params) (bal : List (Nat × Int)) (h t : Nat) (we de : Bool)
    (ops : List Op) (h0 : getBal bal ACC_POOL = 0 ∧ getBal bal ACC_BETFEE = 0 ∧ getBal bal ACC_HOUSEFEE = 0)
    (hwf : ∀ op ∈ ops, op.wf) :
    let c := (run (init p bal h t we de) ops).core
    NonNegParts c → ∀ b ∈ c.books, b.status ≠ OB_ACTIVE → ∀ m, getMarket c b.uid = some m →
      ∀ pt ∈ b.parts, 0 ≤ pt.payout m :=
  cml_transfer p bal h t we de ops hwf
    (fun c => NonNegParts c → ∀ b ∈ c.books, b.status ≠ OB_ACTIVE → ∀ m, getMarket c b.uid = some m →
      ∀ pt ∈ b.parts, 0 ≤ pt.payout m)
    (fun cops hw => c02_house_loss_bounded_partial p bal h t cops h0 hw)

-- ---------------------------------------------------------------------------------------------
-- C04: realised profit, paid once

/-- C04.f (combined), transfers `c04_invariants`: `SettleInv` (C01), `ObInv` (C10) and `RetInv` (realised profit =
    what the settled bets say) hold of the core component after every combined history. -/
theorem c04_invariants_combined (p : Params) (bal : List (Nat × Int)) (h t : Nat) (we de : Bool) (ops : List Op)
    (h0 : getBal bal ACC_POOL = 0 ∧ getBal bal ACC_BETFEE = 0 ∧ getBal bal ACC_HOUSEFEE = 0)
    (hwf : ∀ op ∈ ops, op.wf) : RetAll (run (init p bal h t we de) ops).core :=
  cml_transfer p bal h t we de ops hwf RetAll (fun cops hw => c04_invariants p bal h t cops h0 hw)

/-- C04.h (combined), transfers `c04_realised_profit_eq`: for every participation the realised profit equals the stakes
    of the backing parts naming it in the SETTLED bets that LOST minus the winnings promised by the backing parts naming
    it in the SETTLED bets that WON — over direct and subaccount wagers alike. -/
theorem c04_realised_profit_eq_combined (p : Params) (bal : List (Nat × Int)) (h t : Nat) (we de : Bool) (ops : List Op)
    (hwf : ∀ op ∈ ops, op.wf) :
    let c := (run (init p bal h t we de) ops).core
    ∀ b ∈ c.books, ∀ pt ∈ b.parts,
      pt.actualProfit =
        ((c.bets.filter (fun x => x.market == b.uid && x.status == BS_SETTLED && x.result == BR_LOST)).map
            (fun x => x.stakeOn pt.idx)).sum
        - ((c.bets.filter (fun x => x.market == b.uid && x.status == BS_SETTLED && x.result == BR_WON)).map
            (fun x => x.profitOn pt.idx)).sum :=
  cml_transfer p bal h t we de ops hwf
    (fun c => ∀ b ∈ c.books, ∀ pt ∈ b.parts,
      pt.actualProfit =
        ((c.bets.filter (fun x => x.market == b.uid && x.status == BS_SETTLED && x.result == BR_LOST)).map
            (fun x => x.stakeOn pt.idx)).sum
        - ((c.bets.filter (fun x => x.market == b.uid && x.status == BS_SETTLED && x.result == BR_WON)).map
            (fun x => x.profitOn pt.idx)).sum)
    (fun cops _ => c04_realised_profit_eq p bal h t cops)

/-- C04.j (combined), transfers `c04_paid_frozen`: a paid participation record — of a direct depositor or of a
    subaccount — is never modified again by any later combined operation, so it is never paid again (and the hooks
    of x/subaccount are never called for it again: `endBlockHooks` only lists participations that BECOME paid). -/
theorem c04_paid_frozen_combined (p : Params) (bal : List (Nat × Int)) (h t : Nat) (we de : Bool) (ops later : List Op)
    (h0 : getBal bal ACC_POOL = 0 ∧ getBal bal ACC_BETFEE = 0 ∧ getBal bal ACC_HOUSEFEE = 0)
    (hwf : ∀ op ∈ ops ++ later, op.wf) :
    let c := (run (init p bal h t we de) ops).core
    let c' := (run (init p bal h t we de) (ops ++ later)).core
    ∀ b ∈ c.books, ∀ pt ∈ b.parts, pt.isSettled = true →
      ∃ b' ∈ c'.books, b'.uid = b.uid ∧ pt ∈ b'.parts ∧
        (∀ b'' ∈ c'.books, b''.uid = b.uid → b'' = b') ∧ (∀ q ∈ b'.parts, q.idx = pt.idx → q = pt) :=
  cml_transfer2 p bal h t we de ops later hwf
    (fun c c' => ∀ b ∈ c.books, ∀ pt ∈ b.parts, pt.isSettled = true →
      ∃ b' ∈ c'.books, b'.uid = b.uid ∧ pt ∈ b'.parts ∧
        (∀ b'' ∈ c'.books, b''.uid = b.uid → b'' = b') ∧ (∀ q ∈ b'.parts, q.idx = pt.idx → q = pt))
    (fun c1 c2 hw => c04_paid_frozen p bal h t c1 c2 h0 hw)

/-- C04.k (combined), transfers `c04_settled_book_all_paid`: every participation of a SETTLED book is paid. -/
theorem c04_settled_book_all_paid_combined (p : Params) (bal : List (Nat × Int)) (h t : Nat) (we de : Bool) (ops : List Op)
    (h0 : getBal bal ACC_POOL = 0 ∧ getBal bal ACC_BETFEE = 0 ∧ getBal bal ACC_HOUSEFEE = 0)
    (hwf : ∀ op ∈ ops, op.wf) :
    let c := (run (init p bal h t we de) ops).core
    ∀ b ∈ c.books, b.status = OB_SETTLED → ∀ pt ∈ b.parts, pt.isSettled = true :=
  cml_transfer p bal h t we de ops hwf
    (fun c => ∀ b ∈ c.books, b.status = OB_SETTLED → ∀ pt ∈ b.parts, pt.isSettled = true)
    (fun cops hw => c04_settled_book_all_paid p bal h t cops h0 hw)

-- ---------------------------------------------------------------------------------------------
-- C16: the store invariants of the core component

/-- C16 reach (combined), transfers `marketInv_reachable`, `houseInv_reachable`, `obInv_reachable`, `betInv_partial`:
    the market, house and order-book stores of the core component of every reachable combined state satisfy the store
    invariants of Sge/Genesis.lean, and the bet store satisfies the conjuncts of `betInv` that do not mention
    settlement heights (for the full `betInv` see `betInv_reachable_combined`). -/
theorem c16_core_invs_combined (p : Params) (bal : List (Nat × Int)) (h t : Nat) (we de : Bool) (ops : List Op)
    (hwf : ∀ op ∈ ops, op.wf) :
    let c := (run (init p bal h t we de) ops).core
    marketInv c = true ∧ houseInv c = true ∧ obInv c = true ∧
    (sortedB Bet.key c.bets = true ∧ hasDup (c.bets.map (·.uid)) = false ∧ c.bets.all (fun b => b.id != 0) = true ∧
      (c.betCount == c.bets.length) = true ∧ (c.pending.length + c.settled.length == c.bets.length) = true) :=
  cml_transfer p bal h t we de ops hwf
    (fun c => marketInv c = true ∧ houseInv c = true ∧ obInv c = true ∧
      (sortedB Bet.key c.bets = true ∧ hasDup (c.bets.map (·.uid)) = false ∧ c.bets.all (fun b => b.id != 0) = true ∧
        (c.betCount == c.bets.length) = true ∧ (c.pending.length + c.settled.length == c.bets.length) = true))
    (fun cops _ => ⟨marketInv_reachable p bal h t cops, houseInv_reachable p bal h t cops,
      obInv_reachable p bal h t cops, betInv_partial p bal h t cops⟩)

/-- C16 reach (combined), transfers `betInv_reachable` and `c16_core_restart_reachable` along the step-wise simulation
    (`cml_run_trace`: the `newBlock`s of the core trace are those of the combined history): with positive block heights
    the bet store of the core component satisfies the full `betInv`, and exporting the core component of ANY reachable
    combined state and importing it into a fresh chain gives back exactly that core state. -/
theorem betInv_reachable_combined (p : Params) (bal : List (Nat × Int)) (h t : Nat) (we de : Bool) (ops : List Op)
    (hwf : ∀ op ∈ ops, op.wf) (hh : h ≠ 0) (hp : ∀ op ∈ ops, cml_posHeight op) :
    let c := (run (init p bal h t we de) ops).core
    betInv c = true ∧ importCore (exportCore c) (freshCore c) = some c := by
  intro c
  obtain ⟨cops, T⟩ := cml_run_trace ops (init p bal h t we de) (cmb_init_ownInv p bal h t we de) hwf
  have hc : c = Core.run (initState p bal h t) cops := T.eq
  clear_value c
  subst hc
  exact ⟨betInv_reachable p bal h t cops hh (T.pos hp), c16_core_restart_reachable p bal h t cops hh (T.pos hp)⟩

-- ---------------------------------------------------------------------------------------------
-- C05: no combined end-block halts, settlement completes within the bound

/-- only an end-block can halt in the combined model -/
theorem cml_step_not_halt (s : State) (op : Op) (hne : cml_isEnd op = false) : (step s op).2 ≠ .halt := by
  have hcommit : ∀ r : Option State, (commit s r).2 ≠ .halt := by
    intro r; cases r <;> exact fun e => nomatch e
  cases op with
  | core cop =>
    have he : cop ≠ .endBlock := by intro e; subst e; cases hne
    have e : step s (.core cop) = coreStep s cop := by
      cases cop <;> first | rfl | exact absurd rfl he
    rw [e]
    exact step_msg_not_halt s.core cop he
  | subParams w d => exact fun e => nomatch e
  | create c o ls => exact hcommit _
  | topUp c o ls => exact hcommit _
  | withdrawUnlocked o => exact hcommit _
  | subWager o ok ic m sb tk u a pl => exact hcommit _
  | subDeposit o tk m a pd => exact hcommit _
  | subWithdraw o tk m i md a pd => exact hcommit _

theorem cml_cmbNoHalt_append : ∀ (a : List Op) (s : State) (b : List Op),
    cml_noHalt s (a ++ b) = (cml_noHalt s a && cml_noHalt (run s a) b) := by
  intro a
  induction a with
  | nil => intro s b; rfl
  | cons op rest ih =>
    intro s b
    show ((step s op).2 != .halt && cml_noHalt (step s op).1 (rest ++ b)) = _
    rw [ih]
    show _ = (((step s op).2 != .halt && cml_noHalt (step s op).1 rest) && cml_noHalt (run (step s op).1 rest) b)
    rw [Bool.and_assoc]

/-- C05.q (combined), transfers `c05_no_halt_of_nonneg_parts` and combines it with
    `c11_endBlock_halts_only_with_core`: from a chain without subaccounts (custody accounts empty, valid parameters, no
    negative balance in the subaccount address range), after ANY combined history of key-holding signers (`Op.wfU`)
    whose final core state has no backing part with a negative stake, the COMBINED end-block — bet settlement, order-book
    settlement with all payments, and the x/subaccount hooks — does not halt. The only exclusion is the one of C02 / C05
    on the core slice (KF-C03-negative-part); x/subaccount adds none. -/
theorem c05_no_halt_of_nonneg_parts_combined (p : Params) (bal : List (Nat × Int)) (h t : Nat) (we de : Bool) (ops : List Op)
    (h0 : getBal bal ACC_POOL = 0 ∧ getBal bal ACC_BETFEE = 0 ∧ getBal bal ACC_HOUSEFEE = 0) (hp : p.valid = true)
    (hb : ∀ x, SUB_BASE ≤ x → 0 ≤ getBal bal x) (hwf : ∀ op ∈ ops, op.wfU) :
    let s := run (init p bal h t we de) ops
    NonNegParts s.core → (step s (.core .endBlock)).2 ≠ .halt := by
  intro s hnn hh
  have h1 : (Core.step s.core .endBlock).2 = .halt := c11_endBlock_halts_only_with_core p bal h t we de ops h0 hb hwf hh
  have h2 : NonNegParts s.core → (Core.step s.core .endBlock).2 ≠ .halt :=
    cml_transfer p bal h t we de ops (fun o ho => Op.wfU_wf (hwf o ho))
      (fun c => NonNegParts c → (Core.step c .endBlock).2 ≠ .halt)
      (fun cops hw => c05_no_halt_of_nonneg_parts p bal h t cops h0 hp hw)
  exact h2 hnn h1

/-- C05.p (combined), transfers `c05_no_halt_history_of_nonneg_parts`: under the same hypotheses NO end-block of the
    combined history halts (`NonNegParts` is monotone along the history, `c02_nonneg_parts_monotone_combined`). -/
theorem c05_no_halt_history_of_nonneg_parts_combined (p : Params) (bal : List (Nat × Int)) (h t : Nat) (we de : Bool)
    (ops : List Op) (h0 : getBal bal ACC_POOL = 0 ∧ getBal bal ACC_BETFEE = 0 ∧ getBal bal ACC_HOUSEFEE = 0)
    (hp : p.valid = true) (hb : ∀ x, SUB_BASE ≤ x → 0 ≤ getBal bal x) (hwf : ∀ op ∈ ops, op.wfU) :
    NonNegParts (run (init p bal h t we de) ops).core → cml_noHalt (init p bal h t we de) ops = true := by
  intro hnn
  have key : ∀ (post pre : List Op), (∀ op ∈ pre ++ post, op.wfU) →
      NonNegParts (run (init p bal h t we de) (pre ++ post)).core →
      cml_noHalt (run (init p bal h t we de) pre) post = true := by
    intro post
    induction post with
    | nil => intro _ _ _; rfl
    | cons op rest ih =>
      intro pre hwf hnn
      have hstep : (step (run (init p bal h t we de) pre) op).2 ≠ .halt := by
        by_cases hend : cml_isEnd op = true
        · have e : op = .core .endBlock := by
            cases op with
            | core cop => cases cop <;> first | rfl | cases hend
            | _ => cases hend
          subst e
          exact c05_no_halt_of_nonneg_parts_combined p bal h t we de pre h0 hp hb
            (fun o ho => hwf o (List.mem_append_left _ ho))
            (c02_nonneg_parts_monotone_combined p bal h t we de pre (.core .endBlock :: rest)
              (fun o ho => Op.wfU_wf (hwf o ho)) hnn)
        · exact cml_step_not_halt _ op (by simpa using hend)
      have hassoc : pre ++ op :: rest = (pre ++ [op]) ++ rest := by simp
      rw [hassoc] at hwf hnn
      have c1 := ih (pre ++ [op]) hwf hnn
      have hrun : run (init p bal h t we de) (pre ++ [op]) = (step (run (init p bal h t we de) pre) op).1 := by
        rw [cml_run_append]; rfl
      rw [hrun] at c1
      simp only [cml_noHalt, Bool.and_eq_true, bne_iff_ne, ne_eq]
      exact ⟨hstep, c1⟩
  exact key ops [] (by simpa using hwf) (by simpa using hnn)

/-- C05.h/j (combined), transfers THE BOUND `c05_settles_within` along the step-wise simulation `cml_run_trace` (a
    successful combined end-block is the successful core end-block followed by the bank sends of the hooks; a halting
    one is no core operation; every x/subaccount message is a list of bank sends, grants and at most one wager / house
    deposit / house withdrawal). After any combined history `pre` and any continuation `ops` — direct and subaccount
    wagers, deposits, withdrawals, resolutions of other markets, parameter changes keeping the batch sizes ≥ N, M —
    containing at least ⌊W/N⌋ + ⌊P/M⌋ + 1 combined end-blocks THAT DO NOT HALT (`cml_okEnds`; halting ones are simply not
    counted), every market that was queued after `pre` — the order-book queue and the first `k` entries of the market
    queue — is completely settled. -/
theorem c05_settles_within_combined (p : Params) (bal : List (Nat × Int)) (h t : Nat) (we de : Bool)
    (h0 : getBal bal ACC_POOL = 0 ∧ getBal bal ACC_BETFEE = 0 ∧ getBal bal ACC_HOUSEFEE = 0)
    (pre ops : List Op) (hpre : ∀ op ∈ pre, op.wf) (hops : ∀ op ∈ ops, op.wf) (k N M : Nat) (hN : 0 < N) (hM : 0 < M) :
    let s := run (init p bal h t we de) pre
    N ≤ s.core.params.betBatch → M ≤ s.core.params.obBatch → cml_batchAtLeast N M ops = true →
    settleBound N M s.core k ≤ cml_okEnds s ops →
    ∀ u ∈ s.core.obqueue ++ s.core.mqueue.take k, FullySettled (run (init p bal h t we de) (pre ++ ops)).core u := by
  intro s hNb hMb hba hcnt
  have hR : Reach s.core :=
    cml_transfer p bal h t we de pre hpre Reach (fun cops hw => run_reach _ cops (reach_init p bal h t h0) hw)
  have hI : OwnInv s := (cmb_run_sim pre _ (cmb_init_ownInv p bal h t we de) hpre).2
  obtain ⟨cops, T⟩ := cml_run_trace ops s hI hops
  rw [cml_run_append]
  show ∀ u ∈ s.core.obqueue ++ s.core.mqueue.take k, FullySettled (run s ops).core u
  rw [T.eq]
  exact c05_settles_within s.core hR k N M hN hM hNb hMb cops (signedOk_of T.signed) T.noHalt (T.batch N M hba)
    (by rw [T.ends]; exact hcnt)

/-- C05.r (combined), transfers `c05_settles_within_of_nonneg_parts`: the two halves of C05 together for combined
    histories without a negative backing part (key-holding signers): no combined end-block has halted, and after
    ⌊W/N⌋ + ⌊P/M⌋ + 1 end-blocks of the continuation every market that was queued after `pre` is completely settled. -/
theorem c05_settles_within_of_nonneg_parts_combined (p : Params) (bal : List (Nat × Int)) (h t : Nat) (we de : Bool)
    (h0 : getBal bal ACC_POOL = 0 ∧ getBal bal ACC_BETFEE = 0 ∧ getBal bal ACC_HOUSEFEE = 0) (hp : p.valid = true)
    (hb : ∀ x, SUB_BASE ≤ x → 0 ≤ getBal bal x)
    (pre ops : List Op) (hwf : ∀ op ∈ pre ++ ops, op.wfU) (k N M : Nat) (hN : 0 < N) (hM : 0 < M) :
    let s := run (init p bal h t we de) pre
    NonNegParts (run (init p bal h t we de) (pre ++ ops)).core →
    N ≤ s.core.params.betBatch → M ≤ s.core.params.obBatch → cml_batchAtLeast N M ops = true →
    settleBound N M s.core k ≤ cml_endBlocks ops →
    cml_noHalt (init p bal h t we de) (pre ++ ops) = true ∧
    ∀ u ∈ s.core.obqueue ++ s.core.mqueue.take k, FullySettled (run (init p bal h t we de) (pre ++ ops)).core u := by
  intro s hnn hNb hMb hba hcnt
  have n := c05_no_halt_history_of_nonneg_parts_combined p bal h t we de (pre ++ ops) h0 hp hb hwf hnn
  refine ⟨n, ?_⟩
  rw [cml_cmbNoHalt_append, Bool.and_eq_true] at n
  exact c05_settles_within_combined p bal h t we de h0 pre ops
    (fun o ho => Op.wfU_wf (hwf o (List.mem_append_left _ ho))) (fun o ho => Op.wfU_wf (hwf o (List.mem_append_right _ ho)))
    k N M hN hM hNb hMb hba (by rw [cml_okEnds_of_noHalt ops s n.2]; exact hcnt)

-- ---------------------------------------------------------------------------------------------
-- non-vacuity: the history of C01Combined.lean — a subaccount (address `subAddr 1`) deposits 50000000 into the house of
-- market 1 through MsgHouseDeposit of x/subaccount, its owner (account 2) wagers 2000000 through MsgWager of
-- x/subaccount (1500000 of it paid by the subaccount), the bettor's outcome is declared — followed by one end-block

instance cml_decPosHeight (op : Op) : Decidable (cml_posHeight op) := by
  cases op <;> unfold cml_posHeight <;> infer_instance

/-- `sampleOps` of C01Combined.lean followed by one end-block -/
def cml_exOps : List Op := sampleOps ++ [Op.core Core.Op.endBlock]

/-- the hypotheses of all theorems of this file hold of that history: key-holding signers (`Op.wfU`, hence `Op.wf`),
    empty custody accounts, no negative balance in the subaccount range, valid parameters, positive block heights, no
    negative backing part in the final core state, batch sizes kept, and ⌊1/1000⌋ + ⌊1/100⌋ + 1 = 1 end-block in the
    continuation; the bet of the core component was placed through the subaccount (bettor = owner 2) and is backed by
    the participation of the subaccount address. -/
example :
    let pre := sampleOps
    let ops : List Op := [.core .endBlock]
    let s := run sampleInit pre
    (∀ op ∈ pre ++ ops, op.wfU ∧ op.wf ∧ cml_posHeight op) ∧
    (getBal sampleInit.core.bal ACC_POOL = 0 ∧ getBal sampleInit.core.bal ACC_BETFEE = 0 ∧ getBal sampleInit.core.bal ACC_HOUSEFEE = 0) ∧
    (∀ x, SUB_BASE ≤ x → 0 ≤ getBal sampleInit.core.bal x) ∧ sampleInit.core.params.valid = true ∧ sampleInit.core.height ≠ 0 ∧
    NonNegParts (run sampleInit (pre ++ ops)).core ∧
    (s.core.bets.map (fun b => (b.creator, b.id, b.fulfs.map (fun f => (f.idx, f.addr, f.bet, f.profit)))) ==
      [(2, 1, [(1, subAddr 1, 1999900, 1999900)])]) = true ∧
    (s.core.books.map (fun b => b.parts.map (fun q => (q.idx, q.addr, q.liq))) == [[(1, subAddr 1, 45000000)]]) = true ∧
    s.core.mqueue = [1] ∧ s.core.obqueue = [] ∧
    1000 ≤ s.core.params.betBatch ∧ 100 ≤ s.core.params.obBatch ∧ cml_batchAtLeast 1000 100 ops = true ∧
    settleBound 1000 100 s.core 1 = 1 ∧ cml_endBlocks ops = 1 ∧ cml_okEnds s ops = 1 := by
  refine ⟨?_, by decide, ?_, by decide, by decide, by unfold NonNegParts; decide +kernel, ?_⟩
  · have hb : cml_exOps.all (fun op => cmb2_wfUb op && decide (cml_posHeight op)) = true := by
      decide +kernel
    intro op hop
    have := List.all_eq_true.mp hb op hop
    simp only [Bool.and_eq_true, decide_eq_true_eq] at this
    exact ⟨cmb2_wfUb_sound this.1, Op.wfU_wf (cmb2_wfUb_sound this.1), this.2⟩
  · intro x hx
    have e : getBal sampleInit.core.bal x = 0 := by
      show getBal [(7, 100000000), (2, 100000000), (9, 0)] x = 0
      unfold SUB_BASE at hx
      simp only [getBal]
      rw [if_neg (by omega), if_neg (by omega), if_neg (by omega)]
    omega
  · refine ⟨?_, ?_, ?_, ?_, ?_, ?_, ?_, ?_, ?_, ?_⟩ <;> decide +kernel

/-- the theorems applied to that history: the end-block does not halt, and after it market 1 — with the subaccount's
    participation and the bet placed through the subaccount — is completely settled -/
example : cml_noHalt sampleInit cml_exOps = true ∧ FullySettled (run sampleInit cml_exOps).core 1 := by
  have hwf : ∀ op ∈ cml_exOps, op.wfU := cmb2_wfUb_all (ops := cml_exOps) (by decide +kernel)
  have hb : ∀ x, SUB_BASE ≤ x → 0 ≤ getBal [(7, 100000000), (2, 100000000), ((9 : Nat), (0 : Int))] x := by
    intro x hx
    unfold SUB_BASE at hx
    simp only [getBal]
    rw [if_neg (by omega), if_neg (by omega), if_neg (by omega)]
    exact Int.le_refl _
  obtain ⟨h1, h2⟩ := c05_settles_within_of_nonneg_parts_combined {} [(7, 100000000), (2, 100000000), (9, 0)] 1 100 true true
    (by decide) (by decide) hb sampleOps [.core .endBlock] hwf 1 1000 100 (by decide) (by decide)
    (by unfold NonNegParts; decide +kernel) (by decide +kernel) (by decide +kernel) (by decide) (by decide +kernel)
  refine ⟨h1, h2 1 ?_⟩
  have e : (run (init {} [(7, 100000000), (2, 100000000), (9, 0)] 1 100 true true) sampleOps).core.obqueue ++
      (run (init {} [(7, 100000000), (2, 100000000), (9, 0)] 1 100 true true) sampleOps).core.mqueue.take 1 = [1] := by
    decide +kernel
  rw [e]
  exact List.mem_singleton.mpr rfl

end Sge.Combined
