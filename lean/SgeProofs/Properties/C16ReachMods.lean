/-
  C16, reachability part for the NON-CORE modules.  The C16 theorems of x/ovm, x/subaccount and x/reward
  (SgeProofs/Properties/C16.lean) assume the store invariants `ovmInv`, `SubInv`, `rewardInv`.  Here they are proved
  to hold in every state the module models reach by any history, and the C16 statements are restated without them.

  x/ovm         `ovmInv_reachable`: any vault at genesis (valid or not), any history of `Sge.Ovm.step`, both variants.
                No hypothesis.
  x/subaccount  `subInv_reachable`: any bank, any of the three patch flags, any history of `Sge.Subaccount.step`,
                whatever the other modules do (the `…Ext` parameters are arbitrary).  No hypothesis.
  x/reward      see the second half of this file.
-/
import SgeProofs.Properties.C16
import SgeProofs.Lemmas.GenesisReachMods
namespace Sge.Genesis
open Sge

-- =============================================================================================
-- x/ovm

/-- C16 reach, ovm: in every state reachable from a genesis that holds only a key vault (any vault), by any history of
    proposals, votes and end-blocks at any block times, both proposal stores are in KV iteration order. -/
theorem ovmInv_reachable (fixed : Bool) (vault : List Ovm.Pem) (ops : List (Int × Ovm.Op)) :
    ovmInv (Ovm.run fixed (Ovm.genesis vault) ops) = true :=
  grm_ovmInv_of _ (grm_ovm_run_inv fixed ops _ ⟨by simp [Ovm.genesis, SortedIds], by simp [Ovm.genesis, SortedIds]⟩)

/-- C16 ovm, every reachable state: key vault (strings and order), both proposal stores and the proposal counter come
    back after export + import. -/
theorem c16_import_export_ovm_reachable (fixed : Bool) (vault : List Ovm.Pem) (ops : List (Int × Ovm.Op)) :
    let σ := Ovm.run fixed (Ovm.genesis vault) ops
    importOvm (exportOvm σ) = σ :=
  c16_import_export_ovm _ (ovmInv_reachable fixed vault ops)

/-- C16 ovm, every state reachable from an admissible genesis (4 to 5 valid, pairwise different keys — `GenesisOK` of
    C14): the exported genesis passes `validatePubKeys` of the same variant of the code. -/
theorem c16_validate_export_ovm_reachable (fixed : Bool) (vault : List Ovm.Pem) (ops : List (Int × Ovm.Op))
    (hg : Ovm.GenesisOK vault) :
    validateOvm fixed (exportOvm (Ovm.run fixed (Ovm.genesis vault) ops)) = 0 := by
  have hi : Ovm.Inv fixed (Ovm.run fixed (Ovm.genesis vault) ops) := Ovm.Reachable.inv ⟨vault, ops, hg, rfl⟩
  obtain ⟨h1, h2, h3, h4, h5⟩ := hi.1
  exact c16_validate_export_ovm fixed _ h1 h2 (List.all_eq_true.mpr h3) (fun hf => grm_distinctKeys_of_nodup _ h4 (h5 hf))

-- =============================================================================================
-- x/subaccount

theorem grm_subInv_of {s : Subaccount.State} (h : grm_SubI s) : SubInv s :=
  ⟨h.idpos, h.dom, h.subs, h.own, h.locks⟩

/-- C16 reach, subaccount: in every state reachable from a chain without subaccounts (any balances, any combination
    of the three patches) by any history — creations, top-ups, withdrawals, reward grants, subaccount wagers, house
    deposits / withdrawals, settlement hooks, bank traffic, parameter changes, time — the id counter is positive, every
    subaccount lives at the address of an id below the counter, summaries exist exactly for the subaccounts, the two
    owner maps are inverse to each other and the locked balances of a subaccount have pairwise different unlock times. -/
theorem subInv_reachable (fixed fixedNeg fixedRet : Bool) (bank0 : Nat → Int) (ops : List Subaccount.Op) :
    SubInv (Subaccount.run (Subaccount.initCfg fixed fixedNeg fixedRet bank0) ops) :=
  grm_subInv_of (grm_sub_run_inv (grm_sub_init_inv fixed fixedNeg fixedRet bank0) ops)

/-- … and the invariant is inductive: it survives any continuation from any state that satisfies it (in particular
    from an imported genesis). -/
theorem subInv_run (s : Subaccount.State) (h : SubInv s) (ops : List Subaccount.Op) : SubInv (Subaccount.run s ops) :=
  grm_subInv_of (grm_sub_run_inv ⟨h.idpos, h.dom, h.subs, h.own, h.locks⟩ ops)

/-- C16 subaccount, every reachable state: ExportGenesis does not panic, the export validates, and InitGenesis of the
    export restores the id counter, both owner maps, every account summary, every locked balance and the parameters. -/
theorem c16_import_export_sub_reachable (fixed fixedNeg fixedRet : Bool) (bank0 : Nat → Int) (ops : List Subaccount.Op) :
    let s := Subaccount.run (Subaccount.initCfg fixed fixedNeg fixedRet bank0) ops
    ∃ g, exportSub s = some g ∧ validateSub g = 0 ∧
      (importSub g s).nextId = s.nextId ∧ (importSub g s).wagerEnabled = s.wagerEnabled ∧
      (importSub g s).depositEnabled = s.depositEnabled ∧
      (∀ a, (importSub g s).subMap a = s.subMap a) ∧ (∀ o, (importSub g s).ownerMap o = s.ownerMap o) ∧
      (∀ a, ((importSub g s).subs a).map (·.sum) = (s.subs a).map (·.sum)) ∧
      (∀ a ts, ((importSub g s).subs a).map (fun x => lockAt x.locks ts) = (s.subs a).map (fun x => lockAt x.locks ts)) :=
  c16_import_export_sub _ (subInv_reachable fixed fixedNeg fixedRet bank0 ops)

-- =============================================================================================
-- non-vacuity: concrete histories

/-- a proposal is submitted and approved by three of four keys (new vault installed), a second one expires, a third
    one stays active with one vote -/
def grm_ovmOps : List (Int × Ovm.Op) :=
  let tk {α : Type} (signer : Nat) (pl : α) : Ovm.Ticket α := { format := true, exp := 100000, alg := true, signer := some signer, payload := some pl }
  [ (10, .submit 7 (tk 0 { keys := [0, 8, 16, 32, 40], leader := 1 })),
    (11, .vote 0 (tk 0 { proposalId := 1, vote := 2 })),
    (12, .vote 1 (tk 1 { proposalId := 1, vote := 2 })),
    (13, .submit 7 (tk 0 { keys := [0, 8, 16, 48], leader := 0 })),
    (14, .vote 2 (tk 2 { proposalId := 1, vote := 2 })),
    (15, .endBlock),
    (20, .submit 7 (tk 1 { keys := [0, 8, 16, 56], leader := 2 })),
    (21, .vote 0 (tk 1 { proposalId := 3, vote := 1 })),
    (2000, .endBlock),
    (2001, .submit 7 (tk 1 { keys := [0, 8, 16, 24], leader := 3 })),
    (2002, .vote 1 (tk 0 { proposalId := 4, vote := 2 })) ]

def grm_ovmState : Ovm.State := Ovm.run false (Ovm.genesis [0, 8, 16, 24]) grm_ovmOps

example : Ovm.GenesisOK [0, 8, 16, 24] ∧
    grm_ovmState.vault = [8, 0, 16, 32, 40] ∧ grm_ovmState.count = 4 ∧
    grm_ovmState.active.map (fun p => (p.id, p.votes.length)) = [(4, 1)] ∧
    grm_ovmState.finished.map (fun p => (p.id, p.result)) = [(1, .approved), (2, .expired), (3, .expired)] ∧
    ovmInv grm_ovmState = true ∧ importOvm (exportOvm grm_ovmState) = grm_ovmState ∧
    validateOvm false (exportOvm grm_ovmState) = 0 := by
  decide +kernel

example : importOvm (exportOvm grm_ovmState) = grm_ovmState :=
  c16_import_export_ovm_reachable false [0, 8, 16, 24] grm_ovmOps

/-- two subaccounts are created (one by a reward grant), topped up with further locks, money is withdrawn, wagered,
    deposited into a house participation and settled -/
def grm_subOps : List Subaccount.Op :=
  [ .fund 1 5000, .fund 2 5000, .fund Subaccount.poolAcct 5000, .fund Subaccount.extAcct 5000, .params true true,
    .create 1 3 [(500, 100), (900, 200)],
    .topUp 2 3 [(700, 50)],
    .grant 2 4 80 300,
    .grant 2 4 40 600,
    .advance 600,
    .withdrawUnlocked 3,
    .wager 3 0 30 { pre := 0, betAmount := 30, wagerOk := true, charged := 30 },
    .houseDeposit 4 50 { tkOk := true, depOk := true, taken := 50 },
    .settle .win (Subaccount.addrOf 2) 60 50 10,
    .create 2 3 [(2000, 10)],
    .topUp 1 4 [(900, 5)] ]

def grm_subState : Subaccount.State := Subaccount.run (Subaccount.initCfg false false false (fun _ => 0)) grm_subOps

example : grm_subState.nextId = 3 ∧ grm_subState.ownerMap 3 = some 1001 ∧ grm_subState.ownerMap 4 = some 1002 ∧
    grm_subState.subMap 1002 = some 4 ∧
    (grm_subState.subs 1001).map (fun x => (x.sum, x.locks)) =
      some ({ deposited := 350, spent := 0, withdrawn := 130, lost := 0 }, [(700, 50), (900, 200), (500, 100)]) ∧
    (grm_subState.subs 1002).map (fun x => (x.sum, x.locks)) =
      some ({ deposited := 125, spent := 0, withdrawn := 0, lost := 0 }, [(900, 5), (600, 40), (300, 80)]) ∧
    subInvB grm_subState (List.range 12) = true := by
  decide +kernel

example : SubInv grm_subState := subInv_reachable false false false (fun _ => 0) grm_subOps

example : ∃ g, exportSub grm_subState = some g ∧ g.accounts.length = 2 ∧
    (importSub g grm_subState).subMap 1002 = some 4 ∧ (importSub g grm_subState).ownerMap 3 = some 1001 := by
  obtain ⟨g, h1, _, _, _, _, h6, h7, _, _⟩ := c16_import_export_sub_reachable false false false (fun _ => 0) grm_subOps
  refine ⟨g, h1, ?_, (h6 1002).trans (by decide +kernel), (h7 3).trans (by decide +kernel)⟩
  have : exportSub grm_subState = some g := h1
  have e : (exportSub grm_subState).map (·.accounts.length) = some 2 := by decide +kernel
  rw [this] at e
  exact Option.some.inj e

end Sge.Genesis
