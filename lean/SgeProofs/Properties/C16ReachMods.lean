/-
  C16, reachability part for the NON-CORE modules.  The C16 theorems of x/ovm, x/subaccount and x/reward
  (SgeProofs/Properties/C16.lean) assume the store invariants `ovmInv`, `SubInv`, `rewardInv`.  Here they are proved
  to hold in every state the module models reach by any history, and the C16 statements are restated without them.

  x/ovm         `ovmInv_reachable`: any vault at genesis (valid or not), any history of `Sge.Ovm.step`, both variants.
                No hypothesis.
  x/subaccount  `subInv_reachable`: any bank, any of the three patch flags, any history of `Sge.Subaccount.step`,
                whatever the other modules do (the `…Ext` parameters are arbitrary).  No hypothesis.
  x/reward      The genesis model works on `RewardStores` (the seven KV stores in key order, sent by the harness); the
                histories are those of the x/reward model `Sge.Reward` (C12).  `grm_stores d s` is the projection: every
                collection of the model state `s` as its prefix scan, digests `d` arbitrary.
                FINDING `rewardInv_reachable_counterexample`: `rewardInv` is FALSE in a reachable state.  `CreatePromoter`
                checks only that the promoter uid is new; an address that already is a promoter address can create a
                second promoter, `SetPromoterByAddress` overwrites its record, the by-category index entries of earlier
                rewards stay under the old promoter uid, and InitGenesis (also the patched one) re-files them under the
                new uid: import (export σ) ≠ σ.
                `rewardInv_partial`          every history: all conjuncts except "by-category index is filed under the
                                             promoter of the reward's campaign"
                `rewardInv_reachable`        every history in which no address creates a promoter while it already is a
                                             promoter address (`grm_freshRun`; e.g. pairwise different creators)
                `c16_import_export_reward_reachable`          round trip under that hypothesis
                `c16_import_export_reward_partial_reachable`  every history: no panic, everything comes back, the
                                             by-category index re-filed under the current promoter uids
                `c16_validate_export_reward_reachable`        every history, both variants: the export validates
                Repaired `CreatePromoter` (model flag `promoterFixed`, upstream fix "one promoter per address"):
                `rewardInv_reachable_fixed`, `c16_import_export_reward_reachable_fixed`  EVERY history, no hypothesis.
-/
import SgeProofs.Properties.C16
import SgeProofs.Lemmas.GenesisReachMods
import SgeProofs.Lemmas.GenesisReachModsStats
namespace Sge.Genesis
open Sge

-- =============================================================================================
-- x/ovm

/-- C16 reach, ovm: in every state reachable from a genesis that holds only a key vault (any vault), by any history of
    proposals, votes and end-blocks at any block times, both proposal stores are in KV iteration order. -/
theorem ovmInv_reachable (fixed : Bool) (vault : List Ovm.Pem) (ops : List (Int × Ovm.Op)) :
    ovmInv (Ovm.run fixed (Ovm.genesis vault) ops) = true :=
  grm_ovmInv_of _ (grm_ovm_run_inv fixed ops _ ⟨by simp [Ovm.genesis, SortedIds], by simp [Ovm.genesis, SortedIds]⟩)

/-- C16 ovm, every reachable state: key vault (strings and order), both proposal stores and the proposal counter come
    back after export + import. -/
theorem c16_import_export_ovm_reachable (fixed : Bool) (vault : List Ovm.Pem) (ops : List (Int × Ovm.Op)) :
    let σ := Ovm.run fixed (Ovm.genesis vault) ops
    importOvm (exportOvm σ) = σ :=
  c16_import_export_ovm _ (ovmInv_reachable fixed vault ops)

/-- C16 ovm, every state reachable from an admissible genesis (4 to 5 valid, pairwise different keys — `GenesisOK` of
    C14): the exported genesis passes `validatePubKeys` of the same variant of the code. -/
theorem c16_validate_export_ovm_reachable (fixed : Bool) (vault : List Ovm.Pem) (ops : List (Int × Ovm.Op))
    (hg : Ovm.GenesisOK vault) :
    validateOvm fixed (exportOvm (Ovm.run fixed (Ovm.genesis vault) ops)) = 0 := by
  have hi : Ovm.Inv fixed (Ovm.run fixed (Ovm.genesis vault) ops) := Ovm.Reachable.inv ⟨vault, ops, hg, rfl⟩
  obtain ⟨h1, h2, h3, h4, h5⟩ := hi.1
  exact c16_validate_export_ovm fixed _ h1 h2 (List.all_eq_true.mpr h3) (fun hf => grm_distinctKeys_of_nodup _ h4 (h5 hf))

-- =============================================================================================
-- x/subaccount

theorem grm_subInv_of {s : Subaccount.State} (h : grm_SubI s) : SubInv s :=
  ⟨h.idpos, h.dom, h.subs, h.own, h.locks⟩

/-- C16 reach, subaccount: in every state reachable from a chain without subaccounts (any balances, any combination
    of the three patches) by any history — creations, top-ups, withdrawals, reward grants, subaccount wagers, house
    deposits / withdrawals, settlement hooks, bank traffic, parameter changes, time — the id counter is positive, every
    subaccount lives at the address of an id below the counter, summaries exist exactly for the subaccounts, the two
    owner maps are inverse to each other and the locked balances of a subaccount have pairwise different unlock times. -/
theorem subInv_reachable (fixed fixedNeg fixedRet : Bool) (bank0 : Nat → Int) (ops : List Subaccount.Op) :
    SubInv (Subaccount.run (Subaccount.initCfg fixed fixedNeg fixedRet bank0) ops) :=
  grm_subInv_of (grm_sub_run_inv (grm_sub_init_inv fixed fixedNeg fixedRet bank0) ops)

/-- … and the invariant is inductive: it survives any continuation from any state that satisfies it (in particular
    from an imported genesis). -/
theorem subInv_run (s : Subaccount.State) (h : SubInv s) (ops : List Subaccount.Op) : SubInv (Subaccount.run s ops) :=
  grm_subInv_of (grm_sub_run_inv ⟨h.idpos, h.dom, h.subs, h.own, h.locks⟩ ops)

/-- C16 subaccount, every reachable state: ExportGenesis does not panic, the export validates, and InitGenesis of the
    export restores the id counter, both owner maps, every account summary, every locked balance and the parameters. -/
theorem c16_import_export_sub_reachable (fixed fixedNeg fixedRet : Bool) (bank0 : Nat → Int) (ops : List Subaccount.Op) :
    let s := Subaccount.run (Subaccount.initCfg fixed fixedNeg fixedRet bank0) ops
    ∃ g, exportSub s = some g ∧ validateSub g = 0 ∧
      (importSub g s).nextId = s.nextId ∧ (importSub g s).wagerEnabled = s.wagerEnabled ∧
      (importSub g s).depositEnabled = s.depositEnabled ∧
      (∀ a, (importSub g s).subMap a = s.subMap a) ∧ (∀ o, (importSub g s).ownerMap o = s.ownerMap o) ∧
      (∀ a, ((importSub g s).subs a).map (·.sum) = (s.subs a).map (·.sum)) ∧
      (∀ a ts, ((importSub g s).subs a).map (fun x => lockAt x.locks ts) = (s.subs a).map (fun x => lockAt x.locks ts)) :=
  c16_import_export_sub _ (subInv_reachable fixed fixedNeg fixedRet bank0 ops)

-- =============================================================================================
-- non-vacuity: concrete histories

/-- a proposal is submitted and approved by three of four keys (new vault installed), a second one expires, a third
    one stays active with one vote -/
def grm_ovmOps : List (Int × Ovm.Op) :=
  let tk {α : Type} (signer : Nat) (pl : α) : Ovm.Ticket α := { format := true, exp := 100000, alg := true, signer := some signer, payload := some pl }
  [ (10, .submit 7 (tk 0 { keys := [0, 8, 16, 32, 40], leader := 1 })),
    (11, .vote 0 (tk 0 { proposalId := 1, vote := 2 })),
    (12, .vote 1 (tk 1 { proposalId := 1, vote := 2 })),
    (13, .submit 7 (tk 0 { keys := [0, 8, 16, 48], leader := 0 })),
    (14, .vote 2 (tk 2 { proposalId := 1, vote := 2 })),
    (15, .endBlock),
    (20, .submit 7 (tk 1 { keys := [0, 8, 16, 56], leader := 2 })),
    (21, .vote 0 (tk 1 { proposalId := 3, vote := 1 })),
    (2000, .endBlock),
    (2001, .submit 7 (tk 1 { keys := [0, 8, 16, 24], leader := 3 })),
    (2002, .vote 1 (tk 0 { proposalId := 4, vote := 2 })) ]

def grm_ovmState : Ovm.State := Ovm.run false (Ovm.genesis [0, 8, 16, 24]) grm_ovmOps

example : Ovm.GenesisOK [0, 8, 16, 24] ∧
    grm_ovmState.vault = [8, 0, 16, 32, 40] ∧ grm_ovmState.count = 4 ∧
    grm_ovmState.active.map (fun p => (p.id, p.votes.length)) = [(4, 1)] ∧
    grm_ovmState.finished.map (fun p => (p.id, p.result)) = [(1, .approved), (2, .expired), (3, .expired)] ∧
    ovmInv grm_ovmState = true ∧ importOvm (exportOvm grm_ovmState) = grm_ovmState ∧
    validateOvm false (exportOvm grm_ovmState) = 0 := by
  decide +kernel

example : importOvm (exportOvm grm_ovmState) = grm_ovmState :=
  c16_import_export_ovm_reachable false [0, 8, 16, 24] grm_ovmOps

/-- two subaccounts are created (one by a reward grant), topped up with further locks, money is withdrawn, wagered,
    deposited into a house participation and settled -/
def grm_subOps : List Subaccount.Op :=
  [ .fund 1 5000, .fund 2 5000, .fund Subaccount.poolAcct 5000, .fund Subaccount.extAcct 5000, .params true true,
    .create 1 3 [(500, 100), (900, 200)],
    .topUp 2 3 [(700, 50)],
    .grant 2 4 80 300,
    .grant 2 4 40 600,
    .advance 600,
    .withdrawUnlocked 3,
    .wager 3 0 30 { pre := 0, betAmount := 30, wagerOk := true, charged := 30 },
    .houseDeposit 4 50 { tkOk := true, depOk := true, taken := 50 },
    .settle .win (Subaccount.addrOf 2) 60 50 10,
    .create 2 3 [(2000, 10)],
    .topUp 1 4 [(900, 5)] ]

def grm_subState : Subaccount.State := Subaccount.run (Subaccount.initCfg false false false (fun _ => 0)) grm_subOps

example : grm_subState.nextId = 3 ∧ grm_subState.ownerMap 3 = some 1001 ∧ grm_subState.ownerMap 4 = some 1002 ∧
    grm_subState.subMap 1002 = some 4 ∧
    (grm_subState.subs 1001).map (fun x => (x.sum, x.locks)) =
      some ({ deposited := 350, spent := 0, withdrawn := 130, lost := 0 }, [(700, 50), (900, 200), (500, 100)]) ∧
    (grm_subState.subs 1002).map (fun x => (x.sum, x.locks)) =
      some ({ deposited := 125, spent := 0, withdrawn := 0, lost := 0 }, [(900, 5), (600, 40), (300, 80)]) ∧
    subInvB grm_subState (List.range 12) = true := by
  decide +kernel

example : SubInv grm_subState := subInv_reachable false false false (fun _ => 0) grm_subOps

example : ∃ g, exportSub grm_subState = some g ∧ g.accounts.length = 2 ∧
    (importSub g grm_subState).subMap 1002 = some 4 ∧ (importSub g grm_subState).ownerMap 3 = some 1001 := by
  obtain ⟨g, h1, _, _, _, _, h6, h7, _, _⟩ := c16_import_export_sub_reachable false false false (fun _ => 0) grm_subOps
  refine ⟨g, h1, ?_, (h6 1002).trans (by decide +kernel), (h7 3).trans (by decide +kernel)⟩
  have : exportSub grm_subState = some g := h1
  have e : (exportSub grm_subState).map (·.accounts.length) = some 2 := by decide +kernel
  rw [this] at e
  exact Option.some.inj e

-- =============================================================================================
-- x/reward

/-- the state the histories of the x/reward model start from: no records, arbitrary balances; `fixed` / `codecFixed`
    select the patched variants of the *model* (reward_negative_components.diff, reward_register_withdraw_authorization.diff) -/
def grm_rewardInit (fixed codecFixed : Bool) (bal : Nat → Int) : Sge.Reward.State :=
  { Sge.Reward.init fixed bal with codecFixed := codecFixed }

/-- C16 reach, reward, every history (both variants of the model, any digests): the seven stores of x/reward
    (`grm_stores`: the KV stores of the model state in key order, as the harness hands them to the genesis model) satisfy
    every conjunct of `rewardInv` EXCEPT the by-category conjunct "the by-category index is filed under the promoter of
    the reward's campaign" (false in a reachable state: `rewardInv_reachable_counterexample`):
    the six stores are keyed stores and the grant counters are what the patched InitGenesis rebuilds. -/
theorem rewardInv_partial (d : grm_Digests) (fixed codecFixed : Bool) (bal : Nat → Int) (ops : List Sge.Reward.Op) :
    let st := grm_stores d (Sge.Reward.run (grm_rewardInit fixed codecFixed bal) ops)
    sortedB (fun (x : Nat × Nat) => [x.1]) st.promoters = true ∧ sortedB (fun (x : Nat × Nat) => [x.1]) st.byAddress = true ∧
    sortedB (fun (c : Campaign) => [c.uid]) st.campaigns = true ∧ sortedB (fun (r : Reward) => [r.uid]) st.rewards = true ∧
    sortedB ByCat.key st.byCategory = true ∧ sortedB (fun (x : Nat × Nat) => [x.1, x.2]) st.byCampaign = true ∧
    st.grantStats = rebuiltStats st :=
  grm_rewardInv_partial_of d _ (Sge.Reward.grm_rwI_run ops (Sge.Reward.grm_rwI_init fixed codecFixed bal))

/-- C16 reach, reward: `rewardInv` holds after every history in which no address creates a promoter while it already
    is the address of a promoter (`grm_freshRun`: every `createPromoter` of the history is sent by an address without a
    promoter-by-address record at that point). -/
theorem rewardInv_reachable (d : grm_Digests) (fixed codecFixed : Bool) (bal : Nat → Int) (ops : List Sge.Reward.Op)
    (hf : Sge.Reward.grm_freshRun (grm_rewardInit fixed codecFixed bal) ops = true) :
    rewardInv (grm_stores d (Sge.Reward.run (grm_rewardInit fixed codecFixed bal) ops)) = true :=
  grm_rewardInv_of d _ (Sge.Reward.grm_rwI_run ops (Sge.Reward.grm_rwI_init fixed codecFixed bal))
    (Sge.Reward.grm_catOK_run ops (by intro y hy; cases hy) hf)

/-- … in particular when the `createPromoter` messages of the history come from pairwise different addresses. -/
theorem rewardInv_reachable_of_distinct_creators (d : grm_Digests) (fixed codecFixed : Bool) (bal : Nat → Int)
    (ops : List Sge.Reward.Op) (hn : (Sge.Reward.grm_promoterCreators ops).Nodup) :
    rewardInv (grm_stores d (Sge.Reward.run (grm_rewardInit fixed codecFixed bal) ops)) = true :=
  rewardInv_reachable d fixed codecFixed bal ops
    (Sge.Reward.grm_freshRun_of_nodup ops _ (by intro x hx; cases hx) hn)

/-- C16 reward, patched genesis code, every state reachable without a second promoter of one address: all seven
    collections come back after export + import. -/
theorem c16_import_export_reward_reachable (d : grm_Digests) (fixed codecFixed : Bool) (bal : Nat → Int)
    (ops : List Sge.Reward.Op) (hf : Sge.Reward.grm_freshRun (grm_rewardInit fixed codecFixed bal) ops = true) :
    let st := grm_stores d (Sge.Reward.run (grm_rewardInit fixed codecFixed bal) ops)
    importReward true (exportReward true st) = some st :=
  c16_import_export_reward _ (rewardInv_reachable d fixed codecFixed bal ops hf)

theorem grm_validate_export_reward (gfixed : Bool) (st : RewardStores)
    (hc : sortedB (fun (c : Campaign) => [c.uid]) st.campaigns = true) (hr : sortedB (fun (r : Reward) => [r.uid]) st.rewards = true)
    (h3 : hasDup (st.byCategory.map (·.uid)) = false) (h4 : hasDup (st.byCampaign.map (·.2)) = false) :
    validateReward (exportReward gfixed st) = 0 := by
  rw [sortedB_iff] at hc hr
  unfold validateReward exportReward
  simp only [List.map_map]
  rw [sorted_noDup _ (·.uid) st.campaigns hc (fun _ => rfl), sorted_noDup _ (·.uid) st.rewards hr (fun _ => rfl)]
  have : (st.byCategory.map ((fun (x : Nat × Nat × Nat) => x.2.2) ∘ fun x => (x.receiver, x.category, x.uid))) = st.byCategory.map (·.uid) := rfl
  rw [this, h3, h4]
  rfl

/-- C16 reward, EVERY reachable state, both variants of the genesis code (`gfixed`) and of the model: the exported
    genesis validates (campaign and reward uids are unique, both index lists carry every reward uid once). No hypothesis
    on the history: the validation does not look at the promoter uids. -/
theorem c16_validate_export_reward_reachable (gfixed : Bool) (d : grm_Digests) (fixed codecFixed : Bool) (bal : Nat → Int)
    (ops : List Sge.Reward.Op) :
    validateReward (exportReward gfixed (grm_stores d (Sge.Reward.run (grm_rewardInit fixed codecFixed bal) ops))) = 0 := by
  have hI := Sge.Reward.grm_rwI_run ops (Sge.Reward.grm_rwI_init fixed codecFixed bal)
  obtain ⟨_, _, hc, hr, _, _, _⟩ := grm_rewardInv_partial_of d _ hI
  obtain ⟨h3, h4⟩ := grm_index_uids d _ hI
  exact grm_validate_export_reward gfixed _ hc hr h3 h4

-- ---------------------------------------------------------------------------------------------
-- what export + import does in EVERY reachable state (no hypothesis on the promoters)

/-- a by-category entry as the genesis import files it: under the promoter uid the stores give for its reward -/
def grm_refile (st : RewardStores) (x : ByCat) : ByCat :=
  { x with promoterUid := (promoterOfReward st x.uid).getD x.promoterUid }

theorem grm_foldl_importByCat (l : List ByCat) (acc : RewardStores) (pu : ByCat → Nat)
    (h : ∀ x ∈ l, ∀ bc, promoterOfReward { acc with byCategory := bc } x.uid = some (pu x)) :
    (l.map (fun x => (x.receiver, x.category, x.uid))).foldl importByCat (some acc) =
      some { acc with byCategory := setAll ByCat.key (l.map (fun x => { x with promoterUid := pu x })) acc.byCategory } := by
  induction l generalizing acc with
  | nil => simp [setAll]
  | cons x xs ih =>
    simp only [List.map_cons, List.foldl_cons]
    have hx' : promoterOfReward acc x.uid = some (pu x) := h x (List.mem_cons_self ..) acc.byCategory
    have step : importByCat (some acc) (x.receiver, x.category, x.uid) =
        some { acc with byCategory := Core.upsert ByCat.key { x with promoterUid := pu x } acc.byCategory } := by
      simp [importByCat, hx']
    rw [step, ih]
    · simp [setAll]
    · intro y hy bc
      exact h y (List.mem_cons_of_mem _ hy) bc

/-- C16 reward, patched genesis code, without the by-category conjunct of `rewardInv`: the import does not panic and
    every collection comes back, except that the by-category index is re-filed (`grm_refile`). -/
theorem grm_import_export_reward_refile (st : RewardStores)
    (hp : sortedB (fun (x : Nat × Nat) => [x.1]) st.promoters = true) (ha : sortedB (fun (x : Nat × Nat) => [x.1]) st.byAddress = true)
    (hc : sortedB (fun (c : Campaign) => [c.uid]) st.campaigns = true) (hr : sortedB (fun (r : Reward) => [r.uid]) st.rewards = true)
    (hbm : sortedB (fun (x : Nat × Nat) => [x.1, x.2]) st.byCampaign = true) (hst : st.grantStats = rebuiltStats st)
    (hsome : ∀ x ∈ st.byCategory, (promoterOfReward st x.uid).isSome = true) :
    importReward true (exportReward true st) =
      some { st with byCategory := setAll ByCat.key (st.byCategory.map (grm_refile st)) [] } := by
  rw [sortedB_iff] at hp ha hc hr hbm
  unfold importReward exportReward
  simp only [↓reduceIte]
  rw [setAll_sorted _ st.promoters hp, setAll_sorted _ st.byAddress ha, setAll_sorted _ st.campaigns hc,
    setAll_sorted _ st.byCampaign hbm]
  have hf := foldl_importRewardRec_frame true st.rewards
    { emptyReward with promoters := st.promoters, byAddress := st.byAddress, campaigns := st.campaigns }
  simp only at hf
  obtain ⟨f1, f2, f3, f4, f5, f6⟩ := hf
  have f7 := foldl_importRewardRec_stats_true st.rewards
    { emptyReward with promoters := st.promoters, byAddress := st.byAddress, campaigns := st.campaigns }
    { emptyReward with campaigns := st.campaigns } rfl rfl
  have f1 := f1.trans (setAll_sorted (fun (x : Reward) => [x.uid]) st.rewards hr)
  have hst2 : st.rewards.foldl (importRewardRec true)
      { emptyReward with promoters := st.promoters, byAddress := st.byAddress, campaigns := st.campaigns } =
      { st with byCategory := [], byCampaign := [] } := by
    generalize st.rewards.foldl (importRewardRec true)
      { emptyReward with promoters := st.promoters, byAddress := st.byAddress, campaigns := st.campaigns } = r at *
    cases r
    simp only [emptyReward] at *
    simp only [RewardStores.mk.injEq]
    refine ⟨f3, f4, f2, f1, f5, f6, ?_⟩
    rw [f7, hst]
    rfl
  rw [hst2]
  rw [grm_foldl_importByCat st.byCategory _ (fun x => (promoterOfReward st x.uid).getD x.promoterUid)]
  · rfl
  · intro x hx bc
    have e : promoterOfReward { { st with byCategory := [], byCampaign := [] } with byCategory := bc } x.uid =
        promoterOfReward st x.uid := promoterOfReward_congr _ _ rfl rfl rfl _
    rw [e]
    cases hq : promoterOfReward st x.uid with
    | none => have := hsome x hx; rw [hq] at this; cases this
    | some u => rfl

/-- C16 reward, patched genesis code, EVERY reachable state: InitGenesis of the export does not panic and restores
    promoters, promoters by address, campaigns, rewards, the by-campaign index and the grant counters exactly; the
    by-category index comes back with every entry filed under the promoter uid that the promoter-by-address store NOW
    has for the promoter address of the reward's campaign (equal to the stored one unless an address created a second
    promoter: `rewardInv_reachable_counterexample`). -/
theorem c16_import_export_reward_partial_reachable (d : grm_Digests) (fixed codecFixed : Bool) (bal : Nat → Int)
    (ops : List Sge.Reward.Op) :
    let st := grm_stores d (Sge.Reward.run (grm_rewardInit fixed codecFixed bal) ops)
    importReward true (exportReward true st) =
      some { st with byCategory := setAll ByCat.key (st.byCategory.map (grm_refile st)) [] } := by
  have hI := Sge.Reward.grm_rwI_run ops (Sge.Reward.grm_rwI_init fixed codecFixed bal)
  have hS : Sge.Reward.grm_CatSome (Sge.Reward.run (grm_rewardInit fixed codecFixed bal) ops) :=
    Sge.Reward.grm_catSome_run ops (by intro y hy; cases hy)
  obtain ⟨hp, ha, hc, hr, _, hbm, hst⟩ := grm_rewardInv_partial_of d _ hI
  exact grm_import_export_reward_refile _ hp ha hc hr hbm hst (grm_cat_some d _ hI hS)

-- ---------------------------------------------------------------------------------------------
-- the counter-example: one address creates two promoters

def grm_bal : Nat → Int := fun a => if a < 12 then 5000 else 0

/-- digests used in the concrete examples -/
def grm_dg : grm_Digests :=
  { promoter := fun p => 1000 * p.creator + p.conf.length, campaign := fun c => c.pool.avail.toNat, reward := fun r => r.creator }

def grm_grantMsg (uid campaign receiver : Nat) : Sge.Reward.GrantMsg :=
  { creator := 2, uid := uid, campaign := campaign, tv := true, receiver := receiver, kyc := some (false, true, true),
    srcOk := true, referee := 0, bet := 0 }

def grm_campaignMsg (uid promoter capCount : Nat) : Sge.Reward.CreateMsg :=
  { creator := promoter, uid := uid, funds := some 1000, tv := true, promoter := promoter, startTS := 100, endTS := 200,
    category := 1, rtype := 1, amtType := 1,
    ra := some { main := some 25, sub := some 100, unlock := 10, mainPct := none, subPct := none },
    active := true, capCount := capCount, cons := none }

/-- account 1 creates promoter 7, funds a campaign, a reward is granted (filed under promoter 7 in the by-category
    index); then account 1 creates a second promoter 8: `SetPromoterByAddress` overwrites the record of address 1 -/
def grm_rewardCexOps : List Sge.Reward.Op :=
  [ .time 100,
    .createPromoter { creator := 1, tv := true, uid := 7, uidOk := true, conf := [(1, 2)] },
    .createCampaign (grm_campaignMsg 20 1 1),
    .grant (grm_grantMsg 30 20 3),
    .createPromoter { creator := 1, tv := true, uid := 8, uidOk := true, conf := [] } ]

def grm_rewardCexStores : RewardStores :=
  grm_stores grm_dg (Sge.Reward.run (grm_rewardInit false false grm_bal) grm_rewardCexOps)

/-- FINDING (x/reward, `CreatePromoter` + genesis): `rewardInv` does NOT hold in every reachable state.  `CreatePromoter`
    only checks that the promoter *uid* is new; an address that already is a promoter address can create a second
    promoter, which overwrites its promoter-by-address record (address 1: 7 → 8).  The by-category index entries of the
    rewards granted so far stay filed under the old promoter uid 7, while the genesis import (also the patched one)
    re-derives the promoter uid from the reward's campaign's promoter address and files them under 8: the conjunct
    "by-category index is filed under the promoter of the reward's campaign" is false, and import (export σ) ≠ σ —
    after a restart the reward counts against the category cap of promoter 8 instead of promoter 7.
    All other conjuncts hold (`rewardInv_partial`) and the export validates.
    Stated for the tree as given (`promoterFixed = false`); the defect is repaired by
    repo_patches / the upstream fix "one promoter per address" (`promoterFixed = true`): `rewardInv_reachable_fixed`. -/
theorem rewardInv_reachable_counterexample :
    (grm_rewardInit false false grm_bal).promoterFixed = false ∧
    Sge.Reward.grm_freshRun (grm_rewardInit false false grm_bal) grm_rewardCexOps = false ∧
    grm_rewardCexStores.promoters.map (·.1) = [7, 8] ∧ grm_rewardCexStores.byAddress = [(1, 8)] ∧
    grm_rewardCexStores.byCategory = [{ promoterUid := 7, receiver := 3, category := 1, uid := 30 }] ∧
    promoterOfReward grm_rewardCexStores 30 = some 8 ∧
    rewardInv grm_rewardCexStores = false ∧
    importReward true (exportReward true grm_rewardCexStores) =
      some { grm_rewardCexStores with byCategory := [{ promoterUid := 8, receiver := 3, category := 1, uid := 30 }] } ∧
    importReward true (exportReward true grm_rewardCexStores) ≠ some grm_rewardCexStores ∧
    validateReward (exportReward true grm_rewardCexStores) = 0 := by
  decide +kernel

/-- what the unconditional statement says about the counter-example state: the one entry is re-filed from 7 to 8 -/
example : importReward true (exportReward true grm_rewardCexStores) =
    some { grm_rewardCexStores with byCategory := [{ promoterUid := 8, receiver := 3, category := 1, uid := 30 }] } :=
  (c16_import_export_reward_partial_reachable grm_dg false false grm_bal grm_rewardCexOps).trans (by decide +kernel)

/-- the same holds for the other three combinations of the model's patch flags (the defect is not touched by them) -/
theorem rewardInv_reachable_counterexample_patched :
    rewardInv (grm_stores grm_dg (Sge.Reward.run (grm_rewardInit true true grm_bal) grm_rewardCexOps)) = false := by
  decide +kernel

-- ---------------------------------------------------------------------------------------------
-- the repaired variant: `CreatePromoter` refuses an address that already belongs to a promoter (`promoterFixed`)

/-- `grm_rewardInit` with the third variant flag of the model selectable -/
def grm_rewardInit' (fixed codecFixed promoterFixed : Bool) (bal : Nat → Int) : Sge.Reward.State :=
  { Sge.Reward.init fixed bal with codecFixed := codecFixed, promoterFixed := promoterFixed }

/-- the tree as given is the variant `promoterFixed = false` -/
theorem grm_rewardInit_eq (fixed codecFixed : Bool) (bal : Nat → Int) :
    grm_rewardInit fixed codecFixed bal = grm_rewardInit' fixed codecFixed false bal := rfl

/-- the three variant flags are constants of every history -/
theorem grm_reward_flags_run (fixed codecFixed promoterFixed : Bool) (bal : Nat → Int) (ops : List Sge.Reward.Op) :
    let s := Sge.Reward.run (grm_rewardInit' fixed codecFixed promoterFixed bal) ops
    s.fixed = fixed ∧ s.codecFixed = codecFixed ∧ s.promoterFixed = promoterFixed :=
  Sge.Reward.grm_run_flags (grm_rewardInit' fixed codecFixed promoterFixed bal) ops

/-- C16 reach, reward, repaired `CreatePromoter`: `rewardInv` holds after EVERY history — no hypothesis on the
    promoters: a successful `createPromoter` now implies that the sender had no promoter-by-address record, so the
    record a by-category entry was filed under is never overwritten. -/
theorem rewardInv_reachable_fixed (d : grm_Digests) (fixed codecFixed : Bool) (bal : Nat → Int) (ops : List Sge.Reward.Op) :
    rewardInv (grm_stores d (Sge.Reward.run (grm_rewardInit' fixed codecFixed true bal) ops)) = true :=
  grm_rewardInv_of d _ (Sge.Reward.grm_rwI_run ops (Sge.Reward.grm_rwI_init' fixed codecFixed true bal))
    (Sge.Reward.grm_catOK_run_fixed ops (by intro y hy; cases hy) rfl)

/-- C16 reward, patched genesis code on the repaired `CreatePromoter`, EVERY reachable state: all seven collections
    come back after export + import. -/
theorem c16_import_export_reward_reachable_fixed (d : grm_Digests) (fixed codecFixed : Bool) (bal : Nat → Int)
    (ops : List Sge.Reward.Op) :
    let st := grm_stores d (Sge.Reward.run (grm_rewardInit' fixed codecFixed true bal) ops)
    importReward true (exportReward true st) = some st :=
  c16_import_export_reward _ (rewardInv_reachable_fixed d fixed codecFixed bal ops)

/-- … and the export validates (both variants of the genesis code). -/
theorem c16_validate_export_reward_reachable_fixed (gfixed : Bool) (d : grm_Digests) (fixed codecFixed : Bool)
    (bal : Nat → Int) (ops : List Sge.Reward.Op) :
    validateReward (exportReward gfixed (grm_stores d (Sge.Reward.run (grm_rewardInit' fixed codecFixed true bal) ops))) = 0 := by
  have hI := Sge.Reward.grm_rwI_run ops (Sge.Reward.grm_rwI_init' fixed codecFixed true bal)
  obtain ⟨_, _, hc, hr, _, _, _⟩ := grm_rewardInv_partial_of d _ hI
  obtain ⟨h3, h4⟩ := grm_index_uids d _ hI
  exact grm_validate_export_reward gfixed _ hc hr h3 h4

/-- the history of the counter-example on the repaired variant: the second `createPromoter` of address 1 is refused,
    the promoter-by-address record stays (1, 7) and `rewardInv` holds -/
example :
    (grm_stores grm_dg (Sge.Reward.run (grm_rewardInit' false false true grm_bal) grm_rewardCexOps)).byAddress = [(1, 7)] ∧
    rewardInv (grm_stores grm_dg (Sge.Reward.run (grm_rewardInit' false false true grm_bal) grm_rewardCexOps)) = true := by
  decide +kernel

example : rewardInv (grm_stores grm_dg (Sge.Reward.run (grm_rewardInit' false false true grm_bal) grm_rewardCexOps)) = true :=
  rewardInv_reachable_fixed grm_dg false false grm_bal grm_rewardCexOps

-- ---------------------------------------------------------------------------------------------
-- non-vacuity

/-- two promoters (addresses 1 and 4), a capped and an uncapped campaign, four grants to two accounts (one refused by
    the cap), a top-up and a withdrawal -/
def grm_rewardOps : List Sge.Reward.Op :=
  [ .time 100,
    .createPromoter { creator := 4, tv := true, uid := 9, uidOk := true, conf := [] },
    .createPromoter { creator := 1, tv := true, uid := 7, uidOk := true, conf := [(1, 3)] },
    .createCampaign (grm_campaignMsg 21 4 0),
    .createCampaign (grm_campaignMsg 20 1 2),
    .grant (grm_grantMsg 33 20 3),
    .time 105,
    .grant (grm_grantMsg 31 21 3),
    .time 120,
    .grant (grm_grantMsg 32 20 3),
    .grant (grm_grantMsg 30 20 5),
    .time 140,
    .grant (grm_grantMsg 34 20 3),
    .updateCampaign { creator := 1, uid := 20, topup := some 50, tv := true, endTS := 300, active := true },
    .withdraw { creator := 4, uid := 21, amount := some 40, tv := true, promoter := 4 } ]

def grm_rewardStores : RewardStores :=
  grm_stores grm_dg (Sge.Reward.run (grm_rewardInit false false grm_bal) grm_rewardOps)

example :
    Sge.Reward.grm_freshRun (grm_rewardInit false false grm_bal) grm_rewardOps = true ∧
    (Sge.Reward.grm_promoterCreators grm_rewardOps).Nodup ∧
    grm_rewardStores.promoters.map (·.1) = [7, 9] ∧ grm_rewardStores.byAddress = [(1, 7), (4, 9)] ∧
    grm_rewardStores.campaigns.map (fun c => (c.uid, c.promoter, c.capCount)) = [(20, 1, 2), (21, 4, 0)] ∧
    grm_rewardStores.rewards.map (fun r => (r.uid, r.campaign, r.receiver)) = [(30, 20, 5), (31, 21, 3), (32, 20, 3), (33, 20, 3)] ∧
    grm_rewardStores.byCategory.map (fun x => (x.promoterUid, x.receiver, x.uid)) = [(7, 3, 32), (7, 3, 33), (7, 5, 30), (9, 3, 31)] ∧
    grm_rewardStores.grantStats = [(20, 3, 2), (20, 5, 1)] ∧
    rewardInv grm_rewardStores = true := by
  decide +kernel

example : rewardInv grm_rewardStores = true :=
  rewardInv_reachable grm_dg false false grm_bal grm_rewardOps (by decide +kernel)

example : importReward true (exportReward true grm_rewardStores) = some grm_rewardStores :=
  c16_import_export_reward_reachable grm_dg false false grm_bal grm_rewardOps (by decide +kernel)

example : validateReward (exportReward false grm_rewardStores) = 0 ∧ validateReward (exportReward false grm_rewardCexStores) = 0 :=
  ⟨c16_validate_export_reward_reachable false grm_dg false false grm_bal grm_rewardOps,
   c16_validate_export_reward_reachable false grm_dg false false grm_bal grm_rewardCexOps⟩

end Sge.Genesis
