/-
  C04 (whole-history part)  Each house participation is paid exactly once, after the market's bets are settled, with
  the right amount and fee routing, and nothing moves on its account afterwards.

  All theorems hold for EVERY history `ops` of the core slice from an empty chain (market add / update / resolve,
  deposit, withdraw, wager, authz, bank and parameter traffic, new blocks AND the settling end-blocks; a halting
  end-block returns the unchanged state), with any number of markets, participations and bets.

    c04_realised_profit_eq      actualProfit = Σ_{SETTLED bets of the market, LOST} Σ_{parts naming p} stake
                                             − Σ_{SETTLED bets of the market, WON} Σ_{parts naming p} promised winnings
                                (refunded bets contribute nothing); `c04_realised_profit_step` is the inductive step
    c04_payout                  the step that turns an unpaid participation into a paid one is an end-block; it was
                                paid by ONE settleParticipation call, at which moment ALL bets of the market were
                                settled; the exact amount to the depositor, the fee routing, every balance change
    c04_never_backed            a participation no backing part names: all three sums are 0 (paid its liquidity, fee back)
    c04_paid_frozen             a paid participation record is never modified again, so it is never paid again
    c04_settled_book_all_paid   every participation of a SETTLED book is paid
    c04_fee_refund_without_zero_backing   FINDING: "fee back to the depositor iff cancelled/aborted or never backed a
                                bet" is FALSE of the code as it is in the direction ⇒: the code tests `totalBet = 0`;
                                a participation that backed a bet with a zero-stake part gets its fee back

  Backing parts may carry negative stakes (known finding KF-C03-negative-part); nothing here assumes `0 ≤ f.bet`.
  The invariants are `RetInv` (SgeProofs/Lemmas/ReturnsDefs.lean), `SettleInv` (C01), `ObInv` (C10), bundled as
  `RetAll` (SgeProofs/Lemmas/ReturnsEnd.lean); the per-call core is `ret_pay_exact` (SgeProofs/Lemmas/ReturnsPay.lean).
-/
import SgeProofs.Lemmas.ReturnsEnd
import SgeProofs.Properties.C01
import SgeProofs.Properties.C04
import SgeProofs.Properties.C10Sums
namespace Sge.Core
open Sge Sge.Genesis

-- ---------------------------------------------------------------------------------------------
-- the sums over the bet records

/-- stakes of the backing parts naming participation `i`, over the bets of market `u` whose result is LOST -/
def lostStakeOn (bets : List Bet) (u i : Nat) : Int :=
  ((bets.filter (fun x => x.market == u && x.result == BR_LOST)).map (fun x => x.stakeOn i)).sum
/-- winnings promised by participation `i`, over the bets of market `u` whose result is WON -/
def wonProfitOn (bets : List Bet) (u i : Nat) : Int :=
  ((bets.filter (fun x => x.market == u && x.result == BR_WON)).map (fun x => x.profitOn i)).sum
/-- stakes of the backing parts naming participation `i`, over all bets of market `u` -/
def stakedOn (bets : List Bet) (u i : Nat) : Int :=
  ((bets.filter (fun x => x.market == u)).map (fun x => x.stakeOn i)).sum

/-- the sum used by the invariant proofs, as a sum over the filtered bet records -/
theorem c04s_lostStakes_eq (bets : List Bet) (u i : Nat) : lostStakes bets u i = lostStakeOn bets u i := by
  unfold lostStakes lostStakeOn
  rw [sumBy_filter]
  have : (fun t : Bet => sumBy (fbAt i) t.fulfs) = (fun t => t.stakeOn i) := funext (fun t => fbAt_sum i t)
  rw [this]

/-- likewise for the winnings of the won bets -/
theorem c04s_wonProfits_eq (bets : List Bet) (u i : Nat) : wonProfits bets u i = wonProfitOn bets u i := by
  unfold wonProfits wonProfitOn
  rw [sumBy_filter]
  have : (fun t : Bet => sumBy (fpAt i) t.fulfs) = (fun t => t.profitOn i) := funext (fun t => fpAt_sum i t)
  rw [this]

/-- likewise for the total stake backed (C10: this is the participation's `totalBet`) -/
theorem c04s_backedStake_eq (bets : List Bet) (u i : Nat) : backedStake bets u i = stakedOn bets u i := by
  unfold backedStake stakedOn
  have : betStakeAt u i = (fun t : Bet => if (fun x : Bet => x.market == u) t then (fun x : Bet => x.stakeOn i) t else 0) := by
    funext t
    unfold betStakeAt
    rw [fbAt_sum]
  rw [this, sumBy_filter]

/-- what the settled bets have realised, as two sums over the bet records -/
theorem c04s_real_split (bets : List Bet) (u i : Nat) :
    sumBy (betRealAt u i) bets =
      ((bets.filter (fun x => x.market == u && x.status == BS_SETTLED && x.result == BR_LOST)).map (fun x => x.stakeOn i)).sum
      - ((bets.filter (fun x => x.market == u && x.status == BS_SETTLED && x.result == BR_WON)).map (fun x => x.profitOn i)).sum := by
  rw [← sumBy_filter, ← sumBy_filter, ← ret_sumBy_sub]
  apply sumBy_congr
  intro t _
  unfold betRealAt
  rw [fbAt_sum, fpAt_sum]
  by_cases hm : t.market = u <;> by_cases hs : t.status = BS_SETTLED <;> by_cases hl : t.result = BR_LOST <;>
    by_cases hw : t.result = BR_WON <;> simp [hm, hs, hl, hw, BR_LOST, BR_WON]

-- ---------------------------------------------------------------------------------------------
-- the invariants over histories

/-- the empty chain satisfies all whole-history invariants -/
theorem retAll_init (p : Params) (bal : List (Nat × Int)) (h t : Nat)
    (h0 : getBal bal ACC_POOL = 0 ∧ getBal bal ACC_BETFEE = 0 ∧ getBal bal ACC_HOUSEFEE = 0) :
    RetAll (initState p bal h t) :=
  ⟨settleInv_init p bal h t h0, obInv_init p bal h t, retInv_init p bal h t⟩

/-- C04.f  In every reachable state the invariants `SettleInv` (C01), `ObInv` (C10) and `RetInv` hold. -/
theorem c04_invariants (p : Params) (bal : List (Nat × Int)) (h t : Nat) (ops : List Op)
    (h0 : getBal bal ACC_POOL = 0 ∧ getBal bal ACC_BETFEE = 0 ∧ getBal bal ACC_HOUSEFEE = 0)
    (hwf : ∀ op ∈ ops, op.userSigned') : RetAll (run (initState p bal h t) ops) :=
  run_retAll _ ops (retAll_init p bal h t h0) hwf

/-- C04.g  The inductive step: every operation — message, authz / bank / parameter traffic, new block, end-block —
    keeps "realised profit = what the settled bets say". It moves only inside `Settle`, where BettorLoses adds the
    stakes and BettorWins subtracts the promised winnings of exactly the backing parts that name the participation,
    while the bet record becomes SETTLED with result LOST / WON; a refund changes neither side. -/
theorem c04_realised_profit_step (s : State) (op : Op) (hO : ObInv s) (hR : RetInv s) : RetInv (step s op).1 :=
  step_retInv s op hO hR

/-- C04.h  In every reachable state, for every participation of every book: the realised profit equals the stakes
    of the backing parts naming it in the SETTLED bets of the market that LOST, minus the winnings promised by the
    backing parts naming it in the SETTLED bets that WON. Bets not yet settled and refunded bets (cancelled /
    aborted market) contribute nothing. No hypothesis on the operations; backing parts may be negative. -/
theorem c04_realised_profit_eq (p : Params) (bal : List (Nat × Int)) (h t : Nat) (ops : List Op) :
    let s := run (initState p bal h t) ops
    ∀ b ∈ s.books, ∀ pt ∈ b.parts,
      pt.actualProfit =
        ((s.bets.filter (fun x => x.market == b.uid && x.status == BS_SETTLED && x.result == BR_LOST)).map
            (fun x => x.stakeOn pt.idx)).sum
        - ((s.bets.filter (fun x => x.market == b.uid && x.status == BS_SETTLED && x.result == BR_WON)).map
            (fun x => x.profitOn pt.idx)).sum := by
  intro s b hb pt hpt
  have hO : ObInv s := run_obInv _ ops (obInv_init p bal h t)
  have hR : RetInv s := run_retInv _ ops (obInv_init p bal h t) (retInv_init p bal h t)
  rw [hR.prof b hb pt.idx pt (Book.mem_getPart (hO.qinv b hb).s.sP hpt), c04s_real_split]

-- ---------------------------------------------------------------------------------------------
-- the payout

/-- C04.i  THE PAYOUT. Take any reachable state `s` and any operation `op`. If the participation `pt` of book `b` is
    unpaid in `s` and paid (record `pt'`) in the state after `op`, then `op` is an end-block and the participation was
    paid by one `settleParticipation` call `settlePart τ bk q m = some (τ', bk')` on the record `q` = `pt` with the
    realised profit as updated by the bets settled earlier in this very end-block, where:
    * `m` is the market of the book, resolved (declared, cancelled or aborted);
    * ALL bets of the market are settled at that moment (the bet records of `τ` are those of the new state);
    * `pay`: the pool pays the depositor exactly `liquidity + Σ stakes of the LOST bets' parts naming it − Σ winnings of
      the WON bets' parts naming it` on a declared result, exactly the liquidity on a cancelled / aborted market;
    * `toDep`: the house-fee collector pays the fee to the depositor iff the market was cancelled / aborted or the
      parts naming the participation carry no stake in total, and otherwise to the market creator;
    * no other balance changes in that call (the equation holds for every account `a`);
    * the paid record `pt'` is `q` with `returned` = what the depositor received, the reimbursed fee, and the flag. -/
theorem c04_payout (p : Params) (bal : List (Nat × Int)) (h t : Nat) (ops : List Op) (op : Op)
    (h0 : getBal bal ACC_POOL = 0 ∧ getBal bal ACC_BETFEE = 0 ∧ getBal bal ACC_HOUSEFEE = 0)
    (hwf : ∀ o ∈ ops, o.userSigned') (hop : op.userSigned') :
    let s := run (initState p bal h t) ops
    let s' := (step s op).1
    ∀ b ∈ s.books, ∀ pt ∈ b.parts, pt.isSettled = false →
    ∀ b' ∈ s'.books, b'.uid = b.uid → ∀ pt' ∈ b'.parts, pt'.idx = pt.idx → pt'.isSettled = true →
      op = .endBlock ∧
      ∃ (m : Market) (τ τ' : State) (bk bk' : Book) (q : Part),
        getMarket s b.uid = some m ∧ isResolvedStatus m.status = true ∧
        (∀ x ∈ s'.bets, x.market = b.uid → x.status = BS_SETTLED) ∧
        q = { pt with actualProfit := lostStakeOn s'.bets b.uid pt.idx - wonProfitOn s'.bets b.uid pt.idx } ∧
        τ.bets = s'.bets ∧ settlePart τ bk q m = some (τ', bk') ∧
        ∀ pay : Int, pay = (if m.status = MS_DECLARED
            then pt.liq + lostStakeOn s'.bets b.uid pt.idx - wonProfitOn s'.bets b.uid pt.idx else pt.liq) →
        ∀ toDep : Bool, toDep = decide (m.status ≠ MS_DECLARED ∨ stakedOn s'.bets b.uid pt.idx = 0) →
          (∀ a, getBal τ'.bal a = getBal τ.bal a
                + (if a = pt.addr then pay else 0) + (if a = (if toDep then pt.addr else m.creator) then pt.fee else 0)
                - (if a = ACC_POOL then pay else 0) - (if a = ACC_HOUSEFEE then pt.fee else 0)) ∧
          pt' = { q with returned := pay + (if toDep then pt.fee else 0),
                         reimbursedFee := (if toDep then pt.fee else pt.reimbursedFee), isSettled := true } := by
  intro s s' b hb pt hpt hun b' hb' hu pt' hpt' hi hs'
  have hA : RetAll s := c04_invariants p bal h t ops h0 hwf
  obtain ⟨hend, q, hq, hpaid⟩ := step_paid s op hA hop b hb pt hpt hun b' hb' hu pt' hpt' hi hs'
  refine ⟨hend, ?_⟩
  obtain ⟨τ, bk, m, r, e1, e2, e3, e4, e5, c1, c2, c3, c4, c5, c6, c7, _⟩ := ret_paidAt_exact hpaid
  have hqi : q.idx = pt.idx := by rw [hq]
  have hql : q.liq = pt.liq := by rw [hq]
  have hqf : q.fee = pt.fee := by rw [hq]
  have hqa : q.addr = pt.addr := by rw [hq]
  have hqr : q.reimbursedFee = pt.reimbursedFee := by rw [hq]
  rw [hqi, c04s_lostStakes_eq, c04s_wonProfits_eq] at c3
  have hm : getMarket s b.uid = some m := by
    have := getMarket_congr e2 b.uid
    rw [← this]; exact e3
  have hq' : q = { pt with actualProfit := lostStakeOn s'.bets b.uid pt.idx - wonProfitOn s'.bets b.uid pt.idx } := by
    rw [hq, c3]
  refine ⟨m, τ, r.1, bk, r.2, q, hm, c2, c1, hq', e1, e4, ?_⟩
  intro pay hpay toDep htoDep
  have hpayq : payAmount s'.bets b.uid m q = pay := by
    unfold payAmount
    rw [hpay, hqi, hql, c04s_lostStakes_eq, c04s_wonProfits_eq]
  have hfee : q.feeToDepositor m = toDep := by
    rw [htoDep]
    have := c5
    rw [hqi, c04s_backedStake_eq] at this
    by_cases hc : q.feeToDepositor m = true
    · rw [hc]; exact (decide_eq_true (this.mp hc)).symm
    · have hc' : q.feeToDepositor m = false := by simpa using hc
      rw [hc']
      exact (decide_eq_false (fun x => hc (this.mpr x))).symm
  have hdestq : feeDest q m = (if toDep then pt.addr else m.creator) := by
    unfold feeDest
    rw [hfee, hqa]
  constructor
  · intro a
    have := c6 a
    rw [hpayq, hdestq, hqa, hqf] at this
    exact this
  · rw [e5]
    unfold Part.paidRec
    rw [c4, hpayq, hqf, hqr, hfee]
    cases toDep
    · simp
    · simp

/-- a bet none of whose backing parts names `i` carries no stake and no promised winnings for `i` -/
theorem c04s_stakeOn_zero (x : Bet) (i : Nat) (h : ∀ f ∈ x.fulfs, f.idx ≠ i) : x.stakeOn i = 0 ∧ x.profitOn i = 0 := by
  have : x.fulfs.filter (fun f => f.idx == i) = [] := by
    rw [List.filter_eq_nil_iff]
    intro f hf
    simpa using h f hf
  unfold Bet.stakeOn Bet.profitOn
  rw [this]
  exact ⟨rfl, rfl⟩

/-- a sum of zeros -/
theorem c04s_sum_map_zero {α : Type} (l : List α) (g : α → Int) (h : ∀ x ∈ l, g x = 0) : (l.map g).sum = 0 := by
  induction l with
  | nil => rfl
  | cons x xs ih =>
    rw [List.map_cons, List.sum_cons, h x (List.mem_cons_self ..), ih (fun y hy => h y (List.mem_cons_of_mem _ hy))]
    rfl

/-- C04.i'  The true direction of the fee rule: a participation that never backed a bet — no backing part of any bet
    of the market names it — has no stake, no lost stakes and no winnings to pay in the sums of `c04_payout`: it is
    paid exactly its liquidity, and the fee goes back to the depositor (`toDep = true`). -/
theorem c04_never_backed (bets : List Bet) (u i : Nat) (h : ∀ x ∈ bets, x.market = u → ∀ f ∈ x.fulfs, f.idx ≠ i) :
    stakedOn bets u i = 0 ∧ lostStakeOn bets u i = 0 ∧ wonProfitOn bets u i = 0 := by
  unfold stakedOn lostStakeOn wonProfitOn
  refine ⟨c04s_sum_map_zero _ _ ?_, c04s_sum_map_zero _ _ ?_, c04s_sum_map_zero _ _ ?_⟩
  · intro x hx
    rw [List.mem_filter] at hx
    exact (c04s_stakeOn_zero x i (h x hx.1 (by simpa using hx.2))).1
  · intro x hx
    rw [List.mem_filter] at hx
    have hm : x.market = u := by
      have := hx.2
      simp only [Bool.and_eq_true, beq_iff_eq] at this
      exact this.1
    exact (c04s_stakeOn_zero x i (h x hx.1 hm)).1
  · intro x hx
    rw [List.mem_filter] at hx
    have hm : x.market = u := by
      have := hx.2
      simp only [Bool.and_eq_true, beq_iff_eq] at this
      exact this.1
    exact (c04s_stakeOn_zero x i (h x hx.1 hm)).2

-- ---------------------------------------------------------------------------------------------
-- exactly once, nothing later

/-- C04.j  A paid participation record is never modified again: whatever happens after it was paid (any continuation
    `later` of the history, including any number of end-blocks), the very same record is stored in the book of that
    market, and it is the only record of that book with its index. In particular it stays paid, so the hypothesis of
    `c04_payout` (unpaid before, paid after) can never hold for it again — no later operation pays its depositor on
    its account — and `settleOne` skips it (`c04_settled_not_paid_again`). -/
theorem c04_paid_frozen (p : Params) (bal : List (Nat × Int)) (h t : Nat) (ops later : List Op)
    (h0 : getBal bal ACC_POOL = 0 ∧ getBal bal ACC_BETFEE = 0 ∧ getBal bal ACC_HOUSEFEE = 0)
    (hwf : ∀ o ∈ ops ++ later, o.userSigned') :
    let s := run (initState p bal h t) ops
    let s' := run (initState p bal h t) (ops ++ later)
    ∀ b ∈ s.books, ∀ pt ∈ b.parts, pt.isSettled = true →
      ∃ b' ∈ s'.books, b'.uid = b.uid ∧ pt ∈ b'.parts ∧
        (∀ b'' ∈ s'.books, b''.uid = b.uid → b'' = b') ∧ (∀ q ∈ b'.parts, q.idx = pt.idx → q = pt) := by
  intro s s' b hb pt hpt hs
  have hA : RetAll s := c04_invariants p bal h t ops h0 (fun o ho => hwf o (List.mem_append_left _ ho))
  have e : s' = run s later := run_split _ ops later
  have hA' : RetAll s' := c04_invariants p bal h t (ops ++ later) h0 hwf
  obtain ⟨b', hb', hu, hp'⟩ := run_keepsPaid s later hA (fun o ho => hwf o (List.mem_append_right _ ho)) b hb pt hpt hs
  rw [← e] at hb'
  refine ⟨b', hb', hu, hp', ?_, ?_⟩
  · intro b'' hb'' hu''
    exact ret_book_unique hA'.ob.sB hb' hb'' (hu''.trans hu.symm)
  · intro q hq hqi
    have h1 := Book.mem_getPart (hA'.sortedParts b' hb') hq
    have h2 := Book.mem_getPart (hA'.sortedParts b' hb') hp'
    rw [hqi, h2] at h1
    cases h1; rfl

/-- C04.k  In every reachable state every participation of a book whose status is SETTLED is paid. -/
theorem c04_settled_book_all_paid (p : Params) (bal : List (Nat × Int)) (h t : Nat) (ops : List Op)
    (h0 : getBal bal ACC_POOL = 0 ∧ getBal bal ACC_BETFEE = 0 ∧ getBal bal ACC_HOUSEFEE = 0)
    (hwf : ∀ o ∈ ops, o.userSigned') :
    let s := run (initState p bal h t) ops
    ∀ b ∈ s.books, b.status = OB_SETTLED → ∀ pt ∈ b.parts, pt.isSettled = true :=
  run_paidInv _ ops (retAll_init p bal h t h0) (fun b hb => by cases hb) hwf

/-- C04.l  `settleParticipation` fails on a paid record — in any state, for any book and market: together with
    C04.j (a paid record stays the paid record) no second payment of a participation is possible. -/
theorem c04_pay_needs_unpaid {s : State} {b : Book} {pt : Part} {m : Market} (hp : pt.isSettled = true) :
    settlePart s b pt m = none := by
  unfold settlePart
  simp [hp, chk]

-- ---------------------------------------------------------------------------------------------
-- non-vacuity: two participations on a declared market with one winning and one losing bet, one participation on a
-- cancelled market with a refunded bet; everything settles in the first end-block, the second moves nothing

def c04Tk : Tk := { ok := true, kycIgnore := true, kycApproved := false, kycId := 0 }
def c04Params : Params := { betMin := 2, betFee := 1, houseMin := 2, obThreshold := 0, obMaxPart := 6 }
def c04Pl (mk o : Nat) (ov : Int) (o1 o2 : Nat) : WagerPayload :=
  { market := mk, odds := o, oddsVal := some ⟨PREC * ov⟩, mult := ⟨PREC⟩, allOdds := [(o1, ⟨PREC⟩), (o2, ⟨PREC⟩)] }
/-- market 7 (outcomes 11, 12; created by account 9) gets deposits 100 from account 1 and 300 from account 2, market 8
    a deposit of 200 from account 4; account 3 bets 61 on 11 at odds 3 and 101 on 12 at odds 2 (both backed by both
    participations of market 7) and 41 on market 8; market 7 is declared for 11, market 8 cancelled -/
def c04Ops : List Op := [
  .marketAdd 9 c04Tk 7 1 1000 [11, 12] MS_ACTIVE,
  .marketAdd 9 c04Tk 8 1 1000 [21, 22] MS_ACTIVE,
  .deposit 1 c04Tk 7 100 0,
  .deposit 2 c04Tk 7 300 0,
  .deposit 4 c04Tk 8 200 0,
  .wager 3 c04Tk 501 61 (c04Pl 7 11 3 11 12),
  .wager 3 c04Tk 502 101 (c04Pl 7 12 2 11 12),
  .wager 3 c04Tk 503 41 (c04Pl 8 21 2 21 22),
  .marketResolve c04Tk 7 5 MS_DECLARED [11],
  .marketResolve c04Tk 8 5 MS_CANCELED [],
  .endBlock, .newBlock 2 10, .endBlock ]
def c04Init : State := initState c04Params [(1, 100000), (2, 100000), (3, 100000), (4, 100000), (9, 0)] 1 0
/-- the state after the first `n` operations -/
def c04S (n : Nat) : State := run c04Init (c04Ops.take n)
/-- the participation records as (index, depositor, liquidity, fee, realised profit, paid, returned, reimbursed fee) -/
def c04Parts (s : State) : List (Nat × Nat × List (Nat × Nat × Int × Int × Int × Bool × Int × Int)) :=
  s.books.map fun b => (b.uid, b.status,
    b.parts.map fun q => (q.idx, q.addr, q.liq, q.fee, q.actualProfit, q.isSettled, q.returned, q.reimbursedFee))

/-- the hypotheses of the theorems are satisfiable on this history -/
example : (∀ o ∈ c04Ops, o.userSigned') ∧
    getBal c04Init.bal ACC_POOL = 0 ∧ getBal c04Init.bal ACC_BETFEE = 0 ∧ getBal c04Init.bal ACC_HOUSEFEE = 0 := by
  refine ⟨?_, by decide, by decide, by decide⟩
  intro o ho
  simp only [c04Ops, List.mem_cons, List.not_mem_nil, or_false] at ho
  rcases ho with rfl | rfl | rfl | rfl | rfl | rfl | rfl | rfl | rfl | rfl | rfl | rfl | rfl <;>
    first | trivial | (show isModuleAcc _ = false; decide)

/-- before the end-block: all three participations unpaid, the three bets open -/
example :
    (c04Parts (c04S 10) ==
      [(7, OB_ACTIVE, [(1, 1, 90, 10, 0, false, 0, 0), (2, 2, 270, 30, 0, false, 0, 0)]),
       (8, OB_ACTIVE, [(1, 4, 180, 20, 0, false, 0, 0)])] &&
    (c04S 10).bets.map (fun x => (x.uid, x.status, x.result, x.fulfs.map fun f => (f.idx, f.bet, f.profit))) ==
      [(501, BS_PLACED, BR_PENDING, [(1, 45, 90), (2, 15, 30)]), (502, BS_PLACED, BR_PENDING, [(1, 90, 90), (2, 10, 10)]),
       (503, BS_PLACED, BR_PENDING, [(1, 40, 40)])] &&
    (c04S 10).bal == [(1, 99900), (2, 99700), (3, 99797), (4, 99800), (9, 0), (ACC_POOL, 740), (ACC_HOUSEFEE, 60), (ACC_BETFEE, 3)]) = true := by
  decide +kernel

/-- the end-block: bet 501 WON, bet 502 LOST, bet 503 REFUNDED; participation 1 of market 7 is paid
    90 + 90 (stake of the lost bet's part) − 90 (winnings of the won bet's part) = 90, participation 2 is paid
    270 + 10 − 30 = 250, their fees 10 + 30 go to the market creator (account 9, with the two bet fees: 42);
    the participation of the cancelled market gets its liquidity 180 and its fee 20 back; all books are SETTLED,
    the custody accounts are empty -/
example :
    ((c04S 11).bets.map (fun x => (x.uid, x.status, x.result)) ==
      [(501, BS_SETTLED, BR_WON), (502, BS_SETTLED, BR_LOST), (503, BS_SETTLED, BR_REFUNDED)] &&
    (lostStakeOn (c04S 11).bets 7 1, wonProfitOn (c04S 11).bets 7 1, stakedOn (c04S 11).bets 7 1) == (90, 90, 135) &&
    (lostStakeOn (c04S 11).bets 7 2, wonProfitOn (c04S 11).bets 7 2, stakedOn (c04S 11).bets 7 2) == (10, 30, 25) &&
    c04Parts (c04S 11) ==
      [(7, OB_SETTLED, [(1, 1, 90, 10, 0, true, 90, 0), (2, 2, 270, 30, -20, true, 250, 0)]),
       (8, OB_SETTLED, [(1, 4, 180, 20, 0, true, 200, 20)])] &&
    (c04S 11).bal == [(1, 99990), (2, 99950), (3, 100018), (4, 100000), (9, 42), (ACC_POOL, 0), (ACC_HOUSEFEE, 0), (ACC_BETFEE, 0)]) = true := by
  decide +kernel

/-- the next block's end-block moves nothing: same participation records, same balances -/
example : (c04Parts (c04S 13) == c04Parts (c04S 11) && (c04S 13).bal == (c04S 11).bal && (c04S 13).bets.length == 3) = true := by
  decide +kernel

-- ---------------------------------------------------------------------------------------------
-- FINDING: the fee goes back to a depositor whose participation DID back a bet

/-- participation 1 (liquidity 12 after the fee of 1) and participation 2 (liquidity 900) back a bet of 2 at odds 30
    (payout profit 58): `CalculateBetAmountInt` rounds 12 / 29 to a stake of 0 for the part of participation 1,
    which nevertheless promises winnings of 12 -/
def c04FeeOps (winner : Nat) : List Op := [
  .marketAdd 9 c04Tk 7 1 1000 [11, 12] MS_ACTIVE,
  .deposit 1 c04Tk 7 13 0,
  .deposit 2 c04Tk 7 1000 0,
  .wager 3 c04Tk 501 3 (c04Pl 7 11 30 11 12),
  .marketResolve c04Tk 7 5 MS_DECLARED [winner],
  .endBlock ]

/-- FINDING (KF-C04-fee-zero-stake), proved on the model of the code as it is. The full statement
      "the participation fee goes to the depositor iff the market was cancelled / aborted or the participation never
       backed a bet, otherwise to the market creator"
    is false in the direction ⇒: the code tests `TotalBetAmount == 0`, i.e. (C10) "the parts naming the participation
    carry no stake in total" — which is what `c04_payout` states. Here participation 1 is named by a backing part of
    bet 501 (stake 0, promised winnings 12); the bet wins, the participation loses its whole liquidity to the bettor
    (realised profit −12, payout 0) — and still gets its fee of 1 back (`returned = 1`, `reimbursedFee = 1`), while
    participation 2, which backed the same bet, pays its fee of 100 to the market creator. -/
theorem c04_fee_refund_without_zero_backing :
    let s := run (initState c04Params [(1, 100000), (2, 100000), (3, 100000), (9, 0)] 1 0) (c04FeeOps 11)
    (s.bets.map (fun x => (x.uid, x.status, x.result, x.fulfs.map fun f => (f.idx, f.bet, f.profit))) ==
      [(501, BS_SETTLED, BR_WON, [(1, 0, 12), (2, 2, 46)])] &&
    c04Parts s == [(7, OB_SETTLED, [(1, 1, 12, 1, -12, true, 1, 1), (2, 2, 900, 100, -46, true, 854, 0)])] &&
    s.bal == [(1, 99988), (2, 99854), (3, 100057), (9, 101), (ACC_POOL, 0), (ACC_HOUSEFEE, 0), (ACC_BETFEE, 0)]) = true := by
  decide +kernel

end Sge.Core
