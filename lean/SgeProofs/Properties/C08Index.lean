/-
  C08 (whole-history part)  The bet count equals the number of bets, the ids are the sequence 1..count, and a bet is
  listed exactly once as pending until it is settled and exactly once as settled, at its settlement height, afterwards.
  C03 (whole-history part)  Each bet settles exactly once: a settled bet record never changes again, and a bet becomes
  settled only in an end-block, stamped with the height of that block.

  All theorems hold for EVERY list of operations (messages, authz / bank / parameter traffic, new blocks and
  end-blocks) from the empty chain; they are corollaries of the inductive invariant `BetIdx`
  (SgeProofs/Lemmas/BetIndex.lean: `betIdx_init`, `step_betIdx`, `run_betIdx`, `step_good`).
-/
import SgeProofs.Lemmas.BetIndex
import SgeProofs.Properties.C08
import SgeProofs.Properties.C03
namespace Sge.Core
open Sge Sge.Genesis

-- ---------------------------------------------------------------------------------------------
-- consequences of the invariant in one state

theorem BetIdx.ids_pairwise {s : State} (hI : BetIdx s) : s.bets.Pairwise (fun a b => a.id ≠ b.id) := by
  refine List.Pairwise.imp_of_mem ?_ hI.sBets
  intro a b ha hb hlt e
  rw [hI.idInj a ha b hb e, ltL_irrefl] at hlt
  cases hlt

theorem BetIdx.uids_pairwise {s : State} (hI : BetIdx s) : s.bets.Pairwise (fun a b => a.uid ≠ b.uid) := by
  refine List.Pairwise.imp_of_mem ?_ hI.sBets
  intro a b ha hb hlt e
  rw [hI.uidInj a ha b hb e, ltL_irrefl] at hlt
  cases hlt

/-- the ids of the stored bets are a rearrangement of 1, 2, …, betCount -/
theorem BetIdx.ids_perm {s : State} (hI : BetIdx s) : (s.bets.map (·.id)).Perm (List.range' 1 s.betCount) := by
  rw [List.perm_ext_iff_of_nodup]
  · intro k
    rw [List.mem_map, List.mem_range'_1]
    constructor
    · rintro ⟨b, hb, rfl⟩
      have := hI.idLo b hb
      omega
    · intro h
      exact hI.idSurj k h.1 (by omega)
  · unfold List.Nodup
    rw [List.pairwise_map]
    exact hI.ids_pairwise
  · exact List.nodup_range'

/-- pending xor settled, exactly once: the entries of the two indexes that carry the id of a stored bet -/
theorem BetIdx.listed_once {s : State} (hI : BetIdx s) (b : Bet) (hb : b ∈ s.bets) :
    (b.status ≠ BS_SETTLED →
      s.pending.filter (fun x => x.2.1 == b.id) = [(b.market, b.id, b.uid, b.creator)] ∧
      s.settled.filter (fun x => x.2.1 == b.id) = []) ∧
    (b.status = BS_SETTLED →
      s.settled.filter (fun x => x.2.1 == b.id) = [(b.settleHeight, b.id, b.uid, b.creator)] ∧
      s.pending.filter (fun x => x.2.1 == b.id) = []) := by
  constructor
  · intro hns
    constructor
    · apply filter_unique ikey _ _ _ hI.sPend (hI.pendOf b hb hns)
      · simp
      · intro y hy hp
        obtain ⟨b', hb', _, rfl⟩ := hI.ofPend y hy
        have e : b'.id = b.id := by simpa using hp
        rw [hI.idInj b' hb' b hb e]
    · rw [List.filter_eq_nil_iff]
      intro y hy hp
      obtain ⟨b', hb', hst, rfl⟩ := hI.ofSett y hy
      have e : b'.id = b.id := by simpa using hp
      rw [hI.idInj b' hb' b hb e] at hst
      exact hns hst
  · intro hst
    constructor
    · apply filter_unique ikey _ _ _ hI.sSett (hI.settOf b hb hst)
      · simp
      · intro y hy hp
        obtain ⟨b', hb', _, rfl⟩ := hI.ofSett y hy
        have e : b'.id = b.id := by simpa using hp
        rw [hI.idInj b' hb' b hb e]
    · rw [List.filter_eq_nil_iff]
      intro y hy hp
      obtain ⟨b', hb', hns, rfl⟩ := hI.ofPend y hy
      have e : b'.id = b.id := by simpa using hp
      rw [hI.idInj b' hb' b hb e] at hns
      exact hns hst

-- ---------------------------------------------------------------------------------------------
-- C08 over histories

/-- C08.d  In every reachable state the bet counter equals the number of stored bets. -/
theorem c08_bet_count_eq (p : Params) (bal : List (Nat × Int)) (h t : Nat) (ops : List Op) :
    let s := run { bal := bal, params := p, height := h, time := t } ops
    s.bets.length = s.betCount :=
  (run_betIdx _ ops (betIdx_init p bal h t)).count

/-- C08.e  In every reachable state the bet ids are exactly the sequence numbers 1..betCount: every id lies in the
    range, every number of the range is the id of a stored bet, no two stored bets share an id or a uid, and the
    list of ids is a rearrangement of [1, …, betCount]. -/
theorem c08_ids_are_sequence (p : Params) (bal : List (Nat × Int)) (h t : Nat) (ops : List Op) :
    let s := run { bal := bal, params := p, height := h, time := t } ops
    (∀ b ∈ s.bets, 1 ≤ b.id ∧ b.id ≤ s.betCount) ∧
    (∀ k, 1 ≤ k → k ≤ s.betCount → ∃ b ∈ s.bets, b.id = k) ∧
    s.bets.Pairwise (fun a b => a.id ≠ b.id) ∧
    s.bets.Pairwise (fun a b => a.uid ≠ b.uid) ∧
    (s.bets.map (·.id)).Perm (List.range' 1 s.betCount) := by
  intro s
  have hI : BetIdx s := run_betIdx _ ops (betIdx_init p bal h t)
  exact ⟨hI.idLo, hI.idSurj, hI.ids_pairwise, hI.uids_pairwise, hI.ids_perm⟩

/-- C08.f  After any history, a wager that is accepted stores exactly one new bet, whose id is the number of bets
    accepted so far plus one; every other bet record is untouched. -/
theorem c08_next_sequence_number (p : Params) (bal : List (Nat × Int)) (h t : Nat) (ops : List Op)
    (c : Nat) (tk : Tk) (u : Nat) (a : Int) (pl : WagerPayload) (s' : State) :
    let s := run { bal := bal, params := p, height := h, time := t } ops
    wagerO s c tk u a pl = some s' →
    s'.betCount = s.bets.length + 1 ∧
    ∃ nb ∈ s'.bets, nb.id = s.bets.length + 1 ∧ nb.uid = u ∧ nb.creator = c ∧ nb.status = BS_PLACED ∧
      (nb.market, nb.id, nb.uid, nb.creator) ∈ s'.pending ∧ ∀ z, z ∈ s'.bets ↔ z = nb ∨ z ∈ s.bets := by
  intro s hw
  have hI : BetIdx s := run_betIdx _ ops (betIdx_init p bal h t)
  obtain ⟨hI', nb, hst, hid, hu, hc, _, hmem⟩ := wagerO_good hI hw
  have hin : nb ∈ s'.bets := (hmem nb).mpr (Or.inl rfl)
  refine ⟨?_, nb, hin, by rw [hid, hI.count], hu, hc, hst, ?_, hmem⟩
  · rw [(c08_accepted_bet_indexed hw).1, hI.count]
  · exact hI'.pendOf nb hin (by rw [hst]; decide)

/-- C08.g  In every reachable state every bet is listed in exactly one of the two indexes, exactly once: a bet that
    is not settled has exactly one pending entry, (market, id, uid, creator), and no settled entry; a settled bet
    has exactly one settled entry, at its settlement height, and no pending entry. Conversely every entry of either
    index belongs to a stored bet of that status, the indexes are sorted by their keys (no duplicates), and together
    they have as many entries as there are bets. -/
theorem c08_listed_exactly_once (p : Params) (bal : List (Nat × Int)) (h t : Nat) (ops : List Op) :
    let s := run { bal := bal, params := p, height := h, time := t } ops
    (∀ b ∈ s.bets,
      (b.status ≠ BS_SETTLED →
        s.pending.filter (fun x => x.2.1 == b.id) = [(b.market, b.id, b.uid, b.creator)] ∧
        s.settled.filter (fun x => x.2.1 == b.id) = []) ∧
      (b.status = BS_SETTLED →
        s.settled.filter (fun x => x.2.1 == b.id) = [(b.settleHeight, b.id, b.uid, b.creator)] ∧
        s.pending.filter (fun x => x.2.1 == b.id) = [])) ∧
    (∀ x ∈ s.pending, ∃ b ∈ s.bets, b.status ≠ BS_SETTLED ∧ x = (b.market, b.id, b.uid, b.creator)) ∧
    (∀ x ∈ s.settled, ∃ b ∈ s.bets, b.status = BS_SETTLED ∧ x = (b.settleHeight, b.id, b.uid, b.creator)) ∧
    Sorted Bet.key s.bets ∧ Sorted ikey s.pending ∧ Sorted ikey s.settled ∧
    s.pending.length + s.settled.length = s.bets.length := by
  intro s
  have hI : BetIdx s := run_betIdx _ ops (betIdx_init p bal h t)
  exact ⟨fun b hb => hI.listed_once b hb, hI.ofPend, hI.ofSett, hI.sBets, hI.sPend, hI.sSett, hI.lens⟩

-- ---------------------------------------------------------------------------------------------
-- C03 over histories: settled once, never again

/-- C03.g  One operation never changes a settled bet record; a bet record that is settled after the operation was
    either there before, or the operation is an end-block and the record is a not yet settled record of the old
    state with status := settled, a result, and settleHeight := the height of that block. -/
theorem c03_step_settles_once (s : State) (op : Op) (hI : BetIdx s) :
    (∀ b ∈ s.bets, b.status = BS_SETTLED → b ∈ (step s op).1.bets) ∧
    (∀ b' ∈ (step s op).1.bets, b'.status = BS_SETTLED → b' ∈ s.bets ∨ (op = .endBlock ∧ ∃ b0 ∈ s.bets,
      b0.status ≠ BS_SETTLED ∧ ∃ res, b' = { b0 with status := BS_SETTLED, result := res, settleHeight := s.height })) :=
  (step_good s op hI).2

/-- C03.h  A settled bet record never changes again: whatever happens after it was settled (any continuation
    `later` of the history, including any number of end-blocks), the very same record is stored, it is the only bet
    with its id, it is listed exactly once as settled at its settlement height and not at all as pending. -/
theorem c03_settled_bets_frozen (p : Params) (bal : List (Nat × Int)) (h t : Nat) (ops later : List Op) (b : Bet) :
    let s := run { bal := bal, params := p, height := h, time := t } ops
    let s' := run { bal := bal, params := p, height := h, time := t } (ops ++ later)
    b ∈ s.bets → b.status = BS_SETTLED →
    b ∈ s'.bets ∧ (∀ b' ∈ s'.bets, b'.id = b.id → b' = b) ∧
    s'.settled.filter (fun x => x.2.1 == b.id) = [(b.settleHeight, b.id, b.uid, b.creator)] ∧
    s'.pending.filter (fun x => x.2.1 == b.id) = [] := by
  intro s s' hb hst
  have hI : BetIdx s := run_betIdx _ ops (betIdx_init p bal h t)
  have e : s' = run s later := run_split _ ops later
  have hI' : BetIdx s' := by rw [e]; exact run_betIdx _ later hI
  have hb' : b ∈ s'.bets := by rw [e]; exact run_keeps s later hI b hb hst
  have hl := (hI'.listed_once b hb').2 hst
  exact ⟨hb', fun b' h' e' => hI'.idInj b' h' b hb' e', hl.1, hl.2⟩

/-- a settled record of a later state is a record of the start state or was written by one end-block of the history -/
theorem settled_origin (s : State) (hI : BetIdx s) (ops : List Op) (b : Bet) (hb : b ∈ (run s ops).bets)
    (hst : b.status = BS_SETTLED) :
    b ∈ s.bets ∨ ∃ (pre post : List Op) (b0 : Bet) (res : Nat), ops = pre ++ Op.endBlock :: post ∧
      b0 ∈ (run s pre).bets ∧ b0.status ≠ BS_SETTLED ∧
      b = { b0 with status := BS_SETTLED, result := res, settleHeight := (run s pre).height } ∧
      b ∈ (run s (pre ++ [Op.endBlock])).bets := by
  induction ops generalizing s with
  | nil => exact Or.inl hb
  | cons op rest ih =>
    have g := step_good s op hI
    rcases ih _ g.1 hb with h1 | ⟨pre, post, b0, res, e, h0, hns, eb, hin⟩
    · rcases g.2.2 b h1 hst with h2 | ⟨rfl, b0, h0, hns, res, eb⟩
      · exact Or.inl h2
      · exact Or.inr ⟨[], rest, b0, res, rfl, h0, hns, eb, h1⟩
    · exact Or.inr ⟨op :: pre, post, b0, res, by rw [e]; rfl, h0, hns, eb, hin⟩

/-- C03.i  Every settled bet was settled by exactly one end-block of the history: the history splits into
    `pre ++ endBlock :: post` such that before that end-block the bet was stored unsettled, the end-block wrote the
    settled record — the old record with status := settled, a result, and settleHeight := the height of that block —
    and (by C03.h) no operation of `post` touched it. -/
theorem c03_settled_in_one_endblock (p : Params) (bal : List (Nat × Int)) (h t : Nat) (ops : List Op) (b : Bet) :
    let s0 : State := { bal := bal, params := p, height := h, time := t }
    b ∈ (run s0 ops).bets → b.status = BS_SETTLED →
    ∃ (pre post : List Op) (b0 : Bet) (res : Nat), ops = pre ++ Op.endBlock :: post ∧
      b0 ∈ (run s0 pre).bets ∧ b0.status ≠ BS_SETTLED ∧
      b = { b0 with status := BS_SETTLED, result := res, settleHeight := (run s0 pre).height } ∧
      b ∈ (run s0 (pre ++ [Op.endBlock])).bets := by
  intro s0 hb hst
  rcases settled_origin s0 (betIdx_init p bal h t) ops b hb hst with h0 | h1
  · cases h0
  · exact h1

/-- C03.j  `Settle(creator, uid)` first finds a bet by uid and then reads the bet stored under (creator, id of that
    bet). In a state satisfying the invariant — so in every reachable state — the two look-ups land on the same bet:
    called with the uid and creator of a pending-index entry, `Settle` settles exactly the bet that entry lists,
    stamps it with the current height, deletes that entry and lists the bet as settled under (height, id). -/
theorem c03_settle_targets_listed_bet {s s' : State} (hI : BetIdx s) (x : Nat × Nat × Nat × Nat) (hx : x ∈ s.pending)
    (h : settleBet s x.2.2.2 x.2.2.1 = some s') :
    ∃ b0 ∈ s.bets, x = (b0.market, b0.id, b0.uid, b0.creator) ∧ b0.status ≠ BS_SETTLED ∧ ∃ res,
      lookup Bet.key [b0.creator, b0.id] s'.bets =
        some { b0 with status := BS_SETTLED, result := res, settleHeight := s.height } ∧
      x ∉ s'.pending ∧ (s.height, b0.id, b0.uid, b0.creator) ∈ s'.settled := by
  obtain ⟨b0, hb0, hu, _, hns, s2, res, e, rfl⟩ := settleBet_target hI h
  obtain ⟨b, hb, _, rfl⟩ := hI.ofPend x hx
  have hbb : b = b0 := hI.uidInj b hb b0 hb0 hu.symm
  subst hbb
  refine ⟨b, hb0, rfl, hns, res, ?_, ?_, ?_⟩
  · have := markSettled_lookup s2 { b with status := BS_SETTLED, result := res }
    rw [e.2.2.2.2] at this
    exact this
  · intro hin
    have := (mem_remove_iff ikey [b.market, b.id] _ s2.pending).mp hin
    simp [ikey] at this
  · rw [← e.2.2.2.2]
    exact (mem_upsert ikey _ _ s2.settled).mpr (Or.inl rfl)

-- ---------------------------------------------------------------------------------------------
-- non-vacuity: a concrete history in which bets are accepted, one is rejected, and both accepted ones settle,
-- in different blocks

def c08Tk : Tk := { ok := true, kycIgnore := true, kycApproved := false, kycId := 0 }

def c08Init : State := {
  bal := [(1, 5000), (6, 300), (7, 300)], params := { houseMin := 10, betMin := 2, betFee := 1, houseMaxW := 3 },
  height := 1, time := 100 }

/-- two markets with one deposit each; bet 1 (uid 901) on market 2, bet 2 (uid 902) on market 1, a third wager that
    reuses uid 902 (rejected); market 1 is declared in block 2, market 2 cancelled in block 3 -/
def c08Ops : List Op :=
  [.marketAdd 0 c08Tk 1 50 5000 [11, 12] MS_ACTIVE, .marketAdd 0 c08Tk 2 50 5000 [21, 22, 23] MS_ACTIVE,
   .deposit 1 c08Tk 1 500 0, .deposit 1 c08Tk 2 400 0,
   .wager 6 c08Tk 901 100 { market := 2, odds := 22, oddsVal := some ⟨3 * PREC⟩, mult := ⟨PREC⟩, allOdds := [(21, ⟨PREC⟩), (22, ⟨PREC⟩), (23, ⟨PREC⟩)] },
   .wager 7 c08Tk 902 50 { market := 1, odds := 11, oddsVal := some ⟨2 * PREC⟩, mult := ⟨PREC⟩, allOdds := [(11, ⟨PREC⟩), (12, ⟨PREC⟩)] },
   .wager 7 c08Tk 902 50 { market := 1, odds := 11, oddsVal := some ⟨2 * PREC⟩, mult := ⟨PREC⟩, allOdds := [(11, ⟨PREC⟩), (12, ⟨PREC⟩)] },
   .endBlock, .newBlock 2 200, .marketResolve c08Tk 1 150 MS_DECLARED [11], .endBlock,
   .newBlock 3 300, .marketResolve c08Tk 2 250 MS_CANCELED [], .endBlock, .newBlock 4 400, .endBlock]

/-- the bet records as (creator, id, uid, status, settleHeight) -/
def c08Bets (s : State) : List (Nat × Nat × Nat × Nat × Nat) :=
  s.bets.map (fun b => (b.creator, b.id, b.uid, b.status, b.settleHeight))

/-- after the three wagers: two bets with ids 1, 2, both pending (the index is ordered by market, not by id); the
    wager that reused a uid failed -/
example :
    let s := run c08Init (c08Ops.take 7)
    s.betCount = 2 ∧ c08Bets s = [(6, 1, 901, BS_PLACED, 0), (7, 2, 902, BS_PLACED, 0)] ∧
    s.pending = [(1, 2, 902, 7), (2, 1, 901, 6)] ∧ s.settled = [] ∧
    (step (run c08Init (c08Ops.take 6)) (c08Ops.getD 6 .endBlock)).2 = .err := by
  decide

/-- after the end-block of block 2: bet 2 is settled at height 2, bet 1 is still pending -/
example :
    let s := run c08Init (c08Ops.take 11)
    s.betCount = 2 ∧ c08Bets s = [(6, 1, 901, BS_PLACED, 0), (7, 2, 902, BS_SETTLED, 2)] ∧
    s.pending = [(2, 1, 901, 6)] ∧ s.settled = [(2, 2, 902, 7)] := by
  decide

/-- at the end: bet 1 was settled at height 3; the record of bet 2 is what it was after block 2 -/
example :
    let s := run c08Init c08Ops
    s.betCount = 2 ∧ c08Bets s = [(6, 1, 901, BS_SETTLED, 3), (7, 2, 902, BS_SETTLED, 2)] ∧
    s.pending = [] ∧ s.settled = [(2, 2, 902, 7), (3, 1, 901, 6)] := by
  decide

end Sge.Core
