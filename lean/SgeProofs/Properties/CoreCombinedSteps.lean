/-
  C03 / C04 STEP statements over COMBINED histories (continues CoreCombined.lean, which transfers the STATE theorems).

  The step theorems of the core slice speak about ONE step from a reachable state: the end-block (`c04_block_balance`,
  `c04_block_balance_closed`, `c04_block_user_account`, `c04_block_no_role_unchanged` of C04Block.lean, the per-item
  `c03_settlement_payout` of C03Sums.lean and `c04_payout` of C04Sums.lean) and the wager (`c03_charge_at_placement`).
  In the combined model (`Sge.Combined`)
    * a non-halting combined end-block is the SUCCESSFUL core end-block on the core component followed by the
      x/subaccount hooks (`cms_endBlock_decomp`); the hooks move coins only by AfterHouseWin transfers subaccount
      address → owner (`applyHook`, `cml_applyHook_spec`); their net effect per account is NOT stated in closed form
      here, the theorems below speak about the core component BEFORE the hooks run;
    * a successful MsgWager of x/subaccount is: transfer subaccount address → owner, the REAL core wager with the OWNER
      as bettor, transfer of what was not taken owner → subaccount address (`c03_charge_at_placement_subWager`).
  The core component of every reachable combined state is a reachable core state (`cml_transfer`, `cml_run_trace`), so
  the core step theorems hold of the core step INSIDE the combined step.
-/
import SgeProofs.Properties.CoreCombined
import SgeProofs.Properties.C04Block
namespace Sge.Combined
open Sge Sge.Core Sge.Genesis

-- ---------------------------------------------------------------------------------------------
-- the combined end-block = core end-block, then hooks

/-- A combined end-block that does not halt is the core end-block on the core component, which does not halt either
    and leads to `c`, followed by the x/subaccount hook calls `endBlockHooks s.core c` applied to the state whose core
    component is `c`. -/
theorem cms_endBlock_decomp (s : State) (hnh : (step s (.core .endBlock)).2 ≠ .halt) :
    (Core.step s.core .endBlock).2 ≠ .halt ∧
    Core.endBlockO s.core = some (Core.step s.core .endBlock).1 ∧
    applyHooks { s with core := (Core.step s.core .endBlock).1 } (endBlockHooks s.core (Core.step s.core .endBlock).1)
      = some (step s (.core .endBlock)).1 := by
  have hs : step s (.core .endBlock) = endBlock s := rfl
  rw [hs] at hnh ⊢
  unfold endBlock at hnh ⊢
  cases h : endBlockO s with
  | none => rw [h] at hnh; exact absurd rfl hnh
  | some s' =>
    unfold endBlockO at h
    simp only [bind, Option.bind_eq_some_iff] at h
    obtain ⟨c, hc, h2⟩ := h
    have hcs : Core.step s.core .endBlock = (c, .ok) := by
      show Core.endBlock s.core = _
      unfold Core.endBlock; rw [hc]
    rw [hcs]
    exact ⟨(fun e => nomatch e), hc, h2⟩

-- ---------------------------------------------------------------------------------------------
-- C04Block over the core end-block inside a combined end-block

/-- C04.m (combined), transfers `c04_block_balance`: for every reachable combined state `s` and the combined end-block
    from `s` that does not halt, the core end-block inside it does not halt, and BEFORE the x/subaccount hooks run —
    `c'` is the core component after the core end-block — the balance of EVERY account `a` (user, owner, subaccount
    address or custody account) has changed by exactly the sum of its shares in the bets settled by this block plus its
    shares in the participations paid by this block. The hooks that run afterwards only transfer
    subaccount address → owner (AfterHouseWin); their sum is not part of this statement. -/
theorem c04_block_balance_combined (p : Params) (bal : List (Nat × Int)) (h t : Nat) (we de : Bool) (ops : List Op)
    (h0 : getBal bal ACC_POOL = 0 ∧ getBal bal ACC_BETFEE = 0 ∧ getBal bal ACC_HOUSEFEE = 0)
    (hwf : ∀ op ∈ ops, op.wf) :
    let s := run (init p bal h t we de) ops
    let c' := (Core.step s.core .endBlock).1
    (step s (.core .endBlock)).2 ≠ .halt →
      (Core.step s.core .endBlock).2 ≠ .halt ∧ ∀ a,
      getBal c'.bal a - getBal s.core.bal a =
        sumBy (c4b_betTerm a s.core.markets (c4b_openAt s.core.bets)) c'.bets
        + sumBy (c4b_bookTerm a s.core.markets (c4b_unpaidAt s.core.books)) c'.books := by
  intro s c' hnh
  have hc := (cms_endBlock_decomp s hnh).1
  exact ⟨hc, cml_transfer p bal h t we de ops hwf
    (fun c => (Core.step c .endBlock).2 ≠ .halt → ∀ a,
      getBal (Core.step c .endBlock).1.bal a - getBal c.bal a =
        sumBy (c4b_betTerm a c.markets (c4b_openAt c.bets)) (Core.step c .endBlock).1.bets
        + sumBy (c4b_bookTerm a c.markets (c4b_unpaidAt c.books)) (Core.step c .endBlock).1.books)
    (fun cops hw => c04_block_balance p bal h t cops h0 hw) hc⟩

/-- C04.n (combined), transfers `c04_block_balance_closed`: the same with the closed formulas (WON ⇒ Σ (stake +
    promised profit), REFUNDED ⇒ recorded stake, LOST ⇒ 0; participation: liquidity ± realised profit, fee to the
    depositor iff not declared or no stake), for the core end-block inside a non-halting combined end-block. -/
theorem c04_block_balance_closed_combined (p : Params) (bal : List (Nat × Int)) (h t : Nat) (we de : Bool) (ops : List Op)
    (h0 : getBal bal ACC_POOL = 0 ∧ getBal bal ACC_BETFEE = 0 ∧ getBal bal ACC_HOUSEFEE = 0)
    (hwf : ∀ op ∈ ops, op.wf) :
    let s := run (init p bal h t we de) ops
    let c' := (Core.step s.core .endBlock).1
    (step s (.core .endBlock)).2 ≠ .halt → ∀ a,
      getBal c'.bal a - getBal s.core.bal a =
        sumBy (fun x => match getMarket s.core x.market with
            | some m => c4b_betShare a m.creator x
            | none => 0) (c'.bets.filter (c4b_settledNow s.core))
        + sumBy (fun b => match getMarket s.core b.uid with
            | some m => sumBy (c4b_partShare a c'.bets b.uid m) (b.parts.filter (c4b_paidNow s.core b.uid))
            | none => 0) c'.books := by
  intro s c' hnh
  have hc := (cms_endBlock_decomp s hnh).1
  exact cml_transfer p bal h t we de ops hwf
    (fun c => (Core.step c .endBlock).2 ≠ .halt → ∀ a,
      getBal (Core.step c .endBlock).1.bal a - getBal c.bal a =
        sumBy (fun x => match getMarket c x.market with
            | some m => c4b_betShare a m.creator x
            | none => 0) ((Core.step c .endBlock).1.bets.filter (c4b_settledNow c))
        + sumBy (fun b => match getMarket c b.uid with
            | some m => sumBy (c4b_partShare a (Core.step c .endBlock).1.bets b.uid m) (b.parts.filter (c4b_paidNow c b.uid))
            | none => 0) (Core.step c .endBlock).1.books)
    (fun cops hw => c04_block_balance_closed p bal h t cops h0 hw) hc

/-- C04.t (combined), transfers `c04_block_user_account`: over the core end-block inside a non-halting combined
    end-block, an account that is no custody account — a user, an owner, a subaccount address — only receives: the sum
    of what it is due as bettor, market creator and depositor. -/
theorem c04_block_user_account_combined (p : Params) (bal : List (Nat × Int)) (h t : Nat) (we de : Bool) (ops : List Op)
    (h0 : getBal bal ACC_POOL = 0 ∧ getBal bal ACC_BETFEE = 0 ∧ getBal bal ACC_HOUSEFEE = 0)
    (hwf : ∀ op ∈ ops, op.wf) :
    let s := run (init p bal h t we de) ops
    let c' := (Core.step s.core .endBlock).1
    (step s (.core .endBlock)).2 ≠ .halt → ∀ a, isModuleAcc a = false →
      getBal c'.bal a - getBal s.core.bal a =
        sumBy (fun x => match getMarket s.core x.market with
            | some m => c4b_betCredit a m.creator x
            | none => 0) (c'.bets.filter (c4b_settledNow s.core))
        + sumBy (fun b => match getMarket s.core b.uid with
            | some m => sumBy (c4b_partCredit a c'.bets b.uid m) (b.parts.filter (c4b_paidNow s.core b.uid))
            | none => 0) c'.books := by
  intro s c' hnh
  have hc := (cms_endBlock_decomp s hnh).1
  exact cml_transfer p bal h t we de ops hwf
    (fun c => (Core.step c .endBlock).2 ≠ .halt → ∀ a, isModuleAcc a = false →
      getBal (Core.step c .endBlock).1.bal a - getBal c.bal a =
        sumBy (fun x => match getMarket c x.market with
            | some m => c4b_betCredit a m.creator x
            | none => 0) ((Core.step c .endBlock).1.bets.filter (c4b_settledNow c))
        + sumBy (fun b => match getMarket c b.uid with
            | some m => sumBy (c4b_partCredit a (Core.step c .endBlock).1.bets b.uid m) (b.parts.filter (c4b_paidNow c b.uid))
            | none => 0) (Core.step c .endBlock).1.books)
    (fun cops hw => c04_block_user_account p bal h t cops h0 hw) hc

/-- C04.q (combined), transfers `c04_block_no_role_unchanged`: an account that is no custody account and has no role
    in the block (not the bettor of a bet settled by it, not the depositor of a participation paid by it, not the
    creator of the market of either) has the same balance after the core end-block inside a non-halting combined
    end-block. -/
theorem c04_block_no_role_unchanged_combined (p : Params) (bal : List (Nat × Int)) (h t : Nat) (we de : Bool)
    (ops : List Op) (h0 : getBal bal ACC_POOL = 0 ∧ getBal bal ACC_BETFEE = 0 ∧ getBal bal ACC_HOUSEFEE = 0)
    (hwf : ∀ op ∈ ops, op.wf) :
    let s := run (init p bal h t we de) ops
    let c' := (Core.step s.core .endBlock).1
    (step s (.core .endBlock)).2 ≠ .halt → ∀ a, isModuleAcc a = false →
      (∀ x ∈ c'.bets, c4b_settledNow s.core x = true →
          a ≠ x.creator ∧ ∀ m, getMarket s.core x.market = some m → a ≠ m.creator) →
      (∀ b ∈ c'.books, ∀ q ∈ b.parts, c4b_paidNow s.core b.uid q = true →
          a ≠ q.addr ∧ ∀ m, getMarket s.core b.uid = some m → a ≠ m.creator) →
      getBal c'.bal a = getBal s.core.bal a := by
  intro s c' hnh
  have hc := (cms_endBlock_decomp s hnh).1
  exact cml_transfer p bal h t we de ops hwf
    (fun c => (Core.step c .endBlock).2 ≠ .halt → ∀ a, isModuleAcc a = false →
      (∀ x ∈ (Core.step c .endBlock).1.bets, c4b_settledNow c x = true →
          a ≠ x.creator ∧ ∀ m, getMarket c x.market = some m → a ≠ m.creator) →
      (∀ b ∈ (Core.step c .endBlock).1.books, ∀ q ∈ b.parts, c4b_paidNow c b.uid q = true →
          a ≠ q.addr ∧ ∀ m, getMarket c b.uid = some m → a ≠ m.creator) →
      getBal (Core.step c .endBlock).1.bal a = getBal c.bal a)
    (fun cops hw => c04_block_no_role_unchanged p bal h t cops h0 hw) hc

-- ---------------------------------------------------------------------------------------------
-- the per-item step theorems, for a core step from the core component of a reachable combined state

/-- the statement of `c03_settlement_payout` about the core step `op` from the core state `s` -/
def cms_SettlementPayout (s : Core.State) (op : Core.Op) : Prop :=
  let s' := (Core.step s op).1
  ∀ x ∈ s.bets, x.status ≠ BS_SETTLED → ∀ x' ∈ s'.bets, x'.id = x.id → x'.status = BS_SETTLED →
    op = .endBlock ∧
    ∃ (m : Market) (τ τ' : Core.State),
      getMarket s x.market = some m ∧ (∀ later, getMarket (Core.run s' later) x.market = some m) ∧
      (m.status = MS_DECLARED ∨ m.status = MS_CANCELED ∨ m.status = MS_ABORTED) ∧
      x' = { x with status := BS_SETTLED, result := x'.result, settleHeight := s.height } ∧
      (x'.result = BR_WON ↔ m.status = MS_DECLARED ∧ x.odds ∈ m.winners) ∧
      (x'.result = BR_LOST ↔ m.status = MS_DECLARED ∧ x.odds ∉ m.winners) ∧
      (x'.result = BR_REFUNDED ↔ m.status = MS_CANCELED ∨ m.status = MS_ABORTED) ∧
      x.amount = sumBet x.fulfs ∧
      τ.height = s.height ∧ τ.markets = s.markets ∧ x ∈ τ.bets ∧ (x.market, x.id, x.uid, x.creator) ∈ τ.pending ∧
      settleBet τ x.creator x.uid = some τ' ∧ τ'.bets = upsert Bet.key x' τ.bets ∧
      ∀ pay : Int, pay = (if x'.result = BR_WON then sumBet x.fulfs + sumProfit x.fulfs
                          else if x'.result = BR_REFUNDED then x.amount else 0) →
      ∀ feeTo : Nat, feeTo = (if m.status = MS_DECLARED then m.creator else x.creator) →
        ∀ a, getBal τ'.bal a = getBal τ.bal a
              + (if a = x.creator then pay else 0) + (if a = feeTo then x.fee else 0)
              - (if a = ACC_POOL then pay else 0) - (if a = ACC_BETFEE then x.fee else 0)

/-- C03.m (combined), transfers `c03_settlement_payout`: take the core component `c` of any reachable combined state
    and any core step `op` from it — in particular the core end-block inside a combined end-block
    (`cms_endBlock_decomp`). If a bet (placed directly or through a subaccount; the bettor of a subaccount wager is the
    OWNER) is unsettled in `c` and settled after `op`, then `op` is the end-block, the market is resolved, the new
    record is the old one with status, result and settlement height, and the ONE `Settle` call that settled it moved
    exactly: pool → bettor Σ (stake + promised profit) if WON, the recorded stake if REFUNDED, nothing if LOST; bet-fee
    collector → market creator (declared) or bettor (cancelled / aborted) the fee; nothing else. -/
theorem c03_settlement_payout_combined (p : Params) (bal : List (Nat × Int)) (h t : Nat) (we de : Bool) (ops : List Op)
    (hwf : ∀ op ∈ ops, op.wf) (op : Core.Op) :
    cms_SettlementPayout (run (init p bal h t we de) ops).core op :=
  cml_transfer p bal h t we de ops hwf (fun c => cms_SettlementPayout c op)
    (fun cops _ => c03_settlement_payout p bal h t cops op)

/-- the statement of `c04_payout` about the core step `op` from the core state `s` -/
def cms_Payout (s : Core.State) (op : Core.Op) : Prop :=
  let s' := (Core.step s op).1
  ∀ b ∈ s.books, ∀ pt ∈ b.parts, pt.isSettled = false →
  ∀ b' ∈ s'.books, b'.uid = b.uid → ∀ pt' ∈ b'.parts, pt'.idx = pt.idx → pt'.isSettled = true →
    op = .endBlock ∧
    ∃ (m : Market) (τ τ' : Core.State) (bk bk' : Book) (q : Part),
      getMarket s b.uid = some m ∧ isResolvedStatus m.status = true ∧
      (∀ x ∈ s'.bets, x.market = b.uid → x.status = BS_SETTLED) ∧
      q = { pt with actualProfit := lostStakeOn s'.bets b.uid pt.idx - wonProfitOn s'.bets b.uid pt.idx } ∧
      τ.bets = s'.bets ∧ settlePart τ bk q m = some (τ', bk') ∧
      ∀ pay : Int, pay = (if m.status = MS_DECLARED
          then pt.liq + lostStakeOn s'.bets b.uid pt.idx - wonProfitOn s'.bets b.uid pt.idx else pt.liq) →
      ∀ toDep : Bool, toDep = decide (m.status ≠ MS_DECLARED ∨ stakedOn s'.bets b.uid pt.idx = 0) →
        (∀ a, getBal τ'.bal a = getBal τ.bal a
              + (if a = pt.addr then pay else 0) + (if a = (if toDep then pt.addr else m.creator) then pt.fee else 0)
              - (if a = ACC_POOL then pay else 0) - (if a = ACC_HOUSEFEE then pt.fee else 0)) ∧
        pt' = { q with returned := pay + (if toDep then pt.fee else 0),
                       reimbursedFee := (if toDep then pt.fee else pt.reimbursedFee), isSettled := true }

/-- C04.i (combined), transfers `c04_payout`: take the core component `c` of any reachable combined state and any
    user-signed core step `op` from it — in particular the core end-block inside a combined end-block. If a
    participation (of a direct depositor or of a SUBACCOUNT ADDRESS: the depositor of a subaccount house deposit) is
    unpaid in `c` and paid after `op`, then `op` is the end-block and the ONE `settleParticipation` call that paid it
    moved exactly: pool → depositor liquidity + Σ lost stakes − Σ won profits of the parts naming it (declared) or the
    liquidity (cancelled / aborted); house-fee collector → depositor or market creator the fee; nothing else. These
    are the payments BEFORE the hooks; AfterHouseWin then forwards the profit subaccount address → owner (`applyHook`). -/
theorem c04_payout_combined (p : Params) (bal : List (Nat × Int)) (h t : Nat) (we de : Bool) (ops : List Op)
    (h0 : getBal bal ACC_POOL = 0 ∧ getBal bal ACC_BETFEE = 0 ∧ getBal bal ACC_HOUSEFEE = 0)
    (hwf : ∀ op ∈ ops, op.wf) (op : Core.Op) (hop : op.userSigned') :
    cms_Payout (run (init p bal h t we de) ops).core op :=
  cml_transfer p bal h t we de ops hwf (fun c => cms_Payout c op)
    (fun cops hw => c04_payout p bal h t cops op h0 hw hop)

-- ---------------------------------------------------------------------------------------------
-- the charge at placement of a wager through a subaccount

/-- C03.n (combined), transfers `c03_charge_at_placement` to MsgWager of x/subaccount. For every reachable combined
    state `s` and every ACCEPTED subaccount wager of `owner` (deductions `main` from the owner, `sub` from the
    subaccount, `main + sub = amount`), the message is:
    1. `withdrawLockedO`: the subaccount address `a` of the owner sends `sub` to the owner (state `s1`; no other
       balance and no bet record changes);
    2. the REAL core wager `wagerO s1.core owner …` with the OWNER as bettor (core state `c2`): it stores exactly one new
       bet record `nb` — uid, next sequence number, bettor = owner, market, outcome and odds of the ticket, current bet
       fee, PLACED / PENDING, recorded stake = Σ stakes of its backing parts — and charges the OWNER exactly fee +
       recorded stake, the pool rises by the recorded stake, the bet-fee collector by the fee, no other balance changes
       (the equation holds for every account, the subaccount address included); the promise of the parts as in the
       core theorem;
    3. `returnToSubO`: what the owner has left above (balance before − main), at most `sub`, goes back owner →
       subaccount address. -/
theorem c03_charge_at_placement_subWager (p : Params) (bal : List (Nat × Int)) (h t : Nat) (we de : Bool) (ops : List Op)
    (hwf : ∀ op ∈ ops, op.wf) (owner : Nat) (outerOk : Bool) (ic : Nat) (main sub : Int) (tk : Tk) (uid : Nat)
    (amount : Int) (pl : WagerPayload) (s' : State) :
    let s := run (init p bal h t we de) ops
    subWagerO s owner outerOk ic main sub tk uid amount pl = some s' →
    ∃ (a : Nat) (s1 : State) (c2 : Core.State),
      aget s.owners owner = some a ∧ main + sub = amount ∧ 0 ≤ main ∧ 0 ≤ sub ∧
      withdrawLockedO s a owner sub = some s1 ∧
      (∀ acct, getBal s1.core.bal acct = getBal s.core.bal acct - (if acct = a then sub else 0)
          + (if acct = owner then sub else 0)) ∧
      s1.core.bets = s.core.bets ∧
      wagerO s1.core owner tk uid amount pl = some c2 ∧
      returnToSubO { s1 with core := c2 } a owner (min (getBal c2.bal owner - (s.bal owner - main)) sub) = some s' ∧
      ∃ nb ∈ c2.bets, (∀ z ∈ c2.bets, z = nb ∨ z ∈ s.core.bets) ∧ nb ∉ s.core.bets ∧
        nb.uid = uid ∧ nb.id = s.core.bets.length + 1 ∧ nb.creator = owner ∧ nb.market = pl.market ∧ nb.odds = pl.odds ∧
        pl.oddsVal = some nb.oddsVal ∧ nb.fee = s1.core.params.betFee ∧ nb.status = BS_PLACED ∧ nb.result = BR_PENDING ∧
        nb.amount = sumBet nb.fulfs ∧
        (∀ acct, getBal c2.bal acct = getBal s1.core.bal acct - (if acct = owner then nb.fee + nb.amount else 0)
            + (if acct = ACC_POOL then nb.amount else 0) + (if acct = ACC_BETFEE then nb.fee else 0)) ∧
        (amount ≥ nb.fee →
          sumProfit nb.fulfs = ((nb.oddsVal.mulInt (amount - nb.fee)).sub (Dec.ofInt (amount - nb.fee))).truncInt ∧
          ∀ f ∈ nb.fulfs, 0 ≤ f.profit) := by
  intro s hsw
  obtain ⟨⟨cops, hw, e⟩, hI⟩ := cmb_run_sim ops (init p bal h t we de) (cmb_init_ownInv p bal h t we de) hwf
  unfold subWagerO at hsw
  simp only [bind, Option.bind_eq_some_iff, pure, Option.some.injEq] at hsw
  obtain ⟨_, _, a, ha, _, _, _, _, _, hnn, _, hsum, _, _, s1, hs1, s2, hs2, h3⟩ := hsw
  have hnn := chk_some hnn
  have hsum := chk_some hsum
  simp only [Bool.and_eq_true, decide_eq_true_eq] at hnn hsum
  obtain ⟨ho, haa⟩ := hI.own owner a ha
  -- the core state in which the wager runs is reachable
  obtain ⟨ops1, hw1, e1⟩ := cml_withdrawLocked_spec haa ho hs1
  have er : s1.core = Core.run (initState p bal h t) (cops ++ ops1) := by
    rw [cmb_run_append, e1]
    exact congrArg (fun c => Core.run c ops1) e
  have hB : BetIdx s1.core := by rw [er]; exact run_betIdx _ _ (betIdx_init p bal h t)
  -- step 1
  have hs1' := hs1
  unfold withdrawLockedO at hs1'
  simp only [bind, Option.bind_eq_some_iff, pure, Option.some.injEq] at hs1'
  obtain ⟨r, _, _, _, s1a, hs1a, sum', _, rfl⟩ := hs1'
  unfold send at hs1a
  cases hc : bankSend s.core a owner sub with
  | none => simp [hc] at hs1a
  | some c1 =>
    simp only [hc, Option.map_some, Option.some.injEq] at hs1a
    subst hs1a
    have hbal1 := bp_bankSend_bal hc
    have hfr1 := (bp_bankSend_frame hc).1
    -- step 2
    unfold subWagerBet at hs2
    cases hc2 : wagerO c1 owner tk uid amount pl with
    | none =>
      have : wagerO (State.setSub { s with core := c1 } a { r with sum := sum' }).core owner tk uid amount pl = none := hc2
      simp [this] at hs2
    | some c2 =>
      have hc2' : wagerO (State.setSub { s with core := c1 } a { r with sum := sum' }).core owner tk uid amount pl = some c2 := hc2
      simp only [hc2', Option.map_some, Option.some.injEq] at hs2
      subst hs2
      obtain ⟨nb, ⟨q1, q2, q3, q4, q5, q6, q7, q8, q9, q10, q11, q12, q13⟩, hmem⟩ := bp_wagerO_placed hc2
      have hB' : BetIdx c1 := hB
      refine ⟨a, _, c2, ha, hsum, hnn.1, hnn.2, hs1, hbal1, hfr1, hc2, h3, nb, q1, ?_, ?_, q2, ?_, q4, q5, q6, q7, q8, q9,
        q10, q11, ?_, ?_⟩
      · intro z hz
        rcases hmem z hz with h' | h'
        · exact Or.inl h'
        · exact Or.inr (hfr1 ▸ h')
      · intro hin
        have hin' : nb ∈ c1.bets := by rw [hfr1]; exact hin
        have := (hB'.idLo nb hin').2
        omega
      · rw [q3, ← hfr1]
        show c1.betCount + 1 = c1.bets.length + 1
        rw [hB'.count]
      · intro acct
        rw [q11]
        exact q12 acct
      · intro hfee
        exact q13 hfee

-- ---------------------------------------------------------------------------------------------
-- non-vacuity: `cml_exOps` of CoreCombined.lean = `sampleOps` (market, subaccount, subaccount house deposit, subaccount
-- wager of owner 2, resolution) followed by one end-block

/-- the hypotheses hold of that history: `Op.wf`, empty custody accounts, the combined end-block after `sampleOps` does
    not halt, the subaccount wager (4th operation) is accepted in the state after the first three; and the theorems
    give non-trivial facts: the core end-block inside pays the owner 2 (bettor of the subaccount wager, which won). -/
example :
    let s := run sampleInit sampleOps
    cml_exOps = sampleOps ++ [Op.core Core.Op.endBlock] ∧
    (∀ op ∈ sampleOps, op.wf) ∧
    (getBal sampleInit.core.bal ACC_POOL = 0 ∧ getBal sampleInit.core.bal ACC_BETFEE = 0 ∧ getBal sampleInit.core.bal ACC_HOUSEFEE = 0) ∧
    (step s (.core .endBlock)).2 ≠ .halt ∧
    (subWagerO (run sampleInit (sampleOps.take 3)) 2 true 2 500000 1500000 sampleTk 77 2000000 samplePl).isSome = true ∧
    (Core.step s.core .endBlock).2 ≠ .halt ∧
    getBal (Core.step s.core .endBlock).1.bal 2 - getBal s.core.bal 2 = 3999800 := by
  intro s
  have hwf : ∀ op ∈ sampleOps, op.wf := fun op hop =>
    Op.wfU_wf (cmb2_wfUb_all (ops := cml_exOps) (by decide +kernel) op (List.mem_append_left _ hop))
  have hnh : (step s (.core .endBlock)).2 ≠ .halt := by decide +kernel
  refine ⟨rfl, hwf, by decide, hnh, by decide +kernel, ?_, by decide +kernel⟩
  exact (c04_block_balance_combined {} [(7, 100000000), (2, 100000000), (9, 0)] 1 100 true true sampleOps
    (by decide) hwf hnh).1

end Sge.Combined
