/-
  C10 (whole-history part)  The bet records and the order-book records always tell the same story.

  For every history `ops` of the core slice (market add/update/resolve, deposit, withdraw, wager, authz, bank,
  parameter changes, new blocks AND the settling end-blocks) from an empty chain, in the state `run init ops`:

    c10_total_bet_eq         p.totalBet = Σ_{bets of the book's market} Σ_{backing parts naming p} stake
    c10_exposure_eq          Σ_{current + historical exposures of p for outcome o} promised winnings
                               = Σ_{bets of the market on outcome o} Σ_{backing parts naming p} promised winnings
    c10_exposure_bet_eq      the same for the stakes recorded in the exposures
    c10_parts_wellformed     every backing part names a participation of the bet's own market, and its depositor
    c10_participation_count  #participations = the book's counter, the indices are exactly 1..counter
    c10_queues_wellformed    every fulfilment queue is duplicate-free, its entries are participations whose exposure
                             for that outcome is open (hence: no participation is visited twice within one wager)

  No hypothesis on the operations is needed (no `userSigned`, no restriction to non-settling histories): the
  invariant `ObInv` (SgeProofs/Lemmas/ObSums.lean) is preserved by every `step`, a failing message or a halting
  end-block leaves the state unchanged. The per-wager core is `processWager_sums` (SgeProofs/Lemmas/ObWager.lean):
  under the queue invariant `QInv` one ProcessWager adds to every participation exactly the backing parts that name
  it. The model includes the repair "secondary closing removes the index from that outcome's queue"
  (`secondaryOne`); without it `QInv` is false (known finding: duplicate queue entries).
  Backing parts may carry negative stakes (known finding); nothing here assumes `0 ≤ f.bet`.
-/
import SgeProofs.Lemmas.ObSums
namespace Sge.Core
open Sge Sge.Genesis

theorem sumBy_filter {α : Type} (c : α → Bool) (g : α → Int) (l : List α) :
    sumBy (fun x => if c x then g x else 0) l = ((l.filter c).map g).sum := by
  induction l with
  | nil => rfl
  | cons x xs ih =>
    rw [sumBy_cons, ih]
    cases hc : c x <;> simp [List.filter, hc]

/-- stakes of the backing parts of `t` that name participation `i` -/
def Bet.stakeOn (t : Bet) (i : Nat) : Int := ((t.fulfs.filter (fun f => f.idx == i)).map (·.bet)).sum
/-- winnings promised to `t` by participation `i` -/
def Bet.profitOn (t : Bet) (i : Nat) : Int := ((t.fulfs.filter (fun f => f.idx == i)).map (·.profit)).sum

theorem fbAt_sum (i : Nat) (t : Bet) : sumBy (fbAt i) t.fulfs = t.stakeOn i := by
  unfold Bet.stakeOn
  rw [← sumBy_filter]; rfl
theorem fpAt_sum (i : Nat) (t : Bet) : sumBy (fpAt i) t.fulfs = t.profitOn i := by
  unfold Bet.profitOn
  rw [← sumBy_filter]; rfl

/-- the exposure total of the book, written as a sum over the current and historical exposure records -/
theorem Book.totE_eq_filter (b : Book) (hs : Sorted PExp.key b.pexps) (o i : Nat) :
    b.totE o i = (((b.pexps ++ b.hist).filter (fun e => e.odds == o && e.idx == i)).map (·.exposure)).sum ∧
    b.totB o i = (((b.pexps ++ b.hist).filter (fun e => e.odds == o && e.idx == i)).map (·.bet)).sum := by
  have hk : ∀ e : PExp, (PExp.key e == [o, i]) = (e.odds == o && e.idx == i) := by
    intro e
    by_cases h1 : e.odds = o <;> by_cases h2 : e.idx = i <;> simp [PExp.key, h1, h2]
  have h1 := sumBy_key PExp.key (·.exposure) [o, i] b.pexps hs
  have h2 := sumBy_key PExp.key (·.bet) [o, i] b.pexps hs
  simp only [hk] at h1 h2
  have hg' : lookup PExp.key [o, i] b.pexps = b.getExp o i := rfl
  rw [hg'] at h1 h2
  unfold Book.totE Book.totB
  rw [List.filter_append, List.map_append, List.sum_append, List.map_append, List.sum_append,
    ← sumBy_filter, ← sumBy_filter, ← sumBy_filter, ← sumBy_filter, h1, h2]
  cases b.getExp o i <;> exact ⟨rfl, rfl⟩

/-- the empty chain of `c01_custody_partial` -/
abbrev initState (p : Params) (bal : List (Nat × Int)) (h t : Nat) : State := { bal := bal, params := p, height := h, time := t }

/-- C10.e  In every reachable state the whole-history invariant holds. -/
theorem c10_invariant (p : Params) (bal : List (Nat × Int)) (h t : Nat) (ops : List Op) :
    ObInv (run (initState p bal h t) ops) :=
  run_obInv _ ops (obInv_init p bal h t)

/-- C10.f  The total stake a participation reports equals the sum of the stakes of the backing parts that name
    it, over all bets of the book's market. -/
theorem c10_total_bet_eq (p : Params) (bal : List (Nat × Int)) (h t : Nat) (ops : List Op) :
    let s := run (initState p bal h t) ops
    ∀ b ∈ s.books, ∀ pt ∈ b.parts,
      pt.totalBet = (((s.bets.filter (fun bet => bet.market == b.uid)).map (fun bet => bet.stakeOn pt.idx)).sum) := by
  intro s b hb pt hpt
  have hI := c10_invariant p bal h t ops
  have hg := Book.mem_getPart (hI.qinv b hb).s.sP hpt
  rw [hI.tb b hb pt.idx pt hg, ← sumBy_filter]
  apply sumBy_congr
  intro bet _
  unfold betStakeAt
  rw [fbAt_sum]

/-- C10.g  Per outcome, the winnings a participation has promised — its current exposure plus the exposures of all
    its past rounds — equal the winnings promised by the backing parts that name it in the bets on that outcome. -/
theorem c10_exposure_eq (p : Params) (bal : List (Nat × Int)) (h t : Nat) (ops : List Op) :
    let s := run (initState p bal h t) ops
    ∀ b ∈ s.books, ∀ pt ∈ b.parts, ∀ o : Nat,
      (((b.pexps ++ b.hist).filter (fun e => e.odds == o && e.idx == pt.idx)).map (·.exposure)).sum =
      (((s.bets.filter (fun bet => bet.market == b.uid && bet.odds == o)).map (fun bet => bet.profitOn pt.idx)).sum) := by
  intro s b hb pt _ o
  have hI := c10_invariant p bal h t ops
  rw [← (Book.totE_eq_filter b (hI.qinv b hb).s.sE o pt.idx).1, hI.tE b hb o pt.idx, ← sumBy_filter]
  apply sumBy_congr
  intro bet _
  unfold betProfitAt
  rw [fpAt_sum]

/-- C10.h  The same for the stakes recorded in the exposures. -/
theorem c10_exposure_bet_eq (p : Params) (bal : List (Nat × Int)) (h t : Nat) (ops : List Op) :
    let s := run (initState p bal h t) ops
    ∀ b ∈ s.books, ∀ pt ∈ b.parts, ∀ o : Nat,
      (((b.pexps ++ b.hist).filter (fun e => e.odds == o && e.idx == pt.idx)).map (·.bet)).sum =
      (((s.bets.filter (fun bet => bet.market == b.uid && bet.odds == o)).map (fun bet => bet.stakeOn pt.idx)).sum) := by
  intro s b hb pt _ o
  have hI := c10_invariant p bal h t ops
  rw [← (Book.totE_eq_filter b (hI.qinv b hb).s.sE o pt.idx).2, hI.tB b hb o pt.idx, ← sumBy_filter]
  apply sumBy_congr
  intro bet _
  unfold betStakeOAt
  rw [fbAt_sum]

/-- C10.i  Every backing part of every bet names an existing participation of the book of the bet's own market,
    and carries that participation's depositor. -/
theorem c10_parts_wellformed (p : Params) (bal : List (Nat × Int)) (h t : Nat) (ops : List Op) :
    let s := run (initState p bal h t) ops
    ∀ bet ∈ s.bets, ∀ f ∈ bet.fulfs, ∃ b ∈ s.books, b.uid = bet.market ∧ ∃ pt ∈ b.parts, pt.idx = f.idx ∧ pt.addr = f.addr := by
  intro s bet hbet f hf
  have hI := c10_invariant p bal h t ops
  obtain ⟨b, hb, hfl⟩ := hI.wf bet hbet
  obtain ⟨hbm, hbu⟩ := getBook_mem hb
  obtain ⟨pt, hpt, ha⟩ := hfl f hf
  obtain ⟨hptm, hpti⟩ := Book.getPart_mem hpt
  exact ⟨b, hbm, hbu, pt, hptm, hpti, ha⟩

/-- C10.j  The number of participations equals the book's counter and the indices are exactly `1 .. counter`. -/
theorem c10_participation_count (p : Params) (bal : List (Nat × Int)) (h t : Nat) (ops : List Op) :
    let s := run (initState p bal h t) ops
    ∀ b ∈ s.books, b.parts.length = b.partCount ∧ b.parts.map (·.idx) = List.range' 1 b.partCount := by
  intro s b hb
  have hI := c10_invariant p bal h t ops
  have := (hI.qinv b hb).s.pIdx
  refine ⟨?_, this⟩
  have hl := congrArg List.length this
  simpa using hl

/-- C10.k  Queue well-formedness: every fulfilment queue is duplicate-free and each entry is the index of an
    existing participation whose exposure for the outcome of the queue is open. Hence the wager loop, which runs
    over one queue, visits no participation twice. -/
theorem c10_queues_wellformed (p : Params) (bal : List (Nat × Int)) (h t : Nat) (ops : List Op) :
    let s := run (initState p bal h t) ops
    ∀ b ∈ s.books, ∀ oq ∈ b.queues, oq.2.Nodup ∧
      ∀ i ∈ oq.2, (∃ pt ∈ b.parts, pt.idx = i) ∧ ∃ e ∈ b.pexps, e.odds = oq.1 ∧ e.idx = i ∧ e.fulfilled = false := by
  intro s b hb oq hoq
  have hI := c10_invariant p bal h t ops
  have hq := hI.qinv b hb
  obtain ⟨hn, hm⟩ := hq.q oq.1 oq.2 (Book.mem_getQueue hq.s.sQ hoq)
  refine ⟨hn, fun i hi => ?_⟩
  obtain ⟨h1, h2, e, he, hf⟩ := hm i hi
  obtain ⟨k1, k2, k3⟩ := Book.getExp_key he
  exact ⟨(idx_range_mem hq.s.pIdx i).mpr ⟨h1, h2⟩, e, k3, k1, k2, hf⟩

/-- C10.l  One ProcessWager under the queue invariant: every participation's total stake grows by exactly the
    stakes of the new backing parts that name it, and its exposure total for the wagered outcome by their promised
    winnings; other outcomes are untouched; the queue invariant is kept. (Restatement of `processWager_sums`.) -/
theorem c10_wager_books_exactly_the_parts (b b' : Book) (o betId : Nat) (ov mult : Dec) (mo : List Nat) (ms : List (Nat × Dec))
    (thr A : Int) (P : Dec) (fulfs : List Fulf) (taken : Int) (hI : QInv b) (hmo : mo.Nodup)
    (h : processWager b o betId ov mult mo ms thr A P = some (b', fulfs, taken)) :
    QInv b' ∧
    (∀ i p', b'.getPart i = some p' → ∃ p0, b.getPart i = some p0 ∧ p0.addr = p'.addr ∧
      p'.totalBet = p0.totalBet + ((fulfs.filter (fun f => f.idx == i)).map (·.bet)).sum) ∧
    (∀ o' i, b'.totE o' i = b.totE o' i + if o' = o then ((fulfs.filter (fun f => f.idx == i)).map (·.profit)).sum else 0) := by
  obtain ⟨w1, _, _, w4, w5, _, _⟩ := processWager_sums b b' o betId ov mult mo ms thr A P fulfs taken hI hmo h
  refine ⟨w1, ?_, ?_⟩
  · intro i p' hp'
    obtain ⟨p0, a1, a2, a3⟩ := w4 i p' hp'
    refine ⟨p0, a1, a2, ?_⟩
    rw [a3]; unfold fbAt; rw [sumBy_filter]
  · intro o' i
    rw [w5 o' i]; unfold fpAt; rw [sumBy_filter]

-- ---------------------------------------------------------------------------------------------
-- non-vacuity: a history with two deposits, three bets on two outcomes (the first exhausts participation 1, which
-- is re-queued into round 2 with its round-1 exposures moved to history), a declared result and settlement

def c10Tk : Tk := { ok := true, kycIgnore := true, kycApproved := false, kycId := 0 }
def c10Params : Params := { betMin := 2, betFee := 1, houseMin := 2, obThreshold := 0, obMaxPart := 6 }
def c10Pl (o : Nat) (ov : Int) : WagerPayload :=
  { market := 7, odds := o, oddsVal := some ⟨PREC * ov⟩, mult := ⟨PREC⟩, allOdds := [(11, ⟨PREC⟩), (12, ⟨PREC⟩)] }
def c10Ops : List Op := [
  .marketAdd 1 c10Tk 7 1 1000 [11, 12] MS_ACTIVE,
  .deposit 1 c10Tk 7 100 0,
  .deposit 2 c10Tk 7 300 0,
  .wager 3 c10Tk 501 61 (c10Pl 11 3),
  .wager 3 c10Tk 502 101 (c10Pl 12 2),
  .wager 3 c10Tk 503 41 (c10Pl 11 2),
  .marketResolve c10Tk 7 5 MS_DECLARED [11],
  .endBlock ]

def c10Final : State := run (initState c10Params [(1, 100000), (2, 100000), (3, 100000)] 1 0) c10Ops

/-- the sample history really produces bets with several backing parts, a re-queued participation with historical
    exposures, and settled bets — the states the theorems above talk about are not only the empty ones -/
example :
    (c10Final.bets.map (fun bet => (bet.odds, bet.status, bet.fulfs.map fun f => (f.idx, f.bet, f.profit))) ==
      [(11, BS_SETTLED, [(1, 45, 90), (2, 15, 30)]), (12, BS_SETTLED, [(1, 90, 90), (2, 10, 10)]), (11, BS_SETTLED, [(2, 40, 40)])] &&
    c10Final.books.map (fun b => (b.queues, b.parts.map fun pt => (pt.idx, pt.totalBet), b.hist.map fun e => (e.odds, e.idx, e.round, e.exposure, e.bet))) ==
      [([(11, [2, 1]), (12, [2, 1])], [(1, 135), (2, 65)], [(11, 1, 1, 90, 45), (12, 1, 1, 90, 90)])]) = true := by
  decide +kernel

end Sge.Core
