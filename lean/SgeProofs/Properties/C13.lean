/-
  C13  Token supply follows the configured inflation phases and nothing else.

  Model: `Sge.Mint` (BeginBlocker of x/mint acting on supply / fee collector / minter).
  "No betting, house, reward or subaccount operation creates or destroys tokens" is carried by the
  `…_supply_const` theorems of the other slices (every bank operation of their models is a transfer)
  together with the generated facts in `Sge.Gen` (no custom module other than mint calls Mint/Burn;
  the custody accounts hold no Minter/Burner permission), see Properties/C13Facts.lean.
-/
import SgeProofs.Lemmas.Mint
import SgeProofs.Lemmas.DecNl
namespace Sge.Mint
open Sge

/-- C13.a  In every block the supply grows by exactly the amount credited to the fee collector,
    and that amount is never negative (a halted chain changes nothing). -/
theorem c13_minted_to_collector (p : Params) (c : Chain) (h : Int) :
    (c.begin p h).supply - c.supply = (c.begin p h).collector - c.collector ∧
    0 ≤ (c.begin p h).supply - c.supply := by
  unfold Chain.begin
  split
  · simp
  · split
    · rename_i m n heq
      have hn : 0 ≤ n := by
        apply provision_nonneg (m0 := c.minter)
        unfold beginBlock at heq
        rw [heq]
      simp only
      omega
    · simp

/-- C13.b  Whenever the current phase has zero inflation the block mints nothing. -/
theorem c13_zero_inflation_mints_nothing (p : Params) (m : Minter) (h s : Int)
    (hz : (currentPhase p h).1.inflation.raw = 0) : (beginBlock p m h s).2 = .ok 0 := by
  unfold beginBlock
  simp only
  rw [provision_zero]
  rw [refresh_inflation]; exact hz

/-- C13.c  Beyond the cumulative blocks of all phases (the phase walk finds no phase) `CurrentPhase` is
    the end phase, whose inflation is zero — so by C13.b nothing is minted after the last phase. -/
theorem c13_after_last_phase (p : Params) (m : Minter) (h s : Int) (h1 : h ≠ 1)
    (hnone : findPhase p h p.phases Dec.zero 1 = none) :
    currentPhase p h = (endPhase, endPhaseAlias) ∧ (beginBlock p m h s).2 = .ok 0 := by
  have hcp : currentPhase p h = (endPhase, endPhaseAlias) := by
    unfold currentPhase
    rw [if_neg h1, hnone]
  refine ⟨hcp, ?_⟩
  apply c13_zero_inflation_mints_nothing
  rw [hcp]; rfl

/-- the phase walk fails exactly when the height is above every cumulative boundary; in particular
    above the sum of all phase lengths -/
theorem findPhase_none_of_gt (p : Params) (h : Int) (phs : List Phase) (cum : Dec) (step : Int)
    (hpos : ∀ ph ∈ phs, 0 ≤ (phaseBlocks p ph).raw)
    (hgt : cum.raw + (phs.map (fun ph => (phaseBlocks p ph).raw)).sum < (Dec.ofInt h).raw) :
    findPhase p h phs cum step = none := by
  induction phs generalizing cum step with
  | nil => rfl
  | cons ph rest ih =>
    unfold findPhase
    simp only [List.map_cons, List.sum_cons] at hgt
    have hrest : 0 ≤ (rest.map (fun ph => (phaseBlocks p ph).raw)).sum := by
      apply list_sum_nonneg
      intro x hx
      simp only [List.mem_map] at hx
      obtain ⟨a, ha, rfl⟩ := hx
      exact hpos a (List.mem_cons_of_mem _ ha)
    have : ¬ (Dec.ofInt h).raw ≤ (cum.add (phaseBlocks p ph)).raw := by
      simp only [Dec.add]; omega
    simp only [this, if_false]
    apply ih
    · intro x hx; exact hpos x (List.mem_cons_of_mem _ hx)
    · simp only [Dec.add]; omega

/-- C13.d  Within a phase, while parameters are unchanged: `n` consecutive blocks never halt, keep the
    phase provisions, and mint in total an amount within one token of `n` per-block provisions `q`;
    the supply grows by exactly what the fee collector receives. (`q` is the 18-digit quotient
    `PhaseProvisions / phaseBlocks`, see `c13_perBlock_close`.) -/
theorem c13_phase_sum (p : Params) (ph : Phase) (step : Int) (n : Nat) (h : Int) (c : Chain)
    (hcp : ∀ i : Nat, i < n → currentPhase p (h + i) = (ph, step))
    (st : Steady p ph step c.minter) (hh : c.halted = false) :
    let q := perBlock c.minter (phaseBlocks p ph)
    let c' := runBlocks p n h c
    c'.halted = false ∧
    c'.minter.phaseProvisions = c.minter.phaseProvisions ∧
    c'.supply - c.supply = c'.collector - c.collector ∧
    n * q - PREC < (c'.supply - c.supply) * PREC ∧ (c'.supply - c.supply) * PREC < n * q + PREC := by
  intro q c'
  obtain ⟨i1, i2, i3, i4, i5, i6⟩ := runBlocks_steady p ph step q n h c hcp st hh rfl
  have hc := st.carry
  show (runBlocks p n h c).halted = false ∧ _ ∧ _ ∧
    n * q - PREC < ((runBlocks p n h c).supply - c.supply) * PREC ∧
    ((runBlocks p n h c).supply - c.supply) * PREC < n * q + PREC
  refine ⟨i1, i2, i3, ?_, ?_⟩ <;> (unfold PREC at *; omega)

/-- the per-block provision is the phase provision divided by the number of blocks, to within
    (half a unit + one) in the 18th digit per block: `|blocks·q − P| ≤ blocks` raw units. -/
theorem c13_perBlock_close (m : Minter) (blocksN : Int) (hb : 0 < blocksN) (hP : 0 ≤ m.phaseProvisions.raw) :
    let q := perBlock m (Dec.ofInt blocksN)
    2 * (blocksN * q) ≤ 2 * m.phaseProvisions.raw + blocksN ∧
    2 * m.phaseProvisions.raw - 3 * blocksN ≤ 2 * (blocksN * q) := by
  intro q
  have hq : q = chopRound (tquo (m.phaseProvisions.raw * PREC * PREC) (blocksN * PREC)) := by
    show perBlock m (Dec.ofInt blocksN) = _
    unfold perBlock Dec.quo Dec.truncDec Dec.ofInt
    simp only
    rw [chopTrunc_mul_PREC (by omega)]
  rw [hq]
  exact quo_close m.phaseProvisions.raw blocksN hb hP

/-- C13.e  At the first block of a phase the provisions are inflation × (supply − excluded) × year
    coefficient, computed with the supply of that block (two fixed-point products, each rounded to
    18 digits); no staking ratio enters. -/
theorem c13_phase_entry (p : Params) (m : Minter) (ph : Phase) (step s : Int) (hne : step ≠ m.phaseStep) :
    (refresh p m ph step s).phaseProvisions = (ph.inflation.mulInt (s - p.exclude)).mul ph.yearCoef ∧
    (refresh p m ph step s).phaseStep = step ∧ (refresh p m ph step s).truncated = m.truncated := by
  unfold refresh nextPhaseProvisions
  simp [hne]

/-- non-vacuity: a concrete steady minter (phase of 10 blocks, provisions 1234.5 tokens) -/
example : Steady { blocksPerYear := 20, exclude := 0, phases := [⟨⟨PREC / 10⟩, ⟨PREC / 2⟩⟩] }
    ⟨⟨PREC / 10⟩, ⟨PREC / 2⟩⟩ 1
    { inflation := ⟨PREC / 10⟩, phaseStep := 1, phaseProvisions := ⟨1234 * PREC + PREC / 2⟩, truncated := ⟨0⟩ } := by
  refine ⟨rfl, rfl, by decide, by decide, by decide, by decide⟩

end Sge.Mint
