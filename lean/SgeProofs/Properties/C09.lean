/-
  C09  Withdrawals are safe and go to the depositor; delegated actions respect grants.
-/
import SgeProofs.Lemmas.CoreFrame
namespace Sge.Core
open Sge

/-- what `useGrant` guarantees: a live grant granter→grantee with enough limit existed, and afterwards the grant
    is reduced by exactly the amount (deleted when it reaches zero); nothing else of the state changes -/
theorem useGrant_spec {s s' : State} {g e k : Nat} {x : Int} (h : useGrant s g e k x = some s') :
    ∃ gr, findGrant s g e k = some gr ∧ gr.expired s.time = false ∧ x ≤ gr.limit ∧
      s' = (if gr.limit - x = 0 then dropGrant s g e k
            else { (dropGrant s g e k) with grants := (dropGrant s g e k).grants ++ [{ gr with limit := gr.limit - x }] }) := by
  unfold useGrant at h
  simp only [bind, Option.bind_eq_some_iff, pure, Option.some.injEq] at h
  obtain ⟨gr, hg, _, h1, _, h2, _, _, rfl⟩ := h
  have h1 := chk_some h1; have h2 := chk_some h2
  refine ⟨gr, hg, by simpa using h1, by simp at h2; omega, rfl⟩

/-- a grant that is used only in part is saved again, which authz refuses unless its expiration lies strictly after
    the block time: at exactly the expiry time a delegated action succeeds only if it uses the grant up -/
theorem useGrant_partial_needs_future_expiry {s s' : State} {g e k : Nat} {x : Int} (h : useGrant s g e k x = some s') :
    ∃ gr, findGrant s g e k = some gr ∧ (gr.limit - x = 0 ∨ gr.resavable s.time = true) := by
  unfold useGrant at h
  simp only [bind, Option.bind_eq_some_iff, pure, Option.some.injEq] at h
  obtain ⟨gr, hg, _, _, _, _, _, h3, rfl⟩ := h
  have h3 := chk_some h3
  refine ⟨gr, hg, ?_⟩
  simpa using h3

theorem maxWithdraw_eq (p : Part) : p.maxWithdraw = p.crl - maxI 0 p.crMaxLoss := by
  unfold Part.maxWithdraw maxI
  split <;> split <;> omega

theorem withdrawable_spec {mode : Nat} {mx a w : Int} (h : withdrawable mode mx a = some w) :
    (mode = WM_FULL ∧ w = mx ∧ 0 < mx) ∨ (mode = WM_PARTIAL ∧ w = a ∧ a ≤ mx) := by
  unfold withdrawable at h
  split at h
  · rename_i hf
    split at h
    · cases h
    · simp only [Option.some.injEq] at h
      exact Or.inl ⟨by simpa using hf, h.symm, by omega⟩
  · split at h
    · rename_i hp
      split at h
      · cases h
      · simp only [Option.some.injEq] at h
        exact Or.inr ⟨by simpa using hp, h.symm, by omega⟩
    · cases h

/-- C09.a  A withdrawal succeeds only if: the participation exists, is not settled, is still in its first round,
    belongs to the depositor the message acts for; the signer is that depositor, or the ticket names the
    depositor and the depositor's live withdraw grant to the signer covers the amount; the amount is positive
    and at most the liquidity not needed to cover the worst-case loss of the current round; the number of
    withdrawals of the deposit is below the maximum; and the only bank movement is pool → depositor. -/
theorem c09_withdraw_requires {s s' : State} {c : Nat} {tk : Tk} {m i md : Nat} {a : Int} {pd : Nat}
    (h : houseWithdrawO s c tk m i md a pd = some s') :
    let depositor := if pd != 0 then pd else c
    tk.ok = true ∧ tk.kycOk depositor = true ∧
    ∃ (b : Book) (p : Part) (d : Deposit) (w : Int),
      getBook s m = some b ∧ b.getPart i = some p ∧ lookup Deposit.key [depositor, m, i] s.deposits = some d ∧
      p.addr = depositor ∧ p.isSettled = false ∧ d.wcount < s.params.houseMaxW ∧
      0 < w ∧ w ≤ p.crl - maxI 0 p.crMaxLoss ∧ (md = WM_PARTIAL → w = a) ∧
      (pd ≠ 0 → ∃ gr, findGrant s depositor c 1 = some gr ∧ gr.expired s.time = false ∧ w ≤ gr.limit) ∧
      ∃ s1, s1.bal = s.bal ∧ bankSend s1 ACC_POOL depositor w = some { s1 with bal := s'.bal } := by
  intro depositor
  unfold houseWithdrawO at h
  simp only [bind, Option.bind_eq_some_iff, pure, Option.some.injEq] at h
  obtain ⟨_, h0, _, _, _, h2, _, h3, _, h4, d, hd, b, hb, _, h5, w, hw, s1, h1, p, hp, s2, h2s, b', _, rfl⟩ := h
  have h0 := chk_some h0; have h2 := chk_some h2; have h3 := chk_some h3; have h4 := chk_some h4; have h5 := chk_some h5
  -- facts from CalcWithdrawalAmount
  have hcw : p.addr = depositor ∧ p.isSettled = false ∧ 0 < w ∧ w ≤ p.crl - maxI 0 p.crMaxLoss ∧ (md = WM_PARTIAL → w = a) := by
    unfold calcWithdrawal at hw
    simp only [bind, Option.bind_eq_some_iff] at hw
    obtain ⟨p', hp', _, c1, _, c2, e0, _, _, _, _, _, hwd⟩ := hw
    rw [hp] at hp'; cases hp'
    have c1 := chk_some c1; have c2 := chk_some c2
    have haddr : p.addr = depositor := by
      have : p.addr = (if (pd != 0) = true then pd else c) := by simpa using c2
      exact this
    have hset : p.isSettled = false := by simpa using c1
    rw [maxWithdraw_eq] at hwd
    rcases withdrawable_spec hwd with ⟨hm, hw1, hw2⟩ | ⟨hm, hw1, hw2⟩
    · refine ⟨haddr, hset, by omega, by omega, ?_⟩
      intro hm'; rw [hm'] at hm; cases hm
    · refine ⟨haddr, hset, ?_, by omega, fun _ => hw1⟩
      simp [hm] at h2; omega
  obtain ⟨haddr, hset, hpos, hbound, hpart⟩ := hcw
  refine ⟨h3, h4, b, p, d, w, hb, hp, hd, haddr, hset, by simpa using h5, hpos, hbound, hpart, ?_, ?_⟩
  · intro hpd
    have hon : (pd != 0) = true := by simpa using hpd
    unfold grantStep at h1
    simp only [hon, if_true] at h1
    obtain ⟨gr, hg, he, hl, _⟩ := useGrant_spec h1
    have hd' : depositor = pd := by show (if (pd != 0) = true then pd else c) = pd; simp [hon]
    rw [hd']
    exact ⟨gr, hg, he, hl⟩
  · obtain ⟨_, rfl⟩ := grantStep_shape h1
    obtain ⟨bal', ht, rfl⟩ := bankSend_shape h2s
    refine ⟨_, rfl, ?_⟩
    rw [← haddr]
    unfold bankSend
    simp only at ht
    rw [ht]
    rfl

/-- C09.b  A deposit made on behalf of another account requires the depositor's live deposit grant to the signer
    covering the amount, consumes exactly the deposited amount from it, and debits the depositor (not the
    signer): both bank transfers leave from the depositor. The new participation belongs to the depositor. -/
theorem c09_deposit_requires {s : State} {r : State × Nat} {c : Nat} {tk : Tk} {m : Nat} {a : Int} {pd : Nat}
    (h : houseDepositO s c tk m a pd = some r) :
    let depositor := depositFor c pd
    tk.ok = true ∧ tk.kycOk depositor = true ∧ s.params.houseMin ≤ a ∧
    (depositor ≠ c → ∃ gr, findGrant s depositor c 0 = some gr ∧ gr.expired s.time = false ∧ a ≤ gr.limit) ∧
    ∃ (s1 s2 s3 : State) (fee : Int), fee = (s.params.houseFee.mulInt a).roundInt ∧
      grantStep s (depositor != c) depositor c 0 a = some s1 ∧
      bankSend s1 depositor ACC_POOL (a - fee) = some s2 ∧ bankSend s2 depositor ACC_HOUSEFEE fee = some s3 ∧
      r.1.bal = s3.bal ∧
      ∃ b, getBook s1 m = some b ∧ b.partCount < s.params.obMaxPart ∧ r.2 = b.partCount + 1 := by
  intro depositor
  unfold houseDepositO at h
  simp only [bind, Option.bind_eq_some_iff, pure, Option.some.injEq] at h
  obtain ⟨_, _, _, h1, _, h2, s1, hs1, _, h3, mk, _, b, hb, _, _, _, _, _, h6, _, _, s2, hs2, s3, hs3, rfl⟩ := h
  have h1 := chk_some h1; have h2 := chk_some h2; have h3 := chk_some h3; have h6 := chk_some h6
  refine ⟨h2, h3, by simpa using h1, ?_, s1, s2, s3, _, rfl, hs1, hs2, hs3, rfl, b, hb, by simpa using h6, rfl⟩
  intro hne
  have hon : (depositFor c pd != c) = true := by simpa using hne
  unfold grantStep at hs1
  simp only [hon, if_true] at hs1
  obtain ⟨gr, hg, he, hl, _⟩ := useGrant_spec hs1
  exact ⟨gr, hg, he, hl⟩

/-- C09.c  A house message that fails changes nothing (grants included: a consumed grant is rolled back). -/
theorem c09_failed_house_msg_no_effect (s : State) (c : Nat) (tk : Tk) (m i md : Nat) (a : Int) (pd : Nat) :
    ((houseWithdraw s c tk m i md a pd).2 = .err → (houseWithdraw s c tk m i md a pd).1 = s) ∧
    ((houseDeposit s c tk m a pd).2.1 = .err → (houseDeposit s c tk m a pd).1 = s) := by
  constructor
  · intro h
    unfold houseWithdraw commit at *
    cases hw : houseWithdrawO s c tk m i md a pd with
    | none => rfl
    | some s' => simp [hw] at h
  · intro h
    unfold houseDeposit at *
    cases hw : houseDepositO s c tk m a pd with
    | none => rfl
    | some s' => simp [hw] at h

end Sge.Core
