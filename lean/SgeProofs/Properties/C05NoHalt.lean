/-
  C05, the no-halt clause as a WHOLE-HISTORY theorem  "begin-block and end-block processing never aborts".

  `c05_no_halt_partial` (C05Bound.lean) proves the clause for states that are `Solvent`. Here the solvency hypothesis is
  discharged from the whole-history invariants, under the single ghost hypothesis of C02, `NonNegParts` ("no backing
  part of any bet has a negative stake", the exclusion of known finding KF-C03-negative-part).

  FINDING about the proof artefact (not about the code): `Solvent` itself does NOT follow.
  `c05_solvent_not_invariant` is a history of valid transactions without any negative part after which the state is
  not `Solvent`, although the end-block does not halt. `Solvent` asks every participation to cover the profit it
  still owes on the declared winner by liquidity + REALISED profit; the order book only guarantees (C02) cover by
  liquidity + stakes received on the other outcomes, and the stakes of losing bets that are not settled yet are not
  realised. Over two rounds a participation with liquidity 10 can promise 20 on an outcome, covered by 20 of stakes
  on the other outcome.

  What is proved instead:
    * `nh_Sol` (NoHaltSolventDefs.lean), WEAK solvency: the stakes of the unsettled losing bets of a declared market
      count as cover. `Solvent → nh_Sol` (`nh_sol_of_solvent`).
    * c05_no_halt_weak              `c05_no_halt_partial` with `nh_Sol` in place of `Solvent`: in a reachable,
                                    well-formed, weakly solvent state the end-block does not halt and the next state
                                    is again reachable, well formed and weakly solvent. The pool covers every pay-out
                                    because what it holds on account of a book — what the participations are owed
                                    plus the open stakes on the market (`nh_bookDue`) — covers the claims of all
                                    unsettled bets on that book (`nh_bookDue_ge`), book by book (`nh_pool_ge`).
    * c05_weak_solvent_of_invariants  `nh_Sol` FOLLOWS from the whole-history invariants `SInv` (C01), `ObInv` (C10),
                                    `ApInv` (realised profit), `ColSt` (C02 collateral), the record facts `nh_BetsOk` /
                                    `nh_PartFeeOk` (fees ≥ 0; a bet without negative stake has no negative promised
                                    profit) and `NonNegParts`. The cover inequality is an EQUATION bet by bet
                                    (`nh_cover_of_invariants`) plus the collateral inequality.
    * c05_no_halt_of_nonneg_parts   THE WHOLE-HISTORY THEOREM: from the empty chain (custody accounts empty, valid
                                    parameters), after any history of operations signed by user accounts whose final
                                    state has no negative backing part, the next end-block does not halt.
    * c05_no_halt_history_of_nonneg_parts   the same for every end-block INSIDE the history: `noHalt s0 ops = true`
                                    (`NonNegParts` is monotone, `c02_nonneg_parts_monotone`), and the final state is
                                    reachable, well formed and weakly solvent.
    * c05_settles_within_of_nonneg_parts   with that, the bound of C05 (`c05_settles_within`) holds for every history
                                    without a negative part: no `noHalt` / `solventAtEnds` hypothesis is left.
-/
import SgeProofs.Lemmas.NoHaltSolventBlock
import SgeProofs.Lemmas.NoHaltSolventCover
import SgeProofs.Lemmas.NoHaltSolventBets
import SgeProofs.Properties.C05Bound
import SgeProofs.Properties.C02Reach
namespace Sge.Core
open Sge Sge.Genesis

-- ---------------------------------------------------------------------------------------------
-- one end-block

/-- C05.n  (generalises C05.k, `c05_no_halt_partial`: `Solvent s → nh_Sol s`.)  In a reachable, well-formed state that
    is WEAKLY solvent — (1) as in `Solvent`; (2) every unpaid participation has a non-negative fee and its liquidity
    plus realised profit PLUS the stakes of the unsettled losing bets on its declared market that it backs covers
    the profit it still owes to the unsettled bets on the declared winner — the end-block does not halt, and the
    state after it is again reachable, well formed and weakly solvent. -/
theorem c05_no_halt_weak {s : State} (hR : Reach s) (hH : HInv s) (hV : nh_Sol s) :
    endBlockO s ≠ none ∧ (step s .endBlock).2 = .ok ∧
    Reach (step s .endBlock).1 ∧ HInv (step s .endBlock).1 ∧ nh_Sol (step s .endBlock).1 := by
  obtain ⟨s', he, hS'⟩ := nh_endBlockO_ok ⟨hR, hH, hV⟩
  have hstep : step s .endBlock = (s', .ok) := by
    show endBlock s = _
    unfold endBlock
    rw [he]
  rw [hstep]
  exact ⟨by rw [he]; exact (fun e => nomatch e), rfl, hS'.reach, hS'.wf, hS'.solv⟩

-- ---------------------------------------------------------------------------------------------
-- weak solvency follows from the whole-history invariants

/-- C05.o  Weak solvency is a CONSEQUENCE of the whole-history invariants and the ghost hypothesis `NonNegParts`:
    the settlement facts `SInv` (C01), the C10 sum equations `ObInv`, the realised-profit equation `ApInv`, the
    collateral bundle `ColSt` (C02), and the record facts `nh_BetsOk`, `nh_PartFeeOk`. -/
theorem c05_weak_solvent_of_invariants {s : State} (hS : SInv s) (hI : ObInv s) (hA : ApInv s) (hC : ColSt s)
    (hB : nh_BetsOk s) (hF : nh_PartFeeOk s) (hnn : NonNegParts s) : nh_Sol s := by
  refine ⟨?_, ?_⟩
  · intro x hx _
    obtain ⟨f1, f2⟩ := hB x hx
    have hb : ∀ f ∈ x.fulfs, 0 ≤ f.bet := hnn x hx
    exact ⟨f1, fun f hf => ⟨hb f hf, f2 hb f hf⟩⟩
  · intro b hb p hp _
    exact ⟨hF b hb p hp, nh_cover_of_invariants' hI hA hC hS b hb p hp⟩

/-- weak solvency of the state after a history from the empty chain without a negative backing part -/
theorem nh_sol_run (p : Params) (bal : List (Nat × Int)) (h t : Nat) (ops : List Op)
    (h0 : getBal bal ACC_POOL = 0 ∧ getBal bal ACC_BETFEE = 0 ∧ getBal bal ACC_HOUSEFEE = 0)
    (hp : p.valid = true) (hwf : ∀ op ∈ ops, op.userSigned') :
    NonNegParts (run (initState p bal h t) ops) → nh_Sol (run (initState p bal h t) ops) := by
  intro hnn
  have hS : SettleInv (run (initState p bal h t) ops) := run_settleInv _ ops (settleInv_init p bal h t h0) hwf
  obtain ⟨hB, hF⟩ := nh_run_betsOk p bal h t ops hp
  exact c05_weak_solvent_of_invariants hS.toSInv (c10_invariant p bal h t ops)
    (run_ap _ ops (obInv_init p bal h t) (apInv_init p bal h t)) (c02_collateral_partial p bal h t ops hnn) hB hF hnn

-- ---------------------------------------------------------------------------------------------
-- whole histories

theorem nh_noHalt_append : ∀ (a : List Op) (s : State) (b : List Op),
    noHalt s (a ++ b) = (noHalt s a && noHalt (run s a) b) := by
  intro a
  induction a with
  | nil => intro s b; rfl
  | cons op rest ih =>
    intro s b
    show ((step s op).2 != .halt && noHalt (step s op).1 (rest ++ b)) = _
    rw [ih]
    show _ = (((step s op).2 != .halt && noHalt (step s op).1 rest) && noHalt (run (step s op).1 rest) b)
    rw [Bool.and_assoc]

/-- C05.p  THE NO-HALT CLAUSE OVER WHOLE HISTORIES, all end-blocks of the history. From the empty chain (custody
    accounts empty, valid parameters), through ANY history of operations signed by user accounts whose final state has
    no backing part with a negative stake (then no earlier state had one: `c02_nonneg_parts_monotone`), NO end-block
    of the history halts; the final state is reachable, well formed and weakly solvent. The only exclusion is the one
    of C02: histories in which some wager produced a backing part with negative stake (KF-C03-negative-part). -/
theorem c05_no_halt_history_of_nonneg_parts (p : Params) (bal : List (Nat × Int)) (h t : Nat) (ops : List Op)
    (h0 : getBal bal ACC_POOL = 0 ∧ getBal bal ACC_BETFEE = 0 ∧ getBal bal ACC_HOUSEFEE = 0)
    (hp : p.valid = true) (hwf : ∀ op ∈ ops, op.userSigned') :
    let s := run (initState p bal h t) ops
    NonNegParts s → noHalt (initState p bal h t) ops = true ∧ Reach s ∧ HInv s ∧ nh_Sol s := by
  intro s hnn
  have key : ∀ (post pre : List Op), (∀ op ∈ pre ++ post, op.userSigned') →
      NonNegParts (run (initState p bal h t) (pre ++ post)) →
      Reach (run (initState p bal h t) pre) → HInv (run (initState p bal h t) pre) →
      noHalt (run (initState p bal h t) pre) post = true ∧ Reach (run (initState p bal h t) (pre ++ post)) ∧
        HInv (run (initState p bal h t) (pre ++ post)) := by
    intro post
    induction post with
    | nil => intro pre _ _ hR hH; rw [List.append_nil]; exact ⟨rfl, hR, hH⟩
    | cons op rest ih =>
      intro pre hwf hnn a2 a3
      have hwf1 : ∀ o ∈ pre, o.userSigned' := fun o ho => hwf o (List.mem_append_left _ ho)
      have hwf2 : op.userSigned' := hwf op (List.mem_append_right _ (List.mem_cons_self ..))
      have hnn1 := c02_nonneg_parts_monotone p bal h t pre (op :: rest) hnn
      have hV := nh_sol_run p bal h t pre h0 hp hwf1 hnn1
      have hrun : run (initState p bal h t) (pre ++ [op]) = (step (run (initState p bal h t) pre) op).1 := by
        rw [run_split]; rfl
      have hstep : (step (run (initState p bal h t) pre) op).2 ≠ .halt ∧ HInv (step (run (initState p bal h t) pre) op).1 := by
        by_cases hend : op = .endBlock
        · subst hend
          obtain ⟨_, b2, _, b4, _⟩ := c05_no_halt_weak a2 a3 hV
          exact ⟨by rw [b2]; exact (fun e => nomatch e), b4⟩
        · exact ⟨step_msg_not_halt _ op hend, step_hinv_msg _ op a2.inv a3 hend⟩
      have hassoc : pre ++ op :: rest = (pre ++ [op]) ++ rest := by simp
      rw [hassoc] at hwf hnn ⊢
      obtain ⟨c1, c2, c3⟩ := ih (pre ++ [op]) hwf hnn (by rw [hrun]; exact step_reach _ op a2 hwf2) (by rw [hrun]; exact hstep.2)
      refine ⟨?_, c2, c3⟩
      rw [hrun] at c1
      simp only [noHalt, Bool.and_eq_true, bne_iff_ne, ne_eq]
      exact ⟨hstep.1, c1⟩
  obtain ⟨k1, k2, k3⟩ := key ops [] (by simpa using hwf) (by simpa using hnn) (reach_init p bal h t h0) (hinv_init p bal h t)
  simp only [List.nil_append] at k2 k3
  exact ⟨k1, k2, k3, nh_sol_run p bal h t ops h0 hp hwf hnn⟩

/-- C05.q  THE NO-HALT CLAUSE OVER WHOLE HISTORIES, the next end-block. After any history from the empty chain
    (custody accounts empty, valid parameters, operations signed by user accounts) whose final state has no backing
    part with a negative stake, end-block processing does not abort. (The core modules have no begin-block work:
    `newBlock` only sets height and time; no other operation can halt, `step_msg_not_halt`.) -/
theorem c05_no_halt_of_nonneg_parts (p : Params) (bal : List (Nat × Int)) (h t : Nat) (ops : List Op)
    (h0 : getBal bal ACC_POOL = 0 ∧ getBal bal ACC_BETFEE = 0 ∧ getBal bal ACC_HOUSEFEE = 0)
    (hp : p.valid = true) (hwf : ∀ op ∈ ops, op.userSigned') :
    let s := run (initState p bal h t) ops
    NonNegParts s → (step s .endBlock).2 ≠ .halt := by
  intro s hnn
  obtain ⟨_, hR, hH, hV⟩ := c05_no_halt_history_of_nonneg_parts p bal h t ops h0 hp hwf hnn
  obtain ⟨_, b2, _⟩ := c05_no_halt_weak hR hH hV
  rw [b2]
  exact fun e => nomatch e

/-- C05.r  The two halves of C05 together for histories without a negative backing part: after any history `pre` and
    any continuation `ops` (signed by user accounts, batch sizes kept at least `N`, `M`) with at least
    ⌊W/N⌋ + ⌊P/M⌋ + 1 end-blocks, no end-block has halted and every market that was queued after `pre` is
    completely settled. Compared with `c05_settles_within_solvent` the hypotheses `solventAtEnds` are replaced by the
    ghost hypothesis `NonNegParts` on the final state. -/
theorem c05_settles_within_of_nonneg_parts (p : Params) (bal : List (Nat × Int)) (h t : Nat)
    (h0 : getBal bal ACC_POOL = 0 ∧ getBal bal ACC_BETFEE = 0 ∧ getBal bal ACC_HOUSEFEE = 0) (hp : p.valid = true)
    (pre ops : List Op) (hpre : signedOk pre = true) (hops : signedOk ops = true) (k N M : Nat) (hN : 0 < N) (hM : 0 < M) :
    let s0 := initState p bal h t
    let s := run s0 pre
    NonNegParts (run s0 (pre ++ ops)) → N ≤ s.params.betBatch → M ≤ s.params.obBatch →
    batchAtLeast N M ops = true → settleBound N M s k ≤ endBlocks ops →
    noHalt s0 (pre ++ ops) = true ∧
    ∀ u ∈ s.obqueue ++ s.mqueue.take k, FullySettled (run s0 (pre ++ ops)) u := by
  intro s0 s hnn hNb hMb hba hcnt
  have hwf : ∀ op ∈ pre ++ ops, op.userSigned' := by
    intro op hop
    rcases List.mem_append.mp hop with h' | h'
    · exact signedOk_spec pre hpre op h'
    · exact signedOk_spec ops hops op h'
  obtain ⟨n, _, _, _⟩ := c05_no_halt_history_of_nonneg_parts p bal h t (pre ++ ops) h0 hp hwf hnn
  refine ⟨n, ?_⟩
  rw [nh_noHalt_append, Bool.and_eq_true] at n
  have hR : Reach s := run_reach s0 pre (reach_init p bal h t h0) (signedOk_spec pre hpre)
  rw [run_split]
  exact c05_settles_within s hR k N M hN hM hNb hMb ops hops n.2 hba hcnt

-- ---------------------------------------------------------------------------------------------
-- `Solvent` is not an invariant of histories without negative parts

def nhTk : Tk := { ok := true, kycIgnore := true, kycApproved := false, kycId := 0 }
def nhPl (o : Nat) : WagerPayload :=
  { market := 1, odds := o, oddsVal := some ⟨2 * PREC⟩, mult := ⟨PREC⟩, allOdds := [(11, ⟨PREC⟩), (12, ⟨PREC⟩)] }
def nhParams : Params := { betMin := 2, betFee := 1, houseMin := 2, houseFee := ⟨0⟩, houseMaxW := 2, obThreshold := 0 }
def nhBal : List (Nat × Int) := [(7, 1000), (8, 1000), (9, 0)]
/-- one participation with liquidity 10; two rounds of a bet of 10 at odds 2 on outcome 11 and one on outcome 12
    (after each pair the participation is re-queued: its worst-case loss is 0); outcome 12 is declared -/
def nhOps : List Op :=
  [.marketAdd 9 nhTk 1 50 500 [11, 12] MS_ACTIVE, .deposit 7 nhTk 1 10 0,
   .wager 8 nhTk 71 11 (nhPl 11), .wager 8 nhTk 72 11 (nhPl 12),
   .wager 8 nhTk 73 11 (nhPl 11), .wager 8 nhTk 74 11 (nhPl 12),
   .marketResolve nhTk 1 60 MS_DECLARED [12]]

/-- FINDING about the proof artefact `Solvent` (C05Bound.lean / SettleNoHalt.lean), proved on the model of the code
    as it is: `Solvent` does NOT follow from the whole-history invariants and `NonNegParts`. Valid parameters, a
    history of valid transactions signed by user accounts, every backing part is (stake 10, profit 10) — no negative
    part. After the declaration of outcome 12 the participation (liquidity 10, realised profit 0) still owes
    10 + 10 = 20 to the two unsettled bets on outcome 12: 20 > 10 + 0, the state is not `Solvent`
    (`solventB = false`, and `Solvent` fails at clause 2). It is covered by the 20 of stakes of the two unsettled
    LOSING bets on outcome 11 — the state is weakly solvent — and the end-block does NOT halt: it settles the four
    bets and pays the participation 10. So the hypothesis of `c05_no_halt_partial` is not necessary for its
    conclusion and is not implied by the absence of negative parts; `c05_no_halt_weak` covers this state. -/
theorem c05_solvent_not_invariant :
    let s := run (initState nhParams nhBal 1 100) nhOps
    nhParams.valid = true ∧ signedOk nhOps = true ∧
    s.bets.map (fun b => (b.odds, b.fulfs.map (fun f => (f.idx, f.bet, f.profit)))) =
      [(11, [(1, 10, 10)]), (12, [(1, 10, 10)]), (11, [(1, 10, 10)]), (12, [(1, 10, 10)])] ∧
    s.books.map (fun b => b.parts.map (fun pt => (pt.idx, pt.liq, pt.actualProfit, promisedW s b.uid pt.idx, nh_openLoss s b.uid pt.idx))) =
      [[(1, 10, 0, 20, 20)]] ∧
    solventB s = false ∧
    (step s .endBlock).2 = .ok ∧
    ((step s .endBlock).1.books.map (fun b => (b.status, b.parts.map (fun pt => (pt.idx, pt.liq, pt.actualProfit, pt.isSettled, pt.returned)))) ==
      [(OB_SETTLED, [(1, 10, 0, true, 10)])]) = true := by
  decide +kernel

theorem c05_solvent_not_invariant' : NonNegParts (run (initState nhParams nhBal 1 100) nhOps) ∧
    ¬ Solvent (run (initState nhParams nhBal 1 100) nhOps) := by
  refine ⟨by unfold NonNegParts; decide +kernel, ?_⟩
  intro hV
  have hb : ∃ b ∈ (run (initState nhParams nhBal 1 100) nhOps).books, ∃ pt ∈ b.parts, pt.isSettled = false ∧
      ¬ promisedW (run (initState nhParams nhBal 1 100) nhOps) b.uid pt.idx ≤ pt.liq + pt.actualProfit := by
    decide +kernel
  obtain ⟨b, hb, pt, hpt, hun, hlt⟩ := hb
  exact hlt (hV.partCover b hb pt hpt hun).2

-- ---------------------------------------------------------------------------------------------
-- non-vacuity

/-- the theorem applies to the history above (which is NOT covered by `c05_no_halt_partial`) -/
example : (step (run (initState nhParams nhBal 1 100) nhOps) .endBlock).2 ≠ .halt :=
  c05_no_halt_of_nonneg_parts nhParams nhBal 1 100 nhOps (by decide) (by decide)
    (signedOk_spec nhOps (by decide)) (by unfold NonNegParts; decide +kernel)

/-- a multi-bet history with several end-blocks (the history of C05Bound: two markets, four participations, four
    bets, a declaration and a cancellation, three end-blocks settling in batches of 2): no negative part, all
    hypotheses hold, and indeed no end-block halts -/
example :
    NonNegParts (run (initState (c05bInit 2).params (c05bInit 2).bal 1 100) (c05bPre ++ c05bOps)) ∧
    (c05bInit 2).params.valid = true ∧ signedOk (c05bPre ++ c05bOps) = true ∧ endBlocks (c05bPre ++ c05bOps) = 3 ∧
    noHalt (initState (c05bInit 2).params (c05bInit 2).bal 1 100) (c05bPre ++ c05bOps) = true := by
  refine ⟨by unfold NonNegParts; decide +kernel, by decide, by decide, by decide, by decide +kernel⟩

example : noHalt (initState (c05bInit 2).params (c05bInit 2).bal 1 100) (c05bPre ++ c05bOps) = true :=
  (c05_no_halt_history_of_nonneg_parts (c05bInit 2).params (c05bInit 2).bal 1 100 (c05bPre ++ c05bOps) (by decide) (by decide)
    (signedOk_spec _ (by decide)) (by unfold NonNegParts; decide +kernel)).1

/-- the excluded histories are excluded: the state of the known finding `c05_counterexample_halt` has a negative part -/
example : ¬ NonNegParts (run kf05Init kf05Ops) := by
  unfold NonNegParts
  decide +kernel

end Sge.Core
