/-
  C06  Only authentic, unexpired oracle tickets can change state, and only as signed.

  Model: `Sge.Ticket` (lean/Sge/Ticket.lean) — the verification pipeline of x/ovm at the level of what it can
  observe of a presented byte string (`Presented`), for the three ways the code selects keys:
      verifyLeader  (15 messages: market, house, bet, reward, subaccount)     keys = [vault[0]]
      verifyIndex   (ovm vote)                                                keys = [vault[VoterKeyIndex]]
      verifyAny     (ovm proposal)                                            keys = the whole vault
  Vocabulary: `ticketOK t keys now` = the token carries a valid EdDSA signature over its own header and payload
  by the key denoted by one of `keys`, and its expiry second lies strictly after the block time;
  `Readable t` = at least three segments, the segments decode, the payload fits the message's payload type.

  Every statement quantifies over ALL presented records (every combination of segment count, header, algorithm,
  claims, expiry, signature, payload), all vaults (hence every vault reachable by key rotation) and all block
  times.  The cryptography (Ed25519, base64, JSON) is a parameter of the model: which key a signature verifies
  under is a field of the record; the harness suite `ticket` ties that reading to the real handlers.

  Sections: A pipeline, B tolerated deviations from strict JWS (counter-example + `_partial`), C KYC,
  D the handlers of the core model, E the handlers of the ovm model, F the handlers of the subaccount model.
  Static companion (SgeProofs/Properties/C06Facts.lean): in the source of all 17 ticket-bearing handlers the
  verification dominates the first effect on every path.
-/
import SgeProofs.Lemmas.Ticket
import SgeProofs.Lemmas.CoreFrame
import Sge.Subaccount
namespace Sge.Ticket
open Sge.Ovm (Pem Key decode)

variable {α : Type}

/-! ## A. the pipeline accepts exactly the authentic, unexpired, readable tickets -/

/-- C06.a (leader mode)  `VerifyTicketUnmarshal` succeeds iff the ticket is signed (EdDSA) by the key that the
    first vault entry denotes, expires strictly after the block time, and is readable. -/
theorem c06_accept_iff_ticketOK_leader (vault : List Pem) (now : Int) (t : Presented α) :
    (verifyLeader vault now t).isSome = true ↔ ticketOK t (leaderKeys vault) now ∧ Readable t :=
  verifyKeys_accept_iff vault now t [] (leaderKeys vault) (by simp) (Or.inl ⟨rfl, rfl⟩)

/-- C06.a (vote)  The vote path succeeds iff the voter index is in range and the ticket is signed by the key
    registered at that index (the voter's own key), unexpired and readable. -/
theorem c06_accept_iff_ticketOK_index (vault : List Pem) (i : Nat) (now : Int) (t : Presented α) :
    (verifyIndex vault i now t).isSome = true ↔ ticketOK t (indexKeys vault i) now ∧ Readable t := by
  unfold verifyIndex indexKeys
  cases h : vault[i]? with
  | none =>
    simp only [Option.isSome_none, Bool.false_eq_true, Option.toList_none, false_iff]
    rintro ⟨⟨⟨_, p, hp, _⟩, _⟩, _⟩
    simp at hp
  | some pk =>
    have hm : pk ∈ vault := List.mem_of_getElem? h
    exact verifyKeys_accept_iff vault now t [pk] [pk] (by simpa using hm) (Or.inr ⟨by simp, by simp⟩)

/-- C06.a (proposal)  The proposal path succeeds iff the ticket is signed by any registered key, unexpired and
    readable. -/
theorem c06_accept_iff_ticketOK_any (vault : List Pem) (now : Int) (t : Presented α) :
    (verifyAny vault now t).isSome = true ↔ ticketOK t vault now ∧ Readable t := by
  unfold verifyAny
  cases vault with
  | nil =>
    have : verifyKeys ([] : List Pem) now t [] = none := by
      unfold verifyKeys
      repeat (first | rfl | split)
    simp only [this, Option.isSome_none, Bool.false_eq_true, false_iff]
    rintro ⟨⟨⟨_, p, hp, _⟩, _⟩, _⟩
    simp at hp
  | cons l rest =>
    exact verifyKeys_accept_iff (l :: rest) now t (l :: rest) (l :: rest) (fun k hk => hk) (Or.inr ⟨by simp, rfl⟩)

/-- C06.b  "only as signed": what an accepted ticket hands to the handler is the decoded payload segment that
    the signature covers — nothing else of the string reaches the handler.  In particular two accepted tickets
    with the same payload give the handler the same input (whatever their header, expiry, encoding, extra
    segments, or signer among the allowed keys). -/
theorem c06_effect_is_payload (vault vault' : List Pem) (now now' : Int) (t t' : Presented α) (keys keys' : List Pem)
    (a a' : α) (h : verifyKeys vault now t keys = some a) (h' : verifyKeys vault' now' t' keys' = some a')
    (hp : t.payload = t'.payload) : a = a' := by
  have h1 := verifyKeys_payload h
  have h2 := verifyKeys_payload h'
  rw [hp, h2] at h1
  exact (Option.some.inj h1).symm

/-- what the handler receives from an accepted ticket is the decoded payload segment of that very ticket -/
theorem c06_accepted_is_signed_payload {vault : List Pem} {now : Int} {t : Presented α} {keys : List Pem} {a : α}
    (h : verifyKeys vault now t keys = some a) : t.payload = some a := verifyKeys_payload h

/-- C06.c  The expiry comparison is strict: `exp = block time` is rejected (in every mode). -/
theorem c06_exp_strict (vault : List Pem) (now : Int) (t : Presented α) (keys : List Pem) (h : t.exp = some now) :
    verifyKeys vault now t keys = none := by
  unfold verifyKeys Presented.unexpired
  simp [h]

/-- a past expiry is rejected -/
theorem c06_exp_past (vault : List Pem) (now e : Int) (t : Presented α) (keys : List Pem) (h : t.exp = some e)
    (hp : e ≤ now) : verifyKeys vault now t keys = none := by
  unfold verifyKeys Presented.unexpired
  have : ¬ now < e := by omega
  simp [h, this]

/-- a missing expiry is rejected -/
theorem c06_exp_required (vault : List Pem) (now : Int) (t : Presented α) (keys : List Pem) (h : t.exp = none) :
    verifyKeys vault now t keys = none := by
  unfold verifyKeys Presented.wellFormed
  simp [h]

/-- `exp.After(blockTime)` with a block time carrying nanoseconds is the comparison of the model with the block
    time in whole seconds (`ctx.BlockTime().Unix()`): the expiry is a whole number of seconds. -/
theorem expiry_nanos (e ns : Int) : afterNanos e ns = decide (ns / 1000000000 < e) := by
  unfold afterNanos
  by_cases h : ns < e * 1000000000
  · have : ns / 1000000000 < e := by omega
    simp [h, this]
  · have : ¬ ns / 1000000000 < e := by omega
    simp [h, this]

/-- C06.d  Another algorithm is rejected, whatever the signature bytes are (`none`, HS256 keyed with the public
    PEM, ES256, RS256, an unknown name, and also a correct Ed25519 signature under a non-EdDSA header). -/
theorem c06_wrong_alg_rejected (vault : List Pem) (now : Int) (t : Presented α) (keys : List Pem)
    (h : t.alg ≠ .EdDSA) : verifyKeys vault now t keys = none := by
  cases hr : verifyKeys vault now t keys with
  | none => rfl
  | some a =>
    obtain ⟨_, _, _, _, hv⟩ := (verifyKeys_eq_some vault now t keys a).1 hr
    rcases hv with ⟨_, l, _, _, hl⟩ | ⟨_, k, _, hl⟩
    · exact absurd ((verifies_iff t l).1 hl).2.1 h
    · exact absurd ((verifies_iff t k).1 hl).2.1 h

/-- C06.e  A ticket signed by a key other than the leader's (a registered non-leader key, a removed key, a
    foreign key) or not signed at all is rejected by the 15 leader-verified messages. -/
theorem c06_non_leader_rejected (l : Pem) (rest : List Pem) (now : Int) (t : Presented α)
    (h : t.sigKey = none ∨ t.sigKey ≠ decode l) : verifyLeader (l :: rest) now t = none := by
  cases hr : verifyLeader (l :: rest) now t with
  | none => rfl
  | some a =>
    have hs : (verifyLeader (l :: rest) now t).isSome = true := by simp [hr]
    obtain ⟨⟨⟨_, p, hp, k, hd, hk⟩, _⟩, _⟩ := (c06_accept_iff_ticketOK_leader (l :: rest) now t).1 hs
    have : p = l := by simpa [leaderKeys] using hp
    subst this
    rcases h with h | h
    · rw [h] at hk; cases hk
    · exact absurd (hk.trans hd.symm) h

/-- C06.e'  A ticket whose signature is by a key that no vault entry denotes (removed by a rotation, or never
    registered) is rejected in every mode — whatever list of vault strings the handler passes. -/
theorem c06_unregistered_key_rejected (vault : List Pem) (now : Int) (t : Presented α) (keys : List Pem)
    (h : ∀ p ∈ vault, decode p = none ∨ t.sigKey ≠ decode p) : verifyKeys vault now t keys = none := by
  cases hr : verifyKeys vault now t keys with
  | none => rfl
  | some a =>
    obtain ⟨_, _, hreg, _, hv⟩ := (verifyKeys_eq_some vault now t keys a).1 hr
    have key : ∀ p ∈ vault, t.verifies p = true → False := by
      intro p hp hvp
      obtain ⟨_, _, _, k, hd, hk⟩ := (verifies_iff t p).1 hvp
      rcases h p hp with h | h
      · rw [h] at hd; cases hd
      · exact h (hk.trans hd.symm)
    rcases hv with ⟨_, l, rest, hvault, hl⟩ | ⟨_, k, hk, hl⟩
    · exact (key l (by simp [hvault]) hl).elim
    · exact (key k (hreg k hk) hl).elim

/-- C06.f  Altered content: a token whose signature does not verify over its own header and payload under any
    key (tampered header, payload or signature; signature of other content; empty signature) is rejected. -/
theorem c06_altered_rejected (vault : List Pem) (now : Int) (t : Presented α) (keys : List Pem)
    (h : t.sigKey = none) : verifyKeys vault now t keys = none :=
  c06_unregistered_key_rejected vault now t keys (fun p _ => by
    cases hd : decode p with
    | none => exact Or.inl rfl
    | some k => exact Or.inr (by rw [h]; simp))

/-- C06.g  Strings that cannot be read are rejected: fewer than three segments, undecodable header, claims or
    signature segment, or a payload that does not fit the message. -/
theorem c06_unreadable_rejected (vault : List Pem) (now : Int) (t : Presented α) (keys : List Pem)
    (h : t.parts < 3 ∨ t.headerOk = false ∨ t.claimsOk = false ∨ t.sigB64 = false ∨ t.payload = none) :
    verifyKeys vault now t keys = none := by
  cases hr : verifyKeys vault now t keys with
  | none => rfl
  | some a =>
    obtain ⟨hw, _, _, hp, hv⟩ := (verifyKeys_eq_some vault now t keys a).1 hr
    obtain ⟨h3, hc, _⟩ := (wellFormed_iff t).1 hw
    have hvv : ∃ p, t.verifies p = true := by
      rcases hv with ⟨_, l, _, _, hl⟩ | ⟨_, k, _, hl⟩
      · exact ⟨l, hl⟩
      · exact ⟨k, hl⟩
    obtain ⟨p, hpv⟩ := hvv
    obtain ⟨hh, _, hs, _⟩ := (verifies_iff t p).1 hpv
    rcases h with h | h | h | h | h
    · omega
    · rw [h] at hh; cases hh
    · rw [h] at hc; cases hc
    · rw [h] at hs; cases hs
    · rw [h] at hp; cases hp

/-- the hypotheses of C06.a are satisfiable: a three-segment EdDSA token signed by the leader, one second to live -/
example : (verifyLeader [8, 16, 24, 32] 100
    ({ parts := 3, headerOk := true, alg := .EdDSA, claimsOk := true, exp := some 101, sigB64 := true,
       sigKey := some 1, payload := some () } : Presented Unit)).isSome = true := by decide

/-! ## B. what the pipeline tolerates beyond a strict compact JWS

  Full statement (FALSE of the code as it is):
      theorem c06_accept_strict : (verifyKeys vault now t keys).isSome → StrictJWS t
  i.e. "only strings that are exactly `header.payload.signature` with a canonically encoded signature are
  accepted".  The code drops every segment after the third (`len(ts) < 3` is the only length check, and the
  token handed to the JWT parser is re-assembled from segments 0..2), and golang-jwt decodes the signature with
  the non-strict base64 decoder (stray trailing bits and CR/LF are ignored).  Neither changes what is signed: the
  effect is still determined by the signed payload (C06.b) and the signature must still verify (C06.a), so the
  property as stated is not violated; the tolerated strings are exactly those below. -/

/-- counter-example 1: a valid token with a fourth segment appended is accepted -/
theorem c06_accept_strict_counterexample_extra_segment :
    ∃ (vault : List Pem) (now : Int) (t : Presented Unit),
      (verifyLeader vault now t).isSome = true ∧ t.parts = 4 ∧ ¬ StrictJWS t :=
  ⟨[8, 16, 24, 32], 100,
   { parts := 4, headerOk := true, alg := .EdDSA, claimsOk := true, exp := some 101, sigB64 := true,
     sigKey := some 1, payload := some () }, by decide, rfl, by unfold StrictJWS; simp⟩

/-- counter-example 2: a valid token whose signature segment is a non-canonical encoding of the same bytes is
    accepted -/
theorem c06_accept_strict_counterexample_sig_encoding :
    ∃ (vault : List Pem) (now : Int) (t : Presented Unit),
      (verifyLeader vault now t).isSome = true ∧ t.parts = 3 ∧ t.sigCanonical = false :=
  ⟨[8, 16, 24, 32], 100,
   { parts := 3, headerOk := true, alg := .EdDSA, claimsOk := true, exp := some 101, sigB64 := true,
     sigKey := some 1, payload := some (), sigCanonical := false }, by decide, rfl, rfl⟩

/-- the provable part: an accepted string has at least three segments, and the verdict depends on nothing but
    the first three segments' observables — not on the segment count beyond three, the signature's encoding, or
    the `nbf` / `iat` claims (which are never validated: a token "not valid before" a future time is accepted) -/
theorem c06_accept_strict_partial (vault : List Pem) (now : Int) (t : Presented α) (keys : List Pem)
    (n : Nat) (canon : Bool) (nbf iat : Option Int) (hn : 3 ≤ n) (ht : 3 ≤ t.parts) :
    verifyKeys vault now { t with parts := n, sigCanonical := canon, nbf := nbf, iat := iat } keys =
      verifyKeys vault now t keys := by
  unfold verifyKeys Presented.wellFormed Presented.unexpired Presented.verifies
  simp [hn, ht]

/-- an accepted string has at least three segments -/
theorem c06_accepted_has_three_segments (vault : List Pem) (now : Int) (t : Presented α) (keys : List Pem)
    (h : (verifyKeys vault now t keys).isSome = true) : 3 ≤ t.parts := by
  obtain ⟨hw, _⟩ := (verifyKeys_isSome vault now t keys).1 h
  exact ((wellFormed_iff t).1 hw).1

/-! ## C. KYC -/

/-- C06.h  `KycDataPayload.Validate(actor)`: identity data that is not marked ignorable is valid only for the
    approved account it names. -/
theorem c06_kyc_binds_actor (k : Kyc) (actor : Nat) (h : k.valid actor = true) (hi : k.ignore = false) :
    k.approved = true ∧ k.id = actor := by
  unfold Kyc.valid at h
  simpa [hi] using h

/-- the same for the KYC view of the core model -/
theorem c06_core_kyc_binds_actor (tk : Sge.Core.Tk) (actor : Nat) (h : tk.kycOk actor = true)
    (hi : tk.kycIgnore = false) : tk.kycApproved = true ∧ tk.kycId = actor := by
  unfold Sge.Core.Tk.kycOk at h
  simpa [hi] using h

/-- the keys a mode checks against -/
def modeKeys (vault : List Pem) : Mode → List Pem
  | .leader => leaderKeys vault
  | .index i => indexKeys vault i
  | .any => vault

/-- C06.a, uniformly over the three modes (the form the differential suite exercises) -/
theorem c06_verifyMode_iff (vault : List Pem) (now : Int) (m : Mode) (t : Presented Unit) :
    verifyMode vault now m t = true ↔ ticketOK t (modeKeys vault m) now ∧ Readable t := by
  cases m with
  | leader => exact c06_accept_iff_ticketOK_leader vault now t
  | index i => exact c06_accept_iff_ticketOK_index vault i now t
  | any => exact c06_accept_iff_ticketOK_any vault now t

/-- message level (what the suite compares): a message whose ticket is not OK fails -/
theorem c06_msgVerdict_requires (vault : List Pem) (now : Int) (tks : List (Mode × Presented Unit))
    (kyc : Option (Kyc × Nat)) (h : msgVerdict vault now tks kyc = true) :
    (∀ mt ∈ tks, verifyMode vault now mt.1 mt.2 = true) ∧
    (∀ k actor, kyc = some (k, actor) → k.ignore = false → k.approved = true ∧ k.id = actor) := by
  unfold msgVerdict at h
  simp only [Bool.and_eq_true, List.all_eq_true] at h
  refine ⟨h.1, ?_⟩
  intro k actor hk hi
  rw [hk] at h
  exact c06_kyc_binds_actor k actor h.2 hi

end Sge.Ticket

/-! ## D. the handlers of the core model (market, house, bet) -/

namespace Sge.Core
open Sge Sge.Ticket

/-- C06.i  market Add: a ticket that does not verify makes the message fail and leaves the state unchanged -/
theorem c06_marketAdd_bad_ticket (s : State) (c : Nat) (tk : Tk) (u st en : Nat) (od : List Nat) (status : Nat)
    (h : tk.ok = false) : marketAdd s c tk u st en od status = (s, .err) := by
  unfold marketAdd marketAddO commit
  simp [chk, h]

/-- market Update -/
theorem c06_marketUpdate_bad_ticket (s : State) (tk : Tk) (u st en status : Nat)
    (h : tk.ok = false) : marketUpdate s tk u st en status = (s, .err) := by
  unfold marketUpdate marketUpdateO commit
  simp [chk, h]

/-- market Resolve -/
theorem c06_marketResolve_bad_ticket (s : State) (tk : Tk) (u ts status : Nat) (w : List Nat)
    (h : tk.ok = false) : marketResolve s tk u ts status w = (s, .err) := by
  unfold marketResolve marketResolveO commit
  simp [chk, h]

/-- house Deposit -/
theorem c06_houseDeposit_bad_ticket (s : State) (c : Nat) (tk : Tk) (m : Nat) (a : Int) (pd : Nat)
    (h : tk.ok = false) : houseDeposit s c tk m a pd = (s, .err, 0) := by
  unfold houseDeposit
  rw [houseDepositO_bad_ticket s c tk m a pd h]

/-- house Withdraw -/
theorem c06_houseWithdraw_bad_ticket (s : State) (c : Nat) (tk : Tk) (m i md : Nat) (a : Int) (pd : Nat)
    (h : tk.ok = false) : houseWithdraw s c tk m i md a pd = (s, .err) := by
  unfold houseWithdraw commit
  rw [houseWithdrawO_bad_ticket s c tk m i md a pd h]

/-- bet Wager -/
theorem c06_wager_bad_ticket (s : State) (c : Nat) (tk : Tk) (u : Nat) (a : Int) (pl : WagerPayload)
    (h : tk.ok = false) : wager s c tk u a pl = (s, .err) := by
  unfold wager commit
  rw [wagerO_bad_ticket s c tk u a pl h]

/-- C06.j  house Deposit takes effect only for the approved account named in non-ignorable KYC data: the
    depositor the message acts for (the payload's depositor when it names another account, else the signer). -/
theorem c06_houseDeposit_kyc {s : State} {c : Nat} {tk : Tk} {m : Nat} {a : Int} {pd : Nat} {r : State × Nat}
    (h : houseDepositO s c tk m a pd = some r) :
    tk.ok = true ∧ (tk.kycIgnore = false → tk.kycApproved = true ∧ tk.kycId = depositFor c pd) := by
  unfold houseDepositO at h
  simp only [bind, Option.bind_eq_some_iff, pure, Option.some.injEq] at h
  obtain ⟨_, _, _, _, _, h3, s1, _, _, h4, _⟩ := h
  have h3 := chk_some h3; have h4 := chk_some h4
  exact ⟨h3, fun hi => Sge.Ticket.c06_core_kyc_binds_actor tk _ h4 hi⟩

/-- house Withdraw: the depositor the message acts for -/
theorem c06_houseWithdraw_kyc {s s' : State} {c : Nat} {tk : Tk} {m i md : Nat} {a : Int} {pd : Nat}
    (h : houseWithdrawO s c tk m i md a pd = some s') :
    tk.ok = true ∧ (tk.kycIgnore = false → tk.kycApproved = true ∧ tk.kycId = (if pd != 0 then pd else c)) := by
  unfold houseWithdrawO at h
  simp only [bind, Option.bind_eq_some_iff, pure, Option.some.injEq] at h
  obtain ⟨_, _, _, _, _, _, _, h3, _, h4, _⟩ := h
  have h3 := chk_some h3; have h4 := chk_some h4
  exact ⟨h3, fun hi => Sge.Ticket.c06_core_kyc_binds_actor tk _ h4 hi⟩

/-- bet Wager: the bettor (the signer of the message) -/
theorem c06_wager_kyc {s s' : State} {c : Nat} {tk : Tk} {u : Nat} {a : Int} {pl : WagerPayload}
    (h : wagerO s c tk u a pl = some s') :
    tk.ok = true ∧ (tk.kycIgnore = false → tk.kycApproved = true ∧ tk.kycId = c) := by
  unfold wagerO at h
  simp only [bind, Option.bind_eq_some_iff, pure, Option.some.injEq] at h
  obtain ⟨_, _, _, _, _, h3, _, _, _, _, _, _, _, h7, _⟩ := h
  have h3 := chk_some h3; have h7 := chk_some h7
  exact ⟨h3, fun hi => Sge.Ticket.c06_core_kyc_binds_actor tk _ h7 hi⟩

/-- C06.k  The six core handlers fed with a presented byte string: if the string is not an authentic, unexpired,
    readable ticket of the current leader, every one of them fails and leaves the state unchanged — for every
    vault (hence after every key rotation), block time, message content and KYC data. -/
theorem c06_core_forged_no_effect (vault : List Sge.Ovm.Pem) (now : Int) (t : Presented Unit) (k : Kyc) (s : State)
    (hbad : ¬ (ticketOK t (leaderKeys vault) now ∧ Readable t)) :
    let tk := toCoreTk vault now t k
    (∀ c u st en od status, marketAdd s c tk u st en od status = (s, .err)) ∧
    (∀ u st en status, marketUpdate s tk u st en status = (s, .err)) ∧
    (∀ u ts status w, marketResolve s tk u ts status w = (s, .err)) ∧
    (∀ c m a pd, houseDeposit s c tk m a pd = (s, .err, 0)) ∧
    (∀ c m i md a pd, houseWithdraw s c tk m i md a pd = (s, .err)) ∧
    (∀ c u a pl, wager s c tk u a pl = (s, .err)) := by
  intro tk
  have hok : tk.ok = false := by
    show (verifyLeader vault now t).isSome = false
    cases hv : (verifyLeader vault now t).isSome with
    | false => rfl
    | true => exact absurd ((c06_accept_iff_ticketOK_leader vault now t).1 hv) hbad
  exact ⟨fun c u st en od status => c06_marketAdd_bad_ticket s c tk u st en od status hok,
    fun u st en status => c06_marketUpdate_bad_ticket s tk u st en status hok,
    fun u ts status w => c06_marketResolve_bad_ticket s tk u ts status w hok,
    fun c m a pd => c06_houseDeposit_bad_ticket s c tk m a pd hok,
    fun c m i md a pd => c06_houseWithdraw_bad_ticket s c tk m i md a pd hok,
    fun c u a pl => c06_wager_bad_ticket s c tk u a pl hok⟩

end Sge.Core

/-! ## E. the handlers of the ovm model (key governance) -/

namespace Sge.Ovm
open Sge.Ticket

/-- C06.l  A proposal whose ticket is not an authentic, unexpired, readable ticket of some registered key fails
    and leaves the state unchanged (both model variants). -/
theorem c06_submit_forged_no_effect (fixed : Bool) (s : State) (now : Int) (c : Nat) (t : Presented ProposalPayload)
    (hbad : ¬ (ticketOK t s.vault now ∧ Readable t)) : submitMsg fixed s now c t.toOvm = (s, false) := by
  have hn : verifyAny s.vault now t = none := by
    cases hv : verifyAny s.vault now t with
    | none => rfl
    | some a =>
      exact absurd ((c06_accept_iff_ticketOK_any s.vault now t).1 (by simp [hv])) hbad
  unfold submitMsg
  rw [toOvm_verifyWith]
  unfold verifyAny at hn
  rw [hn]

/-- C06.m  A vote whose ticket is not an authentic, unexpired, readable ticket of the key registered at the
    voter index fails and leaves the state unchanged. -/
theorem c06_vote_forged_no_effect (fixed : Bool) (s : State) (now : Int) (i : Nat) (t : Presented VotePayload)
    (hbad : ¬ (ticketOK t (indexKeys s.vault i) now ∧ Readable t)) : voteMsg fixed s now i t.toOvm = (s, false) := by
  have hn : verifyIndex s.vault i now t = none := by
    cases hv : verifyIndex s.vault i now t with
    | none => rfl
    | some a =>
      exact absurd ((c06_accept_iff_ticketOK_index s.vault i now t).1 (by simp [hv])) hbad
  unfold voteMsg
  unfold verifyIndex at hn
  cases hi : s.vault[i]? with
  | none => rfl
  | some pk =>
    rw [hi] at hn
    simp only at hn ⊢
    rw [toOvm_verifyWith, hn]

/-- C06.n  Key rotation: once the end-blocker has installed a new vault, a ticket signed by a key that the new
    vault no longer contains is rejected by every mode, and by every core handler (instance of C06.e' / C06.k:
    the theorems quantify over all vaults). Stated for the vault after an arbitrary end-block. -/
theorem c06_rotated_out_key_rejected (fixed : Bool) (s : State) (now now' : Int) (t : Presented Unit) (keys : List Pem)
    (h : ∀ p ∈ (endBlock fixed s now).1.vault, decode p = none ∨ t.sigKey ≠ decode p) :
    verifyKeys (endBlock fixed s now).1.vault now' t keys = none :=
  c06_unregistered_key_rejected _ now' t keys h

end Sge.Ovm

/-! ## F. the handlers of the subaccount model -/

namespace Sge.Subaccount
open Sge.Ticket

/-- C06.o  subaccount Wager: when the verification of the (outer) ticket fails — `pre = 1` is what the model is
    told in that case — the message fails and the state is unchanged. -/
theorem c06_sub_wager_bad_ticket (s : State) (owner : Nat) (main sub : Int) (x : WagerExt) (h : x.pre = 1) :
    (wager s owner main sub x).1 = s ∧ (wager s owner main sub x).2 ≠ .ok := by
  unfold wager
  split
  · exact ⟨rfl, by simp⟩
  · split
    · exact ⟨rfl, by simp⟩
    · exact ⟨rfl, by simp⟩

/-- subaccount HouseDeposit: a failing check of the house ticket (signature, expiry or KYC) -/
theorem c06_sub_houseDeposit_bad_ticket (s : State) (owner : Nat) (amount : Int) (x : HouseDepExt)
    (h : x.tkOk = false) :
    (houseDeposit s owner amount x).1 = s ∧ (houseDeposit s owner amount x).2 ≠ .ok := by
  unfold houseDeposit
  split
  · exact ⟨rfl, by simp⟩
  · split
    · exact ⟨rfl, by simp⟩
    · split
      · exact ⟨rfl, by simp⟩
      · simp [h]

/-- subaccount HouseWithdraw -/
theorem c06_sub_houseWithdraw_bad_ticket (s : State) (owner : Nat) (x : HouseWdExt) (h : x.tkOk = false) :
    (houseWithdraw s owner x).1 = s ∧ (houseWithdraw s owner x).2 ≠ .ok := by
  unfold houseWithdraw
  split
  · exact ⟨rfl, by simp⟩
  · split
    · exact ⟨rfl, by simp⟩
    · simp [h]

end Sge.Subaccount
