/-
  C02 (whole-history part)  Accepted bets are fully collateralised; house loss is bounded by its deposit.
-/
import SgeProofs.Lemmas.Collateral
namespace Sge.Core
open Sge Sge.Genesis

-- ---------------------------------------------------------------------------------------------
-- the full statement is FALSE of the code as it is

/-- KNOWN FINDING (KF-C02-undercollateralised, a consequence of KF-C03-negative-part), proved on the model of the
    code as it is. Minimum deposit 2, no house fee, threshold 0, a market with outcomes 11 and 12, six
    participations with liquidity 5,2,2,2,2,1000. A wager of 22 (fee 1) at odds 10 on outcome 11 is backed by the
    parts (stake, promised winnings) = (1,5), (0,2), (0,2), (−1,2), (−1,2), (22,176): the doubled rounding carry of
    `CalculateBetAmountInt` gives participations 4 and 5 a NEGATIVE stake. A wager of 12 (fee 1) at odds 2 on
    outcome 12 is then backed by participations 1..4 with (5,5), (2,2), (2,2), (2,2). Afterwards participation 4
    has liquidity 2, has received −1 on outcome 11 and promised 2 on outcome 12: liquidity + stakes on the other
    outcomes = 1 < 2 = promised winnings. Its tracked worst-case loss (3) exceeds its liquidity (2). -/
def kf02Tk : Tk := { ok := true, kycIgnore := true, kycApproved := false, kycId := 0 }
def kf02Pl (o : Nat) (ov : Int) : WagerPayload :=
  { market := 1, odds := o, oddsVal := some ⟨ov * PREC⟩, mult := ⟨PREC⟩, allOdds := [(11, ⟨PREC⟩), (12, ⟨PREC⟩)] }
def kf02Init : State :=
  { bal := [(7, 1000000), (8, 1000000), (9, 0)], time := 100,
    params := { betMin := 2, betFee := 1, houseMin := 2, houseFee := ⟨0⟩, houseMaxW := 2, obThreshold := 0 } }
def kf02Ops : List Op :=
  [.marketAdd 9 kf02Tk 1 50 500 [11, 12] MS_ACTIVE] ++
  ([5, 2, 2, 2, 2, 1000].map fun (l : Int) => Op.deposit 7 kf02Tk 1 l 0) ++
  [.wager 8 kf02Tk 77 22 (kf02Pl 11 10), .wager 8 kf02Tk 78 12 (kf02Pl 12 2)]

theorem c02_counterexample_undercollateralised :
    ((run kf02Init kf02Ops).bets.map (fun b => (b.odds, b.fulfs.map (fun f => (f.idx, f.bet, f.profit)))))
        = [(11, [(1, 1, 5), (2, 0, 2), (3, 0, 2), (4, -1, 2), (5, -1, 2), (6, 22, 176)]),
           (12, [(1, 5, 5), (2, 2, 2), (3, 2, 2), (4, 2, 2)])] ∧
    (∃ b ∈ (run kf02Init kf02Ops).books, ∃ p ∈ b.parts, p.idx = 4 ∧ p.isSettled = false ∧ p.actualProfit = 0 ∧
      p.liq + b.otherStakes p.idx 12 = 1 ∧ b.promised p.idx 12 = 2 ∧
      p.liq + p.actualProfit + b.otherStakes p.idx 12 < b.promised p.idx 12 ∧
      p.liq < p.crMaxLoss) := by
  decide +kernel

end Sge.Core
