/-
  C02 (whole-history part)  Accepted bets are fully collateralised; house loss is bounded by its deposit.

  FULL STATEMENT (FALSE of the code as it is — see `c02_counterexample_undercollateralised` below):

      ∀ ops, let s := run (initState p bal h t) ops
      ∀ b ∈ s.books, ∀ pt ∈ b.parts, ∀ o,
        b.promised pt.idx o ≤ pt.liq + pt.actualProfit + b.otherStakes pt.idx o          -- what the Go monitor checks
      and, at settlement, 0 ≤ pt.liq + pt.actualProfit                                     -- loss ≤ deposit

  The doubled rounding carry of `CalculateBetAmountInt` can hand a participation a backing part with a NEGATIVE stake
  (KF-C03-negative-part: `c03_counterexample_negative_part`, `c05_counterexample_halt`); such a part lowers the
  participation's total stake while its exposure grows, and the inequality fails.

  PROVED here (`…_partial`), for every history `ops` of the core slice from an empty chain — market add / update /
  resolve, deposit, withdraw, wager, authz, bank, parameter changes, new blocks and the settling end-blocks, failing
  messages and halting end-blocks included — under the GHOST hypothesis `NonNegParts (run … ops)`: "no backing part of
  any bet in the final state has a negative stake". The hypothesis speaks about the execution, not about the code:
  bets are only appended and their backing parts never change (`c02_nonneg_parts_monotone`), so it holds for the
  final state iff it held at every wager of the history. EXCLUDED are exactly the histories in which some wager
  produced a backing part with negative stake (KF-C03-negative-part). Nothing else is assumed: the multiplier bound
  `0 < mult ≤ 1` comes from the ticket validation in `wagerO` (`multOk`), `odds > 1` from `wagerO`, a non-negative
  liquidity from the bank transfer of the deposit, the withdrawal bound from `calcWithdrawal`/`withdrawable`.

    c02_collateral_partial          the abstract bundle `IInv` of Properties/C02.lean holds for every participation of
                                    every book (`ColSt`): exposures and stakes non-negative, the tracked worst-case
                                    loss bounds the loss of every outcome of the current round and is attained,
                                    max(0, worst-case loss) ≤ current-round liquidity ≤ liquidity, the loss of the
                                    closed rounds on any outcome ≤ liquidity − current-round liquidity
    c02_monitor_inequality_partial  promised winnings on o ≤ liquidity + stakes received on the other outcomes, and
                                    (equivalently) promised winnings + stake on o ≤ liquidity + total stake, summed over
                                    the current and all closed rounds — the inequality the Go-side monitor evaluates
    c02_current_round_partial       the current-round facts in the fields of the stored records
    c02_payout_nonneg_partial       house loss bounded by deposit: once every bet of the market is settled, the payout
                                    of a participation (liquidity + realised profit on a declared result) is ≥ 0
    c02_house_loss_bounded_partial  the same for every book that has left the active state, the settlement order
                                    being supplied by `SettleInv` (user-signed messages, empty module accounts)

  Second counter-example: `c02_counterexample_loss_exceeds_deposit` (a participation loses more than its deposit
  and the order-book end-blocker halts on the negative payout).
  Remark: `betFee > betMin` is allowed by the parameter validators, so the stake after the fee can be negative; such a
  wager either produces no backing part or a part with negative stake, which `NonNegParts` excludes — the loop
  invariant "remaining stake ≥ 0 → remaining payout profit ≥ 0" (`col_decide1_facts`) covers it, no bound is missing.

  The invariant `ColInv` and its preservation live in SgeProofs/Lemmas/Collateral*.lean: `CExt` (updates that do not
  touch the arithmetic), deposit = fresh item, withdrawal = `Item.withdraw`, one queue visit = `Item.fulfil` on the
  visited participation (`col_visit_some`, threaded through `visit`/`loop` with the loop invariant `LInv` of
  ObWager.lean), re-queue = `Item.requeue` (`requeue_col`), settlement only touches realised profit and flags.
-/
import SgeProofs.Lemmas.CollateralProfit
import SgeProofs.Lemmas.CustodySettleStep
import SgeProofs.Properties.C01
namespace Sge.Core
open Sge Sge.Genesis

-- ---------------------------------------------------------------------------------------------
-- the full statement is FALSE of the code as it is

def kf02Tk : Tk := { ok := true, kycIgnore := true, kycApproved := false, kycId := 0 }
def kf02Pl (o : Nat) (ov : Int) : WagerPayload :=
  { market := 1, odds := o, oddsVal := some ⟨ov * PREC⟩, mult := ⟨PREC⟩, allOdds := [(11, ⟨PREC⟩), (12, ⟨PREC⟩)] }
def kf02Init : State :=
  { bal := [(7, 1000000), (8, 1000000), (9, 0)], time := 100,
    params := { betMin := 2, betFee := 1, houseMin := 2, houseFee := ⟨0⟩, houseMaxW := 2, obThreshold := 0 } }
def kf02Ops : List Op :=
  [.marketAdd 9 kf02Tk 1 50 500 [11, 12] MS_ACTIVE] ++
  ([5, 2, 2, 2, 2, 1000].map fun (l : Int) => Op.deposit 7 kf02Tk 1 l 0) ++
  [.wager 8 kf02Tk 77 22 (kf02Pl 11 10), .wager 8 kf02Tk 78 12 (kf02Pl 12 2)]

/-- KNOWN FINDING (KF-C02-undercollateralised, a consequence of KF-C03-negative-part), proved on the model of the
    code as it is. Minimum deposit 2, no house fee, threshold 0, a market with outcomes 11 and 12, six
    participations with liquidity 5,2,2,2,2,1000. A wager of 22 (fee 1) at odds 10 on outcome 11 is backed by the
    parts (stake, promised winnings) = (1,5), (0,2), (0,2), (−1,2), (−1,2), (22,176): the doubled rounding carry of
    `CalculateBetAmountInt` gives participations 4 and 5 a NEGATIVE stake. A wager of 12 (fee 1) at odds 2 on
    outcome 12 is then backed by participations 1..4 with (5,5), (2,2), (2,2), (2,2). Afterwards participation 4
    (not settled, no realised profit) has liquidity 2, has received −1 on outcome 11 and promised 2 on outcome 12:
    liquidity + stakes on the other outcomes = 1 < 2 = promised winnings; its tracked worst-case loss (3) exceeds
    its liquidity (2). The full statement of C02 is therefore FALSE of the code as it is. -/
theorem c02_counterexample_undercollateralised :
    ((run kf02Init kf02Ops).bets.map (fun b => (b.odds, b.fulfs.map (fun f => (f.idx, f.bet, f.profit)))))
        = [(11, [(1, 1, 5), (2, 0, 2), (3, 0, 2), (4, -1, 2), (5, -1, 2), (6, 22, 176)]),
           (12, [(1, 5, 5), (2, 2, 2), (3, 2, 2), (4, 2, 2)])] ∧
    (∃ b ∈ (run kf02Init kf02Ops).books, ∃ p ∈ b.parts, p.idx = 4 ∧ p.isSettled = false ∧ p.actualProfit = 0 ∧
      p.liq + b.otherStakes p.idx 12 = 1 ∧ b.promised p.idx 12 = 2 ∧
      p.liq + p.actualProfit + b.otherStakes p.idx 12 < b.promised p.idx 12 ∧
      p.liq < p.crMaxLoss) := by
  decide +kernel

/-- KNOWN FINDING (KF-C02-loss-exceeds-deposit, same root cause), proved on the model of the code as it is: continue
    the history above by declaring outcome 12. The bet end-blocker settles both bets; participation 4 (liquidity 2)
    then has realised profit −3 (it "received" −1 from the lost bet on 11 and pays 2 to the won bet on 12): it loses
    MORE than it deposited, its payout liquidity + realised profit is −1. The order-book end-blocker of the same
    block has to send that negative amount; the bank transfer fails and the end-block halts. -/
theorem c02_counterexample_loss_exceeds_deposit :
    ((betEndBlock ((run kf02Init (kf02Ops ++ [.marketResolve kf02Tk 1 60 MS_DECLARED [12]])).mqueue.length + 1)
        (run kf02Init (kf02Ops ++ [.marketResolve kf02Tk 1 60 MS_DECLARED [12]])) 1000).map
      (fun s => s.books.map (fun b => b.parts.map (fun p => (p.idx, p.liq, p.actualProfit, p.liq + p.actualProfit)))))
      = some [[(1, 5, -4, 1), (2, 2, -2, 0), (3, 2, -2, 0), (4, 2, -3, -1), (5, 2, -1, 1), (6, 1000, 22, 1022)]] ∧
    (step (run kf02Init (kf02Ops ++ [.marketResolve kf02Tk 1 60 MS_DECLARED [12]])) .endBlock).2 = .halt := by
  decide +kernel

-- ---------------------------------------------------------------------------------------------
-- the part that holds: histories without a negative backing part

/-- C02.i  (PARTIAL: histories in which some backing part has a negative stake — KF-C03-negative-part — are
    excluded by the ghost hypothesis `NonNegParts` on the final state.) In every reachable state every
    participation of every order book satisfies the invariant bundle `IInv` of Properties/C02.lean. -/
theorem c02_collateral_partial (p : Params) (bal : List (Nat × Int)) (h t : Nat) (ops : List Op) :
    let s := run (initState p bal h t) ops
    NonNegParts s → ColSt s := by
  intro s hnn
  exact run_col _ ops (obInv_init p bal h t) (colSt_init p bal h t) hnn

/-- C02.j  The ghost hypothesis is monotone along a history: bets are only appended and the backing parts of a
    stored bet never change, so if no part is negative at the end, none was negative at any earlier state. -/
theorem c02_nonneg_parts_monotone (p : Params) (bal : List (Nat × Int)) (h t : Nat) (ops later : List Op) :
    NonNegParts (run (initState p bal h t) (ops ++ later)) → NonNegParts (run (initState p bal h t) ops) := by
  intro hnn
  rw [run_split] at hnn
  exact (run_keepF _ later (run_obInv _ ops (obInv_init p bal h t))).nonneg hnn

/-- C02.k  One operation keeps the bundle, provided no bet of the new state has a negative backing part (this only
    matters for a wager: every other operation keeps the bundle unconditionally). -/
theorem c02_collateral_step_partial (s : State) (op : Op) (hI : ObInv s) (hC : ColSt s)
    (hnn : NonNegParts (step s op).1) : ColSt (step s op).1 :=
  step_col s op hI hC hnn

/-- C02.l  (PARTIAL, same exclusion.) The inequality the monitor evaluates: in every reachable state, for every
    participation and every outcome `o`, the winnings promised on `o` over all rounds are covered by the liquidity
    plus the stakes received on the other outcomes over all rounds; equivalently, what would be paid out to the
    winners of `o` (promised winnings + their stakes) is covered by liquidity + total stake received. -/
theorem c02_monitor_inequality_partial (p : Params) (bal : List (Nat × Int)) (h t : Nat) (ops : List Op) :
    let s := run (initState p bal h t) ops
    NonNegParts s → ∀ b ∈ s.books, ∀ pt ∈ b.parts, ∀ o : Nat,
      b.promised pt.idx o ≤ pt.liq + b.otherStakes pt.idx o ∧
      b.promised pt.idx o + b.stakeOn pt.idx o ≤ pt.liq + pt.totalBet := by
  intro s hnn b hb pt hpt o
  have hI : ObInv s := c10_invariant p bal h t ops
  have hC := c02_collateral_partial p bal h t ops hnn b hb
  have hq := hI.qinv b hb
  have hg := Book.mem_getPart hq.s.sP hpt
  have hcol := c02_collateral _ (hC pt.idx pt hg) o
  rw [col_item_collateral] at hcol
  obtain ⟨e1, e2⟩ := col_promised_eq b hq.s.sE pt.idx o
  have e3 := col_totalBet_eq_allStakes hI b hb pt.idx pt hg
  have e4 := col_stakes_split b pt.idx o
  have hc2 : (b.colItem pt).liq = pt.liq := rfl
  rw [hc2] at hcol
  constructor <;> omega

/-- C02.m  (PARTIAL, same exclusion.) The current round in the fields of the stored records: the current-round
    liquidity lies between 0 and the liquidity and covers the tracked worst-case loss; every current exposure of
    the participation has non-negative promised winnings and stake, its stake is part of the round's total stake,
    and its loss (promised winnings + own stake − total stake of the round) is at most the tracked worst-case loss. -/
theorem c02_current_round_partial (p : Params) (bal : List (Nat × Int)) (h t : Nat) (ops : List Op) :
    let s := run (initState p bal h t) ops
    NonNegParts s → ∀ b ∈ s.books, ∀ pt ∈ b.parts,
      0 ≤ pt.crl ∧ pt.crl ≤ pt.liq ∧ pt.crMaxLoss ≤ pt.crl ∧
      ∀ e ∈ b.pexps, e.idx = pt.idx →
        0 ≤ e.exposure ∧ 0 ≤ e.bet ∧ e.bet ≤ pt.crTotalBet ∧ e.exposure + e.bet - pt.crTotalBet ≤ pt.crMaxLoss := by
  intro s hnn b hb pt hpt
  have hI : ObInv s := c10_invariant p bal h t ops
  have hq := hI.qinv b hb
  have hg := Book.mem_getPart hq.s.sP hpt
  have hC := c02_collateral_partial p bal h t ops hnn b hb pt.idx pt hg
  have hrng : 0 ≤ pt.crl ∧ pt.crl ≤ pt.liq := hC.rng
  have hcap : max0 pt.crMaxLoss ≤ pt.crl := hC.cap
  refine ⟨hrng.1, hrng.2, by unfold max0 at hcap; split at hcap <;> omega, ?_⟩
  intro e he hei
  have hge : b.getExp e.odds pt.idx = some e := by rw [← hei]; exact Book.mem_getExp hq.s.sE he
  have hcur : b.curExp pt.idx e.odds = e := by unfold Book.curExp; rw [hge]
  have h1 := hC.nonneg e.odds
  have h2 := hC.others e.odds
  have h3 := hC.ub e.odds
  have e1 : ((b.colItem pt).es e.odds) = expoOf e := by
    show expoOf (b.curExp pt.idx e.odds) = _; rw [hcur]
  have e2 : (b.colItem pt).loss e.odds = e.exposure + e.bet - pt.crTotalBet := by
    show (expoOf (b.curExp pt.idx e.odds)).exposure + (expoOf (b.curExp pt.idx e.odds)).bet - pt.crTotalBet = _
    rw [hcur]; rfl
  rw [e1] at h1 h2
  rw [e2] at h3
  exact ⟨h1.1, h1.2, h2, h3⟩

-- ---------------------------------------------------------------------------------------------
-- house loss bounded by deposit

theorem col_sumBy_sub3 {α : Type} (f g k : α → Int) (l : List α) :
    sumBy (fun x => f x - g x - k x) l = sumBy f l - sumBy g l - sumBy k l := by
  induction l with
  | nil => rfl
  | cons x xs ih => rw [sumBy_cons, sumBy_cons, sumBy_cons, sumBy_cons, ih]; omega

/-- C02.n  (PARTIAL: histories with a negative backing part — KF-C03-negative-part — are excluded by `NonNegParts`;
    the hypothesis "every bet of the market is settled" is what the settlement order of the end-blockers provides,
    see C02.o.) House loss is bounded by the deposit: once all bets of a market are settled, what a participation is
    paid out — liquidity + realised profit on a declared result, the liquidity otherwise — is not negative, i.e. the
    depositor never loses more than the liquidity it put in. The realised profit is tied to the bets by the
    whole-history invariant `ApInv` (it is −Σ promised winnings of the parts backing winning bets + Σ stakes of the
    parts backing losing bets) and to the exposure sums by the C10 sum equations. -/
theorem c02_payout_nonneg_partial (p : Params) (bal : List (Nat × Int)) (h t : Nat) (ops : List Op) :
    let s := run (initState p bal h t) ops
    NonNegParts s → ∀ b ∈ s.books, ∀ m, getMarket s b.uid = some m →
      (∀ x ∈ s.bets, x.market = b.uid → x.status = BS_SETTLED) →
      ∀ pt ∈ b.parts, 0 ≤ pt.payout m := by
  intro s hnn b hb m hm hall pt hpt
  have hI : ObInv s := c10_invariant p bal h t ops
  have hA : ApInv s := run_ap _ ops (obInv_init p bal h t) (apInv_init p bal h t)
  have hq := hI.qinv b hb
  have hg := Book.mem_getPart hq.s.sP hpt
  have hC := c02_collateral_partial p bal h t ops hnn b hb pt.idx pt hg
  have hrng : 0 ≤ pt.crl ∧ pt.crl ≤ pt.liq := hC.rng
  unfold Part.payout
  split
  · rename_i hd
    have hd : m.status = MS_DECLARED := by simpa using hd
    have hap := hA.ap b hb m hm pt.idx pt hg
    rw [if_pos hd] at hap
    have hw := hA.win m (getMarket_memQ hm) hd
    obtain ⟨w, hw⟩ : ∃ w, m.winners = [w] := by
      cases hml : m.winners with
      | nil => rw [hml] at hw; cases hw
      | cons w ws =>
        cases ws with
        | nil => exact ⟨w, rfl⟩
        | cons _ _ => rw [hml] at hw; simp at hw
    have hsum : sumBy (apTerm b.uid m.winners pt.idx) s.bets =
        sumBy (betStakeAt b.uid pt.idx) s.bets - sumBy (betStakeOAt b.uid w pt.idx) s.bets - sumBy (betProfitAt b.uid w pt.idx) s.bets := by
      rw [← col_sumBy_sub3]
      apply sumBy_congr
      intro x hx
      unfold apTerm betStakeAt betStakeOAt betProfitAt
      rw [hw]
      by_cases hxm : x.market = b.uid
      · have hst := hall x hx hxm
        by_cases hxo : x.odds = w
        · simp [hxm, hst, hxo]
        · simp [hxm, hst, hxo]
      · simp [hxm]
    rw [← hI.tb b hb pt.idx pt hg, ← hI.tB b hb w pt.idx, ← hI.tE b hb w pt.idx] at hsum
    have hcol := c02_collateral _ hC w
    rw [col_item_collateral] at hcol
    have hc2 : (b.colItem pt).liq = pt.liq := rfl
    rw [hc2] at hcol
    omega
  · omega

/-- C02.o  (PARTIAL: same exclusion; additionally, as in C01, messages are signed by user accounts and the module
    accounts start empty — the hypotheses of the settlement-order invariant `SettleInv`.) In every reachable state,
    for every order book that has left the active state (the only books whose participations `settlePart` pays) the
    payout of every participation is non-negative: house loss is bounded by the deposit. -/
theorem c02_house_loss_bounded_partial (p : Params) (bal : List (Nat × Int)) (h t : Nat) (ops : List Op)
    (h0 : getBal bal ACC_POOL = 0 ∧ getBal bal ACC_BETFEE = 0 ∧ getBal bal ACC_HOUSEFEE = 0)
    (hwf : ∀ op ∈ ops, op.userSigned') :
    let s := run (initState p bal h t) ops
    NonNegParts s → ∀ b ∈ s.books, b.status ≠ OB_ACTIVE → ∀ m, getMarket s b.uid = some m →
      ∀ pt ∈ b.parts, 0 ≤ pt.payout m := by
  intro s hnn b hb hst m hm pt hpt
  have hS : SettleInv s := run_settleInv _ ops (settleInv_init p bal h t h0) hwf
  apply c02_payout_nonneg_partial p bal h t ops hnn b hb m hm _ pt hpt
  intro x hx hxm
  have := hS.closedNoOpen b hb hst x hx hxm
  unfold Bet.isOpen at this
  simpa using this

-- ---------------------------------------------------------------------------------------------
-- non-vacuity: the history of C10Sums (two deposits, three bets on two outcomes; the first bet exhausts
-- participation 1, which is re-queued into round 2 with its round-1 exposures moved to history; declared result,
-- settlement) has only non-negative backing parts, so the theorems above apply to it

example : NonNegParts (run (initState c10Params [(1, 100000), (2, 100000), (3, 100000)] 1 0) c10Ops) ∧
    (((run (initState c10Params [(1, 100000), (2, 100000), (3, 100000)] 1 0) c10Ops).books.map
      (fun b => (b.parts.map (fun pt => (pt.idx, pt.liq, pt.crl, pt.totalBet)), b.hist.map (fun e => (e.odds, e.idx, e.round, e.exposure, e.bet)))))
      == [([(1, 90, 45, 135), (2, 270, 270, 65)], [(11, 1, 1, 90, 45), (12, 1, 1, 90, 90)])]) = true := by
  unfold NonNegParts
  decide +kernel

example : ∀ b ∈ c10Final.books, ∀ pt ∈ b.parts, ∀ o : Nat, b.promised pt.idx o ≤ pt.liq + b.otherStakes pt.idx o :=
  fun b hb pt hpt o =>
    (c02_monitor_inequality_partial c10Params [(1, 100000), (2, 100000), (3, 100000)] 1 0 c10Ops
      (by unfold NonNegParts; decide +kernel) b hb pt hpt o).1

/-- the same history satisfies the hypotheses of C02.o: after the settling end-block the book has left the active
    state and every participation was paid a non-negative amount (90 and 210 for liquidity 90 and 270) -/
example : (∀ b ∈ c10Final.books, b.status ≠ OB_ACTIVE → ∀ m, getMarket c10Final b.uid = some m → ∀ pt ∈ b.parts, 0 ≤ pt.payout m) ∧
    (c10Final.books.map (fun b => (b.status, b.parts.map (fun pt => (pt.idx, pt.liq, pt.actualProfit, pt.isSettled)))) ==
      [(OB_SETTLED, [(1, 90, 0, true), (2, 270, -60, true)])]) = true := by
  refine ⟨c02_house_loss_bounded_partial c10Params [(1, 100000), (2, 100000), (3, 100000)] 1 0 c10Ops (by decide) ?_
    (by unfold NonNegParts; decide +kernel), by decide +kernel⟩
  intro op hop
  simp only [c10Ops, List.mem_cons, List.not_mem_nil, or_false] at hop
  rcases hop with rfl | rfl | rfl | rfl | rfl | rfl | rfl | rfl <;> first | trivial | (show isModuleAcc _ = false; decide)

end Sge.Core
