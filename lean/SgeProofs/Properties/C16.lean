/-
  C16  Export and re-import of state at any height preserves what users are owed.

  Per custom module `m` (model: lean/Sge/Genesis.lean, written after x/m/genesis.go and x/m/types/genesis.go):
    `c16_import_export_m`   import_m (export_m σ) = σ on every store of the module (indexes and counters included),
    `c16_validate_export_m` the export of a state satisfying the module's invariant passes the module's own `Validate`.
  The invariants (`marketInv`, `houseInv`, `betInv`, `obInv`, `ovmInv`, `rewardInv`, `SubInv`) are stated in
  Sge/Genesis.lean; they are hypotheses here, and the correspondence suite `genesis` evaluates them on the model state at
  every export point of every history (line `inv`).

  NOT true of the code as it is in /repo (three findings, each reproduced on the real code by the suite `genesis_scripted`):
    * x/house   validate (export σ) fails after a delegated deposit and a withdrawal   → `c16_house_asis_counterexample`,
                what holds: `c16_validate_export_house_partial`; patched code: `c16_validate_export_house`
    * x/orderbook validate (export σ) fails with a book without deposits or with two books that have deposits
                                                                                     → `c16_ob_asis_counterexample_*`,
                what holds: `c16_validate_export_ob_partial`; patched code: `c16_validate_export_ob`
    * x/reward  ExportGenesis omits promoters, promoters by address and the grant counters: import (export σ) panics
                as soon as one reward exists, and loses the promoters otherwise       → `c16_reward_asis_counterexample_*`,
                what holds: `c16_import_export_reward_partial`; patched code: `c16_import_export_reward`
  The full statements (for the code as it is) are the `…` theorems of the patched variants with `fixed := false`.
-/
import SgeProofs.Lemmas.Genesis
import SgeProofs.Lemmas.GenesisSub
import SgeProofs.Lemmas.GenesisCore
namespace Sge.Genesis
open Sge Sge.Core

-- =============================================================================================
-- market

/-- C16 market: every market and the resolved-unsettled queue come back. -/
theorem c16_import_export_market (σ : State) (h : marketInv σ = true) :
    let σ' := importMarket (exportMarket σ) (freshCore σ)
    σ'.markets = σ.markets ∧ σ'.mqueue = σ.mqueue := by
  unfold marketInv at h
  rw [sortedB_iff] at h
  exact ⟨setAll_sorted Market.key σ.markets h, rfl⟩

/-- C16 market: the export of a keyed market store has no duplicated uid. -/
theorem c16_validate_export_market (σ : State) (h : marketInv σ = true) : validateMarket (exportMarket σ) = 0 := by
  unfold marketInv at h
  rw [sortedB_iff] at h
  unfold validateMarket exportMarket
  simp only
  rw [sorted_noDup Market.key (·.uid) σ.markets h (fun _ => rfl)]
  rfl

-- =============================================================================================
-- house

/-- C16 house: deposits, withdrawals and the three parameters come back. -/
theorem c16_import_export_house (σ : State) (h : houseInv σ = true) :
    let σ' := importHouse (exportHouse σ) (freshCore σ)
    σ'.deposits = σ.deposits ∧ σ'.withdrawals = σ.withdrawals ∧
    σ'.params.houseMin = σ.params.houseMin ∧ σ'.params.houseFee = σ.params.houseFee ∧ σ'.params.houseMaxW = σ.params.houseMaxW := by
  unfold houseInv at h
  simp only [Bool.and_eq_true] at h
  obtain ⟨⟨hd, hw⟩, _⟩ := h
  rw [sortedB_iff] at hd hw
  exact ⟨setAll_sorted Deposit.key σ.deposits hd, setAll_sorted Withdrawal.key σ.withdrawals hw, rfl, rfl, rfl⟩

/-- C16 house, patched code (repo_patches/genesis_house_withdrawal_depositor.diff): the export of a reachable state
    with accepted parameters validates. -/
theorem c16_validate_export_house (σ : State) (h : houseInv σ = true) (hp : σ.params.valid = true) :
    validateHouse true (exportHouse σ) = 0 := by
  unfold houseInv at h
  simp only [Bool.and_eq_true] at h
  unfold Params.valid at hp
  simp only [Bool.and_eq_true] at hp
  unfold validateHouse exportHouse houseParamsOk
  simp only [h.2, Bool.not_true, Bool.false_eq_true, ↓reduceIte, hp.1.1.1.1.2, hp.1.1.1.2, hp.1.1.2, Bool.and_self]

/-- the history of the counter-example: one market, account 1 deposits 500 on behalf of account 2 (authz grant
    2 → 1), account 2 withdraws 50 from that participation -/
def houseCexOps : List Op :=
  let tk : Tk := { ok := true, kycIgnore := true, kycApproved := false, kycId := 0 }
  [ .marketAdd 0 tk 1 50 5000 [11, 12] MS_ACTIVE,
    .grant 2 1 0 1000 none,
    .deposit 1 tk 1 500 2,
    .withdraw 2 tk 1 1 WM_PARTIAL 50 0 ]

def houseCexState : State :=
  run { bal := [(1, 1000), (2, 1000)], time := 100,
        params := { houseMin := 10, betMin := 2, betFee := 1, houseMaxW := 3 } } houseCexOps

/-- C16 house, code as it is: a reachable state whose export fails the module's own validation (`Validate` looks for
    a deposit whose *creator* is the withdrawal's address; the deposit was created by account 1 for depositor 2, the
    withdrawal is stored under the depositor). The same state validates under the patched check. -/
theorem c16_house_asis_counterexample :
    houseInv houseCexState = true ∧ houseCexState.withdrawals.length = 1 ∧
    validateHouse false (exportHouse houseCexState) = 1 ∧ validateHouse true (exportHouse houseCexState) = 0 := by
  decide +kernel

/-- C16 house, code as it is, the part that holds: the export validates when no withdrawal exists for a deposit made
    on behalf of someone else (every deposit that has a withdrawal was created by its depositor).
    Excluded: states with a withdrawal from a delegated deposit. -/
theorem c16_validate_export_house_partial (σ : State) (h : houseInv σ = true) (hp : σ.params.valid = true)
    (hown : ∀ d ∈ σ.deposits, ∀ w ∈ σ.withdrawals, d.depositor = w.addr → d.market = w.market → d.idx = w.idx → d.creator = d.depositor) :
    validateHouse false (exportHouse σ) = 0 := by
  have hfix := c16_validate_export_house σ h hp
  unfold houseInv at h
  simp only [Bool.and_eq_true] at h
  unfold Params.valid at hp
  simp only [Bool.and_eq_true] at hp
  have hall : σ.withdrawals.all (withdrawalHasDeposit false σ.deposits) = true := by
    rw [List.all_eq_true]
    intro w hw
    have := List.all_eq_true.mp h.2 w hw
    unfold withdrawalHasDeposit at this ⊢
    rw [List.any_eq_true] at this ⊢
    obtain ⟨d, hd, hm⟩ := this
    refine ⟨d, hd, ?_⟩
    simp only [depositOwner, ↓reduceIte, Bool.and_eq_true, beq_iff_eq] at hm ⊢
    have := hown d hd w hw hm.1.1 hm.1.2 hm.2
    exact ⟨⟨by rw [this]; exact hm.1.1, hm.1.2⟩, hm.2⟩
  unfold validateHouse exportHouse houseParamsOk
  simp only [hall, Bool.not_true, Bool.false_eq_true, ↓reduceIte, hp.1.1.1.1.2, hp.1.1.1.2, hp.1.1.2, Bool.and_self]

-- =============================================================================================
-- bet

/-- C16 bet: the export of a reachable state with accepted parameters passes all checks of the bet genesis validation. -/
theorem c16_validate_export_bet (σ : State) (h : betInv σ = true) (hp : σ.params.valid = true) :
    validateBet (exportBet σ) = 0 := by
  obtain ⟨_, hdup, hid, hcount, hst, _, _, hpf, hsf, hlen⟩ := betInv_unpack σ h
  have hbets : (exportBet σ).bets = σ.bets.map (fun b => { b with id := 0 }) := rfl
  have F1 : ((exportBet σ).bets.length != (exportBet σ).count) = false := by
    simp [exportBet, hcount]
  have F2 : ((exportBet σ).pending.length + (exportBet σ).settled.length != (exportBet σ).bets.length) = false := by
    simp [exportBet, hlen]
  have F3 : hasDup ((exportBet σ).bets.map (·.uid)) = false := by
    rw [hbets, List.map_map]
    exact hdup
  have F4 : firstErr ((exportBet σ).bets.map (validateOneBet (exportBet σ))) = 0 := by
    apply firstErr_zero
    intro c hc
    rw [hbets, List.map_map] at hc
    obtain ⟨b, hb, rfl⟩ := List.mem_map.mp hc
    simp only [Function.comp]
    unfold validateOneBet
    have e1 : idOf (exportBet σ).uid2id b.uid = b.id := idOf_export σ.bets hdup b hb
    have a1 : (exportBet σ).pending.any (fun p => p.1 == b.uid) = (b.settleHeight == 0) := by
      rw [any_eq_filter, export_pending_filter, hpf b hb]
      cases b.settleHeight == 0 <;> simp
    have a2 : (exportBet σ).settled.any (fun p => p.1 == b.uid) = (b.settleHeight != 0) := by
      rw [any_eq_filter, export_settled_filter, hsf b hb]
      cases b.settleHeight != 0 <;> simp
    simp only [e1, a1, a2]
    have := hid b hb
    have hs := hst b hb
    by_cases h0 : b.settleHeight = 0
    · have : ¬ b.status = BS_SETTLED := fun e => hs ⟨h0, e⟩
      simp [h0, this, hid b hb]
    · simp [h0, hid b hb]
  have F5 : betParamsOk (exportBet σ) = true := by
    unfold Params.valid at hp
    simp only [Bool.and_eq_true, decide_eq_true_eq] at hp
    simp [betParamsOk, exportBet, hp.1.1.1.1.1.1.1, hp.1.1.1.1.1.1.2, hp.1.1.1.1.1.2]
  unfold validateBet
  simp only [F1, F2, F3, F4, F5, Bool.false_eq_true, ↓reduceIte, bne_self_eq_false]

/-- C16 bet: the bet store (with the ids, i.e. also the uid → id store), the pending and the settled index, the bet
    counter and the three parameters come back. -/
theorem c16_import_export_bet (σ : State) (h : betInv σ = true) :
    let σ' := importBet (exportBet σ) (freshCore σ)
    σ'.bets = σ.bets ∧ σ'.pending = σ.pending ∧ σ'.settled = σ.settled ∧ σ'.betCount = σ.betCount ∧
    σ'.params.betBatch = σ.params.betBatch ∧ σ'.params.betMin = σ.params.betMin ∧ σ'.params.betFee = σ.params.betFee := by
  obtain ⟨hsort, hdup, _, _, _, hpe, hse, hpf, hsf, _⟩ := betInv_unpack σ h
  have hf := foldl_importOneBet (exportBet σ) (exportBet σ).bets { freshCore σ with betCount := (exportBet σ).count }
  simp only at hf
  obtain ⟨f1, f2, f3, f4, _⟩ := hf
  have hbets : (exportBet σ).bets = σ.bets.map (fun b => { b with id := 0 }) := rfl
  -- every bet gets its id back
  have hrestore : (exportBet σ).bets.map (restoreId (exportBet σ)) = σ.bets := by
    rw [hbets, List.map_map]
    conv => rhs; rw [← List.map_id σ.bets]
    apply List.map_congr_left
    intro b hb
    have e : idOf (exportBet σ).uid2id b.uid = b.id := idOf_export σ.bets hdup b hb
    simp only [Function.comp, restoreId, id, e]
  -- the index entries written for one bet
  have hpw : (exportBet σ).bets.flatMap (pendWrites (exportBet σ)) = (σ.bets.filter (fun b => b.settleHeight == 0)).map pendEntry := by
    rw [hbets, List.flatMap_map, ← flatMap_ite]
    apply flatMap_congr'
    intro b hb
    have e : idOf (exportBet σ).uid2id b.uid = b.id := idOf_export σ.bets hdup b hb
    simp only [Function.comp, pendWrites]
    rw [export_pending_filter, hpf b hb, e]
    cases b.settleHeight == 0 <;> simp [pendEntry]
  have hsw : (exportBet σ).bets.flatMap (settWrites (exportBet σ)) = (σ.bets.filter (fun b => b.settleHeight != 0)).map settEntry := by
    rw [hbets, List.flatMap_map, ← flatMap_ite]
    apply flatMap_congr'
    intro b hb
    have e : idOf (exportBet σ).uid2id b.uid = b.id := idOf_export σ.bets hdup b hb
    simp only [Function.comp, settWrites]
    rw [export_settled_filter, hsf b hb, e]
    cases b.settleHeight != 0 <;> simp [settEntry]
  unfold importBet
  simp only
  refine ⟨?_, ?_, ?_, ?_, rfl, rfl, rfl⟩
  · rw [f1, hrestore]; exact setAll_sorted Bet.key σ.bets hsort
  · rw [f2, hpw, hpe]; rfl
  · rw [f3, hsw, hse]; rfl
  · rw [f4]; rfl

-- =============================================================================================
-- mint

/-- C16 mint: minter and parameters come back. -/
theorem c16_import_export_mint (m : Mint.Minter) (p : Mint.Params) : importMint (exportMint m p) = (m, p) := rfl

/-- C16 mint: valid parameters and a non-negative inflation validate. -/
theorem c16_validate_export_mint (m : Mint.Minter) (p : Mint.Params) (hp : Mint.paramsValid p = true) (hm : 0 ≤ m.inflation.raw) :
    validateMint (exportMint m p) = 0 := by
  unfold validateMint exportMint
  simp only [hp, Bool.not_true, Bool.false_eq_true, ↓reduceIte]
  have : ¬ m.inflation.raw < 0 := by omega
  simp [this]

-- =============================================================================================
-- the two participation-exposure stores of x/orderbook

/-- C16 orderbook, exposure indexes: after export + import the by-odds store is back, and the by-index store is a copy of
    the by-odds store (the by-index store itself is never read by ExportGenesis). -/
theorem c16_import_export_exposure_stores (st : ExpStores) (h : sortedB expKey st.byOdds = true) :
    importExp (exportExp st) = { byOdds := st.byOdds, byIdx := st.byOdds } := by
  rw [sortedB_iff] at h
  unfold importExp exportExp
  simp only
  rw [setAll_sorted expKey st.byOdds h, setAll_self expKey st.byOdds h]

/-- … hence both stores are preserved exactly when they agree before the export (which the core suite's monitor
    `index_equal` checks on every visited state of the real chain). -/
theorem c16_exposure_stores_preserved_iff (st : ExpStores) (h : sortedB expKey st.byOdds = true) :
    (importExp (exportExp st)).byIdx = st.byIdx ↔ st.byIdx = st.byOdds := by
  rw [c16_import_export_exposure_stores st h]
  exact ⟨fun h => h.symm, fun h => h.symm⟩

-- =============================================================================================
-- orderbook: validation of the export

/-- C16 orderbook, patched code (repo_patches/genesis_orderbook_validate_per_book.diff): the export of a reachable
    state with accepted parameters validates. -/
theorem c16_validate_export_ob (σ : State) (h : obInv σ = true) (hp : σ.params.valid = true) :
    validateOb true (exportOb σ) = 0 := by
  unfold obInv at h
  simp only [Bool.and_eq_true] at h
  obtain ⟨⟨⟨hsb, hbk⟩, _⟩, _⟩ := h
  rw [sortedB_iff] at hsb
  obtain ⟨hpa, hq, hpe, hpi, hh, hb⟩ := exportOb_scans σ
  have F1 : (exportOb σ).parts.all (fun p => (exportOb σ).books.any (fun b => b.uid == p.1)) = true := by
    rw [List.all_eq_true]
    intro p hp'
    rw [hpa] at hp'
    obtain ⟨B, hB, h1, _⟩ := (mem_scan _ _ p).mp hp'
    rw [List.any_eq_true, hb]
    exact ⟨(Book.header B), List.mem_map.mpr ⟨B, hB, rfl⟩, by simp [Book.header, h1]⟩
  have F2 : firstErr ((exportOb σ).books.map (validateBook true (exportOb σ))) = 0 := by
    apply firstErr_zero
    intro c hc
    rw [hb, List.map_map] at hc
    obtain ⟨B, hB, rfl⟩ := List.mem_map.mp hc
    exact validateBook_export σ hsb B hB (List.all_eq_true.mp hbk B hB)
  have F3 : (exportOb σ).pexpsByIdx.all (fun x => (exportOb σ).pexps.any (sameExp x)) = true := by
    rw [hpi, hpe]; exact any_self_sameExp _
  have F4 : (exportOb σ).pexps.all (fun x => (exportOb σ).pexpsByIdx.any (sameExp x)) = true := by
    rw [hpi, hpe]; exact any_self_sameExp _
  have F5 : (exportOb σ).hist.all (fun x => (exportOb σ).pexps.any (sameExp x)) = true := by
    rw [List.all_eq_true]
    intro x hx
    rw [hh] at hx
    obtain ⟨B, hB, h1, h2⟩ := (mem_scan _ _ x).mp hx
    have hi := List.all_eq_true.mp hbk B hB
    unfold bookInv at hi
    simp only [Bool.and_eq_true] at hi
    have := List.all_eq_true.mp hi.2 x.2 h2
    rw [List.any_eq_true] at this ⊢
    obtain ⟨e, he, hm⟩ := this
    refine ⟨(B.uid, e), ?_, ?_⟩
    · rw [hpe]; exact (mem_scan _ _ _).mpr ⟨B, hB, rfl, he⟩
    · simp only [Bool.and_eq_true, beq_iff_eq] at hm
      simp [sameExp, h1, hm.1, hm.2]
  have F6 : (exportOb σ).pairs.all (fun x => (exportOb σ).books.any (fun b => b.uid == x.1)) = true := by
    rw [List.all_eq_true]
    intro x hx
    have hx' : x ∈ scan σ.books (fun b => b.pairs.map (fun y => (y.1, betUidOf σ y.2))) := by
      unfold scan
      simpa [exportOb, List.map_map, Function.comp_def] using hx
    obtain ⟨B, hB, h1, _⟩ := (mem_scan _ _ x).mp hx'
    rw [List.any_eq_true, hb]
    exact ⟨(Book.header B), List.mem_map.mpr ⟨B, hB, rfl⟩, by simp [Book.header, h1]⟩
  have F7 : obParamsOk (exportOb σ) = true := by
    unfold Params.valid at hp
    simp only [Bool.and_eq_true] at hp
    have a : 0 < σ.params.obMaxPart := by simpa using hp.1.2
    have b : 0 < σ.params.obBatch := by simpa using hp.2
    simp [obParamsOk, exportOb, a, b]
  unfold validateOb
  simp only [F1, F2, F3, F4, F5, F6, F7, Bool.not_true, Bool.false_eq_true, ↓reduceIte, bne_self_eq_false]

-- =============================================================================================
-- orderbook: import of the export

/-- C16 orderbook: InitGenesis of the module's export does not panic and every store comes back — books, participations,
    fulfilment queues, participation exposures, historical exposures, participation–bet pairs (with the bet ids looked
    up in the bet store imported before), the resolved-unsettled queue and the three parameters.
    `base` is the state of the new chain when the order-book genesis is reached: no books yet, bets imported. -/
theorem c16_import_export_ob (σ base : State) (h : obInv σ = true) (hu : hasDup (σ.bets.map (·.uid)) = false)
    (hb0 : base.books = []) (hb1 : base.bets = σ.bets) :
    ∃ σ', importOb (exportOb σ) base = some σ' ∧ σ'.books = σ.books ∧ σ'.obqueue = σ.obqueue ∧ σ'.bets = σ.bets ∧
      σ'.params.obMaxPart = σ.params.obMaxPart ∧ σ'.params.obBatch = σ.params.obBatch ∧
      σ'.params.obThreshold = σ.params.obThreshold := by
  unfold obInv at h
  simp only [Bool.and_eq_true] at h
  obtain ⟨⟨⟨hsb, hbk⟩, hi⟩, hpairs⟩ := h
  rw [sortedB_iff] at hsb
  have hi : hasDup (σ.bets.map (·.id)) = false := by simpa using hi
  obtain ⟨kp, kq, ke, kh, kx⟩ := ops_keep_uid
  -- stage 0: the books
  have hskel : Sorted Book.key (base.books ++ ((exportOb σ).books.map skelOf)) := by
    rw [hb0, (exportOb_scans σ).2.2.2.2.2, List.map_map]
    simpa using sorted_map_key Book.key (skelOf ∘ Book.header) σ.books hsb (fun _ => rfl)
  obtain ⟨a1, a2, _, _⟩ := foldl_setBookRec (exportOb σ).books base hskel
  have sorted_stage : ∀ (l : List Book) (g : Book → Book), (∀ a, (g a).uid = a.uid) → Sorted Book.key l → Sorted Book.key (l.map g) :=
    fun l g hg hl => sorted_map_key Book.key g l hl (fun a => by simp [Book.key, hg])
  -- stages 1–5
  generalize hs1 : (exportOb σ).books.foldl setBookRec base = s1 at a1 a2
  rw [hb0, (exportOb_scans σ).2.2.2.2.2, List.map_map, List.nil_append] at a1
  have hs1s : Sorted Book.key s1.books := by rw [a1]; exact sorted_stage _ _ (fun _ => rfl) hsb
  have e1 : (exportOb σ).parts.foldl (fun acc p => onBook acc p.1 (fun b => b.setPart p.2)) s1 =
      (opParts σ.books).foldl (fun acc o => onBook acc o.1 o.2) s1 := by
    unfold opParts; rw [List.foldl_map]; rfl
  obtain ⟨b1, b2, _, _⟩ := foldl_onBook (opParts σ.books) (kp _) s1 hs1s
  generalize hs2 : (opParts σ.books).foldl (fun acc o => onBook acc o.1 o.2) s1 = s2 at e1 b1 b2
  have hs2s : Sorted Book.key s2.books := by rw [b1]; exact sorted_stage _ _ (applyOps_uid _ (kp _)) hs1s
  have e2 : (exportOb σ).queues.foldl (fun acc q => onBook acc q.1 (fun b => b.setQueue q.2.1 q.2.2)) s2 =
      (opQueues σ.books).foldl (fun acc o => onBook acc o.1 o.2) s2 := by
    unfold opQueues; rw [List.foldl_map]; rfl
  obtain ⟨c1, c2, _, _⟩ := foldl_onBook (opQueues σ.books) (kq _) s2 hs2s
  generalize hs3 : (opQueues σ.books).foldl (fun acc o => onBook acc o.1 o.2) s2 = s3 at e2 c1 c2
  have hs3s : Sorted Book.key s3.books := by rw [c1]; exact sorted_stage _ _ (applyOps_uid _ (kq _)) hs2s
  have e3 : (exportOb σ).pexps.foldl (fun acc e => onBook acc e.1 (fun b => b.setExp e.2)) s3 =
      (opExps σ.books).foldl (fun acc o => onBook acc o.1 o.2) s3 := by
    unfold opExps; rw [List.foldl_map]; rfl
  obtain ⟨d1, d2, _, _⟩ := foldl_onBook (opExps σ.books) (ke _) s3 hs3s
  generalize hs4 : (opExps σ.books).foldl (fun acc o => onBook acc o.1 o.2) s3 = s4 at e3 d1 d2
  have hs4s : Sorted Book.key s4.books := by rw [d1]; exact sorted_stage _ _ (applyOps_uid _ (ke _)) hs3s
  have e4 : (exportOb σ).pexpsByIdx.foldl (fun acc e => onBook acc e.1 (fun b => b.setExp e.2)) s4 =
      (opExps σ.books).foldl (fun acc o => onBook acc o.1 o.2) s4 := by
    unfold opExps; rw [List.foldl_map]; rfl
  obtain ⟨f1, f2, _, _⟩ := foldl_onBook (opExps σ.books) (ke _) s4 hs4s
  generalize hs5 : (opExps σ.books).foldl (fun acc o => onBook acc o.1 o.2) s4 = s5 at e4 f1 f2
  have hs5s : Sorted Book.key s5.books := by rw [f1]; exact sorted_stage _ _ (applyOps_uid _ (ke _)) hs4s
  have e5 : (exportOb σ).hist.foldl (fun acc e => onBook acc e.1 (fun b => b.setHist e.2)) s5 =
      (opHist σ.books).foldl (fun acc o => onBook acc o.1 o.2) s5 := by
    unfold opHist; rw [List.foldl_map]; rfl
  obtain ⟨g1, g2, _, _⟩ := foldl_onBook (opHist σ.books) (kh _) s5 hs5s
  generalize hs6 : (opHist σ.books).foldl (fun acc o => onBook acc o.1 o.2) s5 = s6 at e5 g1 g2
  have hs6s : Sorted Book.key s6.books := by rw [g1]; exact sorted_stage _ _ (applyOps_uid _ (kh _)) hs5s
  have hbets6 : s6.bets = σ.bets := by rw [g2, f2, d2, c2, b2, a2, hb1]
  -- stage 6: the bet pairs
  have hl : ∀ y ∈ scan σ.books (·.pairs), σ.bets.any (fun t => t.id == y.2.2) = true := by
    intro y hy
    obtain ⟨b, hb, _, h2⟩ := (mem_scan _ _ y).mp hy
    exact List.all_eq_true.mp (List.all_eq_true.mp hpairs b hb) y.2 h2
  have e6 := foldl_importPair σ hu hi (scan σ.books (·.pairs)) hl s6 hbets6 hs6s
  rw [← export_pairs_scan σ] at e6
  have e6' : (scan σ.books (·.pairs)).map (fun y => (y.1, fun (b : Book) => b.addPair y.2.1 y.2.2)) = opPairs σ.books := rfl
  rw [e6'] at e6
  obtain ⟨i1, i2, i3, i4⟩ := foldl_onBook (opPairs σ.books) (kx _) s6 hs6s
  generalize hs7 : (opPairs σ.books).foldl (fun acc o => onBook acc o.1 o.2) s6 = s7 at e6 i1 i2 i3 i4
  -- assemble
  unfold importOb
  simp only
  rw [hs1, e1, e2, e3, e4, e5, e6]
  refine ⟨_, rfl, ?_, rfl, ?_, rfl, rfl, rfl⟩
  · show s7.books = σ.books
    rw [i1, g1, f1, d1, c1, b1, a1]
    simp only [List.map_map]
    conv => rhs; rw [← List.map_id σ.books]
    apply List.map_congr_left
    intro b hb
    simp only [Function.comp, id]
    exact rebuild_book σ.books hsb b hb (List.all_eq_true.mp hbk b hb)
  · show s7.bets = σ.bets
    rw [i2, hbets6]

-- =============================================================================================
-- the four core modules together: a restarted chain is the chain that was never restarted

/-- C16, core modules (bet, market, orderbook, house in the order of app/modules.go): importing the export of a
    reachable state into a fresh chain (same bank balances, authz grants and block clock) gives the same state —
    markets, books with all nested stores, bets with both indexes and the counter, deposits, withdrawals, parameters. -/
theorem c16_core_restart (σ : State) (hm : marketInv σ = true) (hh : houseInv σ = true) (hb : betInv σ = true)
    (ho : obInv σ = true) : importCore (exportCore σ) (freshCore σ) = some σ := by
  obtain ⟨b1, b2, b3, b4, b5, b6, b7⟩ := c16_import_export_bet σ hb
  have sb := importBet_same (exportBet σ) (freshCore σ)
  obtain ⟨_, hdup, _⟩ := betInv_unpack σ hb
  -- the state when the order-book genesis is reached
  have hbooks : (importMarket (exportMarket σ) (importBet (exportBet σ) (freshCore σ))).books = [] := sb.2.2.2.1
  have hbets : (importMarket (exportMarket σ) (importBet (exportBet σ) (freshCore σ))).bets = σ.bets := b1
  obtain ⟨σ3, e3, o1, o2, o3, o4, o5, o6⟩ := c16_import_export_ob σ _ ho hdup hbooks hbets
  have so := importOb_sameOb _ _ _ e3
  obtain ⟨m1, _⟩ := c16_import_export_market σ hm
  obtain ⟨d1, d2, _, _, _⟩ := c16_import_export_house σ hh
  unfold importCore exportCore
  simp only
  rw [e3]
  simp only [Option.map_some, Option.some.injEq]
  obtain ⟨s1, s2, s3, s4, s5, s6, s7, s8, s9, s10, s11, s12, s13, s14, s15, s16, s17, s18⟩ := so
  obtain ⟨t1, t2, t3, t4, t5, t6, t7, t8, t9, t10⟩ := sb
  apply State.ext'
  · show σ3.bal = σ.bal
    rw [s1]; exact t1
  · show σ3.markets = σ.markets
    rw [s2]
    show setAll Market.key σ.markets (importBet (exportBet σ) (freshCore σ)).markets = σ.markets
    rw [t2]; exact m1
  · show σ3.mqueue = σ.mqueue
    rw [s3]; rfl
  · exact o1
  · exact o2
  · show σ3.bets = σ.bets
    exact o3
  · show σ3.pending = σ.pending
    rw [s5]; exact b2
  · show σ3.settled = σ.settled
    rw [s6]; exact b3
  · show σ3.betCount = σ.betCount
    rw [s7]; exact b4
  · show setAll Deposit.key σ.deposits σ3.deposits = σ.deposits
    rw [s8]
    show setAll Deposit.key σ.deposits (importBet (exportBet σ) (freshCore σ)).deposits = σ.deposits
    rw [t6]; exact d1
  · show setAll Withdrawal.key σ.withdrawals σ3.withdrawals = σ.withdrawals
    rw [s9]
    show setAll Withdrawal.key σ.withdrawals (importBet (exportBet σ) (freshCore σ)).withdrawals = σ.withdrawals
    rw [t7]; exact d2
  · show σ3.grants = σ.grants
    rw [s10]; exact t8
  · apply Params.ext'
    · show σ3.params.betBatch = _
      rw [s13]; exact b5
    · show σ3.params.betMin = _
      rw [s14]; exact b6
    · show σ3.params.betFee = _
      rw [s15]; exact b7
    · rfl
    · rfl
    · rfl
    · exact o4
    · exact o5
    · exact o6
  · show σ3.height = σ.height
    rw [s11]; exact t9
  · show σ3.time = σ.time
    rw [s12]; exact t10

/-- C16 `continue_equal`, core modules: continuing with the same transactions and blocks on the restarted chain yields
    the same state (balances and every record) as on the chain that was never restarted. -/
theorem c16_core_continue_equal (σ : State) (hm : marketInv σ = true) (hh : houseInv σ = true) (hb : betInv σ = true)
    (ho : obInv σ = true) (ops : List Op) :
    (importCore (exportCore σ) (freshCore σ)).map (fun σ' => run σ' ops) = some (run σ ops) := by
  rw [c16_core_restart σ hm hh hb ho]
  rfl

def cexTk : Tk := { ok := true, kycIgnore := true, kycApproved := false, kycId := 0 }

def cexBase : State :=
  { bal := [(1, 1000), (2, 1000)], time := 100, params := { houseMin := 10, betMin := 2, betFee := 1, houseMaxW := 3 } }

/-- one market, nobody has deposited yet -/
def obCexOne : State := run cexBase [.marketAdd 0 cexTk 1 50 5000 [11, 12] MS_ACTIVE]

/-- two markets, one deposit in each -/
def obCexTwo : State :=
  run cexBase [.marketAdd 0 cexTk 1 50 5000 [11, 12] MS_ACTIVE, .marketAdd 0 cexTk 2 50 5000 [21, 22] MS_ACTIVE,
    .deposit 1 cexTk 1 500 0, .deposit 2 cexTk 2 500 0]

/-- C16 orderbook, code as it is: the export of a chain with one market and no deposit fails the module's own
    validation ("book … not found for odds …": the book has no participation exposure for its own outcomes yet).
    The patched check accepts it. -/
theorem c16_ob_asis_counterexample_no_deposit :
    obInv obCexOne = true ∧ obCexOne.books.length = 1 ∧
    validateOb false (exportOb obCexOne) = 2 ∧ validateOb true (exportOb obCexOne) = 0 := by
  decide +kernel

/-- C16 orderbook, code as it is: with two markets that both have deposits the export fails too (every book is
    asked for participation exposures of the outcomes of *all* books). -/
theorem c16_ob_asis_counterexample_two_books :
    obInv obCexTwo = true ∧ obCexTwo.books.length = 2 ∧ obCexTwo.deposits.length = 2 ∧
    validateOb false (exportOb obCexTwo) = 2 ∧ validateOb true (exportOb obCexTwo) = 0 := by
  decide +kernel

/-- C16 orderbook, code as it is, the part that holds: with exactly one book, and at least one participation in it,
    the export validates. Excluded: a book without participations, and any state with two or more books. -/
theorem c16_validate_export_ob_partial (σ : State) (h : obInv σ = true) (hp : σ.params.valid = true)
    (B : Book) (hone : σ.books = [B]) (hpart : B.partCount ≠ 0) : validateOb false (exportOb σ) = 0 := by
  have hfix := c16_validate_export_ob σ h hp
  have hq : (exportOb σ).queues.filter (fun q => q.1 == B.uid) = (exportOb σ).queues := by
    rw [List.filter_eq_self]
    intro q hq
    rw [(exportOb_scans σ).2.1, hone] at hq
    obtain ⟨b, hb, h1, _⟩ := (mem_scan _ _ q).mp hq
    rcases List.mem_cons.mp hb with rfl | hb
    · simp [h1]
    · cases hb
  have hbooks : (exportOb σ).books = [Book.header B] := by
    rw [(exportOb_scans σ).2.2.2.2.2, hone]; rfl
  unfold validateOb at hfix ⊢
  rw [hbooks] at hfix ⊢
  simp only [List.map_cons, List.map_nil] at hfix ⊢
  rw [validateBook_asis_eq (exportOb σ) (Book.header B) hq hpart]
  exact hfix

-- =============================================================================================
-- ovm

/-- C16 ovm: key vault (strings and order), both proposal stores and the proposal counter come back. -/
theorem c16_import_export_ovm (σ : Ovm.State) (h : ovmInv σ = true) : importOvm (exportOvm σ) = σ := by
  unfold ovmInv at h
  simp only [Bool.and_eq_true] at h
  obtain ⟨ha, hf⟩ := h
  rw [sortedIds_iff] at ha hf
  unfold importOvm exportOvm
  simp only [List.foldl_append]
  rw [foldl_importProposal_active, foldl_importProposal_finished]
  simp only
  rw [foldl_setP σ.active [] (by simpa using ha), foldl_setP σ.finished [] (by simpa using hf)]
  simp

/-- C16 ovm: a vault of 4 to 5 strings that all parse as Ed25519 public keys validates (the only thing the genesis
    validation of x/ovm looks at; with the patch of C14 additionally: no key in two encodings). -/
theorem c16_validate_export_ovm (fixed : Bool) (σ : Ovm.State) (h1 : Ovm.minKeys ≤ σ.vault.length) (h2 : σ.vault.length ≤ Ovm.maxKeys)
    (h3 : σ.vault.all (fun k => (Ovm.decode k).isSome) = true) (h4 : fixed = true → Ovm.distinctKeys σ.vault = true) :
    validateOvm fixed (exportOvm σ) = 0 := by
  unfold validateOvm exportOvm
  have a : ¬ σ.vault.length < Ovm.minKeys := by omega
  have b : ¬ σ.vault.length > Ovm.maxKeys := by omega
  simp only [a, b, ↓reduceIte, h3, Bool.not_true, Bool.false_eq_true]
  cases fixed
  · simp
  · simp [h4 rfl]

-- =============================================================================================
-- subaccount

/-- reachable-state invariant of x/subaccount: the id counter is positive; every subaccount lives at the address of an
    id below the counter; summary and locked balances exist exactly for the subaccounts; the two owner maps are inverse to
    each other; the locked balances of a subaccount have pairwise different unlock times (they are a keyed store) -/
structure SubInv (s : Subaccount.State) : Prop where
  idpos : s.nextId ≠ 0
  dom : ∀ a o, s.subMap a = some o → ∃ id, id < s.nextId ∧ a = Subaccount.addrOf id
  subs : ∀ a, s.subMap a ≠ none ↔ s.subs a ≠ none
  own : ∀ o a, s.ownerMap o = some a ↔ s.subMap a = some o
  locks : ∀ a sub, s.subs a = some sub → DistinctTs sub.locks

/-- C16 subaccount: ExportGenesis does not panic, and InitGenesis of the export restores the id counter, both owner maps,
    every account summary, every locked balance (as a map unlock time → amount) and the parameters. -/
theorem c16_import_export_sub (s : Subaccount.State) (h : SubInv s) :
    ∃ g, exportSub s = some g ∧ validateSub g = 0 ∧
      (importSub g s).nextId = s.nextId ∧ (importSub g s).wagerEnabled = s.wagerEnabled ∧
      (importSub g s).depositEnabled = s.depositEnabled ∧
      (∀ a, (importSub g s).subMap a = s.subMap a) ∧ (∀ o, (importSub g s).ownerMap o = s.ownerMap o) ∧
      (∀ a, ((importSub g s).subs a).map (·.sum) = (s.subs a).map (·.sum)) ∧
      (∀ a ts, ((importSub g s).subs a).map (fun x => lockAt x.locks ts) = (s.subs a).map (fun x => lockAt x.locks ts)) := by
  obtain ⟨accs, hacc⟩ := exportSubAccs_some s (subAddrs s) (fun a _ hne => (h.subs a).mp hne)
  obtain ⟨sp1, sp2, sp3⟩ := exportSubAccs_spec s (subAddrs s) accs hacc
  have hda := sp3 (subAddrs_pairwise s)
  -- owners are pairwise different as well (the owner maps are inverse to each other)
  have hdo : accs.Pairwise (fun x y => x.owner ≠ y.owner) := by
    apply hda.imp_of_mem
    intro x y hx hy hne heq
    have ox := (h.own x.owner x.addr).mpr (sp1 x hx).2.1
    have oy := (h.own y.owner y.addr).mpr (sp1 y hy).2.1
    rw [heq, oy] at ox
    exact hne (Option.some.inj ox).symm
  refine ⟨{ id := s.nextId, accounts := accs, wagerEnabled := s.wagerEnabled, depositEnabled := s.depositEnabled }, ?_, rfl, ?_⟩
  · unfold exportSub; rw [hacc]; rfl
  · -- the fresh stores the loop starts from
    have hmem : ∀ a o, s.subMap a = some o → ∃ x ∈ accs, x.addr = a := by
      intro a o hao
      obtain ⟨id, hid, rfl⟩ := h.dom a o hao
      exact sp2 _ (List.mem_map.mpr ⟨id, List.mem_range.mpr hid, rfl⟩) o hao
    unfold importSub
    simp only
    have hidne : (s.nextId != 0) = true := by simpa using h.idpos
    simp only [hidne, ↓reduceIte]
    refine ⟨?_, ?_, ?_, ?_, ?_, ?_, ?_⟩
    · exact (foldl_importSubAcc_addr accs hda _ 0).2.2.1
    · exact (foldl_importSubAcc_addr accs hda _ 0).2.2.2.1
    · exact (foldl_importSubAcc_addr accs hda _ 0).2.2.2.2
    · intro a
      obtain ⟨f1, f2, _⟩ := foldl_importSubAcc_addr accs hda
        { s with nextId := s.nextId, wagerEnabled := s.wagerEnabled, depositEnabled := s.depositEnabled,
                 ownerMap := fun _ => none, subMap := fun _ => none, subs := fun _ => none } a
      by_cases hex : ∃ x ∈ accs, x.addr = a
      · obtain ⟨x, hx, hxa⟩ := hex
        rw [(f1 x hx hxa).1, ← hxa]
        exact (sp1 x hx).2.1.symm
      · have hno : ∀ x ∈ accs, x.addr ≠ a := fun x hx e => hex ⟨x, hx, e⟩
        rw [(f2 hno).1]
        cases hsa : s.subMap a with
        | none => rfl
        | some o => exact absurd (hmem a o hsa) hex
    · intro o
      obtain ⟨f1, f2⟩ := foldl_importSubAcc_owner accs hdo
        { s with nextId := s.nextId, wagerEnabled := s.wagerEnabled, depositEnabled := s.depositEnabled,
                 ownerMap := fun _ => none, subMap := fun _ => none, subs := fun _ => none } o
      by_cases hex : ∃ x ∈ accs, x.owner = o
      · obtain ⟨x, hx, hxo⟩ := hex
        rw [f1 x hx hxo, ← hxo]
        exact ((h.own x.owner x.addr).mpr (sp1 x hx).2.1).symm
      · have hno : ∀ x ∈ accs, x.owner ≠ o := fun x hx e => hex ⟨x, hx, e⟩
        rw [f2 hno]
        cases hso : s.ownerMap o with
        | none => rfl
        | some a =>
          have hsa := (h.own o a).mp hso
          obtain ⟨x, hx, hxa⟩ := hmem a o hsa
          have := (sp1 x hx).2.1
          rw [hxa, hsa] at this
          exact absurd (Option.some.inj this).symm (hno x hx)
    · intro a
      obtain ⟨f1, f2, _⟩ := foldl_importSubAcc_addr accs hda
        { s with nextId := s.nextId, wagerEnabled := s.wagerEnabled, depositEnabled := s.depositEnabled,
                 ownerMap := fun _ => none, subMap := fun _ => none, subs := fun _ => none } a
      by_cases hex : ∃ x ∈ accs, x.addr = a
      · obtain ⟨x, hx, hxa⟩ := hex
        obtain ⟨_, _, sub, hsub, hsum, _⟩ := sp1 x hx
        rw [(f1 x hx hxa).2, ← hxa, hsub]
        simp [hsum]
      · have hno : ∀ x ∈ accs, x.addr ≠ a := fun x hx e => hex ⟨x, hx, e⟩
        rw [(f2 hno).2]
        cases hsa : s.subs a with
        | none => rfl
        | some sub =>
          have : s.subMap a ≠ none := (h.subs a).mpr (by simp [hsa])
          cases hm : s.subMap a with
          | none => exact absurd hm this
          | some o => exact absurd (hmem a o hm) hex
    · intro a ts
      obtain ⟨f1, f2, _⟩ := foldl_importSubAcc_addr accs hda
        { s with nextId := s.nextId, wagerEnabled := s.wagerEnabled, depositEnabled := s.depositEnabled,
                 ownerMap := fun _ => none, subMap := fun _ => none, subs := fun _ => none } a
      by_cases hex : ∃ x ∈ accs, x.addr = a
      · obtain ⟨x, hx, hxa⟩ := hex
        obtain ⟨_, _, sub, hsub, _, hlocks⟩ := sp1 x hx
        rw [(f1 x hx hxa).2, ← hxa, hsub]
        simp only [Option.map_some, Option.some.injEq]
        rw [hlocks]
        exact lockAt_roundtrip sub.locks (h.locks x.addr sub hsub) ts
      · have hno : ∀ x ∈ accs, x.addr ≠ a := fun x hx e => hex ⟨x, hx, e⟩
        rw [(f2 hno).2]
        cases hsa : s.subs a with
        | none => rfl
        | some sub =>
          have : s.subMap a ≠ none := (h.subs a).mpr (by simp [hsa])
          cases hm : s.subMap a with
          | none => exact absurd hm this
          | some o => exact absurd (hmem a o hm) hex

-- =============================================================================================
-- reward

/-- C16 reward, patched code (repo_patches/genesis_reward_export_promoters.diff): all seven collections come back —
    promoters, promoters by address, campaigns (pools included, as part of the record), rewards, both reward indexes
    and the per-account grant counters. -/
theorem c16_import_export_reward (st : RewardStores) (h : rewardInv st = true) :
    importReward true (exportReward true st) = some st := by
  unfold rewardInv at h
  simp only [Bool.and_eq_true] at h
  obtain ⟨⟨⟨⟨⟨⟨⟨hp, ha⟩, hc⟩, hr⟩, hbc⟩, hbm⟩, hcat⟩, hst⟩ := h
  rw [sortedB_iff] at hp ha hc hr hbc hbm
  have hst : st.grantStats = rebuiltStats st := by simpa using hst
  unfold importReward exportReward
  simp only [↓reduceIte]
  rw [setAll_sorted _ st.promoters hp, setAll_sorted _ st.byAddress ha, setAll_sorted _ st.campaigns hc,
    setAll_sorted _ st.byCampaign hbm]
  -- after the reward loop
  have hf := foldl_importRewardRec_frame true st.rewards
    { emptyReward with promoters := st.promoters, byAddress := st.byAddress, campaigns := st.campaigns }
  simp only at hf
  obtain ⟨f1, f2, f3, f4, f5, f6⟩ := hf
  have f7 := foldl_importRewardRec_stats_true st.rewards
    { emptyReward with promoters := st.promoters, byAddress := st.byAddress, campaigns := st.campaigns }
    { emptyReward with campaigns := st.campaigns } rfl rfl
  have f1 := f1.trans (setAll_sorted (fun (x : Reward) => [x.uid]) st.rewards hr)
  have hst2 : st.rewards.foldl (importRewardRec true)
      { emptyReward with promoters := st.promoters, byAddress := st.byAddress, campaigns := st.campaigns } =
      { st with byCategory := [], byCampaign := [] } := by
    generalize st.rewards.foldl (importRewardRec true)
      { emptyReward with promoters := st.promoters, byAddress := st.byAddress, campaigns := st.campaigns } = r at *
    cases r
    simp only [emptyReward] at *
    simp only [RewardStores.mk.injEq]
    refine ⟨f3, f4, f2, f1, f5, f6, ?_⟩
    rw [f7, hst]
    rfl
  rw [hst2]
  rw [foldl_importByCat st.byCategory]
  · simp only
    rw [setAll_sorted _ st.byCategory hbc]
  · intro x hx bc
    have := List.all_eq_true.mp hcat x hx
    have e : promoterOfReward st x.uid = some x.promoterUid := by simpa using this
    rw [← e]
    exact promoterOfReward_congr _ _ rfl rfl rfl _

/-- C16 reward: unique campaign and reward uids validate (the two index lists inherit uniqueness from being keyed
    stores whose key ends with the reward uid — part of the hypothesis here). Same for both variants. -/
theorem c16_validate_export_reward (fixed : Bool) (st : RewardStores) (h : rewardInv st = true)
    (h3 : hasDup (st.byCategory.map (·.uid)) = false) (h4 : hasDup (st.byCampaign.map (·.2)) = false) :
    validateReward (exportReward fixed st) = 0 := by
  unfold rewardInv at h
  simp only [Bool.and_eq_true] at h
  obtain ⟨⟨⟨⟨⟨⟨⟨_, _⟩, hc⟩, hr⟩, _⟩, _⟩, _⟩, _⟩ := h
  rw [sortedB_iff] at hc hr
  unfold validateReward exportReward
  simp only [List.map_map]
  rw [sorted_noDup _ (·.uid) st.campaigns hc (fun _ => rfl), sorted_noDup _ (·.uid) st.rewards hr (fun _ => rfl)]
  have : (st.byCategory.map ((fun (x : Nat × Nat × Nat) => x.2.2) ∘ fun x => (x.receiver, x.category, x.uid))) = st.byCategory.map (·.uid) := rfl
  rw [this, h3, h4]
  rfl

/-- one promoter (uid 7, address 11), one campaign of that promoter, one reward granted to account 3 -/
def rewardCex : RewardStores :=
  { promoters := [(7, 100)], byAddress := [(11, 7)],
    campaigns := [{ uid := 1, promoter := 11, capCount := 2, digest := 200 }],
    rewards := [{ uid := 1, campaign := 1, receiver := 3, digest := 300 }],
    byCategory := [{ promoterUid := 7, receiver := 3, category := 1, uid := 1 }],
    byCampaign := [(1, 1)], grantStats := [(1, 3, 1)] }

/-- C16 reward, code as it is: with one granted reward, InitGenesis of the module's own export panics ("promoter is not
    valid": the by-category loop looks the promoter up, but promoters are not exported); the export validates. The
    patched variant restores the state. -/
theorem c16_reward_asis_counterexample_panic :
    rewardInv rewardCex = true ∧ validateReward (exportReward false rewardCex) = 0 ∧
    importReward false (exportReward false rewardCex) = none ∧ importReward true (exportReward true rewardCex) = some rewardCex := by
  decide +kernel

/-- C16 reward, code as it is: without any reward the import succeeds but the promoter, its address record (and with
    them the right to run the campaign) are gone. -/
theorem c16_reward_asis_counterexample_lost :
    importReward false (exportReward false { rewardCex with rewards := [], byCategory := [], byCampaign := [], grantStats := [] }) =
      some { emptyReward with campaigns := rewardCex.campaigns } := by
  decide +kernel

/-- C16 reward, code as it is, the part that holds: campaigns (with their pools), rewards and the by-campaign index come
    back. Excluded: promoters, promoters by address, grant counters (lost) and any state with a granted reward (the
    by-category index cannot be rebuilt without the promoters: panic). -/
theorem c16_import_export_reward_partial (st : RewardStores) (h : rewardInv st = true)
    (h0 : st.promoters = []) (h1 : st.byAddress = []) (h2 : st.byCategory = []) (h3 : st.grantStats = []) :
    importReward false (exportReward false st) = some st := by
  unfold rewardInv at h
  simp only [Bool.and_eq_true] at h
  obtain ⟨⟨⟨⟨⟨⟨⟨_, _⟩, hc⟩, hr⟩, _⟩, hbm⟩, _⟩, _⟩ := h
  rw [sortedB_iff] at hc hr hbm
  unfold importReward exportReward
  simp only [Bool.false_eq_true, ↓reduceIte, h2, List.map_nil, List.foldl_nil]
  rw [setAll_sorted _ st.campaigns hc, setAll_sorted _ st.byCampaign hbm]
  have hf := foldl_importRewardRec_frame false st.rewards
    { emptyReward with promoters := setAll (fun (x : Nat × Nat) => [x.1]) [] [], byAddress := setAll (fun (x : Nat × Nat) => [x.1]) [] [], campaigns := st.campaigns }
  simp only at hf
  obtain ⟨f1, f2, f3, f4, f5, f6⟩ := hf
  have f7 := foldl_importRewardRec_stats_false st.rewards
    { emptyReward with promoters := setAll (fun (x : Nat × Nat) => [x.1]) [] [], byAddress := setAll (fun (x : Nat × Nat) => [x.1]) [] [], campaigns := st.campaigns }
  have f1 := f1.trans (setAll_sorted (fun (x : Reward) => [x.uid]) st.rewards hr)
  generalize st.rewards.foldl (importRewardRec false)
    { emptyReward with promoters := setAll (fun (x : Nat × Nat) => [x.1]) [] [], byAddress := setAll (fun (x : Nat × Nat) => [x.1]) [] [], campaigns := st.campaigns } = r at *
  cases r
  cases st
  simp only [emptyReward, setAll, List.foldl_nil] at *
  simp only [Option.some.injEq, RewardStores.mk.injEq]
  subst h0 h1 h2 h3
  exact ⟨f3, f4, f2, f1, f5, trivial, f7⟩

-- =============================================================================================
-- the hypotheses are satisfiable: concrete non-trivial reachable states

/-- two markets, own and delegated deposits, a withdrawal by a depositor who created the deposit himself, two bets, one
    market resolved and settled -/
def exampleState : State :=
  run { cexBase with bal := [(1, 5000), (2, 5000)] } [.marketAdd 0 cexTk 1 50 5000 [11, 12] MS_ACTIVE, .marketAdd 0 cexTk 2 50 5000 [21, 22, 23] MS_ACTIVE,
    .deposit 1 cexTk 1 500 0, .grant 2 1 0 1000 none, .deposit 1 cexTk 2 400 2, .withdraw 1 cexTk 1 1 WM_PARTIAL 50 0,
    .send 1 6 300, .send 1 7 300,
    .wager 6 cexTk 1 100 { market := 1, odds := 11, oddsVal := some ⟨2 * PREC⟩, mult := ⟨PREC⟩, allOdds := [(11, ⟨PREC⟩), (12, ⟨PREC⟩)], oddsTypeOk := true },
    .wager 7 cexTk 2 50 { market := 2, odds := 22, oddsVal := some ⟨3 * PREC⟩, mult := ⟨PREC⟩, allOdds := [(21, ⟨PREC⟩), (22, ⟨PREC⟩), (23, ⟨PREC⟩)], oddsTypeOk := true },
    .endBlock, .marketResolve cexTk 1 100 MS_DECLARED [11], .endBlock, .newBlock 3 200, .endBlock]

example : marketInv exampleState = true ∧ houseInv exampleState = true ∧ betInv exampleState = true ∧ obInv exampleState = true ∧
    exampleState.params.valid = true ∧ exampleState.bets.length = 2 ∧ exampleState.settled.length = 1 ∧
    exampleState.pending.length = 1 ∧ exampleState.withdrawals.length = 1 ∧ exampleState.deposits.length = 2 := by
  decide +kernel

example : importCore (exportCore exampleState) (freshCore exampleState) = some exampleState :=
  c16_core_restart exampleState (by decide +kernel) (by decide +kernel) (by decide +kernel) (by decide +kernel)

def exampleOvm : Ovm.State :=
  { vault := [1, 9, 17, 25], count := 2,
    active := [{ id := 2, creator := 0, keys := [0, 8, 16, 32], leader := 0, votes := [(1, Ovm.Vote.yes)], startTS := 5, finishTS := 0, result := Ovm.Result.unspecified }],
    finished := [{ id := 1, creator := 0, keys := [0, 8, 16, 40], leader := 0, votes := [], startTS := 1, finishTS := 9, result := Ovm.Result.expired }] }

example : ovmInv exampleOvm = true ∧ importOvm (exportOvm exampleOvm) = exampleOvm ∧ validateOvm false (exportOvm exampleOvm) = 0 := by
  decide

/-- one subaccount (id 1, owner 3) with two locked balances -/
def exampleSub : Subaccount.State :=
  { nextId := 2,
    ownerMap := fun o => if o = 3 then some 1001 else none,
    subMap := fun a => if a = 1001 then some 3 else none,
    subs := fun a => if a = 1001 then some { sum := { deposited := 300, spent := 20 }, locks := [(900, 200), (500, 100)] } else none }

example : SubInv exampleSub where
  idpos := by decide
  dom := by
    intro a o h
    refine ⟨1, by decide, ?_⟩
    unfold exampleSub at h
    simp only at h
    split at h
    · assumption
    · cases h
  subs := by
    intro a
    unfold exampleSub
    simp only
    split <;> simp
  own := by
    intro o a
    unfold exampleSub
    simp only
    constructor
    · intro h
      split at h
      · rename_i ho
        cases h
        simp [ho]
      · cases h
    · intro h
      split at h
      · rename_i ha
        cases h
        simp [ha]
      · cases h
  locks := by
    intro a sub h
    unfold exampleSub at h
    simp only at h
    split at h
    · cases h
      unfold DistinctTs
      simp
    · cases h

end Sge.Genesis
