/-
  C16  Export and re-import of state at any height preserves what users are owed.

  Per custom module `m` (model: lean/Sge/Genesis.lean, written after x/m/genesis.go and x/m/types/genesis.go):
    `c16_import_export_m`   import_m (export_m σ) = σ on every store of the module (indexes and counters included),
    `c16_validate_export_m` the export of a state satisfying the module's invariant passes the module's own `Validate`.
  The invariants (`marketInv`, `houseInv`, `betInv`, `obInv`, `ovmInv`, `rewardInv`, `SubInv`) are stated in
  Sge/Genesis.lean; they are hypotheses here, and the correspondence suite `genesis` evaluates them on the model state at
  every export point of every history (line `inv`).

  NOT true of the code as it is in /repo (three findings, each reproduced on the real code by the suite `genesis_scripted`):
    * x/house   validate (export σ) fails after a delegated deposit and a withdrawal   → `c16_house_asis_counterexample`,
                what holds: `c16_validate_export_house_partial`; patched code: `c16_validate_export_house`
    * x/orderbook validate (export σ) fails with a book without deposits or with two books that have deposits
                                                                                     → `c16_ob_asis_counterexample_*`,
                what holds: `c16_validate_export_ob_partial`; patched code: `c16_validate_export_ob`
    * x/reward  ExportGenesis omits promoters, promoters by address and the grant counters: import (export σ) panics
                as soon as one reward exists, and loses the promoters otherwise       → `c16_reward_asis_counterexample_*`,
                what holds: `c16_import_export_reward_partial`; patched code: `c16_import_export_reward`
  The full statements (for the code as it is) are the `…` theorems of the patched variants with `fixed := false`.
-/
import SgeProofs.Lemmas.Genesis
namespace Sge.Genesis
open Sge Sge.Core

-- =============================================================================================
-- market

/-- C16 market: every market and the resolved-unsettled queue come back. -/
theorem c16_import_export_market (σ : State) (h : marketInv σ = true) :
    let σ' := importMarket (exportMarket σ) (freshCore σ)
    σ'.markets = σ.markets ∧ σ'.mqueue = σ.mqueue := by
  unfold marketInv at h
  rw [sortedB_iff] at h
  exact ⟨setAll_sorted Market.key σ.markets h, rfl⟩

/-- C16 market: the export of a keyed market store has no duplicated uid. -/
theorem c16_validate_export_market (σ : State) (h : marketInv σ = true) : validateMarket (exportMarket σ) = 0 := by
  unfold marketInv at h
  rw [sortedB_iff] at h
  unfold validateMarket exportMarket
  simp only
  rw [sorted_noDup Market.key (·.uid) σ.markets h (fun _ => rfl)]
  rfl

-- =============================================================================================
-- house

/-- C16 house: deposits, withdrawals and the three parameters come back. -/
theorem c16_import_export_house (σ : State) (h : houseInv σ = true) :
    let σ' := importHouse (exportHouse σ) (freshCore σ)
    σ'.deposits = σ.deposits ∧ σ'.withdrawals = σ.withdrawals ∧
    σ'.params.houseMin = σ.params.houseMin ∧ σ'.params.houseFee = σ.params.houseFee ∧ σ'.params.houseMaxW = σ.params.houseMaxW := by
  unfold houseInv at h
  simp only [Bool.and_eq_true] at h
  obtain ⟨⟨hd, hw⟩, _⟩ := h
  rw [sortedB_iff] at hd hw
  exact ⟨setAll_sorted Deposit.key σ.deposits hd, setAll_sorted Withdrawal.key σ.withdrawals hw, rfl, rfl, rfl⟩

/-- C16 house, patched code (repo_patches/genesis_house_withdrawal_depositor.diff): the export of a reachable state
    with accepted parameters validates. -/
theorem c16_validate_export_house (σ : State) (h : houseInv σ = true) (hp : σ.params.valid = true) :
    validateHouse true (exportHouse σ) = 0 := by
  unfold houseInv at h
  simp only [Bool.and_eq_true] at h
  unfold Params.valid at hp
  simp only [Bool.and_eq_true] at hp
  unfold validateHouse exportHouse houseParamsOk
  simp only [h.2, Bool.not_true, Bool.false_eq_true, ↓reduceIte, hp.1.1.1.1.2, hp.1.1.1.2, hp.1.1.2, Bool.and_self]

/-- the history of the counter-example: one market, account 1 deposits 500 on behalf of account 2 (authz grant
    2 → 1), account 2 withdraws 50 from that participation -/
def houseCexOps : List Op :=
  let tk : Tk := { ok := true, kycIgnore := true, kycApproved := false, kycId := 0 }
  [ .marketAdd 0 tk 1 50 5000 [11, 12] MS_ACTIVE,
    .grant 2 1 0 1000 none,
    .deposit 1 tk 1 500 2,
    .withdraw 2 tk 1 1 WM_PARTIAL 50 0 ]

def houseCexState : State :=
  run { bal := [(1, 1000), (2, 1000)], time := 100,
        params := { houseMin := 10, betMin := 2, betFee := 1, houseMaxW := 3 } } houseCexOps

/-- C16 house, code as it is: a reachable state whose export fails the module's own validation (`Validate` looks for
    a deposit whose *creator* is the withdrawal's address; the deposit was created by account 1 for depositor 2, the
    withdrawal is stored under the depositor). The same state validates under the patched check. -/
theorem c16_house_asis_counterexample :
    houseInv houseCexState = true ∧ houseCexState.withdrawals.length = 1 ∧
    validateHouse false (exportHouse houseCexState) = 1 ∧ validateHouse true (exportHouse houseCexState) = 0 := by
  decide +kernel

/-- C16 house, code as it is, the part that holds: the export validates when no withdrawal exists for a deposit made
    on behalf of someone else (every deposit that has a withdrawal was created by its depositor).
    Excluded: states with a withdrawal from a delegated deposit. -/
theorem c16_validate_export_house_partial (σ : State) (h : houseInv σ = true) (hp : σ.params.valid = true)
    (hown : ∀ d ∈ σ.deposits, ∀ w ∈ σ.withdrawals, d.depositor = w.addr → d.market = w.market → d.idx = w.idx → d.creator = d.depositor) :
    validateHouse false (exportHouse σ) = 0 := by
  have hfix := c16_validate_export_house σ h hp
  unfold houseInv at h
  simp only [Bool.and_eq_true] at h
  unfold Params.valid at hp
  simp only [Bool.and_eq_true] at hp
  have hall : σ.withdrawals.all (withdrawalHasDeposit false σ.deposits) = true := by
    rw [List.all_eq_true]
    intro w hw
    have := List.all_eq_true.mp h.2 w hw
    unfold withdrawalHasDeposit at this ⊢
    rw [List.any_eq_true] at this ⊢
    obtain ⟨d, hd, hm⟩ := this
    refine ⟨d, hd, ?_⟩
    simp only [depositOwner, ↓reduceIte, Bool.and_eq_true, beq_iff_eq] at hm ⊢
    have := hown d hd w hw hm.1.1 hm.1.2 hm.2
    exact ⟨⟨by rw [this]; exact hm.1.1, hm.1.2⟩, hm.2⟩
  unfold validateHouse exportHouse houseParamsOk
  simp only [hall, Bool.not_true, Bool.false_eq_true, ↓reduceIte, hp.1.1.1.1.2, hp.1.1.1.2, hp.1.1.2, Bool.and_self]

-- =============================================================================================
-- mint

/-- C16 mint: minter and parameters come back. -/
theorem c16_import_export_mint (m : Mint.Minter) (p : Mint.Params) : importMint (exportMint m p) = (m, p) := rfl

/-- C16 mint: valid parameters and a non-negative inflation validate. -/
theorem c16_validate_export_mint (m : Mint.Minter) (p : Mint.Params) (hp : Mint.paramsValid p = true) (hm : 0 ≤ m.inflation.raw) :
    validateMint (exportMint m p) = 0 := by
  unfold validateMint exportMint
  simp only [hp, Bool.not_true, Bool.false_eq_true, ↓reduceIte]
  have : ¬ m.inflation.raw < 0 := by omega
  simp [this]

-- =============================================================================================
-- the two participation-exposure stores of x/orderbook

/-- C16 orderbook, exposure indexes: after export + import the by-odds store is back, and the by-index store is a copy of
    the by-odds store (the by-index store itself is never read by ExportGenesis). -/
theorem c16_import_export_exposure_stores (st : ExpStores) (h : sortedB expKey st.byOdds = true) :
    importExp (exportExp st) = { byOdds := st.byOdds, byIdx := st.byOdds } := by
  rw [sortedB_iff] at h
  unfold importExp exportExp
  simp only
  rw [setAll_sorted expKey st.byOdds h, setAll_self expKey st.byOdds h]

/-- … hence both stores are preserved exactly when they agree before the export (which the core suite's monitor
    `index_equal` checks on every visited state of the real chain). -/
theorem c16_exposure_stores_preserved_iff (st : ExpStores) (h : sortedB expKey st.byOdds = true) :
    (importExp (exportExp st)).byIdx = st.byIdx ↔ st.byIdx = st.byOdds := by
  rw [c16_import_export_exposure_stores st h]
  exact ⟨fun h => h.symm, fun h => h.symm⟩

-- =============================================================================================
-- ovm

/-- C16 ovm: key vault (strings and order), both proposal stores and the proposal counter come back. -/
theorem c16_import_export_ovm (σ : Ovm.State) (h : ovmInv σ = true) : importOvm (exportOvm σ) = σ := by
  unfold ovmInv at h
  simp only [Bool.and_eq_true] at h
  obtain ⟨ha, hf⟩ := h
  rw [sortedIds_iff] at ha hf
  unfold importOvm exportOvm
  simp only [List.foldl_append]
  rw [foldl_importProposal_active, foldl_importProposal_finished]
  simp only
  rw [foldl_setP σ.active [] (by simpa using ha), foldl_setP σ.finished [] (by simpa using hf)]
  simp

/-- C16 ovm: a vault of 4 to 5 strings that all parse as Ed25519 public keys validates (the only thing the genesis
    validation of x/ovm looks at; with the patch of C14 additionally: no key in two encodings). -/
theorem c16_validate_export_ovm (fixed : Bool) (σ : Ovm.State) (h1 : Ovm.minKeys ≤ σ.vault.length) (h2 : σ.vault.length ≤ Ovm.maxKeys)
    (h3 : σ.vault.all (fun k => (Ovm.decode k).isSome) = true) (h4 : fixed = true → Ovm.distinctKeys σ.vault = true) :
    validateOvm fixed (exportOvm σ) = 0 := by
  unfold validateOvm exportOvm
  have a : ¬ σ.vault.length < Ovm.minKeys := by omega
  have b : ¬ σ.vault.length > Ovm.maxKeys := by omega
  simp only [a, b, ↓reduceIte, h3, Bool.not_true, Bool.false_eq_true]
  cases fixed
  · simp
  · simp [h4 rfl]

-- =============================================================================================
-- reward

theorem promoterOfReward_congr (a b : RewardStores) (hr : a.rewards = b.rewards) (hc : a.campaigns = b.campaigns)
    (ha : a.byAddress = b.byAddress) (u : Nat) : promoterOfReward a u = promoterOfReward b u := by
  unfold promoterOfReward
  rw [hr, hc, ha]

/-- C16 reward, patched code (repo_patches/genesis_reward_export_promoters.diff): all seven collections come back —
    promoters, promoters by address, campaigns (pools included, as part of the record), rewards, both reward indexes
    and the per-account grant counters. -/
theorem c16_import_export_reward (st : RewardStores) (h : rewardInv st = true) :
    importReward true (exportReward true st) = some st := by
  unfold rewardInv at h
  simp only [Bool.and_eq_true] at h
  obtain ⟨⟨⟨⟨⟨⟨⟨hp, ha⟩, hc⟩, hr⟩, hbc⟩, hbm⟩, hcat⟩, hst⟩ := h
  rw [sortedB_iff] at hp ha hc hr hbc hbm
  have hst : st.grantStats = rebuiltStats st := by simpa using hst
  unfold importReward exportReward
  simp only [↓reduceIte]
  rw [setAll_sorted _ st.promoters hp, setAll_sorted _ st.byAddress ha, setAll_sorted _ st.campaigns hc,
    setAll_sorted _ st.byCampaign hbm]
  -- after the reward loop
  have hf := foldl_importRewardRec_frame true st.rewards
    { emptyReward with promoters := st.promoters, byAddress := st.byAddress, campaigns := st.campaigns }
  simp only at hf
  obtain ⟨f1, f2, f3, f4, f5, f6⟩ := hf
  have f7 := foldl_importRewardRec_stats_true st.rewards
    { emptyReward with promoters := st.promoters, byAddress := st.byAddress, campaigns := st.campaigns }
    { emptyReward with campaigns := st.campaigns } rfl rfl
  have f1 := f1.trans (setAll_sorted (fun (x : Reward) => [x.uid]) st.rewards hr)
  have hst2 : st.rewards.foldl (importRewardRec true)
      { emptyReward with promoters := st.promoters, byAddress := st.byAddress, campaigns := st.campaigns } =
      { st with byCategory := [], byCampaign := [] } := by
    generalize st.rewards.foldl (importRewardRec true)
      { emptyReward with promoters := st.promoters, byAddress := st.byAddress, campaigns := st.campaigns } = r at *
    cases r
    simp only [emptyReward] at *
    simp only [RewardStores.mk.injEq]
    refine ⟨f3, f4, f2, f1, f5, f6, ?_⟩
    rw [f7, hst]
    rfl
  rw [hst2]
  rw [foldl_importByCat st.byCategory]
  · simp only
    rw [setAll_sorted _ st.byCategory hbc]
  · intro x hx bc
    have := List.all_eq_true.mp hcat x hx
    have e : promoterOfReward st x.uid = some x.promoterUid := by simpa using this
    rw [← e]
    exact promoterOfReward_congr _ _ rfl rfl rfl _

/-- C16 reward: unique campaign and reward uids validate (the two index lists inherit uniqueness from being keyed
    stores whose key ends with the reward uid — part of the hypothesis here). Same for both variants. -/
theorem c16_validate_export_reward (fixed : Bool) (st : RewardStores) (h : rewardInv st = true)
    (h3 : hasDup (st.byCategory.map (·.uid)) = false) (h4 : hasDup (st.byCampaign.map (·.2)) = false) :
    validateReward (exportReward fixed st) = 0 := by
  unfold rewardInv at h
  simp only [Bool.and_eq_true] at h
  obtain ⟨⟨⟨⟨⟨⟨⟨_, _⟩, hc⟩, hr⟩, _⟩, _⟩, _⟩, _⟩ := h
  rw [sortedB_iff] at hc hr
  unfold validateReward exportReward
  simp only [List.map_map]
  rw [sorted_noDup _ (·.uid) st.campaigns hc (fun _ => rfl), sorted_noDup _ (·.uid) st.rewards hr (fun _ => rfl)]
  have : (st.byCategory.map ((fun (x : Nat × Nat × Nat) => x.2.2) ∘ fun x => (x.receiver, x.category, x.uid))) = st.byCategory.map (·.uid) := rfl
  rw [this, h3, h4]
  rfl

/-- one promoter (uid 7, address 11), one campaign of that promoter, one reward granted to account 3 -/
def rewardCex : RewardStores :=
  { promoters := [(7, 100)], byAddress := [(11, 7)],
    campaigns := [{ uid := 1, promoter := 11, capCount := 2, digest := 200 }],
    rewards := [{ uid := 1, campaign := 1, receiver := 3, digest := 300 }],
    byCategory := [{ promoterUid := 7, receiver := 3, category := 1, uid := 1 }],
    byCampaign := [(1, 1)], grantStats := [(1, 3, 1)] }

/-- C16 reward, code as it is: with one granted reward, InitGenesis of the module's own export panics ("promoter is not
    valid": the by-category loop looks the promoter up, but promoters are not exported); the export validates. The
    patched variant restores the state. -/
theorem c16_reward_asis_counterexample_panic :
    rewardInv rewardCex = true ∧ validateReward (exportReward false rewardCex) = 0 ∧
    importReward false (exportReward false rewardCex) = none ∧ importReward true (exportReward true rewardCex) = some rewardCex := by
  decide +kernel

/-- C16 reward, code as it is: without any reward the import succeeds but the promoter, its address record (and with
    them the right to run the campaign) are gone. -/
theorem c16_reward_asis_counterexample_lost :
    importReward false (exportReward false { rewardCex with rewards := [], byCategory := [], byCampaign := [], grantStats := [] }) =
      some { emptyReward with campaigns := rewardCex.campaigns } := by
  decide +kernel

/-- C16 reward, code as it is, the part that holds: campaigns (with their pools), rewards and the by-campaign index come
    back. Excluded: promoters, promoters by address, grant counters (lost) and any state with a granted reward (the
    by-category index cannot be rebuilt without the promoters: panic). -/
theorem c16_import_export_reward_partial (st : RewardStores) (h : rewardInv st = true)
    (h0 : st.promoters = []) (h1 : st.byAddress = []) (h2 : st.byCategory = []) (h3 : st.grantStats = []) :
    importReward false (exportReward false st) = some st := by
  unfold rewardInv at h
  simp only [Bool.and_eq_true] at h
  obtain ⟨⟨⟨⟨⟨⟨⟨_, _⟩, hc⟩, hr⟩, _⟩, hbm⟩, _⟩, _⟩ := h
  rw [sortedB_iff] at hc hr hbm
  unfold importReward exportReward
  simp only [Bool.false_eq_true, ↓reduceIte, h2, List.map_nil, List.foldl_nil]
  rw [setAll_sorted _ st.campaigns hc, setAll_sorted _ st.byCampaign hbm]
  have hf := foldl_importRewardRec_frame false st.rewards
    { emptyReward with promoters := setAll (fun (x : Nat × Nat) => [x.1]) [] [], byAddress := setAll (fun (x : Nat × Nat) => [x.1]) [] [], campaigns := st.campaigns }
  simp only at hf
  obtain ⟨f1, f2, f3, f4, f5, f6⟩ := hf
  have f7 := foldl_importRewardRec_stats_false st.rewards
    { emptyReward with promoters := setAll (fun (x : Nat × Nat) => [x.1]) [] [], byAddress := setAll (fun (x : Nat × Nat) => [x.1]) [] [], campaigns := st.campaigns }
  have f1 := f1.trans (setAll_sorted (fun (x : Reward) => [x.uid]) st.rewards hr)
  generalize st.rewards.foldl (importRewardRec false)
    { emptyReward with promoters := setAll (fun (x : Nat × Nat) => [x.1]) [] [], byAddress := setAll (fun (x : Nat × Nat) => [x.1]) [] [], campaigns := st.campaigns } = r at *
  cases r
  cases st
  simp only [emptyReward, setAll, List.foldl_nil] at *
  simp only [Option.some.injEq, RewardStores.mk.injEq]
  subst h0 h1 h2 h3
  exact ⟨f3, f4, f2, f1, f5, trivial, f7⟩

end Sge.Genesis
