/-
  C05 (block processing): order of the end-blockers, read off `app/modules.go` by the translator
  (`extract/consts.go` → `Sge.Gen.Consts`).
  The bet end-blocker settles the bets of resolved markets and marks a book as settle-able only when no bet is
  left; the order-book end-blocker pays the participations of such books. The model runs them in this order.
-/
import Sge.Gen.Consts

namespace SgeProofs.C05Facts
open Sge.Gen.Consts

/-- `a` occurs in `l` and `b` occurs after it -/
def before (a b : String) (l : List String) : Bool :=
  match l.dropWhile (· != a) with
  | [] => false
  | _ :: rest => rest.contains b

/-- The orders are installed from the three functions of app/modules.go. -/
theorem orders_installed :
    orderCalls.map (fun c => (c.1, c.2.1)) =
      [ ("SetOrderBeginBlockers", "<list of module names returned by a function of package app>..."),
        ("SetOrderEndBlockers", "<list of module names returned by a function of package app>..."),
        ("SetOrderInitGenesis", "<list of module names returned by a function of package app>...") ] := by decide

/-- The bet end-blocker runs before the order-book end-blocker. -/
theorem bet_end_blocker_before_orderbook : before "bet" "orderbook" endBlockers = true := by decide

/-- Relative order of the custom modules in the end-block phase (the model's `endBlock`). -/
theorem custom_end_blockers :
    endBlockers.filter (fun m => ["bet", "house", "market", "mint", "orderbook", "ovm", "reward", "subaccount"].contains m) =
      ["mint", "bet", "market", "orderbook", "ovm", "house", "reward", "subaccount"] := by decide

/-- Relative order of the custom modules in the begin-block phase: only x/mint does anything there. -/
theorem custom_begin_blockers :
    beginBlockers.filter (fun m => ["bet", "house", "market", "mint", "orderbook", "ovm", "reward", "subaccount"].contains m) =
      ["mint", "bet", "market", "orderbook", "ovm", "house", "reward", "subaccount"] := by decide

/-- Batch sizes the settlement loops use by default. -/
theorem default_batch_sizes :
    bet_batchSettlementCount = 1000 ∧ orderbook_DefaultBatchSettlementCount = 100 ∧
      orderbook_DefaultRequeueThreshold = 1000 ∧ orderbook_DefaultMaxOrderBookParticipations = 100 := by decide

end SgeProofs.C05Facts
