/-
  C01  Custody accounts hold exactly what the chain owes, per market.

  Ledgers (SgeProofs/Lemmas/Custody.lean):
    owedPool s     = Σ_books Σ_{participations not yet paid} (liquidity + realised profit) + Σ_{open bets} Σ parts.stake
    owedBetFee s   = Σ_{open bets} fee            owedHouseFee s = Σ_books Σ_{unpaid participations} fee
  Full statement:  ∀ ops, Cust (run init ops)   (the three balances equal the three ledgers in every reachable state).
  Proved below for every history of market add/update/resolve, deposit, withdraw, wager, authz, bank and parameter
  traffic and new blocks, with any number of markets — i.e. all operations except the settling end-blocks
  (`c01_custody_partial`). For the end-block the per-payment theorems are C03.c–e and C04.a–e (each payment moves
  exactly what the ledger releases); the missing piece for the whole-history statement is the ordering invariant
  "a participation is paid only after all bets it backs are settled", which the C04 monitor `paid_after_bets`
  checks on every implementation state.
-/
import SgeProofs.Lemmas.CustodyOps
namespace Sge.Core
open Sge Sge.Genesis

/-- the empty chain satisfies the custody equations -/
theorem custI_init (p : Params) (bal : List (Nat × Int)) (h t : Nat)
    (h0 : getBal bal ACC_POOL = 0 ∧ getBal bal ACC_BETFEE = 0 ∧ getBal bal ACC_HOUSEFEE = 0) :
    CustI { bal := bal, params := p, height := h, time := t } := by
  refine ⟨⟨h0.1, h0.2.1, h0.2.2, ?_, ?_, ?_, ?_⟩, ?_⟩
  · unfold Sorted; exact List.Pairwise.nil
  · intro b hb; cases hb
  · unfold Sorted; exact List.Pairwise.nil
  · intro b hb; cases hb
  · intro b hb; cases hb

/-- C01.a (partial: histories without settling end-blocks)  From a chain whose custody accounts are empty, after
    any history of market, house, bet, authz, bank and parameter operations signed by user accounts, over any
    number of concurrently open markets: the pool balance equals what is owed to unpaid participations plus the
    stakes of open bets, and the two fee collectors hold exactly the fees of open bets / unpaid participations. -/
theorem c01_custody_partial (p : Params) (bal : List (Nat × Int)) (h t : Nat) (ops : List Op)
    (h0 : getBal bal ACC_POOL = 0 ∧ getBal bal ACC_BETFEE = 0 ∧ getBal bal ACC_HOUSEFEE = 0)
    (hwf : ∀ op ∈ ops, op.userSigned ∧ op ≠ .endBlock) :
    let s := run { bal := bal, params := p, height := h, time := t } ops
    getBal s.bal ACC_POOL = owedPool s ∧ getBal s.bal ACC_BETFEE = owedBetFee s ∧ getBal s.bal ACC_HOUSEFEE = owedHouseFee s := by
  intro s
  have := run_custI _ ops (custI_init p bal h t h0) hwf
  exact ⟨this.pool, this.betFee, this.houseFee⟩

/-- C01.b  A failing message changes nothing, so in particular no ledger and no custody balance. -/
theorem c01_failed_message_no_effect (s : State) (op : Op) (h : (step s op).2 = .err) : (step s op).1 = s := by
  cases op with
  | marketAdd c tk u st en o stt => simp only [step, marketAdd, commit] at *; split at h <;> simp_all
  | marketUpdate tk u st en stt => simp only [step, marketUpdate, commit] at *; split at h <;> simp_all
  | marketResolve tk u ts stt w => simp only [step, marketResolve, commit] at *; split at h <;> simp_all
  | deposit c tk m a pd => simp only [step, houseDeposit] at *; split at h <;> simp_all
  | withdraw c tk m i md a pd => simp only [step, houseWithdraw, commit] at *; split at h <;> simp_all
  | wager c tk u a pl => simp only [step, wager, commit] at *; split at h <;> simp_all
  | grant g e k l x => simp [step] at h
  | revoke g e k => simp [step] at h
  | send a b x =>
    simp only [step] at *
    split
    · rfl
    · rename_i hm
      simp only [hm, Bool.false_eq_true, if_false, commit] at h ⊢
      split at h <;> simp_all
  | setParams p => simp only [step] at *; split at h <;> simp_all
  | endBlock => simp only [step, endBlock] at *; split at h <;> simp_all
  | newBlock h t => simp [step] at h

/-- C01.c  An action on one market never changes what is owed on another: a deposit, withdrawal or wager on
    market `m` leaves every other book — and therefore what the pool and the fee collectors owe for it — untouched. -/
theorem c01_other_markets_untouched (s : State) (op : Op) (m u : Nat) (hu : u ≠ m)
    (hop : (∃ c tk a pd, op = .deposit c tk m a pd) ∨ (∃ c tk i md a pd, op = .withdraw c tk m i md a pd) ∨
           (∃ c tk uid a pl, op = .wager c tk uid a pl ∧ pl.market = m)) :
    getBook (step s op).1 u = getBook s u := by
  have hset : ∀ (st : State) (b : Book), b.uid = m → getBook (setBook st b) u = getBook st u := by
    intro st b hb
    unfold getBook setBook
    exact lookup_upsert_ne Book.key b [u] st.books (by simp [Book.key, hb, Ne.symm hu])
  rcases hop with ⟨c, tk, a, pd, rfl⟩ | ⟨c, tk, i, md, a, pd, rfl⟩ | ⟨c, tk, uid, a, pl, rfl, hm⟩
  · simp only [step, houseDeposit]
    cases h : houseDepositO s c tk m a pd with
    | none => rfl
    | some r =>
      unfold houseDepositO at h
      simp only [bind, Option.bind_eq_some_iff, pure, Option.some.injEq] at h
      obtain ⟨_, _, _, _, _, _, s1, hs1, _, _, mk, _, b, hb, _, _, _, _, _, _, _, _, s2, hs2, s3, hs3, rfl⟩ := h
      obtain ⟨gs, rfl⟩ := grantStep_shape hs1
      obtain ⟨_, _, rfl⟩ := bankSend_shape hs2
      obtain ⟨_, _, rfl⟩ := bankSend_shape hs3
      have hbu := (getBook_mem hb).2
      show getBook (setBook _ _) u = _
      rw [hset]
      · rfl
      · have := (addParticipation_uid b (depositFor c pd) (a - (s.params.houseFee.mulInt a).roundInt) (s.params.houseFee.mulInt a).roundInt)
        rw [this]; exact hbu
  · simp only [step, houseWithdraw, commit]
    cases h : houseWithdrawO s c tk m i md a pd with
    | none => rfl
    | some s' =>
      unfold houseWithdrawO at h
      simp only [bind, Option.bind_eq_some_iff, pure, Option.some.injEq] at h
      obtain ⟨_, _, _, _, _, _, _, _, _, _, d, _, b, hb, _, _, w, _, s1, hs1, p, hpp, s2, hs2, b', hb', rfl⟩ := h
      obtain ⟨gs, rfl⟩ := grantStep_shape hs1
      obtain ⟨_, _, rfl⟩ := bankSend_shape hs2
      have hbu := (getBook_mem hb).2
      have hbw : b'.uid = b.uid := by
        unfold Book.withdraw at hb'
        rw [hpp] at hb'
        simp only at hb'
        split at hb'
        · cases hb'; rfl
        · exact (removeFromQueues_parts _ _ _ _ hb').2
      show getBook (setBook _ b') u = _
      rw [hset _ _ (hbw.trans hbu)]
      rfl
  · simp only [step, wager, commit]
    cases h : wagerO s c tk uid a pl with
    | none => rfl
    | some s' =>
      unfold wagerO at h
      simp only [bind, Option.bind_eq_some_iff, pure, Option.some.injEq] at h
      obtain ⟨_, _, _, _, _, _, _, _, _, _, _, _, _, _, mk, _, _, _, _, _, _, _, _, _, _, _, _, _, ov, _, _, _, b, hb, r, hr, s1, hs1, s2, hs2, rfl⟩ := h
      obtain ⟨_, _, rfl⟩ := bankSend_shape hs1
      obtain ⟨_, _, rfl⟩ := bankSend_shape hs2
      have hbu := (getBook_mem hb).2
      obtain ⟨b', fulfs, taken⟩ := r
      have hbw := processWager_uid _ _ _ _ _ _ _ _ _ _ _ _ _ hr
      show getBook (setBook _ b') u = _
      rw [hset _ _ (hbw.trans (hbu.trans hm))]
      rfl

end Sge.Core
