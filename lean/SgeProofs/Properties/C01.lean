/-
  C01  Custody accounts hold exactly what the chain owes, per market.

  Ledgers (SgeProofs/Lemmas/Custody.lean):
    owedPool s     = Σ_books Σ_{participations not yet paid} (liquidity + realised profit) + Σ_{open bets} Σ parts.stake
    owedBetFee s   = Σ_{open bets} fee            owedHouseFee s = Σ_books Σ_{unpaid participations} fee
  Full statement:  ∀ ops, Cust (run init ops)   (the three balances equal the three ledgers in every reachable state).
  Proved below as `c01_custody` for every history of market add/update/resolve, deposit, withdraw, wager, authz, bank
  and parameter traffic, new blocks AND settling end-blocks, with any number of markets; `c01_all_settled_empty` is the
  corollary that the three custody accounts are empty once every bet and every participation is settled.
  The invariant that carries the equations through settlement is `SettleInv` (SgeProofs/Lemmas/CustodySettleDefs.lean):
  custody equations + store shape + K1 pending index complete, unique bet ids, K3 no open bet on a book that left the
  active state, K4 paid participations only in such books, K5/K9 such books and the queued markets are resolved,
  K6 recorded stake = Σ parts, K7 bettors / market creators are user accounts, K10 realised profit only on a declared
  result. `c01_custody_partial` (histories without end-blocks) is kept as the first step of that proof.
-/
import SgeProofs.Lemmas.CustodyOps
import SgeProofs.Lemmas.CustodySettleStep
namespace Sge.Core
open Sge Sge.Genesis

/-- the empty chain satisfies the custody equations -/
theorem custI_init (p : Params) (bal : List (Nat × Int)) (h t : Nat)
    (h0 : getBal bal ACC_POOL = 0 ∧ getBal bal ACC_BETFEE = 0 ∧ getBal bal ACC_HOUSEFEE = 0) :
    CustI { bal := bal, params := p, height := h, time := t } := by
  refine ⟨⟨h0.1, h0.2.1, h0.2.2, ?_, ?_, ?_, ?_⟩, ?_⟩
  · unfold Sorted; exact List.Pairwise.nil
  · intro b hb; cases hb
  · unfold Sorted; exact List.Pairwise.nil
  · intro b hb; cases hb
  · intro b hb; cases hb

/-- C01.a (partial: histories without settling end-blocks)  From a chain whose custody accounts are empty, after
    any history of market, house, bet, authz, bank and parameter operations signed by user accounts, over any
    number of concurrently open markets: the pool balance equals what is owed to unpaid participations plus the
    stakes of open bets, and the two fee collectors hold exactly the fees of open bets / unpaid participations. -/
theorem c01_custody_partial (p : Params) (bal : List (Nat × Int)) (h t : Nat) (ops : List Op)
    (h0 : getBal bal ACC_POOL = 0 ∧ getBal bal ACC_BETFEE = 0 ∧ getBal bal ACC_HOUSEFEE = 0)
    (hwf : ∀ op ∈ ops, op.userSigned ∧ op ≠ .endBlock) :
    let s := run { bal := bal, params := p, height := h, time := t } ops
    getBal s.bal ACC_POOL = owedPool s ∧ getBal s.bal ACC_BETFEE = owedBetFee s ∧ getBal s.bal ACC_HOUSEFEE = owedHouseFee s := by
  intro s
  have := run_custI _ ops (custI_init p bal h t h0) hwf
  exact ⟨this.pool, this.betFee, this.houseFee⟩

/-- C01.b  A failing message changes nothing, so in particular no ledger and no custody balance. -/
theorem c01_failed_message_no_effect (s : State) (op : Op) (h : (step s op).2 = .err) : (step s op).1 = s := by
  cases op with
  | marketAdd c tk u st en o stt => simp only [step, marketAdd, commit] at *; split at h <;> simp_all
  | marketUpdate tk u st en stt => simp only [step, marketUpdate, commit] at *; split at h <;> simp_all
  | marketResolve tk u ts stt w => simp only [step, marketResolve, commit] at *; split at h <;> simp_all
  | deposit c tk m a pd => simp only [step, houseDeposit] at *; split at h <;> simp_all
  | withdraw c tk m i md a pd => simp only [step, houseWithdraw, commit] at *; split at h <;> simp_all
  | wager c tk u a pl => simp only [step, wager, commit] at *; split at h <;> simp_all
  | grant g e k l x => simp [step] at h
  | revoke g e k => simp [step] at h
  | send a b x =>
    simp only [step] at *
    split
    · rfl
    · rename_i hm
      simp only [hm, Bool.false_eq_true, if_false, commit] at h ⊢
      split at h <;> simp_all
  | setParams p => simp only [step] at *; split at h <;> simp_all
  | endBlock => simp only [step, endBlock] at *; split at h <;> simp_all
  | newBlock h t => simp [step] at h

/-- C01.c  An action on one market never changes what is owed on another: a deposit, withdrawal or wager on
    market `m` leaves every other book — and therefore what the pool and the fee collectors owe for it — untouched. -/
theorem c01_other_markets_untouched (s : State) (op : Op) (m u : Nat) (hu : u ≠ m)
    (hop : (∃ c tk a pd, op = .deposit c tk m a pd) ∨ (∃ c tk i md a pd, op = .withdraw c tk m i md a pd) ∨
           (∃ c tk uid a pl, op = .wager c tk uid a pl ∧ pl.market = m)) :
    getBook (step s op).1 u = getBook s u := by
  have hset : ∀ (st : State) (b : Book), b.uid = m → getBook (setBook st b) u = getBook st u := by
    intro st b hb
    unfold getBook setBook
    exact lookup_upsert_ne Book.key b [u] st.books (by simp [Book.key, hb, Ne.symm hu])
  rcases hop with ⟨c, tk, a, pd, rfl⟩ | ⟨c, tk, i, md, a, pd, rfl⟩ | ⟨c, tk, uid, a, pl, rfl, hm⟩
  · simp only [step, houseDeposit]
    cases h : houseDepositO s c tk m a pd with
    | none => rfl
    | some r =>
      unfold houseDepositO at h
      simp only [bind, Option.bind_eq_some_iff, pure, Option.some.injEq] at h
      obtain ⟨_, _, _, _, _, _, s1, hs1, _, _, mk, _, b, hb, _, _, _, _, _, _, _, _, s2, hs2, s3, hs3, rfl⟩ := h
      obtain ⟨gs, rfl⟩ := grantStep_shape hs1
      obtain ⟨_, _, rfl⟩ := bankSend_shape hs2
      obtain ⟨_, _, rfl⟩ := bankSend_shape hs3
      have hbu := (getBook_mem hb).2
      show getBook (setBook _ _) u = _
      rw [hset]
      · rfl
      · have := (addParticipation_uid b (depositFor c pd) (a - (s.params.houseFee.mulInt a).roundInt) (s.params.houseFee.mulInt a).roundInt)
        rw [this]; exact hbu
  · simp only [step, houseWithdraw, commit]
    cases h : houseWithdrawO s c tk m i md a pd with
    | none => rfl
    | some s' =>
      unfold houseWithdrawO at h
      simp only [bind, Option.bind_eq_some_iff, pure, Option.some.injEq] at h
      obtain ⟨_, _, _, _, _, _, _, _, _, _, d, _, b, hb, _, _, w, _, s1, hs1, p, hpp, s2, hs2, b', hb', rfl⟩ := h
      obtain ⟨gs, rfl⟩ := grantStep_shape hs1
      obtain ⟨_, _, rfl⟩ := bankSend_shape hs2
      have hbu := (getBook_mem hb).2
      have hbw : b'.uid = b.uid := by
        unfold Book.withdraw at hb'
        rw [hpp] at hb'
        simp only at hb'
        split at hb'
        · cases hb'; rfl
        · exact (removeFromQueues_parts _ _ _ _ hb').2
      show getBook (setBook _ b') u = _
      rw [hset _ _ (hbw.trans hbu)]
      rfl
  · simp only [step, wager, commit]
    cases h : wagerO s c tk uid a pl with
    | none => rfl
    | some s' =>
      unfold wagerO at h
      simp only [bind, Option.bind_eq_some_iff, pure, Option.some.injEq] at h
      obtain ⟨_, _, _, _, _, _, _, _, _, _, _, _, _, _, mk, _, _, _, _, _, _, _, _, _, _, _, _, _, ov, _, _, _, b, hb, r, hr, s1, hs1, s2, hs2, rfl⟩ := h
      obtain ⟨_, _, rfl⟩ := bankSend_shape hs1
      obtain ⟨_, _, rfl⟩ := bankSend_shape hs2
      have hbu := (getBook_mem hb).2
      obtain ⟨b', fulfs, taken⟩ := r
      have hbw := processWager_uid _ _ _ _ _ _ _ _ _ _ _ _ _ hr
      show getBook (setBook _ b') u = _
      rw [hset _ _ (hbw.trans (hbu.trans hm))]
      rfl

-- ---------------------------------------------------------------------------------------------
-- the full statement: every operation, the settling end-blocks included

/-- the empty chain satisfies the whole invariant bundle -/
theorem settleInv_init (p : Params) (bal : List (Nat × Int)) (h t : Nat)
    (h0 : getBal bal ACC_POOL = 0 ∧ getBal bal ACC_BETFEE = 0 ∧ getBal bal ACC_HOUSEFEE = 0) :
    SettleInv { bal := bal, params := p, height := h, time := t } := by
  refine { toCustI := custI_init p bal h t h0, toSInv := ⟨?_, ?_, ?_, ?_, ?_, ?_, ?_, ?_, ?_, ?_⟩ }
  · intro b hb; cases hb
  · intro b hb; cases hb
  · intro b hb; cases hb
  · intro b hb; cases hb
  · intro b hb; cases hb
  · intro u hu; cases hu
  · intro b hb; cases hb
  · intro b hb; cases hb
  · intro m hm; cases hm
  · intro b hb; cases hb

/-- C01.a  At every block boundary — in fact after every operation — of every history that starts from a chain whose
    custody accounts are empty, over any number of concurrently open markets: the liquidity-pool balance equals the
    sum, over house participations not yet paid out, of remaining liquidity plus profit or loss already realised, plus
    the stakes taken for bets not yet settled; the bet-fee and house-fee custody balances equal the fees of unsettled
    bets and of unpaid participations. The history may contain every operation of the core slice, including the
    settling end-blocks (an end-block that halts leaves the state unchanged). Messages are signed by user accounts. -/
theorem c01_custody (p : Params) (bal : List (Nat × Int)) (h t : Nat) (ops : List Op)
    (h0 : getBal bal ACC_POOL = 0 ∧ getBal bal ACC_BETFEE = 0 ∧ getBal bal ACC_HOUSEFEE = 0)
    (hwf : ∀ op ∈ ops, op.userSigned') :
    let s := run { bal := bal, params := p, height := h, time := t } ops
    getBal s.bal ACC_POOL = owedPool s ∧ getBal s.bal ACC_BETFEE = owedBetFee s ∧ getBal s.bal ACC_HOUSEFEE = owedHouseFee s := by
  intro s
  have := run_settleInv _ ops (settleInv_init p bal h t h0) hwf
  exact ⟨this.pool, this.betFee, this.houseFee⟩

/-- when nothing is owed the custody accounts are empty -/
theorem cust_all_settled_empty {s : State} (hC : Cust s) (hb : ∀ b ∈ s.bets, b.status = BS_SETTLED)
    (hp : ∀ bk ∈ s.books, ∀ q ∈ bk.parts, q.isSettled = true) :
    getBal s.bal ACC_POOL = 0 ∧ getBal s.bal ACC_BETFEE = 0 ∧ getBal s.bal ACC_HOUSEFEE = 0 := by
  have hclosed : ∀ b ∈ s.bets, b.isOpen = false := by
    intro b hbm
    unfold Bet.isOpen
    rw [hb b hbm]
    rfl
  have h1 : sumBy Book.owed s.books = 0 := by
    apply sumBy_zero
    intro bk hbk
    unfold Book.owed
    apply sumBy_zero
    intro q hq
    unfold Part.owed
    rw [hp bk hbk q hq]
    rfl
  have h2 : sumBy Bet.owedStake s.bets = 0 := by
    apply sumBy_zero
    intro b hbm
    unfold Bet.owedStake
    rw [hclosed b hbm]
    rfl
  have h3 : sumBy Bet.owedFee s.bets = 0 := by
    apply sumBy_zero
    intro b hbm
    unfold Bet.owedFee
    rw [hclosed b hbm]
    rfl
  have h4 : sumBy Book.owedFee s.books = 0 := by
    apply sumBy_zero
    intro bk hbk
    unfold Book.owedFee
    apply sumBy_zero
    intro q hq
    unfold Part.owedFee
    rw [hp bk hbk q hq]
    rfl
  refine ⟨?_, ?_, ?_⟩
  · rw [hC.pool]; unfold owedPool; rw [h1, h2]; rfl
  · rw [hC.betFee]; unfold owedBetFee; exact h3
  · rw [hC.houseFee]; unfold owedHouseFee; exact h4

/-- C01.d  Once every market is fully settled — every bet settled, every participation paid — the three custody
    accounts are empty: nothing is stranded in, and nothing is missing from, the pool and the fee collectors. -/
theorem c01_all_settled_empty (p : Params) (bal : List (Nat × Int)) (h t : Nat) (ops : List Op)
    (h0 : getBal bal ACC_POOL = 0 ∧ getBal bal ACC_BETFEE = 0 ∧ getBal bal ACC_HOUSEFEE = 0)
    (hwf : ∀ op ∈ ops, op.userSigned') :
    let s := run { bal := bal, params := p, height := h, time := t } ops
    (∀ b ∈ s.bets, b.status = BS_SETTLED) → (∀ bk ∈ s.books, ∀ q ∈ bk.parts, q.isSettled = true) →
    getBal s.bal ACC_POOL = 0 ∧ getBal s.bal ACC_BETFEE = 0 ∧ getBal s.bal ACC_HOUSEFEE = 0 := by
  intro s hb hp
  exact cust_all_settled_empty (run_settleInv _ ops (settleInv_init p bal h t h0) hwf).toCustI.toCust hb hp

/-- non-vacuity: a market with one deposit and one wager is declared for the bettor's outcome; before the end-block
    the pool holds liquidity + stake and the collectors hold the two fees, the end-block settles the bet and pays the
    participation, and afterwards the three custody accounts are empty -/
example :
    let tk : Tk := { ok := true, kycIgnore := true, kycApproved := false, kycId := 0 }
    let pl : WagerPayload :=
      { market := 1, odds := 11, oddsVal := some ⟨2 * PREC⟩, mult := ⟨PREC⟩, allOdds := [(11, ⟨PREC⟩), (12, ⟨PREC⟩)] }
    let s0 : State := { bal := [(7, 100000000), (8, 100000000), (9, 0)], time := 100 }
    let ops : List Op := [.marketAdd 9 tk 1 50 500 [11, 12] MS_ACTIVE, .deposit 7 tk 1 50000000 0, .wager 8 tk 77 2000000 pl,
      .marketResolve tk 1 60 MS_DECLARED [11]]
    let s1 := run s0 ops
    let s2 := run s1 [.endBlock]
    (∀ op ∈ ops ++ [.endBlock], op.userSigned') ∧
    (getBal s1.bal ACC_POOL, getBal s1.bal ACC_BETFEE, getBal s1.bal ACC_HOUSEFEE) = (46999900, 100, 5000000) ∧
    (owedPool s1, owedBetFee s1, owedHouseFee s1) = (46999900, 100, 5000000) ∧
    s2.bets.map (·.status) = [BS_SETTLED] ∧ s2.books.map (fun b => b.parts.map (·.isSettled)) = [[true]] ∧
    (getBal s2.bal ACC_POOL, getBal s2.bal ACC_BETFEE, getBal s2.bal ACC_HOUSEFEE) = (0, 0, 0) := by
  refine ⟨?_, ?_⟩
  · intro op hop
    simp only [List.cons_append, List.nil_append, List.mem_cons, List.not_mem_nil, or_false] at hop
    rcases hop with rfl | rfl | rfl | rfl | rfl <;> first | trivial | (show isModuleAcc _ = false; decide)
  · decide +kernel

end Sge.Core
