/-
  C12  Reward pool is conserved; grants respect funds, caps, time window and ownership.

  Model: `Sge.Reward` (message servers of x/reward acting on promoters, campaigns, rewards, the two reward
  indexes, grant counters, authz grants, subaccounts of the receivers and the bank balances).
  `init fixed bal` is the empty reward state with arbitrary balances of the plain accounts and an empty
  reward pool; `run s ops` folds `step` (a failing or panicking message leaves the state unchanged) over ANY
  list of operations: promoter creation / configuration, campaign creation / update (top-up, end time, active
  flag) / withdrawal, grants of every reward type (replayed tickets are just further grant operations),
  authz grant / revoke, block time, bets appearing in x/bet, subaccount creation, bank sends.

  Findings on the code as it is (`fixed = false`), each reproduced on the real message servers by the suite:
   1. `CreateCampaignPayload.Validate` accepts reward components of opposite sign. `DistributeRewards` pays the
      positive components, `Pool.Spend` books their algebraic sum  ⇒  the pool equation is false
      (`c12_pool_eq_counterexample`). `c12_pool_eq_partial` states exactly which inputs are excluded;
      `c12_pool_eq_fixed` is the full statement for repo_patches/reward_negative_components.diff.
   2. `WithdrawCampaignAuthorization` is not registered as `authz.Authorization`, so no such grant can be created:
      on the unpatched code only the promoter itself can ever withdraw (`c12_withdraw_grantee_unusable`);
      repo_patches/reward_register_withdraw_authorization.diff (`c12_withdraw_grantee_usable_fixed`).
  All other parts of C12 hold for both variants and all histories.

  Contract assumptions (modelled, exercised by the suite, not verified): x/bank, x/authz, x/subaccount, x/ovm as
  described in Sge/Reward.lean; bets delivered by x/bet have a non-negative amount; a module account signs nothing.
-/
import SgeProofs.Lemmas.RewardGrant
namespace Sge.Reward
open Sge

/-! ### pool conservation -/

/-- C12.pool_eq (patched validation)  For every history the reward-pool balance equals the sum over campaigns
    of total − spent − withdrawn. -/
theorem c12_pool_eq_fixed (bal : Nat → Int) (ops : List Op) :
    (run (init true bal) ops).bank POOL = booked (run (init true bal) ops).campaigns :=
  (poolEq_run ops (inv_init true bal) (poolEq_init true bal) (Or.inl rfl)).eq

/-
  Full statement, FALSE of the code as it is (see `c12_pool_eq_counterexample`):
    theorem c12_pool_eq (bal) (ops) :
      (run (init false bal) ops).bank POOL = booked (run (init false bal) ops).campaigns
-/

/-- C12.pool_eq, partial (code as it is)  The pool equation holds for every history in which no
    campaign-creation ticket carries a negative reward component, i.e. excluded are exactly the `CreateCampaign`
    payloads with `main_account_amount < 0`, `subaccount_amount < 0`, `main_account_percentage < 0` or
    `subaccount_percentage < 0` (`OpNonneg`); everything else — nil / zero components, every reward type, caps,
    windows, replays, delegated operations — is covered. -/
theorem c12_pool_eq_partial (bal : Nat → Int) (ops : List Op) (h : ∀ op ∈ ops, OpNonneg op) :
    (run (init false bal) ops).bank POOL = booked (run (init false bal) ops).campaigns :=
  (poolEq_run ops (inv_init false bal) (poolEq_init false bal) (Or.inr h)).eq

/-- twelve plain accounts with 5000 each, everything else empty -/
def bal0 : Nat → Int := fun a => if a < 12 then 5000 else 0

/-- the smallest history that breaks the pool equation on the code as it is: an honest campaign (1000), a
    campaign with components main = −50 / sub = 100 funded with 50, one grant from the latter -/
def cexOps : List Op :=
  [ .time 100,
    .createPromoter { creator := 1, tv := true, uid := 7, uidOk := true, conf := [] },
    .createCampaign { creator := 1, uid := 20, funds := some 1000, tv := true, promoter := 1, startTS := 100, endTS := 200,
                      category := 1, rtype := 1, amtType := 1,
                      ra := some { main := none, sub := some 100, unlock := 10, mainPct := none, subPct := none },
                      active := true, capCount := 0, cons := none },
    .createCampaign { creator := 1, uid := 21, funds := some 50, tv := true, promoter := 1, startTS := 100, endTS := 200,
                      category := 1, rtype := 1, amtType := 1,
                      ra := some { main := some (-50), sub := some 100, unlock := 10, mainPct := none, subPct := none },
                      active := true, capCount := 0, cons := none },
    .grant { creator := 2, uid := 30, campaign := 21, tv := true, receiver := 3, kyc := some (false, true, true),
             srcOk := true, referee := 0, bet := 0 } ]

/-- C12.pool_eq counter-example (code as it is)  After `cexOps` the pool holds 950 while the campaigns book
    1000: the grant moved 100 out of the pool and booked 50, the missing 50 belong to the honest campaign. -/
theorem c12_pool_eq_counterexample :
    (run (init false bal0) cexOps).bank POOL = 950 ∧
    booked (run (init false bal0) cexOps).campaigns = 1000 ∧
    (run (init false bal0) cexOps).bank (SUBBASE + 3) = 100 := by
  decide

/-- the same history on the patched validation: the second campaign is rejected, nothing leaves the pool -/
theorem c12_pool_eq_counterexample_fixed :
    (run (init true bal0) cexOps).bank POOL = 1000 ∧
    booked (run (init true bal0) cexOps).campaigns = 1000 := by
  decide

/-- C12.available_nonneg  No campaign's available amount is ever negative (both variants, all histories). -/
theorem c12_available_nonneg (fixed : Bool) (bal : Nat → Int) (ops : List Op) :
    ∀ c ∈ (run (init fixed bal) ops).campaigns, 0 ≤ c.pool.avail :=
  (inv_run ops (inv_init fixed bal)).avail

/-- every coin that leaves the pool in a grant is one of the positive reward components; with non-negative
    components (`AmtNonneg`, guaranteed in every reachable state of the patched variant) the pool loses exactly
    what is booked as spent -/
theorem c12_grant_moves_booked {s s' : State} {m : GrantMsg} (hP : PoolEq s) (h : exec s (.grant m) = .ok s') :
    s.bank POOL - s'.bank POOL = booked s.campaigns - booked s'.campaigns := by
  have hP' := poolEq_grantReward hP h
  rw [hP.eq, hP'.eq]

/-! ### grants -/

/-- C12.grant_once  Reward ids are unique in every reachable state … -/
theorem c12_grant_once (fixed : Bool) (bal : Nat → Int) (ops : List Op) :
    ((run (init fixed bal) ops).rewards.map (·.uid)).Nodup :=
  (inv_run ops (inv_init fixed bal)).once

/-- … and a grant whose reward id was used before is rejected, whatever ticket it carries. -/
theorem c12_grant_once_step {s : State} {m : GrantMsg} {r : Reward} (hr : r ∈ s.rewards) (hu : r.uid = m.uid) :
    ∀ s', exec s (.grant m) ≠ .ok s' := by
  intro s' h
  obtain ⟨_, _, _, hnew, _⟩ := grant_conditions h
  exact getBy_none _ _ _ hnew r hr hu

/-- C12.grant_conditions  A successful grant: fresh reward id; the campaign exists, is active and the block time is
    inside [start, end]; the ticket verifies and its KYC data is valid for the receiver, who is not a subaccount;
    the granted total does not exceed the campaign's available amount; exactly one reward record is added, for
    the receiver named on the ticket; the amounts are the campaign's amounts (fixed types) or
    trunc(min(bet, max) · percentage) of the receiver's settled main-market bet (bet bonus); the pool loses the
    positive components, which arrive at the receiver's main account and at its subaccount address. -/
theorem c12_grant_conditions {s s' : State} {m : GrantMsg} (h : exec s (.grant m) = .ok s') :
    ∃ c a, getC s.campaigns m.campaign = some c ∧
      getR s.rewards m.uid = none ∧
      c.active = true ∧ c.startTS ≤ s.time ∧ s.time ≤ c.endTS ∧
      m.tv = true ∧ kycOk m.kyc = true ∧ isSubAddr s.subs m.receiver = false ∧
      a.main + a.sub ≤ c.pool.avail ∧
      s'.rewards = s.rewards ++ [{ uid := m.uid, creator := m.creator, receiver := m.receiver, campaign := m.campaign, amt := a }] ∧
      (c.rtype ≠ 8 → a.main = c.amt.main ∧ a.sub = c.amt.sub) ∧
      (c.rtype = 8 → ∃ b, betLookup s.bets m.bet m.receiver = some b ∧ (a.main, a.sub) = betAmounts c b.amount) ∧
      s'.bank POOL = s.bank POOL - (if 0 < a.sub then a.sub else 0) - (if 0 < a.main then a.main else 0) ∧
      (m.receiver ≠ POOL →
        s'.bank m.receiver = s.bank m.receiver + (if 0 < a.main then a.main else 0) ∧
        s'.bank (SUBBASE + m.receiver) = s.bank (SUBBASE + m.receiver) + (if 0 < a.sub then a.sub else 0)) :=
  grant_conditions h

/-- C12.grant_conditions, amounts (patched validation)  In every reachable state a successful grant pays exactly
    the granted amounts, which are not negative: `a.main` to the receiver, `a.sub` to the receiver's subaccount
    address, and the pool loses exactly `a.main + a.sub` — the amount booked as spent. -/
theorem c12_grant_exact_fixed (bal : Nat → Int) (ops : List Op) {m : GrantMsg} {s' : State}
    (h : exec (run (init true bal) ops) (.grant m) = .ok s') :
    ∃ a, s'.rewards = (run (init true bal) ops).rewards ++
          [{ uid := m.uid, creator := m.creator, receiver := m.receiver, campaign := m.campaign, amt := a }] ∧
      0 ≤ a.main ∧ 0 ≤ a.sub ∧
      s'.bank POOL = (run (init true bal) ops).bank POOL - (a.main + a.sub) ∧
      (m.receiver ≠ POOL →
        s'.bank m.receiver = (run (init true bal) ops).bank m.receiver + a.main ∧
        s'.bank (SUBBASE + m.receiver) = (run (init true bal) ops).bank (SUBBASE + m.receiver) + a.sub) :=
  grant_exact (poolEq_run ops (inv_init true bal) (poolEq_init true bal) (Or.inl rfl)) h

/-- the same for the code as it is, for histories without negative components in campaign-creation tickets -/
theorem c12_grant_exact_partial (bal : Nat → Int) (ops : List Op) (hn : ∀ op ∈ ops, OpNonneg op) {m : GrantMsg} {s' : State}
    (h : exec (run (init false bal) ops) (.grant m) = .ok s') :
    ∃ a, s'.rewards = (run (init false bal) ops).rewards ++
          [{ uid := m.uid, creator := m.creator, receiver := m.receiver, campaign := m.campaign, amt := a }] ∧
      0 ≤ a.main ∧ 0 ≤ a.sub ∧
      s'.bank POOL = (run (init false bal) ops).bank POOL - (a.main + a.sub) ∧
      (m.receiver ≠ POOL →
        s'.bank m.receiver = (run (init false bal) ops).bank m.receiver + a.main ∧
        s'.bank (SUBBASE + m.receiver) = (run (init false bal) ops).bank (SUBBASE + m.receiver) + a.sub) :=
  grant_exact (poolEq_run ops (inv_init false bal) (poolEq_init false bal) (Or.inr hn)) h

/-- C12.cap_account  In every reachable state a campaign with a cap count has granted each account at most that
    many rewards. -/
theorem c12_cap_account (fixed : Bool) (bal : Nat → Int) (ops : List Op) (u a : Nat) (c : Campaign)
    (hc : getC (run (init fixed bal) ops).campaigns u = some c) (hcap : 0 < c.capCount) :
    countR (run (init fixed bal) ops).rewards u a ≤ c.capCount := by
  have := (inv_run ops (inv_init fixed bal)).cap.2 u a c hc hcap
  omega

/-- C12.cap_category  After a successful grant the receiver holds, under the promoter of the campaign and in
    the campaign's category, at most `cap_per_acc` rewards for every entry of the promoter's configuration
    (as it is at the time of the grant) for that category. -/
theorem c12_cap_category {s s' : State} {m : GrantMsg} (h : exec s (.grant m) = .ok s') :
    ∃ c pa p, getC s.campaigns m.campaign = some c ∧ getA s.byAddr c.promoter = some pa ∧
      getP s.promoters pa.2 = some p ∧
      ∀ cc ∈ p.conf, cc.1 = c.category → (countCat s'.byCat p.uid m.receiver c.category : Int) ≤ cc.2 :=
  grant_cap_category h

/-- both reward indexes list exactly the reward records (so counting index entries is counting rewards) -/
theorem c12_indexes_complete (fixed : Bool) (bal : Nat → Int) (ops : List Op) :
    (run (init fixed bal) ops).byCat.map (·.uid) = (run (init fixed bal) ops).rewards.map (·.uid) ∧
    (run (init fixed bal) ops).byCamp.map (·.2) = (run (init fixed bal) ops).rewards.map (·.uid) :=
  ⟨(inv_run ops (inv_init fixed bal)).idxCat, (inv_run ops (inv_init fixed bal)).idxCamp⟩

/-! ### ownership -/

/-- C12.promoter_only  In every reachable state, an operation that changes the total, the withdrawn amount, the
    end time, the active flag or the promoter of an existing campaign is an `UpdateCampaign` / `WithdrawFunds` of
    that campaign whose creator is the campaign's promoter or holds an unexpired authz grant of the promoter for
    that message type with a sufficient limit. -/
theorem c12_promoter_only {s s' : State} {op : Op} {u : Nat} {c c' : Campaign}
    (h : exec s op = .ok s') (hc : getC s.campaigns u = some c) (hc' : getC s'.campaigns u = some c')
    (hd : c'.pool.total ≠ c.pool.total ∨ c'.pool.withdrawn ≠ c.pool.withdrawn ∨ c'.endTS ≠ c.endTS ∨
          c'.active ≠ c.active ∨ c'.promoter ≠ c.promoter) :
    (∃ m, op = .updateCampaign m ∧ m.uid = u ∧ Authorised s.time s.grants m.creator c.promoter 1 m.topup) ∨
    (∃ m, op = .withdraw m ∧ m.uid = u ∧ Authorised s.time s.grants m.creator c.promoter 2 m.amount) :=
  campaign_change_authorised h hc hc' hd

/-- C12.promoter_only (withdraw)  A successful withdrawal is authorised, takes a non-negative amount of at most
    the campaign's available amount out of the pool and pays it to the campaign's promoter. -/
theorem c12_withdraw (fixed : Bool) (bal : Nat → Int) (ops : List Op) {m : WithdrawMsg} {s' : State}
    (h : exec (run (init fixed bal) ops) (.withdraw m) = .ok s') :
    ∃ c amount, getC (run (init fixed bal) ops).campaigns m.uid = some c ∧ m.amount = some amount ∧ m.tv = true ∧
      Authorised (run (init fixed bal) ops).time (run (init fixed bal) ops).grants m.creator c.promoter 2 m.amount ∧
      0 ≤ amount ∧ amount ≤ c.pool.avail ∧
      s'.bank POOL = (run (init fixed bal) ops).bank POOL - amount ∧
      s'.bank c.promoter = (run (init fixed bal) ops).bank c.promoter + amount :=
  withdraw_authorised (inv_run ops (inv_init fixed bal)) h

/-- C12.promoter_only (update)  A successful update is authorised and needs an active campaign. -/
theorem c12_update {s s' : State} {m : UpdateMsg} (h : exec s (.updateCampaign m) = .ok s') :
    ∃ c, getC s.campaigns m.uid = some c ∧ c.active = true ∧ m.tv = true ∧
      Authorised s.time s.grants m.creator c.promoter 1 m.topup :=
  update_authorised h

/-- finding 2 (code as it is): no withdraw authorization can ever be stored, hence every successful withdrawal
    is signed by the promoter itself — "or its grantee" is unreachable. -/
theorem c12_withdraw_grantee_unusable (bal : Nat → Int) (ops : List Op) {m : WithdrawMsg} {s' : State}
    (h : exec (run (init false bal) ops) (.withdraw m) = .ok s') :
    ∃ c, getC (run (init false bal) ops).campaigns m.uid = some c ∧ m.creator = c.promoter := by
  have hN : NoWithdrawGrant (run (init false bal) ops) :=
    noWithdrawGrant_run ops (fun g hg => by cases hg)
  obtain ⟨c, amount, hget, _, _, hauth, _⟩ := withdraw_authorised (inv_run ops (inv_init false bal)) h
  refine ⟨c, hget, ?_⟩
  rcases hauth with e | ⟨g, a, hg, _⟩
  · exact e
  · obtain ⟨hm, _, _, hk⟩ := getGrant_spec hg
    have := hN g hm hk
    rw [run_codecFixed] at this
    cases this

/-- with the authorization registered (patched variant) a grantee does withdraw: after these five operations
    account 4 has moved 40 of campaign 20 to its promoter 1 and the grant's limit is down to 60 -/
theorem c12_withdraw_grantee_usable_fixed :
    let s := run { init true bal0 with codecFixed := true }
      [ .time 100,
        .createPromoter { creator := 1, tv := true, uid := 7, uidOk := true, conf := [] },
        .createCampaign { creator := 1, uid := 20, funds := some 1000, tv := true, promoter := 1, startTS := 100, endTS := 200,
                          category := 1, rtype := 1, amtType := 1,
                          ra := some { main := none, sub := some 100, unlock := 10, mainPct := none, subPct := none },
                          active := true, capCount := 0, cons := none },
        .authzGrant 1 4 2 (some 100) none,
        .withdraw { creator := 4, uid := 20, amount := some 40, tv := true, promoter := 1 } ]
    s.bank POOL = 960 ∧ s.bank 1 = 4040 ∧ (s.grants.map (·.limit)) = [60] := by
  decide

/-! ### non-vacuity -/

/-- a reachable state of the code as it is with a promoter, an active campaign inside its window, one granted
    reward, a used grant counter: the hypotheses of the theorems above are satisfiable -/
example :
    let s := run (init false bal0)
      [ .time 100,
        .createPromoter { creator := 1, tv := true, uid := 7, uidOk := true, conf := [(1, 2)] },
        .createCampaign { creator := 1, uid := 20, funds := some 1000, tv := true, promoter := 1, startTS := 100, endTS := 200,
                          category := 1, rtype := 1, amtType := 1,
                          ra := some { main := some 25, sub := some 100, unlock := 10, mainPct := none, subPct := none },
                          active := true, capCount := 1, cons := none },
        .grant { creator := 2, uid := 30, campaign := 20, tv := true, receiver := 3, kyc := some (false, true, true),
                 srcOk := true, referee := 0, bet := 0 },
        .grant { creator := 2, uid := 31, campaign := 20, tv := true, receiver := 3, kyc := some (false, true, true),
                 srcOk := true, referee := 0, bet := 0 } ]
    s.bank POOL = 875 ∧ booked s.campaigns = 875 ∧ s.bank 3 = 5025 ∧ s.bank (SUBBASE + 3) = 100 ∧
    s.rewards.length = 1 ∧ getStat s.stats 20 3 = 1 := by
  decide

end Sge.Reward
