/-
  C16, reachability part.  The C16 theorems of the core modules (SgeProofs/Properties/C16.lean) assume the store
  invariants `marketInv`, `houseInv`, `betInv`, `obInv` of Sge/Genesis.lean.  Here they are proved to hold in EVERY
  state that the model reaches from an empty chain by any list of operations (messages, authz / bank / parameter
  traffic, new blocks, end-blocks — halting ones included), and the C16 statements are restated without them.

  Inductive invariants (SgeProofs/Lemmas/GenesisReach*.lean):
    `StI`     keyed stores are sorted, every withdrawal has its deposit, every book satisfies `BkI` (the proposition
              behind `bookInv`, plus: the bet ids of participation–bet pairs are at most the bet counter)
    `BetIdx`  (C08) the pending / settled stores are the two indexes of the bet store, by status
    `HgtInv`  block heights are positive, and a bet has a settlement height iff it is settled

  `marketInv`, `houseInv`, `obInv` need NO hypothesis on the initial chain or the operations.
  `betInv` needs positive block heights (initial height ≠ 0, no `newBlock 0 _`): the model's block clock is driven
  by the environment and the model itself does not exclude height 0, where `Settle` stamps a bet with settlement
  height 0 and the bet genesis validation (check 5, "settled bet with height 0") rejects the export
  → `betInv_height_zero_counterexample`; without the hypothesis: `betInv_partial`.
  A real chain never has a block of height 0, so this is a hypothesis about the environment, not a finding.
-/
import SgeProofs.Properties.C16
import SgeProofs.Lemmas.GenesisReachEnd
namespace Sge.Genesis
open Sge Sge.Core

-- ---------------------------------------------------------------------------------------------
-- the four invariants in every reachable state

/-- C16 reach: the market store of every reachable state is a keyed store. -/
theorem marketInv_reachable (p : Params) (bal : List (Nat × Int)) (h t : Nat) (ops : List Op) :
    let s := run { bal := bal, params := p, height := h, time := t } ops
    marketInv s = true :=
  marketInv_of (run_stI _ ops (stI_init p bal h t))

/-- C16 reach: in every reachable state deposits and withdrawals are keyed stores and every withdrawal belongs to a
    stored deposit of the same depositor, market and participation. -/
theorem houseInv_reachable (p : Params) (bal : List (Nat × Int)) (h t : Nat) (ops : List Op) :
    let s := run { bal := bal, params := p, height := h, time := t } ops
    houseInv s = true :=
  houseInv_of (run_stI _ ops (stI_init p bal h t))

/-- C16 reach: in every reachable state the books and all their nested stores are keyed stores, every book has one
    fulfilment queue per outcome, a book with a participation has an exposure for every outcome, every historical
    exposure has a current one, bet ids are unique and every participation–bet pair names a stored bet. -/
theorem obInv_reachable (p : Params) (bal : List (Nat × Int)) (h t : Nat) (ops : List Op) :
    let s := run { bal := bal, params := p, height := h, time := t } ops
    obInv s = true :=
  obInv_of (run_stI _ ops (stI_init p bal h t)) (run_betIdx _ ops (betIdx_init p bal h t))

/-- C16 reach: in every state reachable with positive block heights the bet store is keyed, uids are unique, ids
    non-zero, the counter counts the bets, a settled bet has a settlement height, and the pending / settled stores are
    exactly the two indexes the bet genesis rebuilds (by settlement height). -/
theorem betInv_reachable (p : Params) (bal : List (Nat × Int)) (h t : Nat) (ops : List Op)
    (hh : h ≠ 0) (hp : ∀ op ∈ ops, op.posHeight) :
    let s := run { bal := bal, params := p, height := h, time := t } ops
    betInv s = true :=
  betInv_of (run_betIdx _ ops (betIdx_init p bal h t))
    (run_hgtInv _ ops (betIdx_init p bal h t) (hgtInv_init p bal h t hh) hp)

/-- one market, one deposit, one wager, the market is declared and the bet settled — in a block of height 0 -/
def heightZeroOps : List Op :=
  let tk : Tk := { ok := true, kycIgnore := true, kycApproved := false, kycId := 0 }
  [ .marketAdd 0 tk 1 50 5000 [11, 12] MS_ACTIVE, .deposit 1 tk 1 500 0,
    .wager 2 tk 901 100 { market := 1, odds := 11, oddsVal := some ⟨2 * PREC⟩, mult := ⟨PREC⟩,
                          allOdds := [(11, ⟨PREC⟩), (12, ⟨PREC⟩)], oddsTypeOk := true },
    .marketResolve tk 1 100 MS_DECLARED [11], .endBlock ]

def heightZeroState : State :=
  run { bal := [(1, 5000), (2, 5000)], params := { houseMin := 10, betMin := 2, betFee := 1, houseMaxW := 3 },
        height := 0, time := 100 } heightZeroOps

/-- The height hypothesis of `betInv_reachable` is needed: the model does not exclude a block of height 0, and a bet
    settled there gets settlement height 0 — `betInv` fails (conjunct "a settled bet has a settlement height") and
    the bet genesis validation rejects the export with error 5. The other three invariants hold. -/
theorem betInv_height_zero_counterexample :
    heightZeroState.bets.map (fun b => (b.status, b.settleHeight)) = [(BS_SETTLED, 0)] ∧
    betInv heightZeroState = false ∧ validateBet (exportBet heightZeroState) = 5 ∧
    marketInv heightZeroState = true ∧ houseInv heightZeroState = true ∧ obInv heightZeroState = true := by
  decide +kernel

/-- C16 reach, `betInv` without the height hypothesis: the conjuncts that do not relate settlement heights to the
    bet status hold in every reachable state. Excluded: "a settled bet has a settlement height" and the four conjuncts
    describing the pending / settled stores as indexes *by settlement height* (they are indexes by status: C08). -/
theorem betInv_partial (p : Params) (bal : List (Nat × Int)) (h t : Nat) (ops : List Op) :
    let s := run { bal := bal, params := p, height := h, time := t } ops
    sortedB Bet.key s.bets = true ∧ hasDup (s.bets.map (·.uid)) = false ∧ s.bets.all (fun b => b.id != 0) = true ∧
    (s.betCount == s.bets.length) = true ∧ (s.pending.length + s.settled.length == s.bets.length) = true := by
  intro s
  have hI : BetIdx s := run_betIdx _ ops (betIdx_init p bal h t)
  refine ⟨(sortedB_iff _ _).mpr hI.sBets, hasDup_false_of_pairwise _ _ hI.uids_pairwise, ?_, ?_, ?_⟩
  · rw [List.all_eq_true]
    intro b hb
    have := (hI.idLo b hb).1
    simp only [bne_iff_ne, ne_eq]
    omega
  · rw [hI.count]; exact beq_self_eq_true _
  · rw [hI.lens]; exact beq_self_eq_true _

-- ---------------------------------------------------------------------------------------------
-- C16 of the core modules without invariant hypotheses

/-- C16 `restart`, every reachable state: importing the export of the state reached by ANY history into a fresh
    chain (same bank balances, authz grants and block clock) gives back exactly that state. -/
theorem c16_core_restart_reachable (p : Params) (bal : List (Nat × Int)) (h t : Nat) (ops : List Op)
    (hh : h ≠ 0) (hp : ∀ op ∈ ops, op.posHeight) :
    let σ := run { bal := bal, params := p, height := h, time := t } ops
    importCore (exportCore σ) (freshCore σ) = some σ :=
  c16_core_restart _ (marketInv_reachable p bal h t ops) (houseInv_reachable p bal h t ops)
    (betInv_reachable p bal h t ops hh hp) (obInv_reachable p bal h t ops)

/-- C16 `continue_equal`, every reachable state: after export + import at the end of ANY history, continuing with
    any operations `ops'` yields the same state as continuing on the chain that was never restarted. -/
theorem c16_core_continue_equal_reachable (p : Params) (bal : List (Nat × Int)) (h t : Nat) (ops ops' : List Op)
    (hh : h ≠ 0) (hp : ∀ op ∈ ops, op.posHeight) :
    let σ := run { bal := bal, params := p, height := h, time := t } ops
    (importCore (exportCore σ) (freshCore σ)).map (fun σ' => run σ' ops') = some (run σ ops') :=
  c16_core_continue_equal _ (marketInv_reachable p bal h t ops) (houseInv_reachable p bal h t ops)
    (betInv_reachable p bal h t ops hh hp) (obInv_reachable p bal h t ops) ops'

/-- … in particular the restarted chain equals the original after the whole history `ops ++ ops'`. -/
theorem c16_core_continue_equal_reachable' (p : Params) (bal : List (Nat × Int)) (h t : Nat) (ops ops' : List Op)
    (hh : h ≠ 0) (hp : ∀ op ∈ ops, op.posHeight) :
    let s0 : State := { bal := bal, params := p, height := h, time := t }
    (importCore (exportCore (run s0 ops)) (freshCore (run s0 ops))).map (fun σ' => run σ' ops') = some (run s0 (ops ++ ops')) := by
  intro s0
  rw [run_split]
  exact c16_core_continue_equal_reachable p bal h t ops ops' hh hp

/-- C16 reach, market: the exported market genesis of every reachable state validates. -/
theorem c16_validate_export_market_reachable (p : Params) (bal : List (Nat × Int)) (h t : Nat) (ops : List Op) :
    let σ := run { bal := bal, params := p, height := h, time := t } ops
    validateMarket (exportMarket σ) = 0 :=
  c16_validate_export_market _ (marketInv_reachable p bal h t ops)

/-- C16 reach, house, patched validation: the exported house genesis of every state reachable from a chain with
    valid parameters validates (parameter updates only install valid parameters). -/
theorem c16_validate_export_house_reachable (p : Params) (bal : List (Nat × Int)) (h t : Nat) (ops : List Op)
    (hv : p.valid = true) :
    let σ := run { bal := bal, params := p, height := h, time := t } ops
    validateHouse true (exportHouse σ) = 0 :=
  c16_validate_export_house _ (houseInv_reachable p bal h t ops) (run_params_valid _ ops hv)

/-- C16 reach, house, code as it is: validates when every deposit that has a withdrawal was created by its depositor
    (the excluded states are reachable: `c16_house_asis_counterexample`). -/
theorem c16_validate_export_house_partial_reachable (p : Params) (bal : List (Nat × Int)) (h t : Nat) (ops : List Op)
    (hv : p.valid = true) :
    let σ := run { bal := bal, params := p, height := h, time := t } ops
    (∀ d ∈ σ.deposits, ∀ w ∈ σ.withdrawals, d.depositor = w.addr → d.market = w.market → d.idx = w.idx → d.creator = d.depositor) →
    validateHouse false (exportHouse σ) = 0 :=
  fun hown => c16_validate_export_house_partial _ (houseInv_reachable p bal h t ops) (run_params_valid _ ops hv) hown

/-- C16 reach, bet: the exported bet genesis of every state reachable (with positive block heights) from a chain with
    valid parameters passes all checks of the bet genesis validation. -/
theorem c16_validate_export_bet_reachable (p : Params) (bal : List (Nat × Int)) (h t : Nat) (ops : List Op)
    (hv : p.valid = true) (hh : h ≠ 0) (hp : ∀ op ∈ ops, op.posHeight) :
    let σ := run { bal := bal, params := p, height := h, time := t } ops
    validateBet (exportBet σ) = 0 :=
  c16_validate_export_bet _ (betInv_reachable p bal h t ops hh hp) (run_params_valid _ ops hv)

/-- C16 reach, orderbook, patched validation: the exported order-book genesis of every state reachable from a chain
    with valid parameters validates. -/
theorem c16_validate_export_ob_reachable (p : Params) (bal : List (Nat × Int)) (h t : Nat) (ops : List Op)
    (hv : p.valid = true) :
    let σ := run { bal := bal, params := p, height := h, time := t } ops
    validateOb true (exportOb σ) = 0 :=
  c16_validate_export_ob _ (obInv_reachable p bal h t ops) (run_params_valid _ ops hv)

/-- C16 reach, orderbook, code as it is: validates in the reachable states with exactly one book that has a
    participation (the excluded states are reachable: `c16_ob_asis_counterexample_*`). -/
theorem c16_validate_export_ob_partial_reachable (p : Params) (bal : List (Nat × Int)) (h t : Nat) (ops : List Op)
    (hv : p.valid = true) (B : Book) :
    let σ := run { bal := bal, params := p, height := h, time := t } ops
    σ.books = [B] → B.partCount ≠ 0 → validateOb false (exportOb σ) = 0 :=
  fun hone hpart => c16_validate_export_ob_partial _ (obInv_reachable p bal h t ops) (run_params_valid _ ops hv) B hone hpart

/-- C16 reach, per module: every store of the four core modules comes back after export + import. -/
theorem c16_import_export_core_reachable (p : Params) (bal : List (Nat × Int)) (h t : Nat) (ops : List Op)
    (hh : h ≠ 0) (hp : ∀ op ∈ ops, op.posHeight) :
    let σ := run { bal := bal, params := p, height := h, time := t } ops
    (importMarket (exportMarket σ) (freshCore σ)).markets = σ.markets ∧
    (importHouse (exportHouse σ) (freshCore σ)).deposits = σ.deposits ∧
    (importHouse (exportHouse σ) (freshCore σ)).withdrawals = σ.withdrawals ∧
    (importBet (exportBet σ) (freshCore σ)).bets = σ.bets ∧
    (importBet (exportBet σ) (freshCore σ)).pending = σ.pending ∧
    (importBet (exportBet σ) (freshCore σ)).settled = σ.settled ∧
    (importBet (exportBet σ) (freshCore σ)).betCount = σ.betCount := by
  intro σ
  have m := c16_import_export_market σ (marketInv_reachable p bal h t ops)
  have d := c16_import_export_house σ (houseInv_reachable p bal h t ops)
  have b := c16_import_export_bet σ (betInv_reachable p bal h t ops hh hp)
  exact ⟨m.1, d.1, d.2.1, b.1, b.2.1, b.2.2.1, b.2.2.2.1⟩

-- ---------------------------------------------------------------------------------------------
-- non-vacuity: a concrete history (market add, deposit, wager, resolve, end-block, next block)

def reachTk : Tk := { ok := true, kycIgnore := true, kycApproved := false, kycId := 0 }

def reachParams : Params := { houseMin := 10, betMin := 2, betFee := 1, houseMaxW := 3 }

def reachOps : List Op :=
  [ .marketAdd 0 reachTk 1 50 5000 [11, 12] MS_ACTIVE, .marketAdd 0 reachTk 2 50 5000 [21, 22, 23] MS_ACTIVE,
    .deposit 1 reachTk 1 500 0, .grant 2 1 0 1000 none, .deposit 1 reachTk 2 400 2, .withdraw 1 reachTk 1 1 WM_PARTIAL 50 0,
    .send 1 6 300,
    .wager 6 reachTk 901 100 { market := 1, odds := 11, oddsVal := some ⟨2 * PREC⟩, mult := ⟨PREC⟩,
                               allOdds := [(11, ⟨PREC⟩), (12, ⟨PREC⟩)], oddsTypeOk := true },
    .endBlock, .newBlock 2 200, .marketResolve reachTk 1 150 MS_DECLARED [11], .endBlock, .newBlock 3 300, .endBlock ]

def reachState : State := run { bal := [(1, 5000), (2, 5000)], params := reachParams, height := 1, time := 100 } reachOps

/-- the hypotheses of the reachability theorems hold of the history, every message of it succeeds in a non-trivial
    way (a bet is settled, a participation paid, a withdrawal stored), and the four invariants evaluate to true -/
example :
    reachParams.valid = true ∧ (∀ op ∈ reachOps, op.posHeight) ∧
    reachState.bets.map (fun b => (b.id, b.status, b.settleHeight)) = [(1, BS_SETTLED, 2)] ∧
    reachState.settled.length = 1 ∧ reachState.deposits.length = 2 ∧ reachState.withdrawals.length = 1 ∧
    reachState.books.map (fun b => (b.status, b.partCount, b.pairs)) = [(OB_SETTLED, 1, [(1, 1)]), (OB_ACTIVE, 1, [])] ∧
    marketInv reachState = true ∧ houseInv reachState = true ∧ betInv reachState = true ∧ obInv reachState = true := by
  decide +kernel

example : importCore (exportCore reachState) (freshCore reachState) = some reachState :=
  c16_core_restart_reachable reachParams [(1, 5000), (2, 5000)] 1 100 reachOps (by decide) (by decide +kernel)

example : validateBet (exportBet reachState) = 0 ∧ validateOb true (exportOb reachState) = 0 ∧
    validateHouse true (exportHouse reachState) = 0 ∧ validateMarket (exportMarket reachState) = 0 :=
  ⟨c16_validate_export_bet_reachable reachParams _ 1 100 reachOps (by decide) (by decide) (by decide +kernel),
   c16_validate_export_ob_reachable reachParams _ 1 100 reachOps (by decide),
   c16_validate_export_house_reachable reachParams _ 1 100 reachOps (by decide),
   c16_validate_export_market_reachable reachParams _ 1 100 reachOps⟩

end Sge.Genesis
