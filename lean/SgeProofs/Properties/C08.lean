/-
  C08  Bets are admitted only under the published rules and indexed exactly once.
-/
import SgeProofs.Lemmas.CoreFrame
namespace Sge.Core
open Sge

/-- C08.a  A wager succeeds only if: the bet id is new, the ticket verifies and names the bettor (KYC), the
    market exists, is active and not past its end time, the selected outcome is one of the market's and the
    ticket's outcome list covers exactly the market's outcomes, the amount reaches the minimum, the odds are a
    decimal > 1, and the bettor could pay the fee and the stake taken (both bank transfers succeeded). -/
theorem c08_wager_ok_requires {s s' : State} {c : Nat} {tk : Tk} {u : Nat} {a : Int} {pl : WagerPayload}
    (h : wagerO s c tk u a pl = some s') (hc : c ≠ ACC_BETFEE) :
    (∀ b ∈ s.bets, b.uid ≠ u) ∧ tk.ok = true ∧ tk.kycOk c = true ∧
    ∃ m, getMarket s pl.market = some m ∧ m.status = MS_ACTIVE ∧ s.time ≤ m.endTS ∧ pl.odds ∈ m.odds ∧
      m.odds.length = (pl.allOdds.map (·.1)).eraseDups.length ∧ (∀ o ∈ m.odds, ∃ x ∈ pl.allOdds, x.1 = o) ∧
      s.params.betMin ≤ a ∧
      ∃ ov, pl.oddsVal = some ov ∧ PREC < ov.raw ∧
      ∃ taken : Int, s.params.betFee + taken ≤ getBal s.bal c ∧ 0 ≤ s.params.betFee ∧ 0 ≤ taken := by
  unfold wagerO at h
  simp only [bind, Option.bind_eq_some_iff, pure, Option.some.injEq] at h
  obtain ⟨_, _, _, h2, _, h3, _, _, _, _, _, _, _, h7, m, hm, _, h8, _, h9, _, h10, _, h11, _, h12, _, h13, ov, hov, _, h14, b, _, r, _, s1, hs1, s2, hs2, rfl⟩ := h
  have h2 := chk_some h2; have h3 := chk_some h3; have h7 := chk_some h7; have h8 := chk_some h8
  have h9 := chk_some h9; have h10 := chk_some h10; have h11 := chk_some h11; have h12 := chk_some h12
  have h13 := chk_some h13; have h14 := chk_some h14
  refine ⟨?_, h3, h7, m, hm, by simpa using h8, by simpa using h9, by simpa using h10, by simpa using h11, ?_, by simpa using h13,
    ov, hov, by simpa using h14, r.2.2, ?_⟩
  · intro b hb hu
    simp only [Bool.not_eq_true', List.any_eq_false, beq_iff_eq] at h2
    exact h2 b hb hu
  · intro o ho
    simp only [List.all_eq_true, List.any_eq_true, beq_iff_eq] at h12
    exact h12 o ho
  · -- both transfers succeeded, so the bettor held fee + taken
    obtain ⟨bal1, ht1, rfl⟩ := bankSend_shape hs1
    obtain ⟨bal2, ht2, _⟩ := bankSend_shape hs2
    simp only at ht2
    unfold transfer at ht1 ht2
    split at ht1
    · cases ht1
    · split at ht1
      · cases ht1
      · split at ht2
        · cases ht2
        · split at ht2
          · cases ht2
          · rename_i f0 f1 t0 t1
            split at ht1
            · cases ht1
              omega
            · simp only [Option.some.injEq] at ht1
              subst ht1
              rw [getBal_setBal_ne _ _ _ _ (Ne.symm hc), getBal_setBal_self] at t1
              omega

/-- C08.b  A wager that fails leaves no trace and costs nothing: the state is unchanged. -/
theorem c08_failed_wager_no_trace (s : State) (c : Nat) (tk : Tk) (u : Nat) (a : Int) (pl : WagerPayload)
    (h : (wager s c tk u a pl).2 = .err) : (wager s c tk u a pl).1 = s := by
  unfold wager commit at *
  cases hw : wagerO s c tk u a pl with
  | none => rfl
  | some s' => simp [hw] at h

/-- C08.c  An accepted bet gets the next sequence number, the counter is incremented by one, and the bet is
    listed as pending under (market, id). -/
theorem c08_accepted_bet_indexed {s s' : State} {c : Nat} {tk : Tk} {u : Nat} {a : Int} {pl : WagerPayload}
    (h : wagerO s c tk u a pl = some s') :
    s'.betCount = s.betCount + 1 ∧
    lookup (fun x : Nat × Nat × Nat × Nat => [x.1, x.2.1]) [pl.market, s.betCount + 1] s'.pending = some (pl.market, s.betCount + 1, u, c) ∧
    (∃ bet, lookup Bet.key [c, s.betCount + 1] s'.bets = some bet ∧ bet.uid = u ∧ bet.id = s.betCount + 1 ∧
      bet.status = BS_PLACED ∧ bet.result = BR_PENDING ∧ bet.amount = (bet.fulfs.map (·.bet)).sum) ∧
    s'.settled = s.settled := by
  unfold wagerO at h
  simp only [bind, Option.bind_eq_some_iff, pure, Option.some.injEq] at h
  obtain ⟨_, _, _, _, _, _, _, _, _, _, _, _, _, _, m, _, _, _, _, _, _, _, _, _, _, _, _, _, ov, _, _, _, b, _, r, _, s1, hs1, s2, hs2, rfl⟩ := h
  obtain ⟨_, _, rfl⟩ := bankSend_shape hs1
  obtain ⟨_, _, rfl⟩ := bankSend_shape hs2
  refine ⟨rfl, ?_, ?_, rfl⟩
  · exact lookup_upsert_self (fun x : Nat × Nat × Nat × Nat => [x.1, x.2.1]) (pl.market, s.betCount + 1, u, c) _
  · refine ⟨⟨u, s.betCount + 1, c, pl.market, pl.odds, ov, (r.2.1.map (·.bet)).sum, s.params.betFee, BS_PLACED, BR_PENDING,
      pl.mult, s.time, 0, r.2.1⟩, ?_, rfl, rfl, rfl, rfl, rfl⟩
    show lookup Bet.key (Bet.key ⟨u, s.betCount + 1, c, pl.market, pl.odds, ov, (r.2.1.map (·.bet)).sum, s.params.betFee, BS_PLACED, BR_PENDING,
      pl.mult, s.time, 0, r.2.1⟩) (upsert Bet.key _ s.bets) = _
    exact lookup_upsert_self Bet.key _ _

end Sge.Core
