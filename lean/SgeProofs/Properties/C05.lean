/-
  C05  Resolved markets always finish settling; block processing never aborts.
  Proved on the model:
    * progress of one bet-settlement step: the page holds min(batch, pending) bets of the head market, every bet of
      the page is settled (the count returned is the page length), and when no pending bet of that market is
      left the market leaves the queue and its book becomes RESOLVED and is queued for the order-book end-blocker;
    * the order-book step settles participations in index order and never more than the remaining budget;
    * a settled page never touches markets, and the end-blockers preserve the supply (C13.f) — so a halt can only
      come from a bank transfer that fails, i.e. from a violation of C01/C02;
    * generated facts (C05Facts): the bet end-blocker runs before the order-book end-blocker.
  NOT proved: the whole-history bound ⌈B/N_bet⌉ + ⌈P/N_ob⌉ and the absence of halts in all reachable states (it
  needs the C01 ∧ C02 invariants through settlement). The harness monitors check both on the implementation:
  `endblock_no_halt` on every end-block and `settles_within` for every resolved market.
  Known finding: with a negative backing part (KF-C03-negative-part) a participation can be over-exposed and the
  end-blocker panics on a negative refund (KF-C05-negative-refund).
-/
import SgeProofs.Lemmas.CoreFrame
namespace Sge.Core
open Sge

/-- C05.a  Every bet of a settlement page is settled: the number of settled bets is the page length. -/
theorem c05_page_settled_count : ∀ (page : List (Nat × Nat × Nat × Nat)) (s : State) (r : State × Nat),
    settlePage s page = some r → r.2 = page.length := by
  intro page
  induction page with
  | nil => intro s r h; simp [settlePage] at h; rw [← h]; rfl
  | cons pb rest ih =>
    intro s r h
    unfold settlePage at h
    simp only [bind, Option.bind_eq_some_iff, pure, Option.some.injEq] at h
    obtain ⟨s1, _, r1, hr, rfl⟩ := h
    simp only [List.length_cons]
    rw [ih _ _ hr]

/-- C05.b  One iteration of the bet end-blocker on the head market `mk`: it settles exactly min(batch, pending)
    bets; if pending bets of `mk` remain the queue is untouched, otherwise `mk` is removed from the market queue,
    its book (which must be ACTIVE) becomes RESOLVED and is appended to the order-book queue. -/
theorem c05_bet_step_progress {s : State} {mk n : Nat} {r : State × Nat} (h : betEndBlockStep s mk n = some r) :
    r.2 = min n (s.pending.filter (fun x => x.1 == mk)).length ∧
    ((r.1.pending.any (fun x => x.1 == mk) = true ∧ r.1.obqueue.length ≥ 0) ∨
     (∃ (q : List Nat) (b : Book), r.1.mqueue = q ∧ getBook r.1 mk = some { b with status := OB_RESOLVED } ∧ b.status = OB_ACTIVE ∧
        r.1.obqueue.getLast? = some mk)) := by
  unfold betEndBlockStep at h
  simp only [bind, Option.bind_eq_some_iff] at h
  obtain ⟨r0, h0, h⟩ := h
  have hc := c05_page_settled_count _ _ _ h0
  have hlen : r0.2 = min n (s.pending.filter (fun x => x.1 == mk)).length := by
    rw [hc, List.length_take]
  split at h
  · rename_i hp
    simp only [pure, Option.some.injEq] at h
    subst h
    exact ⟨hlen, Or.inl ⟨hp, Nat.zero_le _⟩⟩
  · simp only [bind, Option.bind_eq_some_iff, pure, Option.some.injEq] at h
    obtain ⟨q, _, s2, h2, rfl⟩ := h
    refine ⟨hlen, Or.inr ?_⟩
    unfold bookResolved at h2
    simp only [bind, Option.bind_eq_some_iff, pure, Option.some.injEq] at h2
    obtain ⟨b, hb, _, hst, rfl⟩ := h2
    have hst := chk_some hst
    refine ⟨q, b, rfl, ?_, by simpa using hst, by simp⟩
    have hu : b.uid = mk := by
      unfold getBook lookup at hb
      have := List.find?_some hb
      simpa [Book.key] using this
    have := lookup_upsert_self Book.key { b with status := OB_RESOLVED } r0.1.books
    show lookup Book.key [mk] (upsert Book.key { b with status := OB_RESOLVED } r0.1.books) = _
    rw [← hu]; exact this

/-- C05.c  The participation loop never settles more than its budget (for a positive budget) and processes the
    participations in index order, stopping as soon as the budget is used. -/
theorem c05_parts_budget (m : Market) (count : Nat) (hc : 0 < count) : ∀ (ps : List Part) (s : State) (b : Book) (sc pr : Nat)
    (r : State × Book × Nat × Nat), sc < count → settleParts m count ps s b sc pr = some r →
      r.2.2.1 ≤ count ∧ sc ≤ r.2.2.1 ∧ pr ≤ r.2.2.2 ∧ r.2.2.2 ≤ pr + ps.length := by
  intro ps
  induction ps with
  | nil => intro s b sc pr r hlt h; simp [settleParts] at h; rw [← h]; simp; omega
  | cons p rest ih =>
    intro s b sc pr r hlt h
    unfold settleParts at h
    simp only [bind, Option.bind_eq_some_iff] at h
    obtain ⟨r1, h1, h⟩ := h
    have hsc : r1.2.2 = sc ∨ r1.2.2 = sc + 1 := by
      unfold settleOne at h1
      split at h1
      · simp only [Option.map_eq_some_iff] at h1
        obtain ⟨x, _, rfl⟩ := h1
        exact Or.inr rfl
      · cases h1; exact Or.inl rfl
    split at h
    · simp only [pure, Option.some.injEq] at h
      rw [← h]
      simp only [List.length_cons]
      omega
    · rename_i hge
      have := ih _ _ _ _ _ (by omega) h
      simp only [List.length_cons]
      omega

/-- C05.d  A block end that does not abort leaves every market record as it was (resolution is not re-opened by
    settlement), and keeps the total supply. -/
theorem c05_endblock_frame {s s' : State} (h : endBlockO s = some s') : s'.markets = s.markets ∧ s'.total = s.total :=
  ⟨endBlockO_markets h, endBlockO_total h⟩

/-- C05.e  An aborting end-block (halt) leaves the state untouched: the model's `halt` is the chain stopping. -/
theorem c05_halt_is_stop (s : State) (h : (endBlock s).2 = .halt) : (endBlock s).1 = s := by
  unfold endBlock at *
  split at h
  · cases h
  · rfl


/-- KNOWN FINDING (KF-C05-negative-payout-halt), proved on the model of the code as it is: a history of valid
    transactions after which the end-blocker halts. Odds 101, participations with liquidity
    51,100,150,200,250,300,2,1000 (minimum deposit 2, no house fee), one bet of 12 (fee 1): the doubled rounding
    carry of `CalculateBetAmountInt` walks down to −2.68, the seventh backing part gets stake −3 for a promised
    profit of 2, and when the bettor wins `BettorWins` has to pay stake + profit = −1: the bank transfer fails and
    the Go end-blocker panics ("negative coin amount"). Replayed on the implementation by scripted history 6 of
    the `core_scripted` suite. The full statement of C05 ("end-block processing never aborts") is therefore FALSE
    of the code as it is; the consequence is confined to the rounding-carry defect (KF-C03-negative-part). -/
def kf05Ops : List Op :=
  let tk : Tk := { ok := true, kycIgnore := true, kycApproved := false, kycId := 0 }
  let pl : WagerPayload :=
    { market := 1, odds := 11, oddsVal := some ⟨101 * PREC⟩, mult := ⟨PREC⟩, allOdds := [(11, ⟨PREC⟩), (12, ⟨PREC⟩)] }
  [.marketAdd 9 tk 1 50 500 [11, 12] MS_ACTIVE] ++
  ([51, 100, 150, 200, 250, 300, 2, 1000].map fun (l : Int) => Op.deposit 7 tk 1 l 0) ++
  [.wager 8 tk 77 12 pl, .endBlock, .marketResolve tk 1 60 MS_DECLARED [11]]

def kf05Init : State :=
  { bal := [(7, 1000000), (8, 1000000), (9, 0)], time := 100,
    params := { betMin := 2, betFee := 1, houseMin := 2, houseFee := ⟨0⟩, houseMaxW := 2, obThreshold := 0 } }

theorem c05_counterexample_halt :
    ((run kf05Init kf05Ops).bets.map (fun b => b.fulfs.map (fun f => (f.bet, f.profit))))
        = [[(1, 51), (1, 100), (1, 150), (1, 200), (1, 250), (1, 300), (-3, 2), (8, 47)]] ∧
    (step (run kf05Init kf05Ops) .endBlock).2 = .halt := by
  decide +kernel

end Sge.Core
