/-
  C03 / C04 (block level)  The balance change of ONE account over a WHOLE end-block, aggregated over all its roles.

  The per-item theorems `c03_settlement_payout` (C03Sums.lean) and `c04_payout` (C04Sums.lean) state what ONE
  `Settle` / `settleParticipation` call moves, at the internal step of the end-block that pays. Here the calls of one
  end-block are folded over the block's pages of bets and participations: for EVERY reachable state `s` (any history of
  all 12 operations from an empty chain), the end-block `s' = (step s .endBlock).1` that does not halt, and EVERY
  account `a` (user account or custody account, in any combination of roles),

      bal s' a − bal s a  =  Σ_{bets settled by this block}            share of `a` in the settlement of the bet
                           + Σ_{participations paid by this block}     share of `a` in the payment of the participation

  where "settled by this block" = stored unsettled in `s` and settled in `s'` (likewise "paid by this block"), and the
  share of `a` is: as bettor the winnings / refund, as market creator the bet fee resp. the participation fee routed to
  the creator, as depositor liquidity ± realised profit and the fee when it is routed back, as pool / bet-fee collector
  / house-fee collector minus what these accounts pay out.

    c04_block_balance           the equation, with the amounts read off the records of `s'` by the very functions the
                                model's `Settle` / `settleParticipation` use (`c4b_betMove`, `c4b_partMove`)
    c04_block_balance_closed    the same with the closed formulas of `c03_settlement_payout` / `c04_payout`: recorded
                                result WON ⇒ Σ (stake + promised profit) of the parts, REFUNDED ⇒ recorded stake, LOST ⇒ 0;
                                participation: liquidity + Σ stakes of LOST bets' parts naming it − Σ winnings of WON
                                bets' parts naming it on a declared result, else liquidity; fee to the depositor iff
                                not declared or the parts naming it carry no stake in total
    c04_block_bet_phase / c04_block_part_phase   the two phases separately (BatchMarketSettlements moves only bet shares,
                                BatchOrderBookSettlements only participation shares)
    c04_block_user_account      for a user account (no custody account) the change is the sum of what it is due in all its
                                roles — the statement the harness monitor `payout_amounts` evaluates on the real chain
    c04_block_no_role_unchanged an account that is no custody account and has no role in the block (not the bettor of a
                                bet settled by it, not the depositor of a participation paid by it, not the creator of
                                the market of either) keeps its balance over the end-block
    c04_block_which_records     "settled / paid by this block" spelled out on the records of the two states: the
                                hypotheses of `c03_settlement_payout` / `c04_payout`
    c04_block_halt_unchanged    a halting end-block moves nothing

  Backing parts may carry negative stakes (known finding KF-C03-negative-part); nothing here assumes `0 ≤ f.bet`.
  The fold is `c4b_endBlockO_bal` (SgeProofs/Lemmas/BlockPay.lean): two ledgers carried through the two loops.
-/
import SgeProofs.Lemmas.BlockPayClosed
namespace Sge.Core
open Sge Sge.Genesis

/-- C04.m  THE BALANCE CHANGE OF ONE ACCOUNT OVER A WHOLE END-BLOCK. For every reachable state `s` and the end-block
    from `s` that does not halt, leading to `s'`, and for every account `a`: the balance of `a` changes by exactly
    * the sum, over the bet records `x` of `s'` that are settled and whose record in `s` (same key) was not, of
      `c4b_betMove a m x` (`m` the bet's market): + the pool's payment if `a` is the bettor, + the fee if `a` receives
      it (bettor on a refund, market creator on a declared result), − the payment if `a` is the pool, − the fee if `a`
      is the bet-fee collector; plus
    * the sum, over the participation records `q` of the books of `s'` that are paid and whose record in `s` (same book,
      same index) was not, of `c4b_partMove a m q`: + liquidity ± realised profit if `a` is the depositor, + the fee if
      `a` receives it, − the payment if `a` is the pool, − the fee if `a` is the house-fee collector.
    Nothing else moves on any account in an end-block. -/
theorem c04_block_balance (p : Params) (bal : List (Nat × Int)) (h t : Nat) (ops : List Op)
    (h0 : getBal bal ACC_POOL = 0 ∧ getBal bal ACC_BETFEE = 0 ∧ getBal bal ACC_HOUSEFEE = 0)
    (hwf : ∀ o ∈ ops, o.userSigned') :
    let s := run (initState p bal h t) ops
    let s' := (step s .endBlock).1
    (step s .endBlock).2 ≠ .halt → ∀ a,
      getBal s'.bal a - getBal s.bal a =
        sumBy (c4b_betTerm a s.markets (c4b_openAt s.bets)) s'.bets
        + sumBy (c4b_bookTerm a s.markets (c4b_unpaidAt s.books)) s'.books := by
  intro s s' hnh a
  have hA : RetAll s := c04_invariants p bal h t ops h0 hwf
  have hI : BetIdx s := bp_init_betIdx p bal h t ops
  exact c4b_endBlockO_diff hA hI (c4b_step_endBlock hnh) a

/-- C04.n  The same with closed formulas. "Settled by this block" is `c4b_settledNow s` (settled in `s'`, stored
    unsettled in `s`), "paid by this block" `c4b_paidNow s`. For a bet settled by this block the pool pays the bettor
    `c4b_betPaid x` = Σ (stake + promised profit) of the backing parts if the recorded result is WON, the recorded stake
    if REFUNDED, nothing if LOST, and the bet-fee collector pays the fee to the bettor if REFUNDED, else to the creator
    of the market. For a participation paid by this block the pool pays the depositor `c4b_partPaid` = liquidity
    + Σ stakes of the parts naming it in the LOST bets of the market − Σ winnings of the parts naming it in the WON bets
    on a declared result, exactly the liquidity otherwise, and the house-fee collector pays the fee to the depositor iff
    the market is not declared or the parts naming the participation carry no stake in total, else to the creator. -/
theorem c04_block_balance_closed (p : Params) (bal : List (Nat × Int)) (h t : Nat) (ops : List Op)
    (h0 : getBal bal ACC_POOL = 0 ∧ getBal bal ACC_BETFEE = 0 ∧ getBal bal ACC_HOUSEFEE = 0)
    (hwf : ∀ o ∈ ops, o.userSigned') :
    let s := run (initState p bal h t) ops
    let s' := (step s .endBlock).1
    (step s .endBlock).2 ≠ .halt → ∀ a,
      getBal s'.bal a - getBal s.bal a =
        sumBy (fun x => match getMarket s x.market with
            | some m => c4b_betShare a m.creator x
            | none => 0) (s'.bets.filter (c4b_settledNow s))
        + sumBy (fun b => match getMarket s b.uid with
            | some m => sumBy (c4b_partShare a s'.bets b.uid m) (b.parts.filter (c4b_paidNow s b.uid))
            | none => 0) s'.books := by
  intro s s' hnh a
  have hA : RetAll s := c04_invariants p bal h t ops h0 hwf
  have hI : BetIdx s := bp_init_betIdx p bal h t ops
  exact c4b_endBlockO_diff_closed hA hI (c4b_step_endBlock hnh) a

/-- C04.o  The bet phase alone: BatchMarketSettlements (from `s` to `s1`) moves on every account exactly the shares
    of the bets it settles; no participation is paid in it. -/
theorem c04_block_bet_phase (p : Params) (bal : List (Nat × Int)) (h t : Nat) (ops : List Op) :
    let s := run (initState p bal h t) ops
    ∀ s1, betEndBlock (s.mqueue.length + 1) s s.params.betBatch = some s1 → ∀ a,
      getBal s1.bal a - getBal s.bal a = sumBy (c4b_betTerm a s.markets (c4b_openAt s.bets)) s1.bets := by
  intro s s1 h1 a
  have hI : BetIdx s := bp_init_betIdx p bal h t ops
  have := (c4b_betEndBlock _ _ _ _ (c4b_BetAcc.init a s hI) h1).bal
  omega

/-- C04.p  The participation phase alone: from any state `s1` satisfying the whole-history invariants,
    BatchOrderBookSettlements moves on every account exactly the shares of the participations it pays, and touches no
    bet record. -/
theorem c04_block_part_phase {s1 s' : State} (hA1 : RetAll s1) {fuel n i : Nat}
    (h2 : obEndBlock fuel s1 n i = some s') (a : Nat) :
    getBal s'.bal a - getBal s1.bal a = sumBy (c4b_bookTerm a s1.markets (c4b_unpaidAt s1.books)) s'.books ∧
    s'.bets = s1.bets := by
  have hP := c4b_obEndBlock _ _ _ _ _ (c4b_PartAcc.init a hA1.ob.sB hA1 (ProfOnly.refl s1) rfl) h2
  refine ⟨?_, (obEndBlock_same _ _ _ _ _ h2).1⟩
  have := hP.bal
  omega

/-- C04.t  A USER ACCOUNT ONLY RECEIVES — the statement of the harness monitor `payout_amounts`. For an account that is
    none of the three custody accounts, the balance change over the end-block is the sum of what it is due in all its
    roles: as bettor the winnings (WON) or the stake (REFUNDED) of every bet settled by this block, plus that bet's fee
    on a refund; as market creator the fee of every bet settled on a declared result and the fee of every participation
    paid by this block that carried stake on a declared result; as depositor liquidity ± realised profit (declared) or
    the liquidity of every participation paid by this block, plus its fee when the market is not declared or the
    participation carried no stake. -/
theorem c04_block_user_account (p : Params) (bal : List (Nat × Int)) (h t : Nat) (ops : List Op)
    (h0 : getBal bal ACC_POOL = 0 ∧ getBal bal ACC_BETFEE = 0 ∧ getBal bal ACC_HOUSEFEE = 0)
    (hwf : ∀ o ∈ ops, o.userSigned') :
    let s := run (initState p bal h t) ops
    let s' := (step s .endBlock).1
    (step s .endBlock).2 ≠ .halt → ∀ a, isModuleAcc a = false →
      getBal s'.bal a - getBal s.bal a =
        sumBy (fun x => match getMarket s x.market with
            | some m => c4b_betCredit a m.creator x
            | none => 0) (s'.bets.filter (c4b_settledNow s))
        + sumBy (fun b => match getMarket s b.uid with
            | some m => sumBy (c4b_partCredit a s'.bets b.uid m) (b.parts.filter (c4b_paidNow s b.uid))
            | none => 0) s'.books := by
  intro s s' hnh a hmod
  have hA : RetAll s := c04_invariants p bal h t ops h0 hwf
  have hI : BetIdx s := bp_init_betIdx p bal h t ops
  exact c4b_endBlockO_user hA hI (c4b_step_endBlock hnh) a hmod

/-- C04.q  NO ROLE, NO CHANGE. An account that is none of the three custody accounts, is not the bettor of a bet
    settled by this block nor the creator of such a bet's market, and is not the depositor of a participation paid by
    this block nor the creator of such a participation's market, has the same balance after the end-block. -/
theorem c04_block_no_role_unchanged (p : Params) (bal : List (Nat × Int)) (h t : Nat) (ops : List Op)
    (h0 : getBal bal ACC_POOL = 0 ∧ getBal bal ACC_BETFEE = 0 ∧ getBal bal ACC_HOUSEFEE = 0)
    (hwf : ∀ o ∈ ops, o.userSigned') :
    let s := run (initState p bal h t) ops
    let s' := (step s .endBlock).1
    (step s .endBlock).2 ≠ .halt → ∀ a, isModuleAcc a = false →
      (∀ x ∈ s'.bets, c4b_settledNow s x = true →
          a ≠ x.creator ∧ ∀ m, getMarket s x.market = some m → a ≠ m.creator) →
      (∀ b ∈ s'.books, ∀ q ∈ b.parts, c4b_paidNow s b.uid q = true →
          a ≠ q.addr ∧ ∀ m, getMarket s b.uid = some m → a ≠ m.creator) →
      getBal s'.bal a = getBal s.bal a := by
  intro s s' hnh a hmod hbets hparts
  have hA : RetAll s := c04_invariants p bal h t ops h0 hwf
  have hI : BetIdx s := bp_init_betIdx p bal h t ops
  exact c4b_endBlockO_no_role hA hI (c4b_step_endBlock hnh) a hmod hbets hparts

/-- C04.s  WHICH records the sums range over. In the end-block from a reachable state `s` that does not halt: a bet
    record `x` of the new state counts as "settled by this block" iff it is settled and the record with the same id in
    `s` is not — exactly the hypothesis of `c03_settlement_payout`; a participation record `q` of the book `u` counts
    as "paid by this block" iff it is paid and the record with the same index of the book `u` of `s` is not — exactly
    the hypothesis of `c04_payout`. -/
theorem c04_block_which_records (p : Params) (bal : List (Nat × Int)) (h t : Nat) (ops : List Op)
    (h0 : getBal bal ACC_POOL = 0 ∧ getBal bal ACC_BETFEE = 0 ∧ getBal bal ACC_HOUSEFEE = 0)
    (hwf : ∀ o ∈ ops, o.userSigned') :
    let s := run (initState p bal h t) ops
    let s' := (step s .endBlock).1
    (step s .endBlock).2 ≠ .halt →
      (∀ x ∈ s'.bets, c4b_settledNow s x = true ↔
          x.status = BS_SETTLED ∧ ∃ y ∈ s.bets, y.id = x.id ∧ y.status ≠ BS_SETTLED) ∧
      (∀ u q, c4b_paidNow s u q = true ↔
          q.isSettled = true ∧ ∃ b0 ∈ s.books, b0.uid = u ∧ ∃ pt ∈ b0.parts, pt.idx = q.idx ∧ pt.isSettled = false) := by
  intro s s' hnh
  have hA : RetAll s := c04_invariants p bal h t ops h0 hwf
  have hI : BetIdx s := bp_init_betIdx p bal h t ops
  exact ⟨fun x hx => c4b_settledNow_iff hI (c4b_step_endBlock hnh) x hx, fun u q => c4b_paidNow_iff hA u q⟩

/-- C04.r  A halting end-block moves nothing: the state, hence every balance, is unchanged. -/
theorem c04_block_halt_unchanged (s : State) (hh : (step s .endBlock).2 = .halt) : (step s .endBlock).1 = s := by
  simp only [step, endBlock] at hh ⊢
  cases h : endBlockO s with
  | none => rfl
  | some s' => rw [h] at hh; cases hh

-- ---------------------------------------------------------------------------------------------
-- non-vacuity: the history of C04Sums.lean (two participations on a declared market with a winning and a losing bet,
-- one participation on a cancelled market with a refunded bet); the end-block is operation 11 of `c04Ops`

/-- the hypotheses are satisfiable: a reachable state whose end-block does not halt, settles three bets and pays three
    participations; account 3 is the bettor of all three bets (wins 60 + 120 on bet 501, nothing on 502, stake 40 and
    fee 1 back on 503: +221), account 9 the creator of market 7 (two bet fees and the participation fees 10 + 30: +42),
    account 4 the depositor on the cancelled market (180 + fee 20), the pool pays 740 in total -/
example :
    (∀ o ∈ c04Ops.take 10, o.userSigned') ∧
    getBal c04Init.bal ACC_POOL = 0 ∧ getBal c04Init.bal ACC_BETFEE = 0 ∧ getBal c04Init.bal ACC_HOUSEFEE = 0 ∧
    (step (c04S 10) .endBlock).2 ≠ .halt ∧
    ((c04S 11).bets.filter (c4b_settledNow (c04S 10))).length = 3 ∧
    (sumBy (c4b_betTerm 3 (c04S 10).markets (c4b_openAt (c04S 10).bets)) (c04S 11).bets,
     sumBy (c4b_bookTerm 3 (c04S 10).markets (c4b_unpaidAt (c04S 10).books)) (c04S 11).books) = (221, 0) ∧
    (sumBy (c4b_betTerm 9 (c04S 10).markets (c4b_openAt (c04S 10).bets)) (c04S 11).bets,
     sumBy (c4b_bookTerm 9 (c04S 10).markets (c4b_unpaidAt (c04S 10).books)) (c04S 11).books) = (2, 40) ∧
    (sumBy (c4b_betTerm 4 (c04S 10).markets (c4b_openAt (c04S 10).bets)) (c04S 11).bets,
     sumBy (c4b_bookTerm 4 (c04S 10).markets (c4b_unpaidAt (c04S 10).books)) (c04S 11).books) = (0, 200) ∧
    (sumBy (c4b_betTerm ACC_POOL (c04S 10).markets (c4b_openAt (c04S 10).bets)) (c04S 11).bets,
     sumBy (c4b_bookTerm ACC_POOL (c04S 10).markets (c4b_unpaidAt (c04S 10).books)) (c04S 11).books) = (-220, -520) := by
  refine ⟨?_, by decide, by decide, by decide, by decide +kernel, by decide +kernel, by decide +kernel,
    by decide +kernel, by decide +kernel, by decide +kernel⟩
  intro o ho
  simp only [c04Ops, List.take, List.mem_cons, List.not_mem_nil, or_false] at ho
  rcases ho with rfl | rfl | rfl | rfl | rfl | rfl | rfl | rfl | rfl | rfl <;>
    first | trivial | (show isModuleAcc _ = false; decide)

/-- the closed-form right-hand side of `c04_block_balance_closed` on the same end-block, as (bet shares, participation
    shares) of an account: bettor 3, market creator 9, depositors 1 (90), 2 (250) and 4 (180 + fee 20), the pool, the
    two fee collectors; they are the balance differences between `c04S 10` and `c04S 11` (C04Sums.lean) -/
def c4b_exShares (a : Nat) : Int × Int :=
  (sumBy (fun x => match getMarket (c04S 10) x.market with
      | some m => c4b_betShare a m.creator x
      | none => 0) ((c04S 11).bets.filter (c4b_settledNow (c04S 10))),
   sumBy (fun b => match getMarket (c04S 10) b.uid with
      | some m => sumBy (c4b_partShare a (c04S 11).bets b.uid m) (b.parts.filter (c4b_paidNow (c04S 10) b.uid))
      | none => 0) (c04S 11).books)

example :
    ([3, 9, 1, 2, 4, ACC_POOL, ACC_BETFEE, ACC_HOUSEFEE, 77].map c4b_exShares ==
      [(221, 0), (2, 40), (0, 90), (0, 250), (0, 200), (-220, -520), (-3, 0), (0, -60), (0, 0)] &&
    [3, 9, 1, 2, 4, ACC_POOL, ACC_BETFEE, ACC_HOUSEFEE, 77].map
        (fun a => getBal (c04S 11).bal a - getBal (c04S 10).bal a) ==
      [221, 42, 90, 250, 200, -740, -3, -60, 0]) = true := by
  decide +kernel

end Sge.Core
