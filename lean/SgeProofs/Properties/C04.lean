/-
  C04  House participations are paid exactly once, with correct amount and fee routing.
  Model: `Sge.Core` (orderbook_settle.go `settleParticipation`, bet_settle.go `BettorWins` / `BettorLoses`).
-/
import SgeProofs.Lemmas.CoreFrame
import SgeProofs.Lemmas.Wager
import SgeProofs.Properties.C07
namespace Sge.Core
open Sge

/-- C04.a  Paying a participation: it must not be settled yet and the market must be resolved; on a declared
    result the pool pays `liquidity + realised profit` to the depositor, on cancel / abort exactly the
    liquidity; the participation fee goes back to the depositor iff the market was cancelled or aborted or
    the participation never received any stake, and otherwise to the market creator; afterwards the
    participation is marked settled (so a second payment fails: `chk (!p.isSettled)`). -/
theorem c04_settle_participation {s : State} {b : Book} {p : Part} {m : Market} {r : State × Book}
    (h : settlePart s b p m = some r) :
    p.isSettled = false ∧ isResolvedStatus m.status = true ∧
    ∃ s1, bankSend s ACC_POOL p.addr (if m.status == MS_DECLARED then p.liq + p.actualProfit else p.liq) = some s1 ∧
      bankSend s1 ACC_HOUSEFEE
        (if (m.status != MS_DECLARED) || decide (p.totalBet = 0) then p.addr else m.creator) p.fee = some r.1 ∧
      ∃ p', r.2 = b.setPart p' ∧ p'.isSettled = true ∧ p'.idx = p.idx ∧ p'.liq = p.liq ∧ p'.actualProfit = p.actualProfit ∧
        p'.reimbursedFee = (if (m.status != MS_DECLARED) || decide (p.totalBet = 0) then p.fee else p.reimbursedFee) := by
  unfold settlePart at h
  simp only [bind, Option.bind_eq_some_iff] at h
  obtain ⟨_, h1, _, h2, s1, hs1, h⟩ := h
  have h1 := chk_some h1; have h2 := chk_some h2
  have hres : isResolvedStatus m.status = true := by
    unfold isResolvedStatus
    simp only [Bool.or_eq_true] at h2 ⊢
    rcases h2 with (h2 | h2) | h2
    · exact Or.inr h2
    · exact Or.inl (Or.inl h2)
    · exact Or.inl (Or.inr h2)
  refine ⟨by simpa using h1, hres, s1, ?_, ?_⟩
  · unfold Part.payout at hs1; exact hs1
  · unfold Part.feeToDepositor at h
    by_cases hd : (m.status == MS_DECLARED) = true
    · simp only [hd, if_true] at h
      have hne : (m.status != MS_DECLARED) = false := by simp at hd; simp [hd]
      simp only [hne, Bool.false_or]
      split at h
      · rename_i ht
        simp only [bind, Option.bind_eq_some_iff, pure, Option.some.injEq] at h
        obtain ⟨s2, h2s, rfl⟩ := h
        simp only [ht, if_true]
        exact ⟨h2s, _, rfl, rfl, rfl, rfl, rfl, rfl⟩
      · rename_i ht
        simp only [bind, Option.bind_eq_some_iff, pure, Option.some.injEq] at h
        obtain ⟨s2, h2s, rfl⟩ := h
        simp only [ht, if_false]
        exact ⟨h2s, _, rfl, rfl, rfl, rfl, rfl, rfl⟩
    · have hd' : (m.status == MS_DECLARED) = false := by simpa using hd
      simp only [hd', Bool.false_eq_true, if_false, if_true] at h
      have hne : (m.status != MS_DECLARED) = true := by simp at hd'; simp [hd']
      simp only [hne, Bool.true_or, if_true]
      simp only [bind, Option.bind_eq_some_iff, pure, Option.some.injEq] at h
      obtain ⟨s2, h2s, rfl⟩ := h
      exact ⟨h2s, _, rfl, rfl, rfl, rfl, rfl, rfl⟩

/-- C04.b  A settled participation is never paid again: `settleOne` leaves state, book and counter unchanged. -/
theorem c04_settled_not_paid_again (s : State) (b : Book) (p : Part) (m : Market) (n : Nat) (hp : p.isSettled = true) :
    settleOne s b p m n = some (s, b, n) := by
  unfold settleOne; simp [hp]

/-- C04.c  Losing bets add their stake, part by part, to the realised profit of the participation that backed
    them, and nothing else of the participation changes. -/
theorem c04_bettor_loses_step (b : Book) (f : Fulf) (rest : List Fulf) (b' : Book) (h : bettorLoses b (f :: rest) = some b') :
    ∃ p, b.getPart f.idx = some p ∧ bettorLoses (b.setPart { p with actualProfit := p.actualProfit + f.bet }) rest = some b' := by
  unfold bettorLoses at h
  simp only [bind, Option.bind_eq_some_iff] at h
  obtain ⟨p, hp, h⟩ := h
  exact ⟨p, hp, h⟩

/-- C04.d  Winning bets subtract their promised profit, part by part, from the realised profit of the backing
    participation, while the pool pays stake + profit of that part to the bettor. -/
theorem c04_bettor_wins_step (bal : List (Nat × Int)) (bettor : Nat) (b : Book) (f : Fulf) (rest : List Fulf)
    (r : List (Nat × Int) × Book) (h : bettorWins bal bettor b (f :: rest) = some r) :
    ∃ p bal', b.getPart f.idx = some p ∧ transfer bal ACC_POOL bettor (f.profit + f.bet) = some bal' ∧
      bettorWins bal' bettor (b.setPart { p with actualProfit := p.actualProfit - f.profit }) rest = some r := by
  unfold bettorWins at h
  simp only [bind, Option.bind_eq_some_iff] at h
  obtain ⟨p, hp, bal', ht, h⟩ := h
  exact ⟨p, bal', hp, ht, h⟩

/-- C04.e  The fee of every bet settled on a declared result goes to the market creator (bet fee collector →
    creator, exactly the bet's fee). -/
theorem c04_bet_fee_to_creator {s s' : State} {bet : Bet} {m : Market} (h : settleDeclared s bet m = some s') :
    ∃ s1 : State, s1.markets = s.markets ∧ bankSend s1 ACC_BETFEE m.creator bet.fee = some { s1 with bal := s'.bal } := by
  unfold settleDeclared at h
  simp only [bind, Option.bind_eq_some_iff, pure, Option.some.injEq] at h
  obtain ⟨bk, _, r, hr, s2, h2, rfl⟩ := h
  refine ⟨setBook { s with bal := r.1 } r.2, rfl, ?_⟩
  obtain ⟨bal2, ht2, rfl⟩ := bankSend_shape h2
  unfold bankSend
  rw [ht2]; rfl

end Sge.Core
