/-
  C06: facts about the message handlers read off the source by the translator (`extract/handlers.go`,
  `extract/effects.go` → `Sge.Gen.Handlers`), re-checked on every run.

  For every method of every `msgServer` the translator lists the request type, whether it carries a `Ticket`,
  and every control-flow path as the ordered list of effect atoms (callees inlined):
      verify  VerifyTicket* of the OVM keeper returned nil   reject  it returned an error
      kyc     KycDataPayload.Validate
      write   store / params / keeper Set*,Remove*,Delete*      send   bank Send*/Mint*/Burn*
      authz   authz keeper SaveGrant/DeleteGrant/...    ext    other keeper of the SDK that may write
  `paths` are all paths, `commitPaths` those that may return a nil error (only their writes persist).

  Theorems: the ticket-bearing handlers are exactly the 17 the model knows (a new one is an unmodelled
  obligation), the others are exactly the 8 UpdateParams and 3 subaccount messages; on EVERY path of a
  ticket-bearing handler no write/send/authz/ext happens before the ticket is verified; no such handler can
  succeed without verifying, and none goes on after the verifier returned an error; the handlers whose payload carries KYC data validate it before moving funds.

  A failing theorem is accompanied by an `#eval` error naming the handler and its source position.
-/
import Sge.Gen.Handlers

namespace SgeProofs.C06Facts
open Sge.Gen.Handlers

private def report (what : String) (xs : List String) : IO Unit :=
  if xs.isEmpty then pure () else throw (IO.userError s!"{what}: {xs}")

private def name (h : Handler) : String := s!"{h.module}.{h.name}({h.msgType}) @ {h.pos}"

/-- atoms that change state (of this or another module) -/
def isEffect : Atom → Bool
  | .write | .send | .authz | .ext => true
  | .verify | .reject | .kyc => false

/-- no effect atom before the first `verify` (paths without any effect pass) -/
def verifiedFirst : List Atom → Bool
  | [] => true
  | .verify :: _ => true
  | a :: rest => !isEffect a && verifiedFirst rest

/-- no write/send/ext before the first `kyc`, and a `kyc` is present if there is such an atom
    (authz bookkeeping — consuming the grant — may come first, see `house.Deposit`) -/
def kycBeforeFunds : List Atom → Bool
  | [] => true
  | .kyc :: _ => true
  | .write :: _ | .send :: _ | .ext :: _ => false
  | _ :: rest => kycBeforeFunds rest

def key (h : Handler) : String × String × String × String := (h.module, h.name, h.msgType, h.ticketPath)

/-! ### which handlers exist -/

/-- The ticket-bearing handlers: exactly the 17 operations of the model, with the place of the ticket in the
    request. A new ticket-bearing handler (or a renamed/removed one) breaks this theorem. -/
theorem ticket_handlers :
    (handlers.filter (·.hasTicket)).map key =
      [ ("bet", "Wager", "MsgWager", "Props.Ticket"),
        ("house", "Deposit", "MsgDeposit", "Ticket"),
        ("house", "Withdraw", "MsgWithdraw", "Ticket"),
        ("market", "Add", "MsgAdd", "Ticket"),
        ("market", "Resolve", "MsgResolve", "Ticket"),
        ("market", "Update", "MsgUpdate", "Ticket"),
        ("ovm", "SubmitPubkeysChangeProposal", "MsgSubmitPubkeysChangeProposalRequest", "Ticket"),
        ("ovm", "VotePubkeysChange", "MsgVotePubkeysChangeRequest", "Ticket"),
        ("reward", "CreateCampaign", "MsgCreateCampaign", "Ticket"),
        ("reward", "CreatePromoter", "MsgCreatePromoter", "Ticket"),
        ("reward", "GrantReward", "MsgGrantReward", "Ticket"),
        ("reward", "SetPromoterConf", "MsgSetPromoterConf", "Ticket"),
        ("reward", "UpdateCampaign", "MsgUpdateCampaign", "Ticket"),
        ("reward", "WithdrawFunds", "MsgWithdrawFunds", "Ticket"),
        ("subaccount", "HouseDeposit", "MsgHouseDeposit", "Msg.Ticket"),
        ("subaccount", "HouseWithdraw", "MsgHouseWithdraw", "Msg.Ticket"),
        ("subaccount", "Wager", "MsgWager", "Ticket") ] := by decide

/-- The handlers without a ticket: the 8 governance `UpdateParams` and the three subaccount messages signed by
    the account owner / funder alone. A new handler without a ticket breaks this theorem. -/
theorem plain_handlers :
    (handlers.filter (fun h => !h.hasTicket)).map (fun h => (h.module, h.name, h.msgType)) =
      [ ("bet", "UpdateParams", "MsgUpdateParams"),
        ("house", "UpdateParams", "MsgUpdateParams"),
        ("market", "UpdateParams", "MsgUpdateParams"),
        ("mint", "UpdateParams", "MsgUpdateParams"),
        ("orderbook", "UpdateParams", "MsgUpdateParams"),
        ("ovm", "UpdateParams", "MsgUpdateParams"),
        ("reward", "UpdateParams", "MsgUpdateParams"),
        ("subaccount", "Create", "MsgCreate"),
        ("subaccount", "TopUp", "MsgTopUp"),
        ("subaccount", "UpdateParams", "MsgUpdateParams"),
        ("subaccount", "WithdrawUnlockedBalances", "MsgWithdrawUnlockedBalances") ] := by decide

/-! ### the path analysis is exhaustive and not vacuous -/

#eval report "handler whose path analysis is incomplete (truncated / recursion cut / call of a function value)"
  ((handlers.filter (fun h => h.truncated || h.recursive || !h.unresolved.isEmpty)).map
    (fun h => s!"{name h} {h.unresolved}"))

/-- No inlining limit was hit, no recursion was cut, no call of a function value was skipped: the listed paths
    are all the paths (under the walking rules of `extract/effects.go`). -/
theorem analysis_complete :
    handlers.all (fun h => !h.truncated && !h.recursive && h.unresolved.isEmpty) = true := by decide

/-- Every handler has a successful path that changes state: the effect atoms are really being recognised. -/
theorem every_handler_has_an_effect :
    handlers.all (fun h => h.commitPaths.any (fun p => p.any isEffect)) = true := by decide

/-! ### verification dominates every effect -/

#eval report "ticket-bearing handler with a write/send/authz/ext BEFORE the ticket is verified"
  ((handlers.filter (fun h => h.hasTicket && !h.paths.all verifiedFirst)).map name)

/-- On every control-flow path of every ticket-bearing handler (successful or not), the ticket is verified
    before the first store write, bank transfer, authz change or external keeper call. -/
theorem verify_before_first_effect :
    handlers.all (fun h => !h.hasTicket || h.paths.all verifiedFirst) = true := by decide

#eval report "ticket-bearing handler that can succeed without verifying its ticket"
  ((handlers.filter (fun h => h.hasTicket && !h.commitPaths.all (fun p => p.contains .verify))).map name)

/-- A ticket-bearing handler cannot return success on a path that did not verify the ticket. -/
theorem no_success_without_verify :
    handlers.all (fun h => !h.hasTicket || h.commitPaths.all (fun p => p.contains .verify)) = true := by decide

/-- nothing but the end of the path follows a rejection -/
def rejectIsFinal (p : List Atom) : Bool :=
  match p.dropWhile (· != .reject) with
  | [] | [.reject] => true
  | _ => false

#eval report "handler that goes on after the verifier rejected the ticket (verdict ignored)"
  ((handlers.filter (fun h => !h.paths.all rejectIsFinal || h.commitPaths.any (fun p => p.contains .reject))).map name)

/-- The verdict is respected: when the verifier returns an error the handler does nothing further (no second
    verification, no KYC, no effect) and does not return success. -/
theorem rejection_ends_the_handler :
    handlers.all (fun h => h.paths.all rejectIsFinal && h.commitPaths.all (fun p => !p.contains .reject)) = true := by
  decide

/-- Handlers without a ticket never call the verifier (nothing is half-verified). -/
theorem plain_handlers_do_not_verify :
    handlers.all (fun h => h.hasTicket || h.paths.all (fun p => !p.contains .verify && !p.contains .reject)) = true := by
  decide

/-! ### KYC -/

/-- The handlers that reach `KycDataPayload.Validate`: those whose ticket payload carries KYC data. -/
theorem kyc_handlers :
    (handlers.filter (fun h => h.paths.any (fun p => p.contains .kyc))).map (fun h => (h.module, h.name)) =
      [ ("bet", "Wager"), ("house", "Deposit"), ("house", "Withdraw"), ("reward", "GrantReward"),
        ("subaccount", "HouseDeposit"), ("subaccount", "HouseWithdraw"), ("subaccount", "Wager") ] := by decide

def usesKyc (h : Handler) : Bool := h.paths.any (fun p => p.contains .kyc)

#eval report "KYC handler that can succeed without the KYC check, or moves funds before it"
  ((handlers.filter (fun h => usesKyc h && !h.commitPaths.all (fun p => p.contains .kyc && kycBeforeFunds p))).map name)

/-- In those handlers every successful path performs the KYC check, and performs it before the first store
    write / bank transfer / external call. -/
theorem kyc_on_every_successful_path :
    handlers.all (fun h => !usesKyc h || h.commitPaths.all (fun p => p.contains .kyc && kycBeforeFunds p)) = true := by
  decide

/-- Observation kept as a theorem (so that a change is noticed): in `house.Deposit` and
    `subaccount.HouseDeposit` the authz grant may be consumed (`DeleteGrant`/`SaveGrant` in
    `utils.ValidateMsgAuthorization`) BEFORE the KYC check of the payload; everywhere else KYC precedes every
    effect. Harmless for the ledger (a failing KYC reverts the transaction), but it is an ordering the model has
    to reproduce. -/
theorem authz_before_kyc_only_in_deposit :
    (handlers.filter (fun h => usesKyc h && h.commitPaths.any (fun p =>
        (p.takeWhile (· != .kyc)).any isEffect))).map (fun h => (h.module, h.name)) =
      [("house", "Deposit"), ("subaccount", "HouseDeposit")] := by decide

end SgeProofs.C06Facts
