/-
  C05 (whole-history part)  "For every history of valid transactions, begin-block and end-block processing never
  aborts, and every resolved market is completely settled — all its bets settled, all its participations paid, its
  book marked settled and the work queues drained — within a number of blocks bounded by the pending bets and
  participations divided by the batch sizes."

  What is proved here, for the model of the code as it is, for ALL states reachable by ANY history (no bound on the
  number of markets, bets, participations or operations):

    * c05_one_block_progress      one successful end-block, exact arithmetic: the pending bets of the queued markets
                                  drop by min(betBatch, pending); the finished markets move, in order, to the
                                  order-book queue IN THE SAME BLOCK; the unpaid participations of the queued books
                                  drop by min(obBatch, unpaid); a queue whose work is below the batch size is drained.
    * c05_messages_add_no_work    between end-blocks no message adds work to a queued market (a resolved market takes
                                  no bet and no participation: C07 + the custody/settlement invariant); messages can
                                  only append a newly resolved market at the END of the market queue.
    * c05_settles_within          THE BOUND. Both queues are FIFO and the first feeds the second, so the markets at
                                  the front of the pipeline are not delayed by later resolutions. For the order-book
                                  queue and the first k markets of the market queue of a reachable state s, with
                                      W = pending bets of those k markets,
                                      P = unpaid participations of the queued books and of those k markets,
                                      N ≤ betBatch, M ≤ obBatch throughout,
                                  after  ⌊W/N⌋ + ⌊P/M⌋ + 1  successful end-blocks — interleaved with ANY other
                                  traffic, resolutions of other markets and parameter changes included — every one of
                                  them is completely settled (`FullySettled`). The "+ 1" is the only constant: the
                                  hand-over from the bet queue to the order-book queue costs NO extra block (the
                                  order-book end-blocker runs after the bet end-blocker in the same block and sees the
                                  books just resolved), finishing a market does NOT consume the rest of the budget, and
                                  ⌊W/N⌋ + 1 (rather than ⌈W/N⌉) blocks are needed for the bet queue because a market
                                  without pending bets that sits behind a market whose last bets used the budget up
                                  exactly is only removed in the next block. ⌊W/N⌋ + ⌊P/M⌋ + 1 ≤ ⌈W/N⌉ + ⌈P/M⌉ + 1.
                                  The bound is attained (example at the end: N = M = 2, W = P = 3, 3 blocks).
    * c05_all_queued_settle_within, c05_settles_within_history   corollaries: everything queued; histories from the
                                  empty chain.
    * c05_ceil_bound_counterexample   the bound WITHOUT the "+ 1", ⌈W/N⌉ + ⌈P/M⌉ (at least 1), is FALSE of the code:
                                  two cancelled markets without bets, one participation, batch size 1 — the second
                                  market needs 2 end-blocks, not 1 (and 2 is what `settleBound` gives: attained).
    * c05_no_halt_partial         the full "never aborts" is FALSE of the code (`c05_counterexample_halt`); every theorem
                                  above is stated for end-blocks that do not halt (`noHalt`). What is proved: in a
                                  reachable state that is SOLVENT (no negative backing part, fee or promised profit; no
                                  participation over-exposed on the declared winner) the end-block does not halt — every
                                  look-up, status check, queue removal and bank transfer succeeds — and the state stays
                                  solvent through the block; well-formedness of the stores is an invariant.
    * c05_no_halt_history_partial, c05_settles_within_solvent   the whole-history forms for solvent histories.
-/
import SgeProofs.Lemmas.SettleBound
import SgeProofs.Lemmas.SettleNoHaltInv
import SgeProofs.Properties.C05
import SgeProofs.Properties.C08Index
namespace Sge.Core
open Sge Sge.Genesis

-- ---------------------------------------------------------------------------------------------
-- the measures, in words

/-- `pendingWork s` is the number of entries of the pending index whose market waits in the market queue (the queue
    has no duplicates in reachable states) -/
theorem pendingWork_eq_count {s : State} (hR : Reach s) :
    pendingWork s = (s.pending.filter (fun x => s.mqueue.contains x.1)).length := by
  unfold pendingWork
  have hnd := hR.q.nodupM
  generalize s.mqueue = q at hnd
  induction q with
  | nil =>
    have : s.pending.filter (fun x => ([] : List Nat).contains x.1) = [] := by
      rw [List.filter_eq_nil_iff]; intro x _; simp
    rw [this]; rfl
  | cons u q ih =>
    rw [List.nodup_cons] at hnd
    rw [wsum_cons, ih hnd.2, filter_contains_cons u q hnd.1]
    rfl

-- ---------------------------------------------------------------------------------------------
-- one block

/-- C05.f  One successful end-block in a reachable state, exactly. `D1` are the markets whose bet settlement finished
    in this block (a prefix of the market queue), `D2` the books whose pay-out finished (a prefix of the order-book
    queue extended by `D1`: books resolved in this block are served in this block).
    Bets: the pending bets of the queued markets drop by exactly min(betBatch, pending); if fewer than betBatch were
    pending the market queue is drained.
    Participations: with P1 = unpaid participations of the queued books plus those of the markets `D1` that just
    arrived, they drop by exactly min(obBatch, P1); if P1 < obBatch the order-book queue is drained.
    The markets of `D1` have no pending bet left; the markets of `D2` are completely settled. -/
theorem c05_one_block_progress {s s' : State} (hR : Reach s) (h : endBlockO s = some s') :
    ∃ D1 D2 : List Nat,
      s.mqueue = D1 ++ s'.mqueue ∧ s.obqueue ++ D1 = D2 ++ s'.obqueue ∧
      pendingWork s' = pendingWork s - min s.params.betBatch (pendingWork s) ∧
      (pendingWork s < s.params.betBatch → s'.mqueue = []) ∧
      partWork s' = partWork s + wsum (unpaidOf s) D1 - min s.params.obBatch (partWork s + wsum (unpaidOf s) D1) ∧
      (partWork s + wsum (unpaidOf s) D1 < s.params.obBatch → s'.obqueue = []) ∧
      (∀ u ∈ D1, pendCount s' u = 0) ∧ (∀ u ∈ D2, FullySettled s' u) := by
  obtain ⟨s1, D1, D2, hP⟩ := endBlockO_phases hR.idx hR.inv hR.q h
  have hR' : Reach s' := ⟨hP.idx2, hP.inv2, hP.q2⟩
  obtain ⟨t1, t2⟩ := hP.bet.total hR.q.nodupM
  obtain ⟨t3, t4⟩ := hP.ob.total hP.q1.nodupO
  have hpc : ∀ v, pendCount s' v = pendCount s1 v := by
    intro v; unfold pendCount; rw [hP.pend2]
  have hpw : pendingWork s' = wsum (pendCount s1) s1.mqueue := by
    unfold pendingWork
    rw [hP.mq2]
    exact wsum_congr (fun v _ => hpc v)
  have hp1 : wsum (unpaidOf s1) s1.obqueue = partWork s + wsum (unpaidOf s) D1 := by
    rw [hP.obq1, wsum_append]
    unfold partWork
    rw [wsum_congr (fun v _ => hP.books1.unpaid v), wsum_congr (fun v _ => hP.books1.unpaid v)]
  rw [hp1] at t3 t4
  refine ⟨D1, D2, ?_, ?_, ?_, ?_, t3, t4, ?_, ?_⟩
  · rw [hP.mq2]; exact hP.bet.split
  · rw [← hP.obq1]; exact hP.ob.split
  · rw [hpw]; exact t1
  · intro hlt; rw [hP.mq2]; exact t2 hlt
  · intro u hu
    rw [hpc]; exact hP.bet.doneZero u hu
  · intro u hu
    obtain ⟨_, c2, c3⟩ := hP.books2.settled u hu
    exact Done.fully hR' ⟨c2, c3⟩

-- ---------------------------------------------------------------------------------------------
-- between the end-blocks

/-- C05.g  No message adds settlement work to a market that is already queued: the order-book queue is untouched,
    the market queue can only grow at its END by a market that was open (a resolution), and for every market in either
    queue the number of pending bets and of unpaid participations stays what it was — a resolved market accepts
    neither bets nor participations. So `partWork` is unchanged and `pendingWork` can only grow by the pending bets of
    a newly resolved market. -/
theorem c05_messages_add_no_work (s : State) (op : Op) (hR : Reach s) (hne : op ≠ .endBlock) :
    (step s op).1.obqueue = s.obqueue ∧
    ((step s op).1.mqueue = s.mqueue ∨
      ∃ u m, (step s op).1.mqueue = s.mqueue ++ [u] ∧ getMarket s u = some m ∧ isOpenStatus m.status = true) ∧
    (∀ u, u ∈ s.mqueue ∨ u ∈ s.obqueue →
      pendCount (step s op).1 u = pendCount s u ∧ unpaidOf (step s op).1 u = unpaidOf s u) ∧
    partWork (step s op).1 = partWork s ∧
    wsum (pendCount (step s op).1) s.mqueue = pendingWork s := by
  have hF := step_msgFrame s op hR.inv.sortedParts hne
  have hres : ∀ u, u ∈ s.mqueue ∨ u ∈ s.obqueue → ∃ m, getMarket s u = some m ∧ m.resolved := by
    intro u hu
    rcases hu with hu | hu
    · exact hR.inv.queueResolved u hu
    · exact resolved_of_status hR.inv (hR.q.oResolved u hu) (by decide)
  have hboth : ∀ u, u ∈ s.mqueue ∨ u ∈ s.obqueue →
      pendCount (step s op).1 u = pendCount s u ∧ unpaidOf (step s op).1 u = unpaidOf s u := by
    intro u hu
    obtain ⟨m, hm, hr⟩ := hres u hu
    exact ⟨hF.pend u m hm hr, hF.unpaid u m hm hr⟩
  refine ⟨hF.obq, hF.mq, hboth, ?_, ?_⟩
  · unfold partWork
    rw [hF.obq]
    exact wsum_congr (fun v hv => (hboth v (Or.inr hv)).2)
  · unfold pendingWork
    exact wsum_congr (fun v hv => (hboth v (Or.inl hv)).1)

-- ---------------------------------------------------------------------------------------------
-- the bound

/-- C05.h  THE BOUND, for every reachable state and every continuation of the history.
    Let `s` be a reachable state (`Reach s`: the bet-index, custody/settlement and queue invariants, which hold after
    every history from the empty chain — `reach_init`, `run_reach`). Let `ops` be ANY operations signed by user
    accounts — wagers, deposits, withdrawals, market creations / updates / RESOLUTIONS of other markets, bank and
    authz traffic, parameter changes that keep the batch sizes at least `N` and `M`, new blocks, end-blocks — in
    which no end-block halts. If `ops` contains at least `settleBound N M s k` = ⌊W/N⌋ + ⌊P/M⌋ + 1 end-blocks, then in
    the state after `ops` every book that was in the order-book queue of `s` and every one of the first `k` markets
    of the market queue of `s` is completely settled: book SETTLED, every participation paid, every bet on it
    settled, no pending-index entry, in neither queue. -/
theorem c05_settles_within (s : State) (hR : Reach s) (k N M : Nat) (hN : 0 < N) (hM : 0 < M)
    (hNb : N ≤ s.params.betBatch) (hMb : M ≤ s.params.obBatch) (ops : List Op) (hwf : signedOk ops = true)
    (hnh : noHalt s ops = true) (hba : batchAtLeast N M ops = true) (hcnt : settleBound N M s k ≤ endBlocks ops) :
    ∀ u ∈ s.obqueue ++ s.mqueue.take k, FullySettled (run s ops) u := by
  intro u hu
  obtain ⟨A', B', OA', OB', hT, hb⟩ := Track.run hN hM ops s _ _ _ _ hR (track_init hR k) hwf hnh hba hNb hMb
  rw [← settleBound_eq] at hb
  have h0 : blocks N M (run s ops) A' OA' = 0 := by omega
  obtain ⟨eA, eO⟩ := blocks_zero h0
  subst eA; subst eO
  have hR' := run_reach s ops hR (signedOk_spec ops hwf)
  rcases hT.all u hu with h | h | h
  · cases h
  · cases h
  · exact Done.fully hR' h

/-- C05.i  Everything that is queued in a reachable state `s` — every market waiting for bet settlement and every book
    waiting for the pay-out of its participations — is completely settled after
        ⌊pendingWork s / N⌋ + ⌊(partWork s + participations of the queued markets) / M⌋ + 1
    successful end-blocks, whatever else happens in between (hypotheses as in `c05_settles_within`). -/
theorem c05_all_queued_settle_within (s : State) (hR : Reach s) (N M : Nat) (hN : 0 < N) (hM : 0 < M)
    (hNb : N ≤ s.params.betBatch) (hMb : M ≤ s.params.obBatch) (ops : List Op) (hwf : signedOk ops = true)
    (hnh : noHalt s ops = true) (hba : batchAtLeast N M ops = true) (hcnt : settleBoundAll N M s ≤ endBlocks ops) :
    ∀ u, u ∈ s.mqueue ∨ u ∈ s.obqueue → FullySettled (run s ops) u := by
  intro u hu
  have := c05_settles_within s hR s.mqueue.length N M hN hM hNb hMb ops hwf hnh hba
    (Nat.le_trans (settleBound_le_all N M s _) hcnt) u
  rw [List.take_length] at this
  exact this (by rcases hu with h | h <;> simp [h])

/-- C05.j  The bound over whole histories from the empty chain (custody accounts empty, any parameters, any balances):
    after ANY history `pre` of operations signed by user accounts, the state is reachable, so for every continuation
    `ops` (no end-block of it halting, batch sizes kept ≥ N, M) with at least ⌊W/N⌋ + ⌊P/M⌋ + 1 end-blocks, every
    market that was queued after `pre` (the order-book queue and the first `k` entries of the market queue) is
    completely settled after `pre ++ ops`. -/
theorem c05_settles_within_history (p : Params) (bal : List (Nat × Int)) (h t : Nat)
    (h0 : getBal bal ACC_POOL = 0 ∧ getBal bal ACC_BETFEE = 0 ∧ getBal bal ACC_HOUSEFEE = 0)
    (pre ops : List Op) (hpre : signedOk pre = true) (k N M : Nat) (hN : 0 < N) (hM : 0 < M) :
    let s0 : State := { bal := bal, params := p, height := h, time := t }
    let s := run s0 pre
    N ≤ s.params.betBatch → M ≤ s.params.obBatch → signedOk ops = true → noHalt s ops = true →
    batchAtLeast N M ops = true → settleBound N M s k ≤ endBlocks ops →
    ∀ u ∈ s.obqueue ++ s.mqueue.take k, FullySettled (run s0 (pre ++ ops)) u := by
  intro s0 s hNb hMb hwf hnh hba hcnt
  have hR : Reach s := run_reach s0 pre (reach_init p bal h t h0) (signedOk_spec pre hpre)
  rw [run_split]
  exact c05_settles_within s hR k N M hN hM hNb hMb ops hwf hnh hba hcnt

-- ---------------------------------------------------------------------------------------------
-- "never aborts": the provable part

/- The full statement "for every history of valid transactions end-block processing never aborts" is FALSE of the code
   as it is: `c05_counterexample_halt` (C05.lean) is a history of valid transactions after which the end-blocker halts
   — a backing part with a negative stake (KF-C03-negative-part) makes BettorWins pay a negative amount. What holds is
   the statement below: the ONLY way an end-block can halt is a pay-out that the bank refuses, and the bank refuses
   none in a solvent state. -/

/-- C05.k  (partial: solvent states)  In a reachable, well-formed state `s` (`Reach s`, `HInv s`: both hold after
    every history from the empty chain — `reach_init`/`run_reach`, `hinv_init`/`run_no_halt`) that is SOLVENT,
        (1) no unsettled bet has a negative fee, a negative backing part (stake) or a negative promised profit, and
        (2) no unpaid participation has a negative fee, and its liquidity plus realised profit covers the profit it
            still owes to the unsettled bets on the DECLARED WINNING outcome of its market (for a market that is not
            declared: liquidity plus realised profit is not negative),
    the end-block does not halt: every bet and participation look-up, every status check, both Go slice removals, the
    book status changes, and — by the custody equations of C01 (pool = liquidity ± realised profit of unpaid
    participations + stakes of unsettled bets; fee collectors = fees of unsettled bets / unpaid participations) —
    every bank transfer of refunds, winnings, fees and participation pay-outs succeeds. The state after the end-block
    is again reachable, well formed and solvent.
    EXCLUDED are exactly the states that are not `Solvent`: those reached through the inputs of known finding
    KF-C03-negative-part (a fulfilment with negative stake, clause 1 — `c05_counterexample_halt` is such a state, see
    the example below) and states with a participation over-exposed on the winner (clause 2, the subject of C02). -/
theorem c05_no_halt_partial {s : State} (hR : Reach s) (hH : HInv s) (hV : Solvent s) :
    endBlockO s ≠ none ∧ (step s .endBlock).2 = .ok ∧
    Reach (step s .endBlock).1 ∧ HInv (step s .endBlock).1 ∧ Solvent (step s .endBlock).1 := by
  obtain ⟨s', he, hS'⟩ := endBlockO_ok ⟨hR, hH, hV⟩
  have hstep : step s .endBlock = (s', .ok) := by
    show endBlock s = _
    unfold endBlock
    rw [he]
  rw [hstep]
  exact ⟨by rw [he]; exact (fun e => nomatch e), rfl, hS'.reach, hS'.wf, hS'.solv⟩

/-- C05.l  (partial: solvent histories)  From the empty chain, through ANY history of operations signed by user
    accounts in which the state is solvent whenever an end-block starts, no end-block halts (the core modules have no
    begin-block work: `newBlock` only sets height and time). Nothing else is assumed: reachability and well-formedness
    are invariants. -/
theorem c05_no_halt_history_partial (p : Params) (bal : List (Nat × Int)) (h t : Nat)
    (h0 : getBal bal ACC_POOL = 0 ∧ getBal bal ACC_BETFEE = 0 ∧ getBal bal ACC_HOUSEFEE = 0)
    (ops : List Op) (hwf : signedOk ops = true) :
    let s0 : State := { bal := bal, params := p, height := h, time := t }
    solventAtEnds s0 ops → noHalt s0 ops = true := by
  intro s0 hsol
  exact (run_no_halt ops s0 (reach_init p bal h t h0) (hinv_init p bal h t) hwf hsol).1

/-- C05.m  The two halves together, for solvent histories: from the empty chain, after any history `pre` and any
    continuation `ops` (all signed by user accounts, solvent whenever an end-block starts, batch sizes kept at least
    `N`, `M`) containing at least ⌊W/N⌋ + ⌊P/M⌋ + 1 end-blocks, no end-block has halted and every market that was
    queued after `pre` is completely settled. -/
theorem c05_settles_within_solvent (p : Params) (bal : List (Nat × Int)) (h t : Nat)
    (h0 : getBal bal ACC_POOL = 0 ∧ getBal bal ACC_BETFEE = 0 ∧ getBal bal ACC_HOUSEFEE = 0)
    (pre ops : List Op) (hpre : signedOk pre = true) (hops : signedOk ops = true) (k N M : Nat) (hN : 0 < N) (hM : 0 < M) :
    let s0 : State := { bal := bal, params := p, height := h, time := t }
    let s := run s0 pre
    solventAtEnds s0 pre → solventAtEnds s ops → N ≤ s.params.betBatch → M ≤ s.params.obBatch →
    batchAtLeast N M ops = true → settleBound N M s k ≤ endBlocks ops →
    noHalt s0 pre = true ∧ noHalt s ops = true ∧
    ∀ u ∈ s.obqueue ++ s.mqueue.take k, FullySettled (run s0 (pre ++ ops)) u := by
  intro s0 s hs1 hs2 hNb hMb hba hcnt
  obtain ⟨n1, hR, hH⟩ := run_no_halt pre s0 (reach_init p bal h t h0) (hinv_init p bal h t) hpre hs1
  obtain ⟨n2, _, _⟩ := run_no_halt ops s hR hH hops hs2
  refine ⟨n1, n2, ?_⟩
  rw [run_split]
  exact c05_settles_within s hR k N M hN hM hNb hMb ops hops n2 hba hcnt

-- ---------------------------------------------------------------------------------------------
-- non-vacuity

def c05bTk : Tk := { ok := true, kycIgnore := true, kycApproved := false, kycId := 0 }

def c05bPl1 : WagerPayload :=
  { market := 1, odds := 11, oddsVal := some ⟨2 * PREC⟩, mult := ⟨PREC⟩, allOdds := [(11, ⟨PREC⟩), (12, ⟨PREC⟩)] }
def c05bPl2 : WagerPayload :=
  { market := 2, odds := 22, oddsVal := some ⟨3 * PREC⟩, mult := ⟨PREC⟩, allOdds := [(21, ⟨PREC⟩), (22, ⟨PREC⟩), (23, ⟨PREC⟩)] }

/-- the empty chain with batch sizes `n` for both end-blockers -/
def c05bInit (n : Nat) : State := {
  bal := [(1, 5000), (6, 300), (7, 300)],
  params := { betBatch := n, obBatch := n, houseMin := 10, betMin := 2, betFee := 1, houseMaxW := 3 }, height := 1, time := 100 }

/-- two markets; market 1 gets three participations and three bets, market 2 one participation and one bet;
    market 1 is declared -/
def c05bPre : List Op :=
  [.marketAdd 0 c05bTk 1 50 5000 [11, 12] MS_ACTIVE, .marketAdd 0 c05bTk 2 50 5000 [21, 22, 23] MS_ACTIVE,
   .deposit 1 c05bTk 1 500 0, .deposit 1 c05bTk 1 300 0, .deposit 1 c05bTk 1 200 0, .deposit 1 c05bTk 2 400 0,
   .wager 6 c05bTk 901 100 c05bPl2, .wager 7 c05bTk 902 50 c05bPl1, .wager 6 c05bTk 903 40 c05bPl1, .wager 7 c05bTk 904 30 c05bPl1,
   .marketResolve c05bTk 1 150 MS_DECLARED [11]]

/-- the continuation: a wager and a deposit on the resolved market 1 (both rejected), market 2 is cancelled in
    block 2, three end-blocks -/
def c05bOps : List Op :=
  [.wager 6 c05bTk 950 40 c05bPl1, .endBlock, .newBlock 2 200, .marketResolve c05bTk 2 250 MS_CANCELED [],
   .deposit 1 c05bTk 1 100 0, .endBlock, .newBlock 3 300, .endBlock]

/-- Batch sizes 2: market 1 waits with W = 3 pending bets and P = 3 unpaid participations, so the bound is
    ⌊3/2⌋ + ⌊3/2⌋ + 1 = 3 end-blocks. All hypotheses of `c05_settles_within` hold for the continuation `c05bOps`
    (which resolves a second market on the way); after two end-blocks market 1 is NOT completely settled (book
    RESOLVED, one participation unpaid), after the third it is: THE BOUND IS ATTAINED. -/
example :
    let s := run (c05bInit 2) c05bPre
    signedOk c05bPre = true ∧ signedOk c05bOps = true ∧ noHalt s c05bOps = true ∧ batchAtLeast 2 2 c05bOps = true ∧
    s.mqueue = [1] ∧ s.obqueue = [] ∧ pendCount s 1 = 3 ∧ unpaidOf s 1 = 3 ∧ settleBound 2 2 s 1 = 3 ∧
    endBlocks c05bOps = 3 ∧ endBlocks (c05bOps.take 7) = 2 ∧
    (let s2 := run s (c05bOps.take 7)
     s2.mqueue = [] ∧ s2.obqueue = [1, 2] ∧ statusOf s2 1 = some OB_RESOLVED ∧ unpaidOf s2 1 = 1) ∧
    (let s3 := run s c05bOps
     s3.mqueue = [] ∧ s3.obqueue = [] ∧ s3.pending = [] ∧ statusOf s3 1 = some OB_SETTLED ∧ unpaidOf s3 1 = 0 ∧
     statusOf s3 2 = some OB_SETTLED ∧ unpaidOf s3 2 = 0 ∧ s3.bets.map (·.status) = [BS_SETTLED, BS_SETTLED, BS_SETTLED, BS_SETTLED]) := by
  decide +kernel

/-- the theorem applied to that history: market 1 is completely settled after `c05bOps` -/
example : FullySettled (run (run (c05bInit 2) c05bPre) c05bOps) 1 := by
  have hR : Reach (run (c05bInit 2) c05bPre) :=
    run_reach _ _ (reach_init _ _ _ _ (by decide)) (signedOk_spec _ (by decide))
  have h := c05_settles_within _ hR 1 2 2 (by decide) (by decide) (by decide +kernel) (by decide +kernel) c05bOps
    (by decide) (by decide +kernel) (by decide) (by decide +kernel)
  have e : (run (c05bInit 2) c05bPre).obqueue ++ (run (c05bInit 2) c05bPre).mqueue.take 1 = [1] := by decide +kernel
  rw [e] at h
  exact h 1 (List.mem_singleton.mpr rfl)

/-- Batch size 1, two markets queued (W = 3 + 1 pending bets, P = 3 + 1 participations): the bound for everything
    queued is 4 + 4 + 1 = 9 end-blocks, for the first market alone 3 + 3 + 1 = 7; the hypotheses hold for a run of
    nine end-blocks, and the queues are in fact drained by the sixth and not before (bets: blocks 1–4, participations
    of the first book: blocks 3–5, of the second: block 6 — the pay-out overlaps the bet settlement, and with batch
    size 1 every division is exact; neither is exploited by the bound). -/
example :
    let s := run (c05bInit 1) (c05bPre ++ [.marketResolve c05bTk 2 250 MS_CANCELED []])
    let ops := (List.range 9).flatMap (fun i => [Op.endBlock, Op.newBlock (i + 2) (200 + i)])
    signedOk ops = true ∧ noHalt s ops = true ∧ batchAtLeast 1 1 ops = true ∧
    s.mqueue = [1, 2] ∧ pendingWork s = 4 ∧ partWork s = 0 ∧ wsum (unpaidOf s) s.mqueue = 4 ∧
    settleBoundAll 1 1 s = 9 ∧ settleBound 1 1 s 1 = 7 ∧ endBlocks ops = 9 ∧
    (run s (ops.take 10)).obqueue ≠ [] ∧
    (let s' := run s (ops.take 12)
     s'.mqueue = [] ∧ s'.obqueue = [] ∧ s'.pending = [] ∧ statusOf s' 1 = some OB_SETTLED ∧ statusOf s' 2 = some OB_SETTLED) := by
  decide +kernel

/-- the example history is solvent whenever an end-block starts, so C05.m applies to it: no halt, and market 1 is
    completely settled after the three end-blocks -/
example :
    noHalt (c05bInit 2) c05bPre = true ∧ noHalt (run (c05bInit 2) c05bPre) c05bOps = true ∧
    FullySettled (run (c05bInit 2) (c05bPre ++ c05bOps)) 1 := by
  have h : noHalt (c05bInit 2) c05bPre = true ∧ noHalt (run (c05bInit 2) c05bPre) c05bOps = true ∧
      ∀ u ∈ (run (c05bInit 2) c05bPre).obqueue ++ (run (c05bInit 2) c05bPre).mqueue.take 1,
        FullySettled (run (c05bInit 2) (c05bPre ++ c05bOps)) u :=
    c05_settles_within_solvent (c05bInit 2).params (c05bInit 2).bal 1 100 (by decide) c05bPre c05bOps
      (by decide) (by decide) 1 2 2 (by decide) (by decide)
      (solventAtEndsB_spec _ _ (by decide +kernel)) (solventAtEndsB_spec _ _ (by decide +kernel))
      (by decide +kernel) (by decide +kernel) (by decide) (by decide +kernel)
  have e : (run (c05bInit 2) c05bPre).obqueue ++ (run (c05bInit 2) c05bPre).mqueue.take 1 = [1] := by decide +kernel
  obtain ⟨h1, h2, h3⟩ := h
  exact ⟨h1, h2, h3 1 (by rw [e]; exact List.mem_singleton.mpr rfl)⟩

/-- the state of the known finding `c05_counterexample_halt` is NOT solvent (the seventh backing part has stake −3):
    the hypothesis of `c05_no_halt_partial` excludes it, as it must -/
example : solventB (run kf05Init kf05Ops) = false := by decide +kernel

-- ---------------------------------------------------------------------------------------------
-- the "+ 1" is necessary

/-- two markets without bets; the first has one participation; both are cancelled -/
def c05cPre : List Op :=
  [.marketAdd 0 c05bTk 1 50 5000 [11, 12] MS_ACTIVE, .marketAdd 0 c05bTk 2 50 5000 [21, 22, 23] MS_ACTIVE,
   .deposit 1 c05bTk 1 500 0, .marketResolve c05bTk 1 150 MS_CANCELED [], .marketResolve c05bTk 2 150 MS_CANCELED []]

/-- FINDING (the clean bound is false of the code as it is).  The bound in the form ⌈W/N⌉ + ⌈P/M⌉ end-blocks (at least
    one) — W / P the pending bets / unpaid participations of everything queued, the form the `settles_within` monitor
    of the harness uses — does NOT hold: with batch sizes 1, two cancelled markets without bets and a single
    participation (W = 0, P = 1) that form gives 1 end-block, but after one successful end-block the book of the
    second market is still RESOLVED and waiting in the order-book queue: BatchOrderBookSettlements stops as soon as
    the budget is used up — by the participation of the first book — and does not look at the next book, although that
    book has nothing to pay. It is settled by the second end-block, which is exactly `settleBoundAll` =
    ⌊0/1⌋ + ⌊1/1⌋ + 1 = 2: the proved bound is attained. (The same happens in the bet queue: a market without pending
    bets behind a market whose last bets used the budget up exactly waits one more block.) -/
theorem c05_ceil_bound_counterexample :
    let s := run (c05bInit 1) c05cPre
    signedOk c05cPre = true ∧ s.params.betBatch = 1 ∧ s.params.obBatch = 1 ∧
    s.mqueue = [1, 2] ∧ s.obqueue = [] ∧ pendingWork s = 0 ∧ partWork s + wsum (unpaidOf s) s.mqueue = 1 ∧
    (step s .endBlock).2 = .ok ∧ (run s [.endBlock]).mqueue = [] ∧ (run s [.endBlock]).obqueue = [2] ∧
    statusOf (run s [.endBlock]) 2 = some OB_RESOLVED ∧
    settleBoundAll 1 1 s = 2 ∧ noHalt s [.endBlock, .endBlock] = true ∧
    (run s [.endBlock, .endBlock]).obqueue = [] ∧ statusOf (run s [.endBlock, .endBlock]) 2 = some OB_SETTLED := by
  decide +kernel

end Sge.Core
