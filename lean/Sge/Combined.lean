/-
  Combined slice: the core chain (x/market, x/house, x/bet, x/orderbook, bank, authz: `Sge.Core`) TOGETHER with
  x/subaccount. `Sge.Subaccount` models x/subaccount with the calls into x/bet and x/house as parameters; here the
  same handlers call the REAL core handlers (`wagerO`, `houseDepositO`, `houseWithdrawO`) on REAL markets, and
  the settling end-block calls back into x/subaccount through the order-book hooks.

  What the Go code does (x/subaccount/keeper/{msg_server_bet,msg_server_house,hooks,balance,subaccount}.go,
  x/orderbook/keeper/orderbook_settle.go, x/orderbook/types/hooks.go, app/keepers/keepers.go):

  * The only hooks that exist are the four of `OrderBookHooks`: AfterHouseWin / AfterHouseLoss / AfterHouseRefund /
    AfterHouseFeeRefund. There are NO bettor hooks: the bettor of a subaccount wager is the OWNER (main account),
    the bet is an ordinary bet of the owner and its settlement pays the owner; x/bet and x/house call no hook.
    The hooks are called only by `settleParticipation` of the order-book end-blocker, for EVERY participation (the
    subaccount module ignores addresses that have no account summary):
      declared result : pool → depositor (liquidity + actualProfit); then AfterHouseLoss(liq, |profit|) if
                        profit < 0 else AfterHouseWin(liq, profit);
      cancelled/aborted: pool → depositor liquidity; then AfterHouseRefund(liquidity);
      fee: when it goes back to the depositor (cancelled/aborted, or no stake ever received): house-fee collector →
           depositor fee; then AfterHouseFeeRefund(fee) which `MultiOrderBookHooks` dispatches to AfterHouseRefund(fee);
           otherwise the fee goes to the market creator and no hook is called (the fee stays `spent` for ever).
    AfterHouseWin:  Unspend(liq); SendCoins(subaccount → owner, profit).   AfterHouseLoss: Unspend(liq); AddLoss(|profit|).
    AfterHouseRefund: Unspend(amount).   A failing Unspend / SendCoins PANICS, i.e. halts the chain in the end-blocker.
  * MsgWager of x/subaccount (signer = owner): wager enabled; subaccount of the owner; outer ticket
    {msg, mainacc_deduct, subacc_deduct}; inner creator = signer; PrepareBetObject (duplicate UID, inner ticket,
    KYC of the owner); deductions ≥ 0 and main + sub = msg amount; owner balance ≥ main;
    withdrawLockedAndUnlocked: SendCoins(subaccount → owner, sub), Withdrawn += sub;
    betKeeper.Wager with bettor = OWNER (fee and matched stake are charged to the owner);
    what the owner has left above (balance before − main) is sent back, at most `sub`: SendCoins(owner → subaccount),
    Withdrawn −= that.
  * MsgHouseDeposit of x/subaccount (signer = owner): deposit enabled; subaccount; ticket check WITHOUT authz (a
    ticket naming another depositor is refused), KYC of the OWNER; Spend(amount);
    houseKeeper.Deposit(creator = owner, depositor = SUBACCOUNT address): the subaccount address pays liquidity and fee,
    the participation and the deposit record belong to the subaccount address.
  * MsgHouseWithdraw of x/subaccount: ticket check (KYC of the ticket's depositor if it names one, else of the owner; the
    named depositor is otherwise ignored); CalcAndWithdraw(depositor = SUBACCOUNT address, no authz): pool → subaccount
    address; Unspend(computed amount) (panic on failure).

  Modelling decisions.
  * The core handlers fuse ticket parsing and keeper call, and a depositor different from the signer needs an authz
    grant. The keeper-level calls `Deposit(owner, subaccount)` / `CalcAndWithdraw(…, subaccount, false)` are expressed
    with the real handlers by installing, inside the same atomic message, a grant subaccount → owner for exactly the
    amount the handler consumes (so it is used up and removed again), and by handing the handler a ticket whose KYC
    verdict is the one the Go code computes (for the owner). The result equals the Go code provided no grant
    subaccount-address → owner existed before, which holds on every real history: a subaccount address has no key
    and cannot sign MsgGrant. The correspondence suite compares the complete state incl. grants.
  * Hooks and payments interleave in Go (payment, hook, fee payment, hook, next participation …). The hooks never
    touch the three custody accounts and the only hook transfer (AfterHouseWin: subaccount → owner, profit ≥ 0)
    happens right after the subaccount received liquidity + profit ≥ profit, so no later payment can fail or succeed
    because of a hook, and a hook's success (Unspend within Spent) does not depend on payments: the end-block is
    modelled as core end-block, then the hook calls derived from the difference between the core state after the bet
    end-blocker (`obRef`, computed with the core's own `betEndBlock`; that blocker pays no participation) and the core
    state after the block: participations that became paid, books in the order of the unsettled-resolved queue the
    order-book blocker walks, participations by index; any failing hook = halt of the whole block (state unchanged),
    exactly as a panic in the Go blocker.
  * Addresses: subaccount id k lives at `subAddr k = SUB_BASE + k` above the three module accounts (the real
    address is a hash that never collides with a module account).
  This file models the code as it is at /repo (the three `fix:` commits b540483, a24abac, 2ff3c82 included).
-/
import Sge.Core.Run
import Sge.Subaccount
namespace Sge.Combined
open Sge Sge.Core
open Sge.Subaccount (Summary Lock setLocks hasLock unlockedSum validLocks sumLocked)

abbrev SUB_BASE : Nat := 2000000
/-- `types.NewAddressFromSubaccount` -/
def subAddr (id : Nat) : Nat := SUB_BASE + id

-- ---------------------------------------------------------------------------------------------
-- association lists standing for the x/subaccount store prefixes (looked up by key only)

def aget {β : Type} (l : List (Nat × β)) (k : Nat) : Option β :=
  match l with
  | [] => none
  | (k', v) :: rest => if k' = k then some v else aget rest k

def aset {β : Type} (l : List (Nat × β)) (k : Nat) (v : β) : List (Nat × β) :=
  match l with
  | [] => [(k, v)]
  | (k', v') :: rest => if k' = k then (k, v) :: rest else (k', v') :: aset rest k v

/-- stores 0x03 (locked balances) and 0x04 (account summary) of one subaccount address; `released` is a ghost
    counter (total paid out by WithdrawUnlockedBalances) that never influences `step` -/
structure SubRec where
  sum : Summary := {}
  locks : List Lock := []
  released : Int := 0
deriving Repr, Inhabited

structure State where
  core : Core.State := {}
  nextId : Nat := 1                        -- store 0x00 (Peek: 1 when unset)
  wagerEnabled : Bool := true
  depositEnabled : Bool := true
  owners : List (Nat × Nat) := []          -- store 0x01: owner → subaccount address
  subOwner : List (Nat × Nat) := []        -- store 0x02: subaccount address → owner
  subs : List (Nat × SubRec) := []         -- stores 0x03 + 0x04 by subaccount address
deriving Inhabited

def State.bal (s : State) (a : Nat) : Int := getBal s.core.bal a
def State.setSub (s : State) (a : Nat) (r : SubRec) : State := { s with subs := aset s.subs a r }

/-- message atomicity over the combined state -/
def commit (s : State) (r : Option State) : State × Res :=
  match r with
  | some s' => (s', .ok)
  | none => (s, .err)

/-- bank transfer on the core balances -/
def send (s : State) (src dst : Nat) (amt : Int) : Option State :=
  (bankSend s.core src dst amt).map fun c => { s with core := c }

-- ---------------------------------------------------------------------------------------------
-- keeper/subaccount.go, keeper/balance.go

/-- MsgCreate: ValidateBasic (called by the handler), CreateSubaccount -/
def createO (s : State) (creator owner : Nat) (ls : List Lock) : Option State := do
  chk (validLocks ls)
  let total ← sumLocked s.core.time ls
  chk (aget s.owners owner).isNone
  let a := subAddr s.nextId
  let s1 ← send s creator a total
  pure { s1 with nextId := s.nextId + 1, owners := aset s.owners owner a, subOwner := aset s.subOwner a owner,
                 subs := aset s.subs a { sum := { deposited := total }, locks := setLocks [] ls } }

/-- MsgTopUp: ValidateBasic (baseapp), TopUp -/
def topUpO (s : State) (creator owner : Nat) (ls : List Lock) : Option State := do
  chk (validLocks ls)
  let total ← sumLocked s.core.time ls
  let a ← aget s.owners owner
  let r ← aget s.subs a
  chk (!ls.any (fun l => hasLock r.locks l.1))
  let s1 ← send s creator a total
  pure (s1.setSub a { r with sum := { r.sum with deposited := r.sum.deposited + total }, locks := setLocks r.locks ls })

/-- MsgWithdrawUnlockedBalances (`withdrawUnlocked`, with `WithdrawableUnlockedBalance` as patched by b540483) -/
def withdrawUnlockedO (s : State) (owner : Nat) : Option State := do
  let a ← aget s.owners owner
  let r ← aget s.subs a
  let w := r.sum.withdrawableUnlocked true (unlockedSum s.core.time r.locks) (s.bal a)
  chk (w != 0)
  let sum' ← r.sum.withdraw w
  let s1 ← send s a owner w
  pure (s1.setSub a { r with sum := sum', released := r.released + w })

/-- `withdrawLockedAndUnlocked` -/
def withdrawLockedO (s : State) (a owner : Nat) (deduct : Int) : Option State := do
  let r ← aget s.subs a
  chk (decide (deduct ≤ min (r.sum.withdrawable (s.bal a)) deduct))
  let s1 ← send s a owner deduct
  let sum' ← r.sum.withdraw deduct
  pure (s1.setSub a { r with sum := sum' })

/-- `returnToSubaccount` -/
def returnToSubO (s : State) (a owner : Nat) (amt : Int) : Option State :=
  if amt ≤ 0 then some s else do
    let r ← aget s.subs a
    chk (decide (amt ≤ r.sum.withdrawn))
    let s1 ← send s owner a amt
    pure (s1.setSub a { r with sum := { r.sum with withdrawn := r.sum.withdrawn - amt } })

-- ---------------------------------------------------------------------------------------------
-- msg_server_bet.go

/-- the part of MsgWager after the deduction: the REAL bet-module wager with the owner as bettor -/
def subWagerBet (s : State) (owner : Nat) (tk : Tk) (uid : Nat) (amount : Int) (pl : WagerPayload) : Option State :=
  (wagerO s.core owner tk uid amount pl).map fun c => { s with core := c }

/-- MsgWager of x/subaccount. `outerOk`: the outer ticket verifies; `innerCreator`: creator of the wrapped bet message;
    `main` / `sub`: the two deductions of the outer ticket; the rest is the wrapped bet message and its ticket. -/
def subWagerO (s : State) (owner : Nat) (outerOk : Bool) (innerCreator : Nat) (main sub : Int)
    (tk : Tk) (uid : Nat) (amount : Int) (pl : WagerPayload) : Option State := do
  chk s.wagerEnabled
  let a ← aget s.owners owner
  chk outerOk
  chk (innerCreator == owner)
  chk (decide (0 ≤ main) && decide (0 ≤ sub))
  chk (decide (main + sub = amount))
  chk (decide (main ≤ s.bal owner))
  let s1 ← withdrawLockedO s a owner sub
  let s2 ← subWagerBet s1 owner tk uid amount pl
  let notTaken := s2.bal owner - (s.bal owner - main)
  returnToSubO s2 a owner (min notTaken sub)

-- ---------------------------------------------------------------------------------------------
-- msg_server_house.go

/-- a ticket that carries an already computed KYC verdict -/
def tkWith (tk : Tk) (kycVerdict : Bool) : Tk := { ok := tk.ok, kycIgnore := kycVerdict, kycApproved := false, kycId := 0 }

/-- authz MsgGrant as the core `step` performs it -/
def putGrant (c : Core.State) (granter grantee kind : Nat) (limit : Int) : Core.State :=
  (Core.step c (.grant granter grantee kind limit none)).1

/-- `houseKeeper.Deposit(creator = owner, depositor = subaccount address)` after the owner's ticket check -/
def subDepositCore (c : Core.State) (owner a : Nat) (tk : Tk) (market : Nat) (amount : Int) : Option Core.State :=
  (houseDepositO (putGrant c a owner 0 amount) owner (tkWith tk (tk.kycOk owner)) market amount a).map (·.1)

/-- MsgHouseDeposit of x/subaccount. `pd`: depositor named by the ticket (0 = none) -/
def subDepositO (s : State) (owner : Nat) (tk : Tk) (market : Nat) (amount : Int) (pd : Nat) : Option State := do
  chk s.depositEnabled
  let a ← aget s.owners owner
  let r ← aget s.subs a
  chk (pd == 0 || pd == owner)                      -- authz is not allowed here
  let sum' ← r.sum.spend amount
  let c ← subDepositCore s.core owner a tk market amount
  pure ({ s with core := c }.setSub a { r with sum := sum' })

/-- the amount `CalcWithdrawalAmount` computes for the participation of the subaccount address -/
def subWithdrawAmount (c : Core.State) (a market idx mode : Nat) (amount : Int) : Option Int := do
  let d ← lookup Deposit.key [a, market, idx] c.deposits
  let b ← getBook c market
  calcWithdrawal b idx a mode amount d.wtotal

/-- `CalcAndWithdraw(msg, depositor = subaccount address, isOnBehalf = false)` after the ticket check -/
def subWithdrawCore (c : Core.State) (owner a : Nat) (tk : Tk) (market idx mode : Nat) (amount w : Int) (kycWho : Nat) : Option Core.State :=
  houseWithdrawO (putGrant c a owner 1 w) owner (tkWith tk (tk.kycOk kycWho)) market idx mode amount a

/-- MsgHouseWithdraw of x/subaccount. `pd`: depositor named by the ticket (0 = none; only its KYC is looked at) -/
def subWithdrawO (s : State) (owner : Nat) (tk : Tk) (market idx mode : Nat) (amount : Int) (pd : Nat) : Option State := do
  let a ← aget s.owners owner
  let r ← aget s.subs a
  let w ← subWithdrawAmount s.core a market idx mode amount
  let c ← subWithdrawCore s.core owner a tk market idx mode amount w (if pd != 0 then pd else owner)
  let sum' ← r.sum.unspend w
  pure ({ s with core := c }.setSub a { r with sum := sum' })

-- ---------------------------------------------------------------------------------------------
-- hooks.go and the end-block

inductive HookCall where
  | win (house : Nat) (orig profit : Int)
  | loss (house : Nat) (orig lost : Int)
  | refund (house : Nat) (orig : Int)          -- AfterHouseRefund and (via the multi-hook) AfterHouseFeeRefund
deriving Repr, DecidableEq

def HookCall.house : HookCall → Nat
  | .win h _ _ => h
  | .loss h _ _ => h
  | .refund h _ => h

/-- the hook calls `settleParticipation` makes for participation `p` (as stored after the settlement) of market `m` -/
def partHooks (m : Market) (p : Part) : List HookCall :=
  (if m.status == MS_DECLARED then
     (if p.actualProfit < 0 then [HookCall.loss p.addr p.liq (-p.actualProfit)] else [HookCall.win p.addr p.liq p.actualProfit])
   else [HookCall.refund p.addr p.liq]) ++
  (if p.feeToDepositor m then [HookCall.refund p.addr p.fee] else [])

/-- participations of book `uid` that were paid between `pre` and `post` -/
def newlyPaid (pre post : Core.State) (uid : Nat) : List Part :=
  match getBook pre uid, getBook post uid with
  | some b0, some b1 => b1.parts.filter fun p => p.isSettled && b0.parts.any (fun q => q.idx == p.idx && !q.isSettled)
  | _, _ => []

def bookHooks (pre post : Core.State) (uid : Nat) : List HookCall :=
  match getMarket post uid with
  | some m => (newlyPaid pre post uid).flatMap (partHooks m)
  | none => []

/-- the core state between the two end-blockers (after x/bet's, before x/orderbook's): the reference for "paid in
    this block" (the bet end-blocker pays no participation) and the owner of the unsettled-resolved queue the
    order-book end-blocker walks -/
def obRef (c : Core.State) : Core.State :=
  match betEndBlock (c.mqueue.length + 1) c c.params.betBatch with
  | some c1 => c1
  | none => c

/-- the books in the order the order-book end-blocker visits them -/
def obWalk (c : Core.State) : List Nat := (obRef c).obqueue.eraseDups

def endBlockHooks (pre post : Core.State) : List HookCall := (obWalk pre).flatMap (bookHooks (obRef pre) post)

/-- one hook call; `none` = panic -/
def applyHook (s : State) : HookCall → Option State
  | .win h orig profit =>
    match aget s.subs h with
    | none => some s
    | some r => do
      let sum' ← r.sum.unspend orig
      let owner ← aget s.subOwner h
      let s1 ← send s h owner profit
      pure (s1.setSub h { r with sum := sum' })
  | .loss h orig lost =>
    match aget s.subs h with
    | none => some s
    | some r => do
      let sum1 ← r.sum.unspend orig
      let sum' ← sum1.addLoss lost
      pure (s.setSub h { r with sum := sum' })
  | .refund h orig =>
    match aget s.subs h with
    | none => some s
    | some r => do
      let sum' ← r.sum.unspend orig
      pure (s.setSub h { r with sum := sum' })

def applyHooks : State → List HookCall → Option State
  | s, [] => some s
  | s, h :: rest => do
    let s1 ← applyHook s h
    applyHooks s1 rest

/-- bet end-blocker, order-book end-blocker with its hooks -/
def endBlockO (s : State) : Option State := do
  let c ← Core.endBlockO s.core
  applyHooks { s with core := c } (endBlockHooks s.core c)

def endBlock (s : State) : State × Res :=
  match endBlockO s with
  | some s' => (s', .ok)
  | none => (s, .halt)

-- ---------------------------------------------------------------------------------------------

inductive Op where
  | core (op : Core.Op)                          -- every core op; `.core .endBlock` is the combined end-block
  | subParams (wager deposit : Bool)             -- MsgUpdateParams of x/subaccount
  | create (creator owner : Nat) (ls : List Lock)
  | topUp (creator owner : Nat) (ls : List Lock)
  | withdrawUnlocked (owner : Nat)
  | subWager (owner : Nat) (outerOk : Bool) (innerCreator : Nat) (main sub : Int) (tk : Tk) (uid : Nat) (amount : Int) (pl : WagerPayload)
  | subDeposit (owner : Nat) (tk : Tk) (market : Nat) (amount : Int) (pd : Nat)
  | subWithdraw (owner : Nat) (tk : Tk) (market idx mode : Nat) (amount : Int) (pd : Nat)

def coreStep (s : State) (op : Core.Op) : State × Res :=
  let r := Core.step s.core op
  ({ s with core := r.1 }, r.2)

def step (s : State) : Op → State × Res
  | .core .endBlock => endBlock s
  | .core op => coreStep s op
  | .subParams w d => ({ s with wagerEnabled := w, depositEnabled := d }, .ok)
  | .create c o ls => commit s (createO s c o ls)
  | .topUp c o ls => commit s (topUpO s c o ls)
  | .withdrawUnlocked o => commit s (withdrawUnlockedO s o)
  | .subWager o ok ic m sb tk u a pl => commit s (subWagerO s o ok ic m sb tk u a pl)
  | .subDeposit o tk m a pd => commit s (subDepositO s o tk m a pd)
  | .subWithdraw o tk m i md a pd => commit s (subWithdrawO s o tk m i md a pd)

def run (s : State) (ops : List Op) : State := ops.foldl (fun s op => (step s op).1) s

end Sge.Combined
