/-
  Model of x/subaccount (keeper/{subaccount,balance,hooks,msg_server_*}.go, types/accsummary.go) and of the way
  x/reward tops subaccounts up (x/reward/keeper/distribution.go, x/reward/types/reward.go getSubaccountAddr).

  Stores (all looked up by key only, never iterated by the module's logic, hence functions):
    0x00 id counter                -> `nextId`            (Peek: 1 when unset)
    0x01 owner  -> subaccount addr -> `ownerMap`
    0x02 subaccount addr -> owner  -> `subMap`
    0x03 (addr, unlockTS) -> amount-> `Sub.locks`          (replace-on-equal-key list; only ever summed)
    0x04 addr -> AccountSummary    -> `Sub.sum`
  x/bank is modelled by its contract on the accounts involved (`bank : Nat → Int`; a transfer fails on
  insufficient funds, `sdk.NewCoin` panics on a negative amount).

  MODELLING BOUNDARY.  x/bet, x/house, x/orderbook, x/ovm are *parameters*: the operations that call into
  them carry what these modules did (`WagerExt`, `HouseDepExt`, `HouseWdExt`, the arguments of `settle`).
  All custody module accounts (order-book liquidity pool, house / bet fee collectors) are lumped into the one
  account `extAcct`; the reward pool is `poolAcct`.  Accounts `< subBase` are key-holding or module accounts,
  the subaccount with id `k` lives at address `subBase + k` (`types.NewAddressFromSubaccount`).

  `State.fixed = false` is the code as it is; `fixed = true` is the code with repo_patches/sub_unlocked_withdraw.diff
  (WithdrawableUnlockedBalance subtracts what was already withdrawn from the unlocked total).
  `State.fixedNeg = true` is the code with repo_patches/sub_wager_nonneg_deduct.diff (the subaccount wager ticket
  payload rejects a negative main-account or subaccount deduction).
  `State.fixedRet = true` is the code with repo_patches/sub_wager_return_untaken.diff (after the bet module charged
  the owner, the part of the subaccount deduction that was not taken is sent back to the subaccount).

  Ghost fields (`Sub.released … Sub.staked`, `State.clean`) never influence `step`; they exist to state C11.
-/
namespace Sge.Subaccount

-- accounts (addresses) are natural-number identifiers

def subBase : Nat := 1000
/-- all custody module accounts of bet / house / orderbook, lumped -/
def extAcct : Nat := 100
/-- reward pool module account -/
def poolAcct : Nat := 101
def addrOf (id : Nat) : Nat := subBase + id

/-- function update (KV `Set`) -/
def upd {α : Type} (f : Nat → α) (k : Nat) (v : α) : Nat → α := fun a => if a = k then v else f a

/-! ## types/accsummary.go -/

structure Summary where
  deposited : Int := 0
  spent : Int := 0
  withdrawn : Int := 0
  lost : Int := 0
deriving DecidableEq, Repr, Inhabited

namespace Summary

def available (s : Summary) : Int := s.deposited - s.withdrawn - s.spent - s.lost

def spend (s : Summary) (amt : Int) : Option Summary :=
  if amt < 0 then none
  else if amt > s.available then none
  else some { s with spent := s.spent + amt }

def unspend (s : Summary) (amt : Int) : Option Summary :=
  if amt < 0 then none
  else if amt > s.spent then none
  else some { s with spent := s.spent - amt }

def addLoss (s : Summary) (amt : Int) : Option Summary :=
  if amt < 0 then none
  else some { s with lost := s.lost + amt }

def withdraw (s : Summary) (amt : Int) : Option Summary :=
  if amt < 0 then none
  else if amt > s.available then none
  else some { s with withdrawn := s.withdrawn + amt }

/-- `WithdrawableUnlockedBalance`. Unpatched: `min(min(available, unlocked), bank)`.
    Patched (`fixed`): the unlocked total is first reduced by what was already withdrawn. -/
def withdrawableUnlocked (fixed : Bool) (s : Summary) (unlocked bank : Int) : Int :=
  let u := if fixed then max 0 (unlocked - s.withdrawn) else unlocked
  min (min s.available u) bank

/-- `WithdrawableBalance` -/
def withdrawable (s : Summary) (bank : Int) : Int := min s.available bank

end Summary

/-! ## locked balances (store 0x03 of one subaccount) -/

abbrev Lock := Nat × Int   -- (unlockTS, amount)

/-- `store.Set(LockedBalanceKey(addr, ts), amount)` -/
def setLock (ls : List Lock) (l : Lock) : List Lock := l :: ls.filter (fun x => x.1 ≠ l.1)

/-- `SetLockedBalances`: the entries are written in order, a later one overwrites an earlier one with the same time -/
def setLocks (ls : List Lock) (new : List Lock) : List Lock := new.foldl setLock ls

def hasLock (ls : List Lock) (ts : Nat) : Bool := ls.any (fun x => x.1 = ts)

/-- `GetBalances(…, UNLOCKED)`: iterator over `[nil, blockTime)`, i.e. entries with `unlockTS < now` -/
def unlockedSum (now : Nat) (ls : List Lock) : Int := ((ls.filter (fun x => x.1 < now)).map (·.2)).sum

/-- `LockedBalance.Validate` of every entry (ValidateBasic of MsgCreate / MsgTopUp) -/
def validLocks (ls : List Lock) : Bool := ls.all (fun l => l.1 ≠ 0 && decide (0 ≤ l.2))

/-- `sumLockedBalance`: error if an unlock time is already in the past -/
def sumLocked (now : Nat) (ls : List Lock) : Option Int :=
  if ls.any (fun l => l.1 < now) then none else some (ls.map (·.2)).sum

/-! ## state -/

structure Sub where
  sum : Summary := {}
  locks : List Lock := []
  -- ghost counters
  /-- total paid out by WithdrawUnlockedBalances -/
  released : Int := 0
  /-- number of successful WithdrawUnlockedBalances -/
  nRel : Nat := 0
  /-- total moved to the owner by the subaccount wager (`withdrawLockedAndUnlocked`) -/
  wagered : Int := 0
  /-- total house profit forwarded to the owner (`AfterHouseWin`) -/
  profitOut : Int := 0
  /-- every bank transfer subaccount → owner performed by the module -/
  toOwner : Int := 0
  /-- what the bet module charged the owner in the subaccount wagers -/
  staked : Int := 0
deriving Repr, Inhabited

structure State where
  fixed : Bool := false
  fixedNeg : Bool := false
  fixedRet : Bool := false
  now : Nat := 0
  nextId : Nat := 1
  wagerEnabled : Bool := true
  depositEnabled : Bool := false
  ownerMap : Nat → Option Nat := fun _ => none
  subMap : Nat → Option Nat := fun _ => none
  subs : Nat → Option Sub := fun _ => none
  bank : Nat → Int := fun _ => 0
  /-- ghost: no tokens reached a (present or future) subaccount address outside the module's bookkeeping -/
  clean : Bool := true

inductive Err
  | invalid | expired | exists | nosub | lockexists | funds | nothing | amount
  | disabled | ticket | creator | ext | payload | mainbal | subbal
deriving DecidableEq, Repr

inductive Res
  | ok
  | err (e : Err)
  /-- a Go panic: inside a transaction it is recovered (state unchanged); inside an end-blocker the chain halts -/
  | panic
deriving DecidableEq, Repr

/-! ## bank -/

/-- `SendCoins`: `none` on a negative amount (callers that can reach it treat it as the `NewCoin` panic)
    or insufficient funds -/
def send (b : Nat → Int) (f t : Nat) (amt : Int) : Option (Nat → Int) :=
  if amt < 0 then none
  else if b f < amt then none
  else
    let b1 := upd b f (b f - amt)
    some (upd b1 t (b1 t + amt))

/-! ## keeper/subaccount.go, keeper/balance.go -/

/-- `CreateSubaccount` -/
def createKeeper (s : State) (creator owner : Nat) (ls : List Lock) : State × Res :=
  match sumLocked s.now ls with
  | none => (s, .err .expired)
  | some total =>
    match s.ownerMap owner with
    | some _ => (s, .err .exists)
    | none =>
      let a := addrOf s.nextId
      match send s.bank creator a total with
      | none => (s, .err .funds)
      | some bank' =>
        ({ s with nextId := s.nextId + 1, bank := bank',
                  ownerMap := upd s.ownerMap owner (some a), subMap := upd s.subMap a (some owner),
                  subs := upd s.subs a (some { sum := { deposited := total }, locks := setLocks [] ls }) }, .ok)

/-- `TopUp` -/
def topUpKeeper (s : State) (creator owner : Nat) (ls : List Lock) : State × Res :=
  match sumLocked s.now ls with
  | none => (s, .err .expired)
  | some total =>
    match s.ownerMap owner with
    | none => (s, .err .nosub)
    | some a =>
      match s.subs a with
      | none => (s, .panic)
      | some sub =>
        if ls.any (fun l => hasLock sub.locks l.1) then (s, .err .lockexists) else
        match send s.bank creator a total with
        | none => (s, .err .funds)
        | some bank' =>
          ({ s with bank := bank',
                    subs := upd s.subs a (some { sub with sum := { sub.sum with deposited := sub.sum.deposited + total },
                                                          locks := setLocks sub.locks ls }) }, .ok)

/-- `withdrawUnlocked` -/
def withdrawUnlockedAt (s : State) (a owner : Nat) : State × Res :=
  match s.subs a with
  | none => (s, .panic)
  | some sub =>
    let w := sub.sum.withdrawableUnlocked s.fixed (unlockedSum s.now sub.locks) (s.bank a)
    if w = 0 then (s, .err .nothing) else
    match sub.sum.withdraw w with
    | none => (s, .err .amount)
    | some sum' =>
      match send s.bank a owner w with
      | none => (s, .err .funds)
      | some bank' =>
        ({ s with bank := bank',
                  subs := upd s.subs a (some { sub with sum := sum', released := sub.released + w, nRel := sub.nRel + 1,
                                                        toOwner := sub.toOwner + w }) }, .ok)

/-- `withdrawLockedAndUnlocked` -/
def withdrawLockedAt (s : State) (a owner : Nat) (deduct : Int) : State × Res :=
  match s.subs a with
  | none => (s, .panic)
  | some sub =>
    let toSend := min (sub.sum.withdrawable (s.bank a)) deduct
    if deduct > toSend then (s, .err .subbal) else
    if deduct < 0 then (s, .panic) else
    match send s.bank a owner deduct with
    | none => (s, .err .funds)
    | some bank' =>
      match sub.sum.withdraw deduct with
      | none => (s, .err .amount)
      | some sum' =>
        ({ s with bank := bank',
                  subs := upd s.subs a (some { sub with sum := sum', wagered := sub.wagered + deduct,
                                                        toOwner := sub.toOwner + deduct }) }, .ok)

/-! ## messages -/

/-- MsgCreate (ValidateBasic is called by the handler itself) -/
def create (s : State) (creator owner : Nat) (ls : List Lock) : State × Res :=
  if !validLocks ls then (s, .err .invalid) else createKeeper s creator owner ls

/-- MsgTopUp (ValidateBasic by baseapp) -/
def topUp (s : State) (creator owner : Nat) (ls : List Lock) : State × Res :=
  if !validLocks ls then (s, .err .invalid) else topUpKeeper s creator owner ls

/-- MsgWithdrawUnlockedBalances -/
def withdrawUnlocked (s : State) (owner : Nat) : State × Res :=
  match s.ownerMap owner with
  | none => (s, .err .nosub)
  | some a => withdrawUnlockedAt s a owner

/-- what the ticket check and the bet module did in one subaccount wager -/
structure WagerExt where
  /-- 0: all external checks pass; 1: ticket verification failed; 2: inner creator ≠ message creator;
      3: `PrepareBetObject` failed; 5: `ValidateBasic` of the inner bet message failed -/
  pre : Nat
  /-- `bet.Amount` as returned by `PrepareBetObject` -/
  betAmount : Int
  /-- result of `betKeeper.Wager` -/
  wagerOk : Bool
  /-- tokens `betKeeper.Wager` moved from the owner into custody -/
  charged : Int
deriving Repr, Inhabited

/-- second half of MsgWager: `betKeeper.Wager` after the deduction; `s0` is the state before the message -/
def wagerBet (s0 s1 : State) (owner a : Nat) (x : WagerExt) : State × Res :=
  if !x.wagerOk then (s0, .err .ext) else
  match send s1.bank owner extAcct x.charged with
  | none => (s0, .err .ext)
  | some bank' =>
    match s1.subs a with
    | none => (s0, .panic)
    | some sub => ({ s1 with bank := bank', subs := upd s1.subs a (some { sub with staked := sub.staked + x.charged }) }, .ok)

/-- third part of MsgWager (only in the `fixedRet` variant): what the bet module did not take of the subaccount
    deduction goes back to the subaccount (`returnToSubaccount`). `s0` is the state before the message (its owner
    balance is the `mainAccBalance` read before the deduction), `s2` the state after the bet module charged. -/
def wagerReturn (s0 s2 : State) (owner a : Nat) (main sub : Int) : State × Res :=
  if !s2.fixedRet then (s2, .ok) else
  let amt := min (s2.bank owner - (s0.bank owner - main)) sub
  if amt ≤ 0 then (s2, .ok) else
  match s2.subs a with
  | none => (s0, .panic)
  | some sb =>
    if amt > sb.sum.withdrawn then (s0, .err .amount) else
    match send s2.bank owner a amt with
    | none => (s0, .err .funds)
    | some bank' =>
      ({ s2 with bank := bank',
                 subs := upd s2.subs a (some { sb with sum := { sb.sum with withdrawn := sb.sum.withdrawn - amt },
                                                        wagered := sb.wagered - amt, toOwner := sb.toOwner - amt }) }, .ok)

/-- MsgWager after all checks: deduct from the subaccount, let the bet module charge, (patched) return the rest -/
def wagerTail (s : State) (owner a : Nat) (main sub : Int) (x : WagerExt) : State × Res :=
  match withdrawLockedAt s a owner sub with
  | (s1, .ok) =>
    match wagerBet s s1 owner a x with
    | (s2, .ok) => wagerReturn s s2 owner a main sub
    | (_, r) => (s, r)
  | (_, r) => (s, r)

/-- MsgWager of x/subaccount -/
def wager (s : State) (owner : Nat) (main sub : Int) (x : WagerExt) : State × Res :=
  if !s.wagerEnabled then (s, .err .disabled) else
  match s.ownerMap owner with
  | none => (s, .err .nosub)
  | some a =>
    if x.pre = 1 then (s, .err .ticket) else
    if x.pre = 2 then (s, .err .creator) else
    if x.pre = 3 then (s, .err .ext) else
    if s.fixedNeg && (decide (main < 0) || decide (sub < 0)) then (s, .err .payload) else
    if main + sub ≠ x.betAmount then (s, .err .payload) else
    if x.pre = 5 then (s, .err .payload) else
    if s.bank owner < main then (s, .err .mainbal) else
    wagerTail s owner a main sub x

structure HouseDepExt where
  /-- `ParseDepositTicketAndValidate` -/
  tkOk : Bool
  /-- `houseKeeper.Deposit` -/
  depOk : Bool
  /-- tokens `houseKeeper.Deposit` moved from the subaccount address into custody -/
  taken : Int
deriving Repr, Inhabited

/-- MsgHouseDeposit of x/subaccount -/
def houseDeposit (s : State) (owner : Nat) (amount : Int) (x : HouseDepExt) : State × Res :=
  if !s.depositEnabled then (s, .err .disabled) else
  match s.ownerMap owner with
  | none => (s, .err .nosub)
  | some a =>
    match s.subs a with
    | none => (s, .panic)
    | some sub =>
      if !x.tkOk then (s, .err .ext) else
      match sub.sum.spend amount with
      | none => (s, .err .amount)
      | some sum' =>
        if !x.depOk then (s, .err .ext) else
        match send s.bank a extAcct x.taken with
        | none => (s, .err .ext)
        | some bank' => ({ s with bank := bank', subs := upd s.subs a (some { sub with sum := sum' }) }, .ok)

structure HouseWdExt where
  /-- `ParseWithdrawTicketAndValidate` -/
  tkOk : Bool
  /-- `houseKeeper.CalcAndWithdraw` -/
  wdOk : Bool
  /-- `msg.Amount` after `CalcAndWithdraw` overwrote it with the computed amount -/
  amount : Int
  /-- tokens `CalcAndWithdraw` moved from custody to the subaccount address -/
  paid : Int
deriving Repr, Inhabited

/-- MsgHouseWithdraw of x/subaccount -/
def houseWithdraw (s : State) (owner : Nat) (x : HouseWdExt) : State × Res :=
  match s.ownerMap owner with
  | none => (s, .err .nosub)
  | some a =>
    match s.subs a with
    | none => (s, .panic)
    | some sub =>
      if !x.tkOk then (s, .err .ext) else
      if !x.wdOk then (s, .err .ext) else
      match send s.bank extAcct a x.paid with
      | none => (s, .err .ext)
      | some bank' =>
        match sub.sum.unspend x.amount with
        | none => (s, .panic)
        | some sum' => ({ s with bank := bank', subs := upd s.subs a (some { sub with sum := sum' }) }, .ok)

/-! ## keeper/hooks.go -/

inductive HookKind
  | win | loss | refund | feeRefund
deriving DecidableEq, Repr

/-- `AfterHouseWin(house, originalAmount, profit)` -/
def hookWin (s : State) (house : Nat) (orig profit : Int) : State × Res :=
  match s.subs house with
  | none => (s, .ok)
  | some sub =>
    match sub.sum.unspend orig with
    | none => (s, .panic)
    | some sum' =>
      match s.subMap house with
      | none => (s, .panic)
      | some owner =>
        match send s.bank house owner profit with
        | none => (s, .panic)
        | some bank' =>
          ({ s with bank := bank',
                    subs := upd s.subs house (some { sub with sum := sum', profitOut := sub.profitOut + profit,
                                                              toOwner := sub.toOwner + profit }) }, .ok)

/-- `AfterHouseLoss(house, originalAmount, lostAmt)` -/
def hookLoss (s : State) (house : Nat) (orig lost : Int) : State × Res :=
  match s.subs house with
  | none => (s, .ok)
  | some sub =>
    match sub.sum.unspend orig with
    | none => (s, .panic)
    | some sum1 =>
      match sum1.addLoss lost with
      | none => (s, .panic)
      | some sum' => ({ s with subs := upd s.subs house (some { sub with sum := sum' }) }, .ok)

/-- `AfterHouseRefund(house, originalAmount)`; `AfterHouseFeeRefund(house, fee)` has the same body (and the
    order book's multi-hook dispatches the fee refund to `AfterHouseRefund` anyway) -/
def hookRefund (s : State) (house : Nat) (orig : Int) : State × Res :=
  match s.subs house with
  | none => (s, .ok)
  | some sub =>
    match sub.sum.unspend orig with
    | none => (s, .panic)
    | some sum' => ({ s with subs := upd s.subs house (some { sub with sum := sum' }) }, .ok)

def hook (s : State) (k : HookKind) (house : Nat) (x y : Int) : State × Res :=
  match k with
  | .win => hookWin s house x y
  | .loss => hookLoss s house x y
  | .refund => hookRefund s house x
  | .feeRefund => hookRefund s house x

/-- one settlement step of the order book as seen from here: custody pays `refund` to the depositor `house`,
    then the hook runs. A panic discards both (and would halt the chain inside the end-blocker). -/
def settle (s : State) (k : HookKind) (house : Nat) (refund x y : Int) : State × Res :=
  match send s.bank extAcct house refund with
  | none => (s, .err .ext)
  | some bank1 =>
    let s1 := { s with bank := bank1,
                       clean := s.clean && (decide (house < subBase) || (s.subs house).isSome) }
    match hook s1 k house x y with
    | (s2, .ok) => (s2, .ok)
    | (_, r) => (s, r)

/-! ## x/reward: grant with a subaccount part -/

/-- `getSubaccountAddr`: create an empty subaccount for the receiver when there is none, paid by `creator` -/
def grantCreate (s : State) (creator receiver : Nat) : State × Res :=
  match s.ownerMap receiver with
  | some _ => (s, .ok)
  | none => createKeeper s creator receiver []

/-- `getSubaccountAddr` followed by `DistributeRewards` (top-up from the reward pool, one lock at `now + period`,
    only when the subaccount part of the reward is positive) -/
def grant (s : State) (creator receiver : Nat) (amt : Int) (period : Nat) : State × Res :=
  match grantCreate s creator receiver with
  | (s1, .ok) =>
    if 0 < amt then
      match topUpKeeper s1 poolAcct receiver [(s.now + period, amt)] with
      | (s2, .ok) => (s2, .ok)
      | (_, r) => (s, r)
    else (s1, .ok)
  | (_, r) => (s, r)

/-! ## environment operations -/

/-- plain `MsgSend` (stands for every transfer of modules that are not modelled) -/
def bankSend (s : State) (f t : Nat) (v : Int) : State × Res :=
  match send s.bank f t v with
  | none => (s, .err .funds)
  | some bank' => ({ s with bank := bank', clean := s.clean && decide (t < subBase) }, .ok)

/-- tokens entering the modelled accounts from outside (genesis balances, faucet) -/
def fund (s : State) (a : Nat) (v : Int) : State × Res :=
  if v < 0 then (s, .err .invalid) else
  ({ s with bank := upd s.bank a (s.bank a + v), clean := s.clean && decide (a < subBase) }, .ok)

inductive Op
  | advance (dt : Nat)
  | params (wager deposit : Bool)
  | fund (a : Nat) (v : Int)
  | send (f t : Nat) (v : Int)
  | create (creator owner : Nat) (ls : List Lock)
  | topUp (creator owner : Nat) (ls : List Lock)
  | withdrawUnlocked (owner : Nat)
  | grant (creator receiver : Nat) (amt : Int) (period : Nat)
  | wager (owner : Nat) (main sub : Int) (x : WagerExt)
  | houseDeposit (owner : Nat) (amount : Int) (x : HouseDepExt)
  | houseWithdraw (owner : Nat) (x : HouseWdExt)
  | settle (k : HookKind) (house : Nat) (refund x y : Int)
deriving Repr

def step (s : State) : Op → State × Res
  | .advance dt => ({ s with now := s.now + dt }, .ok)
  | .params w d => ({ s with wagerEnabled := w, depositEnabled := d }, .ok)
  | .fund a v => fund s a v
  | .send f t v => bankSend s f t v
  | .create c o ls => create s c o ls
  | .topUp c o ls => topUp s c o ls
  | .withdrawUnlocked o => withdrawUnlocked s o
  | .grant c r amt p => grant s c r amt p
  | .wager o m sb x => wager s o m sb x
  | .houseDeposit o amt x => houseDeposit s o amt x
  | .houseWithdraw o x => houseWithdraw s o x
  | .settle k h r x y => settle s k h r x y

def run (s : State) (ops : List Op) : State := ops.foldl (fun s op => (step s op).1) s

/-- genesis of the slice: no subaccounts, arbitrary balances; the three flags select the patched code -/
def initCfg (fixed fixedNeg fixedRet : Bool) (bank : Nat → Int) : State :=
  { fixed := fixed, fixedNeg := fixedNeg, fixedRet := fixedRet, bank := bank }

/-- genesis with only the unlocked-withdrawal patch selectable (`fixed = false`: the code as it is) -/
def init (fixed : Bool) (bank : Nat → Int) : State := initCfg fixed false false bank

/-- genesis with the two patches of `fixed` / `fixedNeg` selectable -/
def init2 (fixed fixedNeg : Bool) (bank : Nat → Int) : State := initCfg fixed fixedNeg false bank

/-- genesis with all three patches -/
def initFixed (bank : Nat → Int) : State := initCfg true true true bank

end Sge.Subaccount
