/-
  Model of x/reward (sge-network/sge):
    keeper/msg_server_promoter.go   CreatePromoter, SetPromoterConf
    keeper/msg_server_campaign.go   CreateCampaign, UpdateCampaign, WithdrawFunds
    keeper/msg_server_reward.go     GrantReward   (+ distribution.go, campaign.go, reward.go)
    types/ticket.go                 payload validation
    types/reward_*.go               per reward type ValidateCampaign / Calculate
    types/pool.go                   Pool arithmetic
    types/campaign_authorizaton.go  Create/Update/Withdraw authorizations (Accept), used through
    utils/authorization.go          ValidateMsgAuthorization

  Modelled by contract (exercised by the correspondence suite, not verified):
    x/bank      one denom; `send` fails on insufficient funds, panics on a negative amount (sdk.NewCoin);
                MsgSend to a blocked module account (the reward pool) is rejected
    x/authz     grant records granter→grantee per message kind with limit and optional expiry;
                GetAuthorization hides a grant whose expiry is before the block time, SaveGrant refuses an
                expiry that is not after the block time, DeleteGrant
    x/subaccount  a subaccount per owner (address id `SUBBASE + owner`), its locked balances keyed by
                unlock time (TopUp refuses a second lock with the same unlock time), deposited amount
    x/bet       a bet record (uid, owner, amount, result, is-main-market); amounts are never negative
    x/ovm       a ticket is its decoded payload plus the flag "verifies and unmarshals" (`tv`)

  Identifiers (UIDs, addresses) are `Nat`. A nil `sdkmath.Int` / `LegacyDec` in a ticket payload is `none`;
  stored records hold 0 instead (protobuf round trip). A failing or panicking message leaves the state unchanged.

  `State.fixed = true` selects the behaviour of the repository with repo_patches/reward_*.diff applied:
    reward_negative_components.diff              CreateCampaignPayload.Validate rejects negative reward components
    reward_register_withdraw_authorization.diff  WithdrawCampaignAuthorization is registered as authz.Authorization
-/
import Sge.Dec
namespace Sge.Reward
open Sge

/-- address id of the reward-pool module account -/
abbrev POOL : Nat := 500
/-- the subaccount of owner `a` has address id `SUBBASE + a` -/
abbrev SUBBASE : Nat := 1000

inductive Err where
  | basic | panic | ticket | dup | notfound | notowner | validate | nopromoter
  | authzNotFound | authzRejected | authzSave
  | fundsLtReward | pct | rtype | vcampaign | fund
  | inactive | mismatch | nopool | avail | refund
  | ended | notstarted
  | calcTicket | calcKyc | calcSrc | calcNoRef | calcIsSub | calcBet
  | cap | catcap | pool | distribute
  | blocked | insufficient | env | codec
deriving DecidableEq, Repr, Inhabited

/-! ## records -/

structure Pool where
  total : Int
  spent : Int
  withdrawn : Int
deriving DecidableEq, Repr, Inhabited

/-- `Pool.AvailableAmount` -/
def Pool.avail (p : Pool) : Int := p.total - p.withdrawn - p.spent

/-- stored `RewardAmount` -/
structure Amt where
  main : Int
  sub : Int
  unlock : Nat
  mainPct : Dec
  subPct : Dec
deriving DecidableEq, Repr, Inhabited

/-- `RewardAmount` as decoded from a ticket: absent components are nil -/
structure AmtP where
  main : Option Int
  sub : Option Int
  unlock : Nat
  mainPct : Option Dec
  subPct : Option Dec
deriving DecidableEq, Repr, Inhabited

structure Campaign where
  uid : Nat
  creator : Nat
  promoter : Nat
  startTS : Nat
  endTS : Nat
  category : Nat
  rtype : Nat
  amtType : Nat
  amt : Amt
  pool : Pool
  active : Bool
  capCount : Nat
  /-- `Constraints` (nil pointer = none) holding `MaxBetAmount` -/
  maxBet : Option Int
deriving DecidableEq, Repr, Inhabited

structure Promoter where
  uid : Nat
  creator : Nat
  addresses : List Nat
  /-- `Conf.CategoryCap`: (category, cap per account) -/
  conf : List (Nat × Int)
deriving DecidableEq, Repr, Inhabited

structure Reward where
  uid : Nat
  creator : Nat
  receiver : Nat
  campaign : Nat
  amt : Amt
deriving DecidableEq, Repr, Inhabited

/-- entry of the reward-by-(promoter, receiver, category) index -/
structure CatIdx where
  promoter : Nat
  addr : Nat
  category : Nat
  uid : Nat
deriving DecidableEq, Repr, Inhabited

/-- per (campaign, account) grant counter -/
structure Stat where
  campaign : Nat
  addr : Nat
  n : Nat
deriving DecidableEq, Repr, Inhabited

/-- authz grant; kind 0 = MsgCreateCampaign, 1 = MsgUpdateCampaign, 2 = MsgWithdrawFunds -/
structure Grant where
  granter : Nat
  grantee : Nat
  kind : Nat
  limit : Int
  exp : Option Nat
deriving DecidableEq, Repr, Inhabited

structure Sub where
  owner : Nat
  deposited : Int
  locks : List (Nat × Int)
deriving DecidableEq, Repr, Inhabited

structure Bet where
  uid : Nat
  owner : Nat
  amount : Int
  result : Nat
  isMain : Bool
deriving DecidableEq, Repr, Inhabited

abbrev Bank := Nat → Int

structure State where
  fixed : Bool
  /-- repo_patches/reward_register_withdraw_authorization.diff applied (not a C12 defect; kept separate) -/
  codecFixed : Bool := false
  /-- `true`: CreatePromoter refuses an address that already belongs to a promoter (fix commit "reward: one promoter
      per address"); `false`: the tree as given, where the promoter-by-address record is silently overwritten -/
  promoterFixed : Bool := false
  time : Nat
  bank : Bank
  promoters : List Promoter
  byAddr : List (Nat × Nat)
  campaigns : List Campaign
  rewards : List Reward
  byCat : List CatIdx
  byCamp : List (Nat × Nat)
  stats : List Stat
  grants : List Grant
  subs : List Sub
  bets : List Bet

def init (fixed : Bool) (bal : Nat → Int) : State :=
  { fixed := fixed, time := 0, bank := fun a => if a = POOL then 0 else bal a,
    promoters := [], byAddr := [], campaigns := [], rewards := [], byCat := [], byCamp := [],
    stats := [], grants := [], subs := [], bets := [] }

/-! ## keyed lists (KV stores looked up by key) -/

/-- first record with the given key -/
def getBy {α : Type} (key : α → Nat) : List α → Nat → Option α
  | [], _ => none
  | x :: xs, k => if key x = k then some x else getBy key xs k

/-- replace the first record with the same key, or append -/
def setBy {α : Type} (key : α → Nat) : List α → α → List α
  | [], v => [v]
  | x :: xs, v => if key x = key v then v :: xs else x :: setBy key xs v

def getC (cs : List Campaign) (u : Nat) : Option Campaign := getBy (·.uid) cs u
def setC (cs : List Campaign) (c : Campaign) : List Campaign := setBy (·.uid) cs c
def getP (ps : List Promoter) (u : Nat) : Option Promoter := getBy (·.uid) ps u
def setP (ps : List Promoter) (p : Promoter) : List Promoter := setBy (·.uid) ps p
def getA (xs : List (Nat × Nat)) (a : Nat) : Option (Nat × Nat) := getBy (·.1) xs a
def setA (xs : List (Nat × Nat)) (v : Nat × Nat) : List (Nat × Nat) := setBy (·.1) xs v
def getR (rs : List Reward) (u : Nat) : Option Reward := getBy (·.uid) rs u
def getSub (ss : List Sub) (o : Nat) : Option Sub := getBy (·.owner) ss o
def setSub (ss : List Sub) (s : Sub) : List Sub := setBy (·.owner) ss s
def getBet (bs : List Bet) (u : Nat) : Option Bet := getBy (·.uid) bs u
def setBet (bs : List Bet) (b : Bet) : List Bet := setBy (·.uid) bs b

def getStat : List Stat → Nat → Nat → Nat
  | [], _, _ => 0
  | x :: xs, c, a => if x.campaign = c ∧ x.addr = a then x.n else getStat xs c a

def setStat : List Stat → Nat → Nat → Nat → List Stat
  | [], c, a, n => [⟨c, a, n⟩]
  | x :: xs, c, a, n => if x.campaign = c ∧ x.addr = a then ⟨c, a, n⟩ :: xs else x :: setStat xs c a n

def getGrant : List Grant → Nat → Nat → Nat → Option Grant
  | [], _, _, _ => none
  | g :: gs, gr, ge, k =>
    if g.granter = gr ∧ g.grantee = ge ∧ g.kind = k then some g else getGrant gs gr ge k

def delGrant : List Grant → Nat → Nat → Nat → List Grant
  | [], _, _, _ => []
  | g :: gs, gr, ge, k =>
    if g.granter = gr ∧ g.grantee = ge ∧ g.kind = k then gs else g :: delGrant gs gr ge k

def setGrant : List Grant → Grant → List Grant
  | [], v => [v]
  | g :: gs, v =>
    if g.granter = v.granter ∧ g.grantee = v.grantee ∧ g.kind = v.kind then v :: gs else g :: setGrant gs v

/-- number of rewards of campaign `c` received by `a` -/
def countR (rs : List Reward) (c a : Nat) : Nat :=
  (rs.filter (fun r => r.campaign = c ∧ r.receiver = a)).length

/-- `len(GetRewardsOfReceiverByPromoterAndCategory)` -/
def countCat (xs : List CatIdx) (p a cat : Nat) : Nat :=
  (xs.filter (fun x => x.promoter = p ∧ x.addr = a ∧ x.category = cat)).length

/-- Σ over campaigns of total − spent − withdrawn -/
def booked : List Campaign → Int
  | [] => 0
  | c :: cs => c.pool.avail + booked cs

/-! ## bank -/

def Bank.upd (b : Bank) (a : Nat) (v : Int) : Bank := fun x => if x = a then v else b x

/-- `SendCoins` of `amt` usge: `sdk.NewCoin` panics on a negative amount -/
def send (b : Bank) (frm to : Nat) (amt : Int) : Except Err Bank :=
  if amt < 0 then .error .panic
  else if b frm < amt then .error .insufficient
  else
    let b1 := b.upd frm (b frm - amt)
    .ok (b1.upd to (b1 to + amt))

/-! ## authz contract + the three reward authorizations -/

/-- `Authorization.ValidateBasic` of the three authorizations (minCampaignFunds = maxWithdrawGrant = 100) -/
def authValid (kind : Nat) (limit : Option Int) : Bool :=
  match limit with
  | none => false
  | some l =>
    if kind = 2 then decide (0 < l ∧ l ≤ 100)
    else decide (0 < l ∧ 100 ≤ l)

/-- what `Accept` subtracts from the limit: the update authorization only counts a positive top-up -/
def authUsed (kind : Nat) (a : Int) : Int := if kind = 1 then (if 0 < a then a else 0) else a

/-- `GetAuthorization` hides a grant whose expiry is before the block time -/
def grantExpired (time : Nat) (g : Grant) : Bool :=
  match g.exp with
  | some e => decide (e < time)
  | none => false

/-- `SaveGrant` refuses an expiry that is not after the block time -/
def grantUnsavable (time : Nat) (g : Grant) : Bool :=
  match g.exp with
  | some e => decide (e ≤ time)
  | none => false

/-- `utils.ValidateMsgAuthorization`: look the grant up, `Accept` the message, delete or save the grant.
    `amount` is `TotalFunds` / `TopupFunds` / `Amount` of the message (nil = none → panic in GT / Sub). -/
def authorize (time : Nat) (gs : List Grant) (granter grantee kind : Nat) (amount : Option Int) :
    Except Err (List Grant) :=
  match getGrant gs granter grantee kind with
  | none => .error .authzNotFound
  | some g =>
    if grantExpired time g then .error .authzNotFound
    else match amount with
      | none => .error .panic
      | some a =>
        if g.limit - authUsed kind a < 0 then .error .authzRejected
        else if g.limit - authUsed kind a = 0 then .ok (delGrant gs granter grantee kind)
        else if grantUnsavable time g then .error .authzSave
        else .ok (setGrant gs { g with limit := g.limit - authUsed kind a })

/-! ## subaccount contract -/

def isSubAddr (ss : List Sub) (a : Nat) : Bool :=
  decide (SUBBASE ≤ a) && (getSub ss (a - SUBBASE)).isSome

/-- `getSubaccountAddr`: create an empty subaccount for the receiver when there is none -/
def ensureSub (ss : List Sub) (owner : Nat) : List Sub :=
  match getSub ss owner with
  | some _ => ss
  | none => ss ++ [{ owner := owner, deposited := 0, locks := [] }]

def hasLock (s : Sub) (ts : Nat) : Bool := s.locks.any (fun l => l.1 == ts)

/-! ## promoters -/

structure PromoterMsg where
  creator : Nat
  tv : Bool
  uid : Nat
  uidOk : Bool
  conf : List (Nat × Int)
deriving Repr, Inhabited

structure ConfMsg where
  creator : Nat
  uid : Nat
  tv : Bool
  conf : List (Nat × Int)
deriving Repr, Inhabited

/-- `PromoterConf.Validate`: no duplicate category, every cap positive -/
def confValid : List (Nat × Int) → Bool
  | [] => true
  | (c, cap) :: rest => decide (0 < cap) && !(rest.any (fun x => x.1 == c)) && confValid rest

def createPromoter (s : State) (m : PromoterMsg) : Except Err State :=
  if m.creator = POOL then .error .env      -- a module account has no key and signs nothing
  else if !m.tv then .error .ticket
  else if (getP s.promoters m.uid).isSome then .error .dup
  else if !m.uidOk || !confValid m.conf then .error .validate
  else if s.promoterFixed && (getA s.byAddr m.creator).isSome then .error .dup
  else .ok { s with
    promoters := setP s.promoters { uid := m.uid, creator := m.creator, addresses := [m.creator], conf := m.conf },
    byAddr := setA s.byAddr (m.creator, m.uid) }

def setPromoterConf (s : State) (m : ConfMsg) : Except Err State :=
  match getP s.promoters m.uid with
  | none => .error .notfound
  | some p =>
    if !p.addresses.contains m.creator then .error .notowner
    else if !m.tv then .error .ticket
    else if !confValid m.conf then .error .validate
    else .ok { s with promoters := setP s.promoters { p with conf := m.conf } }

/-! ## campaigns -/

structure CreateMsg where
  creator : Nat
  uid : Nat
  funds : Option Int
  tv : Bool
  promoter : Nat
  startTS : Nat
  endTS : Nat
  category : Nat
  rtype : Nat
  amtType : Nat
  ra : Option AmtP
  active : Bool
  capCount : Nat
  /-- `constraints`: none = absent; some none = present with nil MaxBetAmount -/
  cons : Option (Option Int)
deriving Repr, Inhabited

def posI (x : Option Int) : Bool := match x with | some v => decide (0 < v) | none => false
def posD (x : Option Dec) : Bool := match x with | some v => decide (0 < v.raw) | none => false
def negI (x : Option Int) : Bool := match x with | some v => decide (v < 0) | none => false
def negD (x : Option Dec) : Bool := match x with | some v => decide (v.raw < 0) | none => false

/-- `validateRewardCategory` -/
def catOk (category rtype : Nat) : Bool :=
  if category = 1 then rtype = 1 || rtype = 2 || rtype = 3
  else if category = 6 then rtype = 8
  else if category = 3 then rtype = 5
  else if category = 5 then rtype = 7
  else if category = 2 then rtype = 4
  else false

/-- the amount-type switch of `CreateCampaignPayload.Validate` -/
def amtSwitch (amtType : Nat) (ra : AmtP) : Option Err :=
  if amtType = 1 then
    if posD ra.mainPct || posD ra.subPct then some .validate
    else if !posI ra.main && !posI ra.sub then some .validate
    else none
  else if amtType = 3 then
    if posI ra.main || posI ra.sub then some .validate
    else if !posD ra.mainPct && !posD ra.subPct then some .validate
    else none
  else some .validate

/-- some component of the reward amount is negative -/
def anyNeg (ra : AmtP) : Bool := negI ra.main || negI ra.sub || negD ra.mainPct || negD ra.subPct

/-- the amount-type switch and the unlock-period rule of `CreateCampaignPayload.Validate`;
    with `fixed` also the added rule "no negative component" -/
def validateAmounts (fixed : Bool) (amtType : Nat) (ra : AmtP) : Option Err :=
  match amtSwitch amtType ra with
  | some e => some e
  | none =>
    if fixed && anyNeg ra then some .validate
    else if (posI ra.sub || posD ra.subPct) && ra.unlock = 0 then some .validate
    else none

/-- `CreateCampaignPayload.Validate` -/
def validateCreate (fixed : Bool) (time : Nat) (m : CreateMsg) : Option Err :=
  if m.endTS ≤ m.startTS then some .validate
  else if m.endTS ≤ time then some .validate
  else if !catOk m.category m.rtype then some .validate
  else if m.amtType ≠ 1 ∧ m.amtType ≠ 3 then some .validate
  else match m.ra with
    | none => some .panic
    | some ra => validateAmounts fixed m.amtType ra

/-- `IRewardFactory.ValidateCampaign` of the factory selected by the reward type (on the not yet stored
    campaign: nil components panic when they are compared) -/
def validateCampaign (category rtype amtType : Nat) (ra : AmtP) (cons : Option (Option Int)) : Option Err :=
  if rtype = 1 ∨ rtype = 2 ∨ rtype = 3 ∨ rtype = 4 then
    if (rtype = 4 ∧ category ≠ 2) ∨ (rtype ≠ 4 ∧ category ≠ 1) then some .vcampaign
    else match ra.sub with
      | none => some .panic
      | some sub =>
        if sub ≤ 0 then some .vcampaign
        else if amtType ≠ 1 then some .vcampaign
        else none
  else if rtype = 5 then
    if category ≠ 3 then some .vcampaign
    else match ra.sub with
      | none => some .panic
      | some sub =>
        if 0 < sub then some .vcampaign
        else match ra.main with
          | none => some .panic
          | some main =>
            if main ≤ 0 then some .vcampaign
            else if amtType ≠ 1 then some .vcampaign
            else none
  else if rtype = 8 then
    if category ≠ 6 then some .vcampaign
    else match ra.mainPct with
      | none => some .panic
      | some mp =>
        let rest : Option Err :=
          if amtType ≠ 3 then some .vcampaign
          else match cons with
            | some (some _) => none
            | _ => some .vcampaign
        if mp.raw = 0 then
          match ra.subPct with
          | none => some .panic
          | some sp => if sp.raw = 0 then some .vcampaign else rest
        else rest
  else some .rtype

def storeAmt (ra : AmtP) : Amt :=
  { main := ra.main.getD 0, sub := ra.sub.getD 0, unlock := ra.unlock,
    mainPct := ra.mainPct.getD Dec.zero, subPct := ra.subPct.getD Dec.zero }

def storeCons (c : Option (Option Int)) : Option Int :=
  match c with
  | none => none
  | some x => some (x.getD 0)

/-- the checks of `CreateCampaign` between the authorization and the funding -/
def createChecks (fixed : Bool) (time : Nat) (m : CreateMsg) (funds : Int) : Option Err :=
  match validateCreate fixed time m with
  | some e => some e
  | none =>
    match m.ra with
    | none => some .panic
    | some ra =>
      if funds < ra.main.getD 0 + ra.sub.getD 0 then some .fundsLtReward
      else if PREC ≤ (ra.mainPct.getD Dec.zero).raw + (ra.subPct.getD Dec.zero).raw then some .pct
      else validateCampaign m.category m.rtype m.amtType ra m.cons

def createCampaign (s : State) (m : CreateMsg) : Except Err State :=
  match m.funds with
  | none => .error .basic
  | some funds =>
    if funds ≤ 0 then .error .basic
    else if (getC s.campaigns m.uid).isSome then .error .dup
    else if !m.tv then .error .ticket
    else if (getA s.byAddr m.promoter).isNone then .error .nopromoter
    else
      match (if m.creator ≠ m.promoter then authorize s.time s.grants m.promoter m.creator 0 (some funds)
             else .ok s.grants) with
      | .error e => .error e
      | .ok gs =>
        match createChecks s.fixed s.time m funds with
        | some e => .error e
        | none =>
          match send s.bank m.promoter POOL funds with
          | .error _ => .error .fund
          | .ok bank =>
            .ok { s with
                  grants := gs, bank := bank,
                  campaigns := setC s.campaigns
                    { uid := m.uid, creator := m.creator, promoter := m.promoter, startTS := m.startTS,
                      endTS := m.endTS, category := m.category, rtype := m.rtype, amtType := m.amtType,
                      amt := storeAmt (m.ra.getD default), pool := { total := funds, spent := 0, withdrawn := 0 },
                      active := m.active, capCount := m.capCount, maxBet := storeCons m.cons } }

structure UpdateMsg where
  creator : Nat
  uid : Nat
  topup : Option Int
  tv : Bool
  endTS : Nat
  active : Bool
deriving Repr, Inhabited

def updateCampaign (s : State) (m : UpdateMsg) : Except Err State :=
  if !m.tv then .error .ticket
  else if m.endTS < s.time then .error .validate
  else match getC s.campaigns m.uid with
    | none => .error .notfound
    | some c =>
      if !c.active then .error .inactive
      else
        match (if m.creator ≠ c.promoter then authorize s.time s.grants c.promoter m.creator 1 m.topup
               else .ok s.grants) with
        | .error e => .error e
        | .ok gs =>
          if posI m.topup then
            match send s.bank c.promoter POOL (m.topup.getD 0) with
            | .error _ => .error .fund
            | .ok bank =>
              .ok { s with
                    grants := gs, bank := bank,
                    campaigns := setC s.campaigns
                      { c with
                        pool := { c.pool with total := c.pool.total + m.topup.getD 0 },
                        endTS := m.endTS, active := m.active } }
          else
            .ok { s with
                  grants := gs,
                  campaigns := setC s.campaigns { c with endTS := m.endTS, active := m.active } }

structure WithdrawMsg where
  creator : Nat
  uid : Nat
  amount : Option Int
  tv : Bool
  promoter : Nat
deriving Repr, Inhabited

def withdrawFunds (s : State) (m : WithdrawMsg) : Except Err State :=
  if !m.tv then .error .ticket
  else match getC s.campaigns m.uid with
    | none => .error .notfound
    | some c =>
      if m.promoter ≠ c.promoter then .error .mismatch
      else
        match (if m.creator ≠ c.promoter then authorize s.time s.grants c.promoter m.creator 2 m.amount
               else .ok s.grants) with
        | .error e => .error e
        | .ok gs =>
          if c.pool.avail ≤ 0 then .error .nopool
          else match m.amount with
            | none => .error .panic
            | some amount =>
              if c.pool.avail < amount then .error .avail
              else match send s.bank POOL m.promoter amount with
                | .error .panic => .error .panic
                | .error _ => .error .refund
                | .ok bank =>
                  let pool := { c.pool with withdrawn := c.pool.withdrawn + amount }
                  .ok { s with
                        grants := gs, bank := bank,
                        campaigns := setC s.campaigns
                          { c with pool := pool, active := if pool.avail ≤ 0 then false else c.active } }

/-! ## grants -/

structure GrantMsg where
  creator : Nat
  uid : Nat
  campaign : Nat
  tv : Bool
  receiver : Nat
  /-- `KycData`: none = nil; (ignore, approved, id = receiver) -/
  kyc : Option (Bool × Bool × Bool)
  /-- `SourceUID` is a bech32 address (referee / affiliatee rewards) -/
  srcOk : Bool
  /-- `Referee` / `Affiliatee` (referrer / affiliator rewards) -/
  referee : Nat
  /-- `BetUID` (bet bonus) -/
  bet : Nat
deriving Repr, Inhabited

def kycOk (k : Option (Bool × Bool × Bool)) : Bool :=
  match k with
  | none => false
  | some (ign, appr, idm) => ign || (appr && idm)

/-- bet amount that counts for a bet bonus: capped by a positive `MaxBetAmount` -/
def effBet (c : Campaign) (betAmount : Int) : Int :=
  match c.maxBet with
  | some mb => if 0 < mb then minI mb betAmount else betAmount
  | none => betAmount

/-- amounts of a bet-bonus reward: (main, sub) = trunc(eff · percentage) -/
def betAmounts (c : Campaign) (betAmount : Int) : Int × Int :=
  (((Dec.ofInt (effBet c betAmount)).mul c.amt.mainPct).truncInt,
   ((Dec.ofInt (effBet c betAmount)).mul c.amt.subPct).truncInt)

/-- the bet lookups of `BetBonusReward.Calculate` -/
def betLookup (bets : List Bet) (uid receiver : Nat) : Option Bet :=
  match getBet bets uid with
  | none => none
  | some b =>
    if b.owner ≠ receiver then none
    else if !b.isMain then none
    else if b.result ≠ 3 ∧ b.result ≠ 2 then none
    else some b

/-- referrer / affiliator rewards: the promoter of the campaign is unknown, or the referee / affiliatee has
    no reward of category signup under that promoter -/
def noSignup (s : State) (promoterAddr referee : Nat) : Bool :=
  match getA s.byAddr promoterAddr with
  | none => true
  | some pa => countCat s.byCat pa.2 referee 1 == 0

/-- the checks of `IRewardFactory.Calculate` before the subaccount is looked up / created -/
def calcChecks (s : State) (c : Campaign) (m : GrantMsg) : Option Err :=
  if !m.tv then some .calcTicket
  else if !kycOk m.kyc then some .calcKyc
  else if (c.rtype = 2 ∨ c.rtype = 3) ∧ !m.srcOk then some .calcSrc
  else if (c.rtype = 4 ∨ c.rtype = 5) ∧ noSignup s c.promoter m.referee then some .calcNoRef
  else if isSubAddr s.subs m.receiver then some .calcIsSub
  else none

/-- reward amount of the fixed-amount reward types: the campaign's amounts -/
def fixedAmt (c : Campaign) : Amt :=
  { main := c.amt.main, sub := c.amt.sub, unlock := c.amt.unlock, mainPct := Dec.zero, subPct := Dec.zero }

/-- reward amount of a bet bonus -/
def betAmt (c : Campaign) (b : Bet) : Amt :=
  { main := (betAmounts c b.amount).1, sub := (betAmounts c b.amount).2, unlock := c.amt.unlock,
    mainPct := c.amt.mainPct, subPct := c.amt.subPct }

/-- `IRewardFactory.Calculate`: the subaccount list after `getSubaccountAddr` and the receiver's reward amount -/
def calculate (s : State) (c : Campaign) (m : GrantMsg) : Except Err (List Sub × Amt) :=
  match calcChecks s c m with
  | some e => .error e
  | none =>
    if c.rtype = 8 then
      match betLookup s.bets m.bet m.receiver with
      | none => .error .calcBet
      | some b => .ok (ensureSub s.subs m.receiver, betAmt c b)
    else .ok (ensureSub s.subs m.receiver, fixedAmt c)

/-- the grant counters after this grant (only campaigns with a cap count) -/
def capStats (s : State) (c : Campaign) (receiver : Nat) : List Stat :=
  if 0 < c.capCount then setStat s.stats c.uid receiver (getStat s.stats c.uid receiver + 1) else s.stats

/-- the promoter configuration has a cap for this category that the receiver has already reached -/
def catCapHit (byCat : List CatIdx) (p : Promoter) (category receiver : Nat) : Bool :=
  p.conf.any (fun cc => cc.1 == category && decide (cc.2 ≤ (countCat byCat p.uid receiver category : Int)))

/-- per-account cap of the campaign and per-category cap of the promoter; returns the counters and
    the promoter uid -/
def grantCaps (s : State) (c : Campaign) (m : GrantMsg) : Except Err (List Stat × Nat) :=
  if 0 < c.capCount ∧ c.capCount ≤ getStat s.stats c.uid m.receiver then .error .cap
  else match getA s.byAddr c.promoter with
    | none => .error .nopromoter
    | some pa =>
      match getP s.promoters pa.2 with
      | none => .error .nopromoter
      | some p =>
        if catCapHit s.byCat p c.category m.receiver then .error .catcap
        else .ok (capStats s c m.receiver, p.uid)

/-- x/subaccount `TopUp` bookkeeping: deposited amount and the new lock -/
def lockedTopUp (sb : Sub) (ts : Nat) (amt : Int) : Sub :=
  { sb with deposited := sb.deposited + amt, locks := sb.locks ++ [(ts, amt)] }

/-- `DistributeRewards`, subaccount part: `TopUp` from the pool with a lock -/
def distSub (time : Nat) (bank : Bank) (subs : List Sub) (receiver : Nat) (a : Amt) : Except Err (Bank × List Sub) :=
  if 0 < a.sub then
    match getSub subs receiver with
    | none => .error .distribute
    | some sb =>
      if hasLock sb (time + a.unlock) then .error .distribute
      else match send bank POOL (SUBBASE + receiver) a.sub with
        | .error _ => .error .distribute
        | .ok b => .ok (b, setSub subs (lockedTopUp sb (time + a.unlock) a.sub))
  else .ok (bank, subs)

/-- `DistributeRewards`, main account part: `Refund` from the pool (a module account is a blocked recipient) -/
def distMain (bank : Bank) (receiver : Nat) (a : Amt) : Except Err Bank :=
  if 0 < a.main then
    if receiver = POOL then .error .distribute
    else match send bank POOL receiver a.main with
      | .error _ => .error .distribute
      | .ok b => .ok b
  else .ok bank

/-- `DistributeRewards` -/
def distribute (time : Nat) (bank : Bank) (subs : List Sub) (receiver : Nat) (a : Amt) :
    Except Err (Bank × List Sub) :=
  match distSub time bank subs receiver a with
  | .error e => .error e
  | .ok r =>
    match distMain r.1 receiver a with
    | .error e => .error e
    | .ok b => .ok (b, r.2)

/-- the reward record, index entries and campaign pool written by a successful grant -/
def grantBook (s : State) (c : Campaign) (m : GrantMsg) (a : Amt) (stats : List Stat) (puid : Nat)
    (bank : Bank) (subs : List Sub) : State :=
  { s with
    bank := bank, subs := subs, stats := stats,
    campaigns := setC s.campaigns { c with pool := { c.pool with spent := c.pool.spent + (a.main + a.sub) } },
    rewards := s.rewards ++ [{ uid := m.uid, creator := m.creator, receiver := m.receiver, campaign := m.campaign, amt := a }],
    byCat := s.byCat ++ [{ promoter := puid, addr := m.receiver, category := c.category, uid := m.uid }],
    byCamp := s.byCamp ++ [(c.uid, m.uid)] }

def grantReward (s : State) (m : GrantMsg) : Except Err State :=
  if (getR s.rewards m.uid).isSome then .error .dup
  else match getC s.campaigns m.campaign with
    | none => .error .notfound
    | some c =>
      if !c.active then .error .inactive
      else if c.endTS < s.time then .error .ended
      else if s.time < c.startTS then .error .notstarted
      else match calculate s c m with
        | .error e => .error e
        | .ok r =>
          match grantCaps s c m with
          | .error e => .error e
          | .ok caps =>
            if c.pool.avail < r.2.main + r.2.sub then .error .pool
            else match distribute s.time s.bank r.1 m.receiver r.2 with
              | .error e => .error e
              | .ok d => .ok (grantBook s c m r.2 caps.1 caps.2 d.1 d.2)

/-! ## environment operations -/

/-- authz `MsgGrant` (transaction decoding, ValidateBasic, SaveGrant). `WithdrawCampaignAuthorization` is not
    registered in `RegisterInterfaces` (types/codec.go), so a `MsgGrant` carrying it cannot be decoded; with
    `codecFixed` (repo_patches/reward_register_withdraw_authorization.diff) it is registered. -/
def authzGrant (s : State) (granter grantee kind : Nat) (limit : Option Int) (exp : Option Nat) : Except Err State :=
  if 2 < kind then .error .basic
  else if kind = 2 ∧ !s.codecFixed then .error .codec
  else if granter = grantee then .error .basic
  else if !authValid kind limit then .error .basic
  else if (match exp with | some e => decide (e ≤ s.time) | none => false) then .error .authzSave
  else .ok { s with
      grants := setGrant s.grants
        { granter := granter, grantee := grantee, kind := kind, limit := limit.getD 0, exp := exp } }

def authzRevoke (s : State) (granter grantee kind : Nat) : Except Err State :=
  match getGrant s.grants granter grantee kind with
  | none => .error .notfound
  | some _ => .ok { s with grants := delGrant s.grants granter grantee kind }

/-- a settled or pending bet appears in x/bet (contract: its amount is not negative) -/
def putBet (s : State) (b : Bet) : Except Err State :=
  if b.amount < 0 then .error .env else .ok { s with bets := setBet s.bets b }

/-- x/subaccount `Create` for an owner without subaccount -/
def createSub (s : State) (owner : Nat) : Except Err State :=
  match getSub s.subs owner with
  | some _ => .error .dup
  | none => .ok { s with subs := ensureSub s.subs owner }

/-- bank `MsgSend` between plain accounts; the reward pool is a blocked address -/
def bankSend (s : State) (frm to : Nat) (amt : Int) : Except Err State :=
  if amt ≤ 0 then .error .basic
  else if to = POOL then .error .blocked
  else if frm = POOL then .error .env
  else match send s.bank frm to amt with
    | .error e => .error e
    | .ok b => .ok { s with bank := b }

/-! ## step -/

inductive Op where
  | time (t : Nat)
  | createPromoter (m : PromoterMsg)
  | setConf (m : ConfMsg)
  | createCampaign (m : CreateMsg)
  | updateCampaign (m : UpdateMsg)
  | withdraw (m : WithdrawMsg)
  | grant (m : GrantMsg)
  | authzGrant (granter grantee kind : Nat) (limit : Option Int) (exp : Option Nat)
  | authzRevoke (granter grantee kind : Nat)
  | putBet (b : Bet)
  | createSub (owner : Nat)
  | bankSend (frm to : Nat) (amt : Int)
deriving Repr, Inhabited

def exec (s : State) : Op → Except Err State
  | .time t => .ok { s with time := t }
  | .createPromoter m => createPromoter s m
  | .setConf m => setPromoterConf s m
  | .createCampaign m => createCampaign s m
  | .updateCampaign m => updateCampaign s m
  | .withdraw m => withdrawFunds s m
  | .grant m => grantReward s m
  | .authzGrant a b k l e => authzGrant s a b k l e
  | .authzRevoke a b k => authzRevoke s a b k
  | .putBet b => putBet s b
  | .createSub o => createSub s o
  | .bankSend f t a => bankSend s f t a

/-- a failing (or panicking) message leaves the state unchanged -/
def step (s : State) (op : Op) : State :=
  match exec s op with
  | .ok s' => s'
  | .error _ => s

def run (s : State) (ops : List Op) : State := ops.foldl step s

end Sge.Reward
