/-
  Model of the oracle-ticket verification pipeline (property C06), as the code does it:
    x/ovm/keeper/ticket.go     VerifyTicket, VerifyTicketUnmarshal, verifyTicketWithKeyUnmarshal
    x/ovm/types/ticket_jwt.go  NewJwtTicket/initFromValue, ValidateExpiry, Verify, VerifyAny, verifyJwtKey, Unmarshal
    x/ovm/types/key_vault.go   GetLeader
    types/kyc.go               KycDataPayload.Validate
    golang-jwt/jwt v4.5.1      Parser.ParseUnverified / ParseWithClaims (WithoutClaimsValidation),
                               SigningMethodEd25519.Verify, DecodeSegment (non-strict raw base64url)

  A *presented* ticket is an arbitrary byte string.  What the pipeline can observe of it is the record
  `Presented` below (the cryptography and the JSON/base64 decoders are parameters: modelled, not verified; the
  harness suite `ticket` forges real tokens of every shape, knows how each was made and checks that the real
  handlers give the verdict computed here).

  The pipeline, in the order of the code:
    1. `NewJwtTicket`:  split at "."; FEWER than three segments is an error, MORE are tolerated (segments 0,1,2
       are used, the rest is dropped);  segment 1 must be raw-base64url of JSON that unmarshals into
       `jwt.RegisteredClaims` (so a non-numeric `iat`/`nbf`/`exp` or a non-string `aud` is an error here);
       `exp` must be present (not null).  The expiry is `time.Unix(exp.Unix(), 0)`: whole seconds, the fraction of
       the claim is dropped.
    2. `ValidateExpiry`:  `exp.After(blockTime)`, strict.  Since `exp` is a whole number of seconds this is
       `exp > ⌊blockTime⌋` whatever the nanoseconds of the block time (`expiry_nanos` in C06.lean).
    3. key selection:  no keys given -> `vault[0]` (leader; panics on an empty vault, recovered by baseapp);
       keys given (vote: `[vault[i]]`, proposal: the whole vault) -> each must be a vault string, then `VerifyAny`.
    4. `Verify(pem)` = `jwt.Parser.Parse(seg0.seg1.seg2)` with claims validation switched off:
       header must be base64url JSON with a string `alg` naming a registered method; the key function parses the
       PEM as an Ed25519 public key; `method.Verify(seg0.seg1, seg2, ed25519.PublicKey)`: every method other than
       EdDSA fails on the key type (HS256 wants `[]byte`, ES*/RS*/PS* their own key types, `none` its magic
       constant); EdDSA base64-decodes seg2 (non-strict: trailing bits and CR/LF are ignored) and runs
       `ed25519.Verify`.  `nbf`, `iat`, `aud`, `iss` are never looked at.
    5. `Unmarshal(clm)`: JSON of segment 1 into the payload type of the message.
-/
import Sge.Ovm
import Sge.Core.Chain
namespace Sge.Ticket
open Sge.Ovm (Pem Key decode)

/-- what the `alg` header says (`other`: missing, not a string, or a name golang-jwt does not know; the names it
    knows besides the listed ones — HS384/512, ES384/512, RS384/512, PS* — behave like their listed sibling) -/
inductive Alg where
  | EdDSA | none | HS256 | ES256 | RS256 | other
deriving DecidableEq, Repr, Inhabited

/-- The observable structure of a presented byte string; `α` is the payload type of the message. -/
structure Presented (α : Type) where
  /-- number of "."-separated segments of the string -/
  parts : Nat
  /-- segment 0 is base64url of a JSON object (`ParseUnverified`: header) -/
  headerOk : Bool
  /-- the `alg` entry of that object -/
  alg : Alg
  /-- segment 1 is base64url of JSON that unmarshals into `jwt.RegisteredClaims` (`initFromValue`) -/
  claimsOk : Bool
  /-- `⌊exp⌋` in seconds; `none`: no `exp` claim (or `null`) -/
  exp : Option Int
  /-- segment 2 is (non-strict, unpadded) base64url -/
  sigB64 : Bool
  /-- the Ed25519 key under which the decoded segment 2 is a valid signature of the bytes `seg0 "." seg1`
      (`none`: under no key — HMAC/ECDSA/RSA bytes, a signature of other content, a flipped bit, nothing) -/
  sigKey : Option Key
  /-- the JSON of segment 1 as the payload type of the message (`ticket.Unmarshal(clm)`); `none`: does not fit -/
  payload : Option α
  /- ---- fields the pipeline does NOT read (they only serve to state what is tolerated) ---- -/
  /-- segment 2 is the canonical encoding of its bytes (no stray trailing bits, no CR/LF) -/
  sigCanonical : Bool := true
  /-- `nbf` / `iat` claims -/
  nbf : Option Int := none
  iat : Option Int := none
deriving Repr

variable {α : Type}

/-- `NewJwtTicket` succeeds -/
def Presented.wellFormed (t : Presented α) : Bool :=
  decide (3 ≤ t.parts) && t.claimsOk && t.exp.isSome

/-- `ValidateExpiry` at block time `now` (= `ctx.BlockTime().Unix()`, see `expiry_nanos`) -/
def Presented.unexpired (t : Presented α) (now : Int) : Bool :=
  match t.exp with
  | some e => decide (now < e)
  | none => false

/-- `ValidateExpiry` literally: expiry second `e` against a block time given in nanoseconds -/
def afterNanos (e : Int) (blockNanos : Int) : Bool := decide (blockNanos < e * 1000000000)

/-- `jwtTicket.Verify(pem)` -/
def Presented.verifies (t : Presented α) (p : Pem) : Bool :=
  t.headerOk && (t.alg == .EdDSA) && t.sigB64 &&
  (match decode p, t.sigKey with
   | some k, some s => k == s
   | _, _ => false)

/-- `verifyTicketWithKeyUnmarshal(ctx, ticket, clm, keys...)`; `none` = error (or the recovered panic of
    `GetLeader` on an empty vault) -/
def verifyKeys (vault : List Pem) (now : Int) (t : Presented α) (keys : List Pem) : Option α :=
  if !t.wellFormed then none
  else if !t.unexpired now then none
  else if !(keys.all (fun k => vault.contains k)) then none
  else if keys.isEmpty then
    match vault with
    | [] => none
    | l :: _ => if t.verifies l then t.payload else none
  else if keys.any (fun k => t.verifies k) then t.payload else none

/-- `VerifyTicketUnmarshal`: the 15 leader-verified messages -/
def verifyLeader (vault : List Pem) (now : Int) (t : Presented α) : Option α := verifyKeys vault now t []

/-- the vote path: `VoterKeyIndex` must be in range, the ticket must verify under that vault string -/
def verifyIndex (vault : List Pem) (i : Nat) (now : Int) (t : Presented α) : Option α :=
  match vault[i]? with
  | none => none
  | some pk => verifyKeys vault now t [pk]

/-- the proposal path: any vault string -/
def verifyAny (vault : List Pem) (now : Int) (t : Presented α) : Option α := verifyKeys vault now t vault

/-- `VerifyTicket` (no unmarshalling into a payload type) -/
def verifyOnly (vault : List Pem) (now : Int) (t : Presented α) : Bool :=
  (verifyLeader vault now { t with payload := some () }).isSome

/-! ### the property's vocabulary -/

/-- the ticket carries a valid EdDSA signature by (the key denoted by) one of `keys` -/
def Authentic (t : Presented α) (keys : List Pem) : Prop :=
  t.alg = .EdDSA ∧ ∃ p ∈ keys, ∃ k, decode p = some k ∧ t.sigKey = some k

/-- the ticket expires strictly after the block time -/
def Unexpired (t : Presented α) (now : Int) : Prop := ∃ e, t.exp = some e ∧ now < e

/-- authentic and unexpired: what the property requires of a ticket that takes effect -/
def ticketOK (t : Presented α) (keys : List Pem) (now : Int) : Prop := Authentic t keys ∧ Unexpired t now

/-- the string can be read at all: at least three segments, header / claims / signature segments decode, the
    payload fits the message's payload type -/
def Readable (t : Presented α) : Prop :=
  3 ≤ t.parts ∧ t.headerOk = true ∧ t.claimsOk = true ∧ t.sigB64 = true ∧ t.payload.isSome = true

/-- a compact JWS in the strict sense of RFC 7515: exactly three segments, canonical signature encoding -/
def StrictJWS (t : Presented α) : Prop := t.parts = 3 ∧ t.sigCanonical = true

/-- the keys the three modes check against -/
def leaderKeys (vault : List Pem) : List Pem := vault.take 1
def indexKeys (vault : List Pem) (i : Nat) : List Pem := (vault[i]?).toList

/-! ### KYC (types/kyc.go) -/

structure Kyc where
  ignore : Bool
  approved : Bool
  id : Nat
deriving Repr, Inhabited, DecidableEq

/-- `KycDataPayload.Validate(address)` -/
def Kyc.valid (k : Kyc) (addr : Nat) : Bool := k.ignore || (k.approved && k.id == addr)

/-! ### bridges to the abstract tickets of the other model slices -/

/-- what `lean/Sge/Ovm.lean` keeps of a presented ticket -/
def Presented.toOvm (t : Presented α) : Sge.Ovm.Ticket α :=
  { format := t.wellFormed, exp := t.exp.getD 0, alg := t.headerOk && (t.alg == .EdDSA) && t.sigB64,
    signer := t.sigKey, payload := t.payload }

/-- what `lean/Sge/Core/Chain.lean` keeps of a presented ticket (leader mode) and the KYC part of its payload -/
def toCoreTk (vault : List Pem) (now : Int) (t : Presented Unit) (k : Kyc) : Sge.Core.Tk :=
  { ok := (verifyLeader vault now t).isSome, kycIgnore := k.ignore, kycApproved := k.approved, kycId := k.id }

/-! ### message level (what the differential suite compares) -/

inductive Mode where
  | leader | index (i : Nat) | any
deriving Repr, DecidableEq

def verifyMode (vault : List Pem) (now : Int) (m : Mode) (t : Presented Unit) : Bool :=
  match m with
  | .leader => (verifyLeader vault now t).isSome
  | .index i => (verifyIndex vault i now t).isSome
  | .any => (verifyAny vault now t).isSome

/-- an otherwise valid message succeeds iff every ticket it carries verifies (the subaccount wager carries two)
    and, when its payload has KYC data, that data is valid for the actor -/
def msgVerdict (vault : List Pem) (now : Int) (tks : List (Mode × Presented Unit)) (kyc : Option (Kyc × Nat)) : Bool :=
  tks.all (fun mt => verifyMode vault now mt.1 mt.2) &&
  (match kyc with
   | none => true
   | some (k, actor) => k.valid actor)

end Sge.Ticket
