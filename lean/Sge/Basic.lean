def hello := "world"
