/-
  LegacyDec of cosmossdk.io/math v1.3.0 as used by sge: an integer scaled by 10^18.
  Every function mirrors the Go implementation (dec.go); the 316-bit overflow panics are not modelled.
  Core Lean only (the drivers are compiled executables).
-/
namespace Sge

abbrev PREC : Int := 1000000000000000000

/-- big.Int.Quo : truncated division (toward zero). Written with `/` on the non-negative branch so that
    `omega` sees a literal divisor after `unfold PREC`. -/
def tquo (x y : Int) : Int := Int.tdiv x y

/-- chopPrecisionAndRound on a non-negative value: divide by 10^18 with banker's rounding -/
def chopRoundNonneg (x : Int) : Int :=
  let q := x / PREC
  let r := x % PREC
  if r * 2 < PREC then q
  else if r * 2 > PREC then q + 1
  else if q % 2 = 0 then q else q + 1

/-- chopPrecisionAndRound -/
def chopRound (x : Int) : Int :=
  if x < 0 then - chopRoundNonneg (-x) else chopRoundNonneg x

/-- chopPrecisionAndTruncate: truncated division by 10^18 -/
def chopTrunc (x : Int) : Int :=
  if x < 0 then - ((-x) / PREC) else x / PREC

structure Dec where
  raw : Int
deriving DecidableEq, Repr, Inhabited

namespace Dec
def zero : Dec := ⟨0⟩
def one : Dec := ⟨PREC⟩
def ofInt (i : Int) : Dec := ⟨i * PREC⟩
def add (a b : Dec) : Dec := ⟨a.raw + b.raw⟩
def sub (a b : Dec) : Dec := ⟨a.raw - b.raw⟩
def neg (a : Dec) : Dec := ⟨-a.raw⟩
def mulInt (a : Dec) (i : Int) : Dec := ⟨a.raw * i⟩
def mul (a b : Dec) : Dec := ⟨chopRound (a.raw * b.raw)⟩
def mulTruncate (a b : Dec) : Dec := ⟨chopTrunc (a.raw * b.raw)⟩
/-- Quo: (a * 10^36) tdiv b, then banker's chop. Division by zero panics in Go; callers guard. -/
def quo (a b : Dec) : Dec := ⟨chopRound (tquo (a.raw * PREC * PREC) b.raw)⟩
def quoTruncate (a b : Dec) : Dec := ⟨chopTrunc (tquo (a.raw * PREC * PREC) b.raw)⟩
def quoInt (a : Dec) (i : Int) : Dec := ⟨tquo a.raw i⟩
def truncInt (a : Dec) : Int := chopTrunc a.raw
def truncDec (a : Dec) : Dec := ⟨chopTrunc a.raw * PREC⟩
def roundInt (a : Dec) : Int := chopRound a.raw
def ceil (a : Dec) : Dec :=
  let q := chopTrunc a.raw
  let r := a.raw - q * PREC
  if r ≤ 0 then ⟨q * PREC⟩ else ⟨(q + 1) * PREC⟩
def lt (a b : Dec) : Bool := decide (a.raw < b.raw)
def le (a b : Dec) : Bool := decide (a.raw ≤ b.raw)
def isNeg (a : Dec) : Bool := decide (a.raw < 0)
def isPos (a : Dec) : Bool := decide (0 < a.raw)
def isZero (a : Dec) : Bool := decide (a.raw = 0)
end Dec

def maxI (a b : Int) : Int := if a < b then b else a
def minI (a b : Int) : Int := if a < b then a else b

end Sge
