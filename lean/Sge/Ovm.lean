/-
  Model of x/ovm key governance (property C14):
    keeper/msg_server_pubkeys_proposal.go (SubmitPubkeysChangeProposal), keeper/msg_server_vote.go
    (VotePubkeysChange), keeper/ticket.go (verifyTicketWithKeyUnmarshal), keeper/proposal.go
    (FinishProposals, finishPubkeysChangeProposal, store access), keeper/stats.go, abci.go (EndBlocker),
    types/proposal.go (IsExpired, DecideResult), types/key_vault.go (SetLeader, MajorityCount,
    validatePubKeys), types/ticket.go (payload validation), utils/str.go (RemoveDuplicateStrs, PopStrAtIndex).

  Identifiers.  A `Pem` is the identifier of one *string* stored as a public key (two byte-different strings
  = two identifiers); `decode` is `jwt.ParseEdPublicKeyFromPEM`: the Ed25519 key a string denotes, if any.
  The numbering is fixed: string `8*k + v` with `v < 4` is the `v`-th textual encoding of key `k`
  (v = 0: trimmed output of `pem.EncodeToMemory`; v = 1: the same with the trailing newline, as found in
  genesis files; v = 2, 3: other line wrapping / block type / leading text), `v ≥ 4` does not parse.
  `strings.TrimSpace` (applied by RemoveDuplicateStrs) is applied by the harness before it numbers a string.

  A ticket is the record of what the JWT layer yields (modelled, not verified): whether `NewJwtTicket`
  accepts the token, its `exp`, whether the header names EdDSA, the key that produced the signature, and the
  result of `json.Unmarshal` of the payload into the message's payload type.

  `fixed = false` is the code as it is in /repo.  `fixed = true` is the code after
  repo_patches/ovm_key_governance.diff:
    * `validatePubKeys` rejects two encodings of one key,
    * the vote handler's "already voted" test compares decoded keys,
    * `DecideResult` counts only votes of keys registered in the vault it is given,
    * the end-block loop decides every proposal against the vault as it is at that moment.
-/
namespace Sge.Ovm

abbrev Pem := Nat
abbrev Key := Nat

/-- `jwt.ParseEdPublicKeyFromPEM` on the identifier level -/
def decode (p : Pem) : Option Key := if p % 8 < 4 then some (p / 8) else none

/-- `types.IsSamePubKey` (patched code only): equal strings, or both parse to the same key -/
def sameKey (a b : Pem) : Bool :=
  a == b || (match decode a, decode b with
    | some x, some y => x == y
    | _, _ => false)

inductive Vote where
  | no | yes
deriving DecidableEq, Repr, Inhabited

inductive Result where
  | unspecified | approved | rejected | expired
deriving DecidableEq, Repr, Inhabited

/-- `PublicKeysChangeProposal`; the status is the store (active / finished) the record lives in;
    `ResultMeta` (free text) is not modelled -/
structure Proposal where
  id : Nat
  creator : Nat
  keys : List Pem
  leader : Nat
  votes : List (Pem × Vote)
  startTS : Int
  finishTS : Int
  result : Result
deriving DecidableEq, Repr, Inhabited

/-- the module's stores: key vault, proposals by status (sorted by id = KV iteration order), stats -/
structure State where
  vault : List Pem
  active : List Proposal
  finished : List Proposal
  count : Nat
deriving DecidableEq, Repr, Inhabited

/-! ### proposal store (prefix = status, key = big-endian id) -/

def getP (l : List Proposal) (id : Nat) : Option Proposal := l.find? (fun p => p.id == id)

def delP (l : List Proposal) (id : Nat) : List Proposal := l.filter (fun p => p.id != id)

def setP : List Proposal → Proposal → List Proposal
  | [], p => [p]
  | q :: rest, p =>
    if p.id < q.id then p :: q :: rest
    else if p.id = q.id then p :: rest
    else q :: setP rest p

/-! ### tickets -/

structure Ticket (α : Type) where
  format : Bool          -- `NewJwtTicket` succeeds (≥ 3 segments, claims decode, `exp` present)
  exp : Int
  alg : Bool             -- header names EdDSA
  signer : Option Key    -- the key under which the signature is valid (none: no valid signature)
  payload : Option α     -- `ticket.Unmarshal(clm)`
deriving Repr

/-- `jwtTicket.Verify(key)` -/
def Ticket.verifies {α : Type} (t : Ticket α) (p : Pem) : Bool :=
  t.alg && (match decode p, t.signer with
    | some k, some s => k == s
    | _, _ => false)

/-- `verifyTicketWithKeyUnmarshal(ctx, ticket, clm, pubKeys...)`; `none` = error (or panic: `GetLeader`
    on an empty vault) -/
def verifyWith {α : Type} (vault : List Pem) (now : Int) (t : Ticket α) (keys : List Pem) : Option α :=
  if !t.format then none
  else if !(decide (now < t.exp)) then none
  else if !(keys.all (fun k => vault.contains k)) then none
  else if keys.isEmpty then
    match vault with
    | [] => none
    | l :: _ => if t.verifies l then t.payload else none
  else if keys.any (fun k => t.verifies k) then t.payload else none

/-! ### MsgSubmitPubkeysChangeProposalRequest -/

structure ProposalPayload where
  keys : List Pem
  leader : Nat
deriving Repr

/-- `utils.RemoveDuplicateStrs` (trimming is done before numbering): keeps first occurrences -/
def dedupAux : List Pem → List Pem → List Pem
  | _, [] => []
  | seen, x :: xs => if seen.contains x then dedupAux seen xs else x :: dedupAux (x :: seen) xs

def dedup (l : List Pem) : List Pem := dedupAux [] l

def minKeys : Nat := 4
def maxKeys : Nat := 5

/-- no two strings of the list denote the same key (patched `validatePubKeys`) -/
def distinctKeys : List Pem → Bool
  | [] => true
  | x :: xs => !(xs.any (fun y => sameKey x y)) && distinctKeys xs

/-- `PubkeysChangeProposalPayload.Validate(leaderIndex)` = `validatePubKeys` + leader range -/
def validPayload (fixed : Bool) (keys : List Pem) (leader : Nat) : Bool :=
  decide (minKeys ≤ keys.length) && decide (keys.length ≤ maxKeys) &&
  keys.all (fun k => (decode k).isSome) &&
  (!fixed || distinctKeys keys) &&
  decide (leader < keys.length)

def newProposal (id creator : Nat) (keys : List Pem) (leader : Nat) (now : Int) : Proposal :=
  { id := id, creator := creator, keys := keys, leader := leader, votes := [], startTS := now,
    finishTS := 0, result := .unspecified }

def submitMsg (fixed : Bool) (s : State) (now : Int) (creator : Nat) (t : Ticket ProposalPayload) :
    State × Bool :=
  match verifyWith s.vault now t s.vault with
  | none => (s, false)
  | some pl =>
    let keys := dedup pl.keys
    if validPayload fixed keys pl.leader then
      ({ s with active := setP s.active (newProposal (s.count + 1) creator keys pl.leader now),
                count := s.count + 1 }, true)
    else (s, false)

/-! ### MsgVotePubkeysChangeRequest -/

structure VotePayload where
  proposalId : Nat
  vote : Nat        -- raw enum value: 0 unspecified, 1 no, 2 yes
deriving Repr

/-- `ProposalVotePayload.Validate` -/
def voteOfNat : Nat → Option Vote
  | 1 => some .no
  | 2 => some .yes
  | _ => none

/-- "vote already set for this pubkey" -/
def alreadyVoted (fixed : Bool) (votes : List (Pem × Vote)) (pk : Pem) : Bool :=
  votes.any (fun w => if fixed then sameKey w.1 pk else w.1 == pk)

def addVote (p : Proposal) (pk : Pem) (v : Vote) : Proposal := { p with votes := p.votes ++ [(pk, v)] }

def voteMsg (fixed : Bool) (s : State) (now : Int) (idx : Nat) (t : Ticket VotePayload) : State × Bool :=
  match s.vault[idx]? with
  | none => (s, false)
  | some pk =>
    match verifyWith s.vault now t [pk] with
    | none => (s, false)
    | some pl =>
      match voteOfNat pl.vote with
      | none => (s, false)
      | some v =>
        match getP s.active pl.proposalId with
        | none => (s, false)
        | some p =>
          if alreadyVoted fixed p.votes pk then (s, false)
          else ({ s with active := setP s.active (addVote p pk v) }, true)

/-! ### EndBlocker -/

def maxValidProposalSeconds : Int := 1800

/-- `KeyVault.MajorityCount`: ceil(count * 0.6667) (closed form; `SgeProofs/Lemmas/OvmMajority.lean` ties it to
    the `LegacyDec` computation) -/
def majority (n : Nat) : Nat := (n * 6667 + 9999) / 10000

def isExpired (p : Proposal) (now : Int) : Bool := decide (now - p.startTS > maxValidProposalSeconds)

def countVotes (v : Vote) (votes : List (Pem × Vote)) : Nat := (votes.filter (fun w => w.2 == v)).length

/-- the key of a vote is registered in `vault` (patched `DecideResult`) -/
def registered (vault : List Pem) (pk : Pem) : Bool := vault.any (fun r => sameKey r pk)

/-- the votes `DecideResult` looks at -/
def countedVotes (fixed : Bool) (vault : List Pem) (p : Proposal) : List (Pem × Vote) :=
  if fixed then p.votes.filter (fun w => registered vault w.1) else p.votes

/-- `PublicKeysChangeProposal.DecideResult(keyVault)` -/
def decideResult (fixed : Bool) (vault : List Pem) (p : Proposal) : Result :=
  if majority vault.length ≤ countVotes .no (countedVotes fixed vault p) then .rejected
  else if majority vault.length ≤ countVotes .yes (countedVotes fixed vault p) then .approved
  else .unspecified

/-- `finishPubkeysChangeProposal`: `none` = "proposal not found" -/
def finish (s : State) (id : Nat) (r : Result) (now : Int) : Option State :=
  match getP s.active id with
  | none => none
  | some p => some { s with active := delP s.active id,
                            finished := setP s.finished { p with result := r, finishTS := now } }

/-- `keyVault.PublicKeys = Modifications.PublicKeys; keyVault.SetLeader(LeaderIndex)`;
    `none` = index out of range (panic) -/
def newVault (p : Proposal) : Option (List Pem) :=
  match p.keys[p.leader]? with
  | none => none
  | some l => some (l :: p.keys.eraseIdx p.leader)

inductive LoopRes where
  | cont (s : State)     -- go on with the next proposal
  | abort (s : State)    -- `finishPubkeysChangeProposals` returned an error (logged; writes so far stay)
  | halt                 -- panic inside the end-blocker
deriving DecidableEq, Repr

def finishStep (s : State) (id : Nat) (r : Result) (now : Int) : LoopRes :=
  match finish s id r now with
  | none => .abort s
  | some s' => .cont s'

/-- the vault the decision on the next proposal is taken against: the code as it is keeps using the vault
    read before the loop (`v0`); the patched code uses the current one -/
def decisionVault (fixed : Bool) (v0 : List Pem) (s : State) : List Pem := if fixed then s.vault else v0

/-- one iteration of the loop in `finishPubkeysChangeProposals` -/
def processOne (fixed : Bool) (now : Int) (v0 : List Pem) (s : State) (p : Proposal) : LoopRes :=
  if isExpired p now then finishStep s p.id .expired now
  else
    match decideResult fixed (decisionVault fixed v0 s) p with
    | .rejected => finishStep s p.id .rejected now
    | .approved =>
      match newVault p with
      | none => .halt
      | some nv =>
        match finish s p.id .approved now with
        | none => .abort s
        | some s' => .cont { s' with vault := nv }
    | _ => .cont s

def finishLoop (fixed : Bool) (now : Int) (v0 : List Pem) : List Proposal → State → LoopRes
  | [], s => .cont s
  | p :: rest, s =>
    match processOne fixed now v0 s p with
    | .cont s' => finishLoop fixed now v0 rest s'
    | r => r

inductive BlockRes where
  | ok | halt
deriving DecidableEq, Repr

/-- `ovm.EndBlocker` -/
def endBlock (fixed : Bool) (s : State) (now : Int) : State × BlockRes :=
  match finishLoop fixed now s.vault s.active s with
  | .cont s' => (s', .ok)
  | .abort s' => (s', .ok)
  | .halt => (s, .halt)

/-! ### histories -/

inductive Op where
  | submit (creator : Nat) (t : Ticket ProposalPayload)
  | vote (idx : Nat) (t : Ticket VotePayload)
  | endBlock

/-- one operation at block time `now` -/
def step (fixed : Bool) (s : State) (now : Int) (op : Op) : State :=
  match op with
  | .submit c t => (submitMsg fixed s now c t).1
  | .vote i t => (voteMsg fixed s now i t).1
  | .endBlock => (endBlock fixed s now).1

def run (fixed : Bool) (s : State) : List (Int × Op) → State
  | [] => s
  | (now, op) :: rest => run fixed (step fixed s now op) rest

/-- genesis: only a key vault -/
def genesis (vault : List Pem) : State := { vault := vault, active := [], finished := [], count := 0 }

end Sge.Ovm
