/-
  Core slice, message handlers and end-blockers: x/market (msg_server_market*.go, keeper/market.go, stats.go),
  x/house (msg_server_deposit.go, msg_server_withdraw.go, deposit.go, withdrawal.go),
  x/bet (wager.go, settle.go, abci.go), x/orderbook (orderbook_settle.go, bet_settle.go, stats.go, abci.go).
  A failing message returns the unchanged state; an error or panic in an end-blocker is `halt`.
-/
import Sge.Core.Orderbook
namespace Sge.Core
open Sge

-- ---------------------------------------------------------------------------------------------
-- tickets and KYC (abstract: the cryptography is a parameter, see C06)

/-- what a handler learns from `VerifyTicketUnmarshal` + the KYC part of the payload -/
structure Tk where
  ok : Bool            -- valid EdDSA signature by the leader key, well-formed, exp > block time
  kycIgnore : Bool
  kycApproved : Bool
  kycId : Nat
deriving Repr, Inhabited

/-- types/kyc.go Validate -/
def Tk.kycOk (t : Tk) (addr : Nat) : Bool := t.kycIgnore || (t.kycApproved && t.kycId == addr)

def bankSend (s : State) (src dst : Nat) (amt : Int) : Option State :=
  (transfer s.bal src dst amt).map fun b => { s with bal := b }

-- ---------------------------------------------------------------------------------------------
-- x/market

def allDistinct : List Nat → Bool
  | [] => true
  | x :: xs => !xs.contains x && allDistinct xs

/-- validateMarketTS -/
def marketTSOk (time startTS endTS : Nat) : Bool := decide (endTS > time) && decide (startTS < endTS) && startTS != 0

/-- MsgAdd -/
def marketAdd (s : State) (creator : Nat) (tk : Tk) (uid startTS endTS : Nat) (odds : List Nat) (status : Nat) : State × Res :=
  if !tk.ok then (s, .err)
  else if !marketTSOk s.time startTS endTS then (s, .err)
  else if !(status == MS_ACTIVE || status == MS_INACTIVE) then (s, .err)
  else if odds.length < 2 then (s, .err)
  else if !allDistinct odds then (s, .err)
  else if (getMarket s uid).isSome then (s, .err)
  else if (getBook s uid).isSome then (s, .err)
  else
    let b : Book := { uid := uid, oddsCount := odds.length, queues := (odds.map fun o => (o, ([] : List Nat))).foldl (fun acc x => upsert (fun y => [y.1]) x acc) [] }
    let m : Market := { uid := uid, creator := creator, startTS := startTS, endTS := endTS, odds := odds, status := status }
    (setMarket (setBook s b) m, .ok)

/-- MsgUpdate -/
def marketUpdate (s : State) (tk : Tk) (uid startTS endTS status : Nat) : State × Res :=
  if !tk.ok then (s, .err)
  else match getMarket s uid with
    | none => (s, .err)
    | some m =>
      if !(m.status == MS_ACTIVE || m.status == MS_INACTIVE) then (s, .err)
      else if !(status == MS_ACTIVE || status == MS_INACTIVE) then (s, .err)
      else if !marketTSOk s.time startTS endTS then (s, .err)
      else (setMarket s { m with startTS := startTS, endTS := endTS, status := status }, .ok)

/-- MarketResolutionTicketPayload.Validate (uid validity is assumed by the abstract ticket) -/
def resolutionPayloadOk (status resolutionTS : Nat) (winners : List Nat) : Bool :=
  (status == MS_CANCELED || status == MS_ABORTED || status == MS_DECLARED) &&
  (if status == MS_DECLARED then winners.length == 1 else winners.isEmpty) &&
  resolutionTS != 0

/-- MsgResolve -/
def marketResolve (s : State) (tk : Tk) (uid resolutionTS status : Nat) (winners : List Nat) : State × Res :=
  if !tk.ok then (s, .err)
  else if !resolutionPayloadOk status resolutionTS winners then (s, .err)
  else match getMarket s uid with
    | none => (s, .err)
    | some m =>
      if !(m.status == MS_ACTIVE || m.status == MS_INACTIVE) then (s, .err)
      else if status == MS_DECLARED && (resolutionTS < m.startTS || !winners.all (fun w => m.odds.contains w)) then (s, .err)
      else
        let m' := { m with resolutionTS := resolutionTS, status := status,
                           winners := if status == MS_DECLARED then winners else m.winners }
        (setMarket { s with mqueue := s.mqueue ++ [uid] } m', .ok)

-- ---------------------------------------------------------------------------------------------
-- authz (contract level): GetAuthorization honours the expiry; Accept consumes the limit

def findGrant (s : State) (granter grantee kind : Nat) : Option Grant :=
  s.grants.find? (fun g => g.granter == granter && g.grantee == grantee && g.kind == kind)

def dropGrant (s : State) (granter grantee kind : Nat) : State :=
  { s with grants := s.grants.filter (fun g => !(g.granter == granter && g.grantee == grantee && g.kind == kind)) }

/-- utils.ValidateMsgAuthorization with Deposit/WithdrawAuthorization.Accept -/
def useGrant (s : State) (granter grantee kind : Nat) (amount : Int) : Option State :=
  match findGrant s granter grantee kind with
  | none => none
  | some g =>
    if (match g.expiry with | some t => decide (t < s.time) | none => false) then none
    else if g.limit - amount < 0 then none
    else if g.limit - amount = 0 then some (dropGrant s granter grantee kind)
    else some { (dropGrant s granter grantee kind) with
                grants := (dropGrant s granter grantee kind).grants ++ [{ g with limit := g.limit - amount }] }

-- ---------------------------------------------------------------------------------------------
-- x/house

/-- MsgDeposit. `payloadDepositor = 0` stands for the empty string. -/
def houseDeposit (s : State) (creator : Nat) (tk : Tk) (market : Nat) (amount : Int) (payloadDepositor : Nat) : State × Res × Nat :=
  if amount ≤ 0 then (s, .err, 0)                                   -- ValidateBasic
  else if amount < s.params.houseMin then (s, .err, 0)              -- ValidateSanity
  else if !tk.ok then (s, .err, 0)
  else
    let onBehalf := payloadDepositor != 0 && payloadDepositor != creator
    let depositor := if onBehalf then payloadDepositor else creator
    match (if onBehalf then useGrant s depositor creator 0 amount else some s) with
    | none => (s, .err, 0)
    | some s1 =>
      if !tk.kycOk depositor then (s, .err, 0)
      else
        let fee := (s.params.houseFee.mulInt amount).roundInt
        match getMarket s1 market, getBook s1 market with
        | some m, some b =>
          if m.status != MS_ACTIVE then (s, .err, 0)
          else if b.status != OB_ACTIVE then (s, .err, 0)
          else if s.params.obMaxPart ≤ b.partCount then (s, .err, 0)
          else
            let liquidity := amount - fee
            match bankSend s1 depositor ACC_POOL liquidity with
            | none => (s, .err, 0)
            | some s2 =>
              match bankSend s2 depositor ACC_HOUSEFEE fee with
              | none => (s, .err, 0)
              | some s3 =>
                let r := b.addParticipation depositor liquidity fee
                let d : Deposit := { creator := creator, depositor := depositor, market := market, idx := r.2, amount := amount }
                ({ (setBook s3 r.1) with deposits := upsert Deposit.key d s3.deposits }, .ok, r.2)
        | _, _ => (s, .err, 0)

/-- MsgWithdraw -/
def houseWithdraw (s : State) (creator : Nat) (tk : Tk) (market idx mode : Nat) (amount : Int) (payloadDepositor : Nat) : State × Res :=
  if !(mode == WM_FULL || mode == WM_PARTIAL) then (s, .err)
  else if idx < 1 then (s, .err)
  else if mode == WM_PARTIAL && amount ≤ 0 then (s, .err)
  else if !tk.ok then (s, .err)
  else
    let onBehalf := payloadDepositor != 0
    let depositor := if onBehalf then payloadDepositor else creator
    if !tk.kycOk depositor then (s, .err)
    else match lookup Deposit.key [depositor, market, idx] s.deposits, getBook s market with
      | some d, some b =>
        if d.wcount ≥ s.params.houseMaxW then (s, .err)
        else match calcWithdrawal b idx depositor mode amount d.wtotal with
          | none => (s, .err)
          | some w =>
            match (if onBehalf then useGrant s depositor creator 1 w else some s) with
            | none => (s, .err)
            | some s1 =>
              match b.getPart idx with
              | none => (s, .err)
              | some p =>
                match bankSend s1 ACC_POOL p.addr w with
                | none => (s, .err)
                | some s2 =>
                  match b.withdraw idx w with
                  | none => (s, .err)
                  | some b' =>
                    let wd : Withdrawal := { id := d.wcount + 1, creator := creator, addr := depositor, market := market, idx := idx, amount := w, mode := mode }
                    let d' := { d with wcount := d.wcount + 1, wtotal := d.wtotal + w }
                    ({ (setBook s2 b') with withdrawals := upsert Withdrawal.key wd s2.withdrawals,
                                             deposits := upsert Deposit.key d' s2.deposits }, .ok)
      | _, _ => (s, .err)

-- ---------------------------------------------------------------------------------------------
-- x/bet : wager

/-- the wager ticket payload as far as the handlers use it -/
structure WagerPayload where
  market : Nat
  odds : Nat
  oddsVal : Option Dec                 -- none: the odds string does not parse as a decimal
  mult : Dec
  allOdds : List (Nat × Dec)           -- (outcome, max-loss multiplier) in ticket order
  oddsTypeOk : Bool := true
deriving Repr, Inhabited

def multOk (m : Dec) : Bool := decide (0 < m.raw) && decide (m.raw ≤ PREC)

/-- MsgWager -/
def wager (s : State) (creator : Nat) (tk : Tk) (uid : Nat) (amount : Int) (pl : WagerPayload) : State × Res :=
  if amount ≤ 0 then (s, .err)                                                  -- WagerValidation
  else if s.bets.any (fun b => b.uid == uid) then (s, .err)                    -- duplicate UID
  else if !tk.ok then (s, .err)
  else if !pl.oddsTypeOk then (s, .err)
  else if !multOk pl.mult then (s, .err)
  else if !pl.allOdds.all (fun o => multOk o.2) then (s, .err)
  else if !tk.kycOk creator then (s, .err)
  else match getMarket s pl.market with
    | none => (s, .err)
    | some m =>
      if m.status != MS_ACTIVE then (s, .err)
      else if m.endTS < s.time then (s, .err)
      else if !m.odds.contains pl.odds then (s, .err)
      else if m.odds.length != (pl.allOdds.map (·.1)).eraseDups.length then (s, .err)
      else if !m.odds.all (fun o => pl.allOdds.any (fun x => x.1 == o)) then (s, .err)
      else if amount < s.params.betMin then (s, .err)
      else
        let fee := s.params.betFee
        let amt := amount - fee
        match pl.oddsVal with
        | none => (s, .err)
        | some ov =>
          if ov.raw ≤ PREC then (s, .err)                                       -- odds must be > 1
          else
            let payoutProfit := (ov.mulInt amt).sub (Dec.ofInt amt)
            let betId := s.betCount + 1
            match getBook s pl.market with
            | none => (s, .err)
            | some b =>
              match processWager b pl.odds betId ov pl.mult m.odds pl.allOdds (s.params.obThreshold : Nat) amt payoutProfit with
              | none => (s, .err)
              | some (b', fulfs, taken) =>
                match bankSend s creator ACC_BETFEE fee with
                | none => (s, .err)
                | some s1 =>
                  match bankSend s1 creator ACC_POOL taken with
                  | none => (s, .err)
                  | some s2 =>
                    let bet : Bet := { uid := uid, id := betId, creator := creator, market := pl.market, odds := pl.odds,
                                       oddsVal := ov, amount := (fulfs.map (·.bet)).sum, fee := fee, status := BS_PLACED, result := BR_PENDING,
                                       mult := pl.mult, createdAt := s.time, fulfs := fulfs }
                    ({ (setBook s2 b') with bets := upsert Bet.key bet s2.bets,
                                            pending := upsert (fun x => [x.1, x.2.1]) (pl.market, betId, uid, creator) s2.pending,
                                            betCount := betId }, .ok)

-- ---------------------------------------------------------------------------------------------
-- x/bet : settlement (EndBlocker)

/-- BettorLoses / BettorWins on the book: `none` = participation not found or pool short -/
def bettorLoses (b : Book) : List Fulf → Option Book
  | [] => some b
  | f :: rest =>
    match b.getPart f.idx with
    | none => none
    | some p => bettorLoses (b.setPart { p with actualProfit := p.actualProfit + f.bet }) rest

def bettorWins (bal : List (Nat × Int)) (bettor : Nat) (b : Book) : List Fulf → Option (List (Nat × Int) × Book)
  | [] => some (bal, b)
  | f :: rest =>
    match b.getPart f.idx with
    | none => none
    | some p =>
      match transfer bal ACC_POOL bettor (f.profit + f.bet) with
      | none => none
      | some bal' => bettorWins bal' bettor (b.setPart { p with actualProfit := p.actualProfit - f.profit }) rest

/-- updateSettlementState -/
def markSettled (s : State) (bet : Bet) : State :=
  let bet := { bet with settleHeight := s.height }
  { s with bets := upsert Bet.key bet s.bets,
           pending := remove (fun x => [x.1, x.2.1]) [bet.market, bet.id] s.pending,
           settled := upsert (fun x => [x.1, x.2.1]) (s.height, bet.id, bet.uid, bet.creator) s.settled }

/-- Settle: `none` = error (in the end-blocker: halt) -/
def settleBet (s : State) (creator uid : Nat) : Option State :=
  match s.bets.find? (fun b => b.uid == uid) with
  | none => none
  | some bet0 =>
    match lookup Bet.key [creator, bet0.id] s.bets with
    | none => none
    | some bet =>
      if bet.status == BS_SETTLED || bet.status == BS_CANCELED then none
      else match getMarket s bet.market with
        | none => none
        | some m =>
          if m.status == MS_ABORTED || m.status == MS_CANCELED then
            match bankSend s ACC_POOL bet.creator bet.amount with
            | none => none
            | some s1 =>
              match bankSend s1 ACC_BETFEE bet.creator bet.fee with
              | none => none
              | some s2 => some (markSettled s2 { bet with status := BS_SETTLED, result := BR_REFUNDED })
          else if m.status != MS_DECLARED then none
          else
            match getBook s bet.market with
            | none => none
            | some b =>
              let won := m.winners.contains bet.odds
              match (if won then bettorWins s.bal bet.creator b bet.fulfs else (bettorLoses b bet.fulfs).map fun b' => (s.bal, b')) with
              | none => none
              | some (bal', b') =>
                let s1 := setBook { s with bal := bal' } b'
                match bankSend s1 ACC_BETFEE m.creator bet.fee with
                | none => none
                | some s2 => some (markSettled s2 { bet with status := BS_SETTLED, result := if won then BR_WON else BR_LOST })

/-- batchMarketSettlement: settle the first `n` pending bets of the market (page snapshot) -/
def settlePage (s : State) : List (Nat × Nat × Nat × Nat) → Option (State × Nat)
  | [] => some (s, 0)
  | pb :: rest =>
    match settleBet s pb.2.2.2 pb.2.2.1 with
    | none => none
    | some s1 => (settlePage s1 rest).map fun r => (r.1, r.2 + 1)

/-- SetOrderBookAsUnsettledResolved -/
def bookResolved (s : State) (uid : Nat) : Option State :=
  match getBook s uid with
  | none => none
  | some b =>
    if b.status != OB_ACTIVE then none
    else some { (setBook s { b with status := OB_RESOLVED }) with obqueue := s.obqueue ++ [uid] }

/-- BatchMarketSettlements; `fuel` bounds the loop (|queue| + batch size + 1 suffices) -/
def betEndBlock : Nat → State → Nat → Option State
  | 0, s, _ => some s
  | fuel + 1, s, toFetch =>
    if toFetch = 0 then some s
    else match s.mqueue with
      | [] => some s
      | mk :: _ =>
        let page := (s.pending.filter (fun x => x.1 == mk)).take toFetch
        match settlePage s page with
        | none => none
        | some (s1, cnt) =>
          if s1.pending.any (fun x => x.1 == mk) then betEndBlock fuel s1 (toFetch - cnt)
          else
            match goRemove s1.mqueue mk with
            | none => none
            | some q =>
              match bookResolved { s1 with mqueue := q } mk with
              | none => none
              | some s2 => betEndBlock fuel s2 (toFetch - cnt)

-- ---------------------------------------------------------------------------------------------
-- x/orderbook : settlement (EndBlocker)

/-- settleParticipation -/
def settlePart (s : State) (b : Book) (p : Part) (m : Market) : Option (State × Book) :=
  if p.isSettled then none
  else
    let declared := m.status == MS_DECLARED
    if !(declared || m.status == MS_CANCELED || m.status == MS_ABORTED) then none
    else
      let ret := if declared then p.liq + p.actualProfit else p.liq
      match bankSend s ACC_POOL p.addr ret with
      | none => none
      | some s1 =>
        let feeToDepositor := if declared then decide (p.totalBet = 0) else true
        if feeToDepositor then
          match bankSend s1 ACC_HOUSEFEE p.addr p.fee with
          | none => none
          | some s2 => some (s2, b.setPart { p with returned := ret + p.fee, reimbursedFee := p.fee, isSettled := true })
        else
          match bankSend s1 ACC_HOUSEFEE m.creator p.fee with
          | none => none
          | some s2 => some (s2, b.setPart { p with returned := ret, isSettled := true })

/-- batchSettlementOfParticipation: returns (state, book, settledCount, processed) -/
def settleParts (m : Market) (count : Nat) : List Part → State → Book → Nat → Nat → Option (State × Book × Nat × Nat)
  | [], s, b, settledCount, processed => some (s, b, settledCount, processed)
  | p :: rest, s, b, settledCount, processed =>
    let processed := processed + 1
    match (if !p.isSettled then (settlePart s b p m).map fun r => (r.1, r.2, settledCount + 1) else some (s, b, settledCount)) with
    | none => none
    | some (s1, b1, sc) =>
      if sc ≥ count then some (s1, b1, sc, processed)
      else settleParts m count rest s1 b1 sc processed

/-- BatchOrderBookSettlements -/
def obEndBlock : Nat → State → Nat → Nat → Option State
  | 0, s, _, _ => some s
  | fuel + 1, s, toFetch, index =>
    if toFetch = 0 then some s
    else match s.obqueue[index]? with
      | none => some s
      | some uid =>
        match getBook s uid, getMarket s uid with
        | some b, some m =>
          if b.status != OB_RESOLVED then none
          else match settleParts m toFetch b.parts s b 0 0 with
            | none => none
            | some (s1, b1, sc, processed) =>
              if processed == b.parts.length then
                match goRemove s1.obqueue uid with
                | none => none
                | some q => obEndBlock fuel (setBook { s1 with obqueue := q } { b1 with status := OB_SETTLED }) (toFetch - sc) index
              else obEndBlock fuel (setBook s1 b1) (toFetch - sc) (index + 1)
        | _, _ => none

/-- the end-blockers of the core modules in app order: bet, then orderbook -/
def endBlock (s : State) : State × Res :=
  match betEndBlock (s.mqueue.length + s.params.betBatch + 1) s s.params.betBatch with
  | none => (s, .halt)
  | some s1 =>
    match obEndBlock (s1.obqueue.length + 1) s1 s.params.obBatch 0 with
    | none => (s, .halt)
    | some s2 => (s2, .ok)

end Sge.Core
