/-
  Core slice, message handlers and end-blockers: x/market (msg_server_market*.go, keeper/market.go, stats.go),
  x/house (msg_server_deposit.go, msg_server_withdraw.go, deposit.go, withdrawal.go),
  x/bet (wager.go, settle.go, abci.go), x/orderbook (orderbook_settle.go, bet_settle.go, stats.go, abci.go).
  A failing message returns the unchanged state; an error or panic in an end-blocker is `halt`.
-/
import Sge.Core.Orderbook
namespace Sge.Core
open Sge

-- ---------------------------------------------------------------------------------------------
-- tickets and KYC (abstract: the cryptography is a parameter, see C06)

/-- what a handler learns from `VerifyTicketUnmarshal` + the KYC part of the payload -/
structure Tk where
  ok : Bool            -- valid EdDSA signature by the leader key, well-formed, exp > block time
  kycIgnore : Bool
  kycApproved : Bool
  kycId : Nat
deriving Repr, Inhabited

/-- types/kyc.go Validate -/
def Tk.kycOk (t : Tk) (addr : Nat) : Bool := t.kycIgnore || (t.kycApproved && t.kycId == addr)

def bankSend (s : State) (src dst : Nat) (amt : Int) : Option State :=
  (transfer s.bal src dst amt).map fun b => { s with bal := b }

/-- baseapp's message atomicity: a failing (or panicking) handler leaves the state unchanged -/
def commit (s : State) (r : Option State) : State × Res :=
  match r with
  | some s' => (s', .ok)
  | none => (s, .err)

-- ---------------------------------------------------------------------------------------------
-- x/market

def allDistinct : List Nat → Bool
  | [] => true
  | x :: xs => !xs.contains x && allDistinct xs

/-- validateMarketTS -/
def marketTSOk (time startTS endTS : Nat) : Bool := decide (endTS > time) && decide (startTS < endTS) && startTS != 0

def isOpenStatus (st : Nat) : Bool := st == MS_ACTIVE || st == MS_INACTIVE

def newBook (uid : Nat) (odds : List Nat) : Book :=
  { uid := uid, oddsCount := odds.length,
    queues := (odds.map fun o => (o, ([] : List Nat))).foldl (fun acc x => upsert (fun y => [y.1]) x acc) [] }

/-- MsgAdd -/
def marketAddO (s : State) (creator : Nat) (tk : Tk) (uid startTS endTS : Nat) (odds : List Nat) (status : Nat) : Option State := do
  chk tk.ok
  chk (marketTSOk s.time startTS endTS)
  chk (isOpenStatus status)
  chk (decide (2 ≤ odds.length))
  chk (allDistinct odds)
  chk (getMarket s uid).isNone
  chk (getBook s uid).isNone
  let m : Market := { uid := uid, creator := creator, startTS := startTS, endTS := endTS, odds := odds, status := status }
  pure (setMarket (setBook s (newBook uid odds)) m)

def marketAdd (s : State) (creator : Nat) (tk : Tk) (uid startTS endTS : Nat) (odds : List Nat) (status : Nat) : State × Res :=
  commit s (marketAddO s creator tk uid startTS endTS odds status)

/-- MsgUpdate -/
def marketUpdateO (s : State) (tk : Tk) (uid startTS endTS status : Nat) : Option State := do
  chk tk.ok
  let m ← getMarket s uid
  chk (isOpenStatus m.status)
  chk (isOpenStatus status)
  chk (marketTSOk s.time startTS endTS)
  pure (setMarket s { m with startTS := startTS, endTS := endTS, status := status })

def marketUpdate (s : State) (tk : Tk) (uid startTS endTS status : Nat) : State × Res :=
  commit s (marketUpdateO s tk uid startTS endTS status)

/-- MarketResolutionTicketPayload.Validate (uid validity is assumed by the abstract ticket) -/
def resolutionPayloadOk (status resolutionTS : Nat) (winners : List Nat) : Bool :=
  (status == MS_CANCELED || status == MS_ABORTED || status == MS_DECLARED) &&
  (if status == MS_DECLARED then winners.length == 1 else winners.isEmpty) &&
  resolutionTS != 0

/-- MsgResolve -/
def marketResolveO (s : State) (tk : Tk) (uid resolutionTS status : Nat) (winners : List Nat) : Option State := do
  chk tk.ok
  chk (resolutionPayloadOk status resolutionTS winners)
  let m ← getMarket s uid
  chk (isOpenStatus m.status)
  chk (!(status == MS_DECLARED && (resolutionTS < m.startTS || !winners.all (fun w => m.odds.contains w))))
  let m' := { m with resolutionTS := resolutionTS, status := status,
                     winners := if status == MS_DECLARED then winners else m.winners }
  pure (setMarket { s with mqueue := s.mqueue ++ [uid] } m')

def marketResolve (s : State) (tk : Tk) (uid resolutionTS status : Nat) (winners : List Nat) : State × Res :=
  commit s (marketResolveO s tk uid resolutionTS status winners)

-- ---------------------------------------------------------------------------------------------
-- authz (contract level): GetAuthorization honours the expiry; Accept consumes the limit

def grantIs (granter grantee kind : Nat) (g : Grant) : Bool :=
  g.granter == granter && g.grantee == grantee && g.kind == kind

def findGrant (s : State) (granter grantee kind : Nat) : Option Grant :=
  s.grants.find? (grantIs granter grantee kind)

def dropGrant (s : State) (granter grantee kind : Nat) : State :=
  { s with grants := s.grants.filter (fun g => !grantIs granter grantee kind g) }

def Grant.expired (g : Grant) (time : Nat) : Bool :=
  match g.expiry with
  | some t => decide (t < time)
  | none => false

/-- authz.NewGrant accepts the expiration of a re-saved grant only if it lies strictly after the block time -/
def Grant.resavable (g : Grant) (time : Nat) : Bool :=
  match g.expiry with
  | some t => decide (time < t)
  | none => true

/-- utils.ValidateMsgAuthorization with Deposit/WithdrawAuthorization.Accept -/
def useGrant (s : State) (granter grantee kind : Nat) (amount : Int) : Option State := do
  let g ← findGrant s granter grantee kind
  chk (!g.expired s.time)
  chk (decide (0 ≤ g.limit - amount))
  -- a grant that is used up is deleted; one that is used in part is saved again, and authz.NewGrant refuses an
  -- expiration that is not strictly after the block time (so a partial use at exactly the expiry time fails)
  chk (g.limit - amount = 0 || g.resavable s.time)
  let s1 := dropGrant s granter grantee kind
  pure (if g.limit - amount = 0 then s1 else { s1 with grants := s1.grants ++ [{ g with limit := g.limit - amount }] })

/-- the authorization step of a delegated house message (no-op when the signer acts for itself) -/
def grantStep (s : State) (delegated : Bool) (granter grantee kind : Nat) (amount : Int) : Option State :=
  if delegated then useGrant s granter grantee kind amount else some s

-- ---------------------------------------------------------------------------------------------
-- x/house

/-- the depositor a MsgDeposit acts for: the payload's depositor when it names another account -/
def depositFor (creator payloadDepositor : Nat) : Nat :=
  if payloadDepositor != 0 && payloadDepositor != creator then payloadDepositor else creator

/-- MsgDeposit. `payloadDepositor = 0` stands for the empty string. Returns the new participation index. -/
def houseDepositO (s : State) (creator : Nat) (tk : Tk) (market : Nat) (amount : Int) (payloadDepositor : Nat) : Option (State × Nat) := do
  chk (decide (0 < amount))                                    -- ValidateBasic
  chk (decide (s.params.houseMin ≤ amount))                    -- ValidateSanity
  chk tk.ok
  let depositor := depositFor creator payloadDepositor
  let s1 ← grantStep s (depositor != creator) depositor creator 0 amount
  chk (tk.kycOk depositor)
  let fee := (s.params.houseFee.mulInt amount).roundInt
  let m ← getMarket s1 market
  let b ← getBook s1 market
  chk (m.status == MS_ACTIVE)
  chk (b.status == OB_ACTIVE)
  chk (decide (b.partCount < s.params.obMaxPart))
  chk (b.getPart (b.partCount + 1)).isNone                     -- "id already exists" sanity check
  let liquidity := amount - fee
  let s2 ← bankSend s1 depositor ACC_POOL liquidity
  let s3 ← bankSend s2 depositor ACC_HOUSEFEE fee
  let r := b.addParticipation depositor liquidity fee
  let d : Deposit := { creator := creator, depositor := depositor, market := market, idx := r.2, amount := amount }
  pure ({ (setBook s3 r.1) with deposits := upsert Deposit.key d s3.deposits }, r.2)

def houseDeposit (s : State) (creator : Nat) (tk : Tk) (market : Nat) (amount : Int) (payloadDepositor : Nat) : State × Res × Nat :=
  match houseDepositO s creator tk market amount payloadDepositor with
  | some r => (r.1, .ok, r.2)
  | none => (s, .err, 0)

/-- MsgWithdraw -/
def houseWithdrawO (s : State) (creator : Nat) (tk : Tk) (market idx mode : Nat) (amount : Int) (payloadDepositor : Nat) : Option State := do
  chk (mode == WM_FULL || mode == WM_PARTIAL)
  chk (decide (1 ≤ idx))
  chk (!(mode == WM_PARTIAL && decide (amount ≤ 0)))
  chk tk.ok
  let onBehalf := payloadDepositor != 0
  let depositor := if onBehalf then payloadDepositor else creator
  chk (tk.kycOk depositor)
  let d ← lookup Deposit.key [depositor, market, idx] s.deposits
  let b ← getBook s market
  chk (decide (d.wcount < s.params.houseMaxW))
  let w ← calcWithdrawal b idx depositor mode amount d.wtotal
  let s1 ← grantStep s onBehalf depositor creator 1 w
  let p ← b.getPart idx
  let s2 ← bankSend s1 ACC_POOL p.addr w
  let b' ← b.withdraw idx w
  let wd : Withdrawal := { id := d.wcount + 1, creator := creator, addr := depositor, market := market, idx := idx, amount := w, mode := mode }
  let d' := { d with wcount := d.wcount + 1, wtotal := d.wtotal + w }
  pure { (setBook s2 b') with withdrawals := upsert Withdrawal.key wd s2.withdrawals,
                              deposits := upsert Deposit.key d' s2.deposits }

def houseWithdraw (s : State) (creator : Nat) (tk : Tk) (market idx mode : Nat) (amount : Int) (payloadDepositor : Nat) : State × Res :=
  commit s (houseWithdrawO s creator tk market idx mode amount payloadDepositor)

-- ---------------------------------------------------------------------------------------------
-- x/bet : wager

/-- the wager ticket payload as far as the handlers use it -/
structure WagerPayload where
  market : Nat
  odds : Nat
  oddsVal : Option Dec                 -- none: the odds string does not parse as a decimal
  mult : Dec
  allOdds : List (Nat × Dec)           -- (outcome, max-loss multiplier) in ticket order
  oddsTypeOk : Bool := true
deriving Repr, Inhabited

def multOk (m : Dec) : Bool := decide (0 < m.raw) && decide (m.raw ≤ PREC)

/-- the bet record stored by a successful wager: the recorded stake is the sum of the backing parts -/
def newBet (s : State) (creator uid : Nat) (pl : WagerPayload) (ov : Dec) (fulfs : List Fulf) : Bet :=
  { uid := uid, id := s.betCount + 1, creator := creator, market := pl.market, odds := pl.odds,
    oddsVal := ov, amount := (fulfs.map (·.bet)).sum, fee := s.params.betFee, status := BS_PLACED, result := BR_PENDING,
    mult := pl.mult, createdAt := s.time, fulfs := fulfs }

/-- MsgWager -/
def wagerO (s : State) (creator : Nat) (tk : Tk) (uid : Nat) (amount : Int) (pl : WagerPayload) : Option State := do
  chk (decide (0 < amount))                                                 -- WagerValidation
  chk (!s.bets.any (fun b => b.uid == uid))                                 -- duplicate UID
  chk tk.ok
  chk pl.oddsTypeOk
  chk (multOk pl.mult)
  chk (pl.allOdds.all (fun o => multOk o.2))
  chk (tk.kycOk creator)
  let m ← getMarket s pl.market
  chk (m.status == MS_ACTIVE)
  chk (decide (s.time ≤ m.endTS))
  chk (m.odds.contains pl.odds)
  chk (m.odds.length == (pl.allOdds.map (·.1)).eraseDups.length)
  chk (m.odds.all (fun o => pl.allOdds.any (fun x => x.1 == o)))
  chk (decide (s.params.betMin ≤ amount))
  let fee := s.params.betFee
  let amt := amount - fee
  let ov ← pl.oddsVal
  chk (decide (PREC < ov.raw))                                               -- odds must be > 1
  let payoutProfit := (ov.mulInt amt).sub (Dec.ofInt amt)
  let betId := s.betCount + 1
  let b ← getBook s pl.market
  let r ← processWager b pl.odds betId ov pl.mult m.odds pl.allOdds (s.params.obThreshold : Nat) amt payoutProfit
  let s1 ← bankSend s creator ACC_BETFEE fee
  let s2 ← bankSend s1 creator ACC_POOL r.2.2
  let bet := newBet s creator uid pl ov r.2.1
  pure { (setBook s2 r.1) with bets := upsert Bet.key bet s2.bets,
                               pending := upsert (fun x => [x.1, x.2.1]) (pl.market, betId, uid, creator) s2.pending,
                               betCount := betId }

def wager (s : State) (creator : Nat) (tk : Tk) (uid : Nat) (amount : Int) (pl : WagerPayload) : State × Res :=
  commit s (wagerO s creator tk uid amount pl)

-- ---------------------------------------------------------------------------------------------
-- x/bet : settlement (EndBlocker)

/-- BettorLoses on the book: `none` = participation not found -/
def bettorLoses (b : Book) : List Fulf → Option Book
  | [] => some b
  | f :: rest => do
    let p ← b.getPart f.idx
    bettorLoses (b.setPart { p with actualProfit := p.actualProfit + f.bet }) rest

/-- BettorWins: pays stake + profit of every part from the pool; `none` = not found or pool short -/
def bettorWins (bal : List (Nat × Int)) (bettor : Nat) (b : Book) : List Fulf → Option (List (Nat × Int) × Book)
  | [] => some (bal, b)
  | f :: rest => do
    let p ← b.getPart f.idx
    let bal' ← transfer bal ACC_POOL bettor (f.profit + f.bet)
    bettorWins bal' bettor (b.setPart { p with actualProfit := p.actualProfit - f.profit }) rest

/-- updateSettlementState -/
def markSettled (s : State) (bet : Bet) : State :=
  let bet := { bet with settleHeight := s.height }
  { s with bets := upsert Bet.key bet s.bets,
           pending := remove (fun x => [x.1, x.2.1]) [bet.market, bet.id] s.pending,
           settled := upsert (fun x => [x.1, x.2.1]) (s.height, bet.id, bet.uid, bet.creator) s.settled }

/-- the refund branch of Settle (market cancelled or aborted) -/
def settleRefund (s : State) (bet : Bet) : Option State := do
  let s1 ← bankSend s ACC_POOL bet.creator bet.amount
  let s2 ← bankSend s1 ACC_BETFEE bet.creator bet.fee
  pure (markSettled s2 { bet with status := BS_SETTLED, result := BR_REFUNDED })

/-- settleResolved: pay a winner, or book the stakes of a loser -/
def settleOutcome (bal : List (Nat × Int)) (won : Bool) (bettor : Nat) (b : Book) (fulfs : List Fulf) : Option (List (Nat × Int) × Book) :=
  if won then bettorWins bal bettor b fulfs else (bettorLoses b fulfs).map fun b' => (bal, b')

/-- the declared-result branch of Settle -/
def settleDeclared (s : State) (bet : Bet) (m : Market) : Option State := do
  let b ← getBook s bet.market
  let won := m.winners.contains bet.odds
  let r ← settleOutcome s.bal won bet.creator b bet.fulfs
  let s1 := setBook { s with bal := r.1 } r.2
  let s2 ← bankSend s1 ACC_BETFEE m.creator bet.fee
  pure (markSettled s2 { bet with status := BS_SETTLED, result := if won then BR_WON else BR_LOST })

/-- Settle: `none` = error (in the end-blocker: halt) -/
def settleBet (s : State) (creator uid : Nat) : Option State := do
  let bet0 ← s.bets.find? (fun b => b.uid == uid)
  let bet ← lookup Bet.key [creator, bet0.id] s.bets
  chk (!(bet.status == BS_SETTLED || bet.status == BS_CANCELED))
  let m ← getMarket s bet.market
  if m.status == MS_ABORTED || m.status == MS_CANCELED then settleRefund s bet
  else do
    chk (m.status == MS_DECLARED)
    settleDeclared s bet m

/-- batchMarketSettlement: settle the bets of one page (the first `n` pending bets of the market) -/
def settlePage (s : State) : List (Nat × Nat × Nat × Nat) → Option (State × Nat)
  | [] => some (s, 0)
  | pb :: rest => do
    let s1 ← settleBet s pb.2.2.2 pb.2.2.1
    let r ← settlePage s1 rest
    pure (r.1, r.2 + 1)

/-- SetOrderBookAsUnsettledResolved -/
def bookResolved (s : State) (uid : Nat) : Option State := do
  let b ← getBook s uid
  chk (b.status == OB_ACTIVE)
  pure { (setBook s { b with status := OB_RESOLVED }) with obqueue := s.obqueue ++ [uid] }

/-- one iteration of BatchMarketSettlements for the market at the head of the queue: returns the new state
    and the number of bets settled -/
def betEndBlockStep (s : State) (mk : Nat) (toFetch : Nat) : Option (State × Nat) := do
  let page := (s.pending.filter (fun x => x.1 == mk)).take toFetch
  let r ← settlePage s page
  if r.1.pending.any (fun x => x.1 == mk) then pure r
  else do
    let q ← goRemove r.1.mqueue mk
    let s2 ← bookResolved { r.1 with mqueue := q } mk
    pure (s2, r.2)

/-- BatchMarketSettlements; `fuel` bounds the loop (|queue| + 1 suffices) -/
def betEndBlock : Nat → State → Nat → Option State
  | 0, s, _ => some s
  | fuel + 1, s, toFetch =>
    if toFetch = 0 then some s
    else match s.mqueue with
      | [] => some s
      | mk :: _ => do
        let r ← betEndBlockStep s mk toFetch
        betEndBlock fuel r.1 (toFetch - r.2)

-- ---------------------------------------------------------------------------------------------
-- x/orderbook : settlement (EndBlocker)

/-- what a participation is paid from the pool: liquidity ± realised profit on a declared result, else liquidity -/
def Part.payout (p : Part) (m : Market) : Int :=
  if m.status == MS_DECLARED then p.liq + p.actualProfit else p.liq

/-- fee back to the depositor iff cancelled/aborted or the participation never received any stake -/
def Part.feeToDepositor (p : Part) (m : Market) : Bool :=
  if m.status == MS_DECLARED then decide (p.totalBet = 0) else true

/-- settleParticipation -/
def settlePart (s : State) (b : Book) (p : Part) (m : Market) : Option (State × Book) := do
  chk (!p.isSettled)
  chk (m.status == MS_DECLARED || m.status == MS_CANCELED || m.status == MS_ABORTED)
  let ret := p.payout m
  let s1 ← bankSend s ACC_POOL p.addr ret
  if p.feeToDepositor m then do
    let s2 ← bankSend s1 ACC_HOUSEFEE p.addr p.fee
    pure (s2, b.setPart { p with returned := ret + p.fee, reimbursedFee := p.fee, isSettled := true })
  else do
    let s2 ← bankSend s1 ACC_HOUSEFEE m.creator p.fee
    pure (s2, b.setPart { p with returned := ret, isSettled := true })

/-- one step of the participation loop: settle the participation unless it already is -/
def settleOne (s : State) (b : Book) (p : Part) (m : Market) (settledCount : Nat) : Option (State × Book × Nat) :=
  if !p.isSettled then (settlePart s b p m).map fun r => (r.1, r.2, settledCount + 1) else some (s, b, settledCount)

/-- batchSettlementOfParticipation: returns (state, book, settledCount, processed) -/
def settleParts (m : Market) (count : Nat) : List Part → State → Book → Nat → Nat → Option (State × Book × Nat × Nat)
  | [], s, b, settledCount, processed => some (s, b, settledCount, processed)
  | p :: rest, s, b, settledCount, processed => do
    let r ← settleOne s b p m settledCount
    if r.2.2 ≥ count then pure (r.1, r.2.1, r.2.2, processed + 1)
    else settleParts m count rest r.1 r.2.1 r.2.2 (processed + 1)

/-- BatchOrderBookSettlements -/
def obEndBlock : Nat → State → Nat → Nat → Option State
  | 0, s, _, _ => some s
  | fuel + 1, s, toFetch, index =>
    if toFetch = 0 then some s
    else match s.obqueue[index]? with
      | none => some s
      | some uid => do
        let b ← getBook s uid
        let m ← getMarket s uid
        chk (b.status == OB_RESOLVED)
        let r ← settleParts m toFetch b.parts s b 0 0
        if r.2.2.2 == b.parts.length then do
          let q ← goRemove r.1.obqueue uid
          obEndBlock fuel (setBook { r.1 with obqueue := q } { r.2.1 with status := OB_SETTLED }) (toFetch - r.2.2.1) index
        else obEndBlock fuel (setBook r.1 r.2.1) (toFetch - r.2.2.1) (index + 1)

/-- the end-blockers of the core modules in app order: bet, then orderbook -/
def endBlockO (s : State) : Option State := do
  let s1 ← betEndBlock (s.mqueue.length + 1) s s.params.betBatch
  obEndBlock (s1.obqueue.length + 1) s1 s.params.obBatch 0

def endBlock (s : State) : State × Res :=
  match endBlockO s with
  | some s' => (s', .ok)
  | none => (s, .halt)

end Sge.Core
