/-
  Core slice: records of x/market, x/orderbook, x/bet, x/house and the contract-level bank / authz.
  Identifiers (accounts, market / odds / bet UIDs) are `Nat`s whose numeric order equals the byte order
  of the real keys (the harness allocates UUIDs and addresses that way), so list order = KV iteration order.
-/
import Sge.Dec
namespace Sge.Core
open Sge

-- market status codes = the protobuf enum values
abbrev MS_ACTIVE : Nat := 1
abbrev MS_INACTIVE : Nat := 2
abbrev MS_CANCELED : Nat := 3
abbrev MS_ABORTED : Nat := 4
abbrev MS_DECLARED : Nat := 5
-- order book status
abbrev OB_ACTIVE : Nat := 1
abbrev OB_RESOLVED : Nat := 2
abbrev OB_SETTLED : Nat := 3
-- bet status / result
abbrev BS_PLACED : Nat := 1
abbrev BS_DECLARED : Nat := 5
abbrev BS_SETTLED : Nat := 6
abbrev BS_CANCELED : Nat := 2
abbrev BR_PENDING : Nat := 1
abbrev BR_WON : Nat := 2
abbrev BR_LOST : Nat := 3
abbrev BR_REFUNDED : Nat := 4
-- withdrawal mode
abbrev WM_FULL : Nat := 1
abbrev WM_PARTIAL : Nat := 2

-- module accounts (ids above every user account id)
abbrev ACC_POOL : Nat := 1000001
abbrev ACC_BETFEE : Nat := 1000002
abbrev ACC_HOUSEFEE : Nat := 1000003

structure Market where
  uid : Nat
  creator : Nat
  startTS : Nat
  endTS : Nat
  odds : List Nat
  status : Nat
  winners : List Nat := []
  resolutionTS : Nat := 0
deriving Repr, Inhabited, DecidableEq

/-- OrderBookParticipation -/
structure Part where
  idx : Nat
  addr : Nat
  liq : Int
  fee : Int
  crl : Int                 -- CurrentRoundLiquidity
  notFilled : Nat           -- ExposuresNotFilled (uint64, wraps)
  totalBet : Int
  crTotalBet : Int
  maxLoss : Int
  crMaxLoss : Int
  crMaxLossOdds : Nat       -- 0 = ""
  actualProfit : Int
  isSettled : Bool := false
  returned : Int := 0
  reimbursedFee : Int := 0
deriving Repr, Inhabited, DecidableEq

/-- ParticipationExposure -/
structure PExp where
  odds : Nat
  idx : Nat
  exposure : Int
  bet : Int
  fulfilled : Bool
  round : Nat
deriving Repr, Inhabited, DecidableEq

/-- BetFulfillment -/
structure Fulf where
  addr : Nat
  idx : Nat
  bet : Int
  profit : Int
deriving Repr, Inhabited, DecidableEq

/-- everything x/orderbook stores under one book uid -/
structure Book where
  uid : Nat
  partCount : Nat := 0
  oddsCount : Nat
  status : Nat := OB_ACTIVE
  queues : List (Nat × List Nat)        -- OrderBookOddsExposure per outcome (sorted by outcome): fulfilment queue
  parts : List Part := []               -- sorted by index
  pexps : List PExp := []               -- current exposures sorted by (outcome, index)
  hist : List PExp := []                -- historical exposures sorted by (outcome, index, round)
  pairs : List (Nat × Nat) := []        -- ParticipationBetPair (index, bet id), sorted
deriving Repr, Inhabited

structure Bet where
  uid : Nat
  id : Nat
  creator : Nat
  market : Nat
  odds : Nat
  oddsVal : Dec
  amount : Int
  fee : Int
  status : Nat
  result : Nat
  mult : Dec
  createdAt : Nat
  settleHeight : Nat := 0
  fulfs : List Fulf
deriving Repr, Inhabited

structure Deposit where
  creator : Nat
  depositor : Nat
  market : Nat
  idx : Nat
  amount : Int
  wcount : Nat := 0
  wtotal : Int := 0
deriving Repr, Inhabited

structure Withdrawal where
  id : Nat
  creator : Nat
  addr : Nat
  market : Nat
  idx : Nat
  amount : Int
  mode : Nat
deriving Repr, Inhabited

/-- authz grant for house deposit (kind 0) / withdraw (kind 1): granter → grantee, remaining limit, expiry -/
structure Grant where
  granter : Nat
  grantee : Nat
  kind : Nat
  limit : Int
  expiry : Option Nat    -- none = no expiration
deriving Repr, Inhabited

structure Params where
  betBatch : Nat := 1000
  betMin : Int := 1000000
  betFee : Int := 100
  houseMin : Int := 100
  houseFee : Dec := ⟨PREC / 10⟩
  houseMaxW : Nat := 1
  obMaxPart : Nat := 100
  obBatch : Nat := 100
  obThreshold : Nat := 1000
deriving Repr, Inhabited

/-- the chain state of the core slice -/
structure State where
  bal : List (Nat × Int) := []              -- bank balances (single denom), sorted by account id
  markets : List Market := []               -- sorted by uid
  mqueue : List Nat := []                   -- market stats: resolved, bets not yet settled
  books : List Book := []                   -- sorted by uid
  obqueue : List Nat := []                  -- order-book stats: resolved, participations not yet paid
  bets : List Bet := []                     -- sorted by (creator, id)
  pending : List (Nat × Nat × Nat × Nat) := []   -- (market, id, uid, creator) sorted by (market, id)
  settled : List (Nat × Nat × Nat × Nat) := []   -- (height, id, uid, creator) sorted by (height, id)
  betCount : Nat := 0
  deposits : List Deposit := []             -- sorted by (depositor, market, idx)
  withdrawals : List Withdrawal := []       -- sorted by (addr, market, idx, id)
  grants : List Grant := []
  params : Params := {}
  height : Nat := 1
  time : Nat := 0
deriving Repr, Inhabited

inductive Res where
  | ok
  | err
  | halt
deriving Repr, DecidableEq, Inhabited

/-- uint64 decrement with wrap-around -/
def wrapDec (n : Nat) : Nat := if n = 0 then 18446744073709551615 else n - 1

end Sge.Core
