/- ordered association lists standing for KV-store prefixes (iteration order = key order) and the bank -/
import Sge.Core.Types
namespace Sge.Core
open Sge

def ltL : List Nat → List Nat → Bool
  | [], [] => false
  | [], _ :: _ => true
  | _ :: _, [] => false
  | a :: as, b :: bs => a < b || (a == b && ltL as bs)

/-- insert or replace by key, keeping the list sorted by key -/
def upsert {α : Type} (key : α → List Nat) (x : α) : List α → List α
  | [] => [x]
  | y :: ys =>
    if key y == key x then x :: ys
    else if ltL (key x) (key y) then x :: y :: ys
    else y :: upsert key x ys

def lookup {α : Type} (key : α → List Nat) (k : List Nat) (l : List α) : Option α :=
  l.find? (fun y => key y == k)

def remove {α : Type} (key : α → List Nat) (k : List Nat) (l : List α) : List α :=
  l.filter (fun y => !(key y == k))

-- ---------------------------------------------------------------------------------------------
-- bank (single denom). `transfer` is the only operation: the core modules never mint or burn.

def getBal : List (Nat × Int) → Nat → Int
  | [], _ => 0
  | (k, w) :: rest, a => if k = a then w else getBal rest a

def setBal : List (Nat × Int) → Nat → Int → List (Nat × Int)
  | [], a, v => [(a, v)]
  | (k, w) :: rest, a, v =>
    if k = a then (a, v) :: rest else (k, w) :: setBal rest a v

/-- SendCoins: fails on a negative amount (sdk.NewCoin panics → the message fails) and on insufficient funds;
    a zero amount is a no-op (empty Coins). -/
def transfer (b : List (Nat × Int)) (src dst : Nat) (amt : Int) : Option (List (Nat × Int)) :=
  if amt < 0 then none
  else if getBal b src < amt then none
  else if amt = 0 then some b
  else
    let b1 := setBal b src (getBal b src - amt)
    some (setBal b1 dst (getBal b1 dst + amt))

def totalBal (b : List (Nat × Int)) : Int := (b.map (·.2)).sum

-- ---------------------------------------------------------------------------------------------
-- keyed access to the stores of `State` / `Book`

def Market.key (m : Market) : List Nat := [m.uid]
def Book.key (b : Book) : List Nat := [b.uid]
def Part.key (p : Part) : List Nat := [p.idx]
def PExp.key (e : PExp) : List Nat := [e.odds, e.idx]
def PExp.hkey (e : PExp) : List Nat := [e.odds, e.idx, e.round]
def Bet.key (b : Bet) : List Nat := [b.creator, b.id]
def Deposit.key (d : Deposit) : List Nat := [d.depositor, d.market, d.idx]
def Withdrawal.key (w : Withdrawal) : List Nat := [w.addr, w.market, w.idx, w.id]

def getMarket (s : State) (uid : Nat) : Option Market := lookup Market.key [uid] s.markets
def setMarket (s : State) (m : Market) : State := { s with markets := upsert Market.key m s.markets }
def getBook (s : State) (uid : Nat) : Option Book := lookup Book.key [uid] s.books
def setBook (s : State) (b : Book) : State := { s with books := upsert Book.key b s.books }

def Book.getPart (b : Book) (i : Nat) : Option Part := lookup Part.key [i] b.parts
def Book.setPart (b : Book) (p : Part) : Book := { b with parts := upsert Part.key p b.parts }
def Book.getExp (b : Book) (o i : Nat) : Option PExp := lookup PExp.key [o, i] b.pexps
def Book.setExp (b : Book) (e : PExp) : Book := { b with pexps := upsert PExp.key e b.pexps }
def Book.delExp (b : Book) (o i : Nat) : Book := { b with pexps := remove PExp.key [o, i] b.pexps }
def Book.setHist (b : Book) (e : PExp) : Book := { b with hist := upsert PExp.hkey e b.hist }
def Book.getQueue (b : Book) (o : Nat) : Option (List Nat) := (b.queues.find? (fun q => q.1 == o)).map (·.2)
def Book.setQueue (b : Book) (o : Nat) (q : List Nat) : Book :=
  { b with queues := upsert (fun x => [x.1]) (o, q) b.queues }
def Book.addPair (b : Book) (i betId : Nat) : Book :=
  { b with pairs := upsert (fun x => [x.1, x.2]) (i, betId) b.pairs }

/-- GetExposureByOrderBookAndParticipationIndex: the exposures of one participation, ordered by outcome -/
def Book.expsOfIdx (b : Book) (i : Nat) : List PExp := b.pexps.filter (fun e => e.idx == i)
/-- GetExposureByOrderBookAndOdds -/
def Book.expsOfOdds (b : Book) (o : Nat) : List PExp := b.pexps.filter (fun e => e.odds == o)

/-- Go: `for i, pn := range q { if pn == idx { q = append(q[:i], q[i+1:]...) } }` — the loop ranges over the
    original length while the shared backing array is shifted in place. `arr` is the backing array (fixed
    length), `len` the current slice length, `i` the loop position, `n` the number of positions left. -/
def goRemoveAux (idx : Nat) : Nat → Nat → List Nat → Nat → Option (List Nat × Nat)
  | 0, _, arr, len => some (arr, len)
  | n + 1, i, arr, len =>
    if arr.getD i 0 == idx then
      if i < len then
        -- shift arr[i+1 .. len-1] one to the left (the element at len-1 stays duplicated in the backing array)
        let arr' := (arr.take i) ++ ((arr.drop (i + 1)).take (len - 1 - i)) ++ (arr.drop (len - 1))
        goRemoveAux idx n (i + 1) arr' (len - 1)
      else none        -- q[i+1:] with i+1 > len(q): slice bounds out of range, the handler panics
    else goRemoveAux idx n (i + 1) arr len

def goRemove (q : List Nat) (idx : Nat) : Option (List Nat) :=
  (goRemoveAux idx q.length 0 q q.length).map (fun r => r.1.take r.2)

end Sge.Core
