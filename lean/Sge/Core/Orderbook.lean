/-
  x/orderbook: participation bookkeeping (types/participation.go, types/exposure.go), the wager path
  (keeper/bet_wager.go), deposits and withdrawals (keeper/participation.go, keeper/exposure_odds.go).
  Staged so that each stage can be unfolded on its own in proofs. Mirrors the code as it is.
-/
import Sge.Core.Store
namespace Sge.Core
open Sge

/-- a check of a handler: `none` = the message fails -/
def chk (c : Bool) : Option Unit := if c then some () else none

-- ---------------------------------------------------------------------------------------------
-- types/participation.go

/-- IsEligibleForNextRoundPreLiquidityReduction -/
def Part.eligiblePre (p : Part) : Bool := decide (p.crl - maxI 0 p.crMaxLoss > 0)

/-- setMaxLoss (the `IsNil` branch is dead: a nil Int is stored as 0) -/
def setMaxLoss (p : Part) (e : PExp) (o : Nat) (bAmt : Int) : Part :=
  let ml := e.exposure + e.bet - p.crTotalBet
  if p.crMaxLossOdds == o then { p with crMaxLoss := ml }
  else
    let orig := p.crMaxLoss - bAmt
    if ml > orig then { p with crMaxLoss := ml, crMaxLossOdds := o } else { p with crMaxLoss := orig }

/-- calcAvailableLiquidity: trunc(mult · CRL − exposure) -/
def availLiq (mult : Dec) (p : Part) (e : PExp) : Int :=
  ((mult.mulInt p.crl).sub (Dec.ofInt e.exposure)).truncInt

/-- maxWithdrawalAmount -/
def Part.maxWithdraw (p : Part) : Int := if p.crMaxLoss < 0 then p.crl else p.crl - p.crMaxLoss

-- ---------------------------------------------------------------------------------------------
-- x/bet/types/payout.go

/-- CalculateBetAmountInt: bet amount for a payout profit, with the carried rounding residual -/
def calcBetAmountInt (oddsVal : Dec) (avail : Int) (tr : Dec) : Int × Dec :=
  let expct := ((Dec.ofInt avail).quo (oddsVal.sub Dec.one)).add tr
  let bAmt := expct.roundInt
  (bAmt, tr.add (expct.sub (Dec.ofInt bAmt)))

-- ---------------------------------------------------------------------------------------------
-- the wager loop

/-- fulfillmentInfo -/
structure FInfo where
  book : Book
  betId : Nat
  betAmount : Int
  payoutProfit : Dec
  fulfilled : Int := 0
  uq : List Nat                         -- updatedfulfillmentQueue
  fulfs : List Fulf := []
  trunc : Dec := ⟨0⟩
  fmap : List (Nat × Part × PExp)       -- fulfillmentMap: participation and its exposure for the wagered outcome
  allExp : List PExp                    -- snapshot of all exposures at the start of the wager (allExposures)
  err : Bool := false
deriving Repr, Inhabited

/-- fulfillmentMap[i]; a missing entry is a zero-valued item in Go, whose nil amounts panic at first use:
    the wager fails -/
def FInfo.item (f : FInfo) (i : Nat) : Option (Part × PExp) :=
  (f.fmap.find? (fun x => x.1 == i)).map fun x => (x.2.1, x.2.2)

/-- MoveToHistorical + NextRound for one exposure of the participation being re-queued -/
def rollOne (elig : Bool) (oddsCur idx : Nat) (acc : Book × PExp × List (Nat × Part × PExp)) (pe : PExp)
    : Book × PExp × List (Nat × Part × PExp) :=
  let b := (acc.1.setHist pe).delExp pe.odds pe.idx
  if elig then
    let ne : PExp := { odds := pe.odds, idx := pe.idx, exposure := 0, bet := 0, fulfilled := false, round := pe.round + 1 }
    let b := b.setExp ne
    if pe.odds == oddsCur then
      (b, ne, acc.2.2.map fun x => if x.1 == idx then (x.1, x.2.1, ne) else x)
    else (b, acc.2.1, acc.2.2)
  else (b, acc.2.1, acc.2.2)

/-- prepareOddsExposuresForNextRound for one outcome: drop the index when it is at the head, append it -/
def requeueOdds (idx : Nat) (b : Book) (oq : Nat × List Nat) : Book :=
  let q1 := match oq.2 with
    | h :: t => if h == idx then t else oq.2
    | [] => oq.2
  b.setQueue oq.1 (q1 ++ [idx])

/-- refreshQueueAndState -/
def requeue (f : FInfo) (p : Part) (e : PExp) (oddsCur : Nat) : FInfo :=
  let p := { p with crl := p.crl - maxI 0 p.crMaxLoss }            -- TrimCurrentRoundLiquidity
  let elig : Bool := decide ((0 : Int) < p.crl)
  let r := (f.book.expsOfIdx p.idx).foldl (rollOne elig oddsCur p.idx) (f.book, e, f.fmap)
  let p := { p with notFilled := r.1.oddsCount, maxLoss := p.maxLoss + p.crMaxLoss, crTotalBet := 0, crMaxLoss := 0 }
  let fmap := r.2.2.map fun x => if x.1 == p.idx then (x.1, p, x.2.2) else x
  let b := r.1.setPart p
  if elig then
    let b := b.queues.foldl (requeueOdds p.idx) b
    { f with book := b, uq := f.uq ++ [p.idx], fmap := fmap }
  else { f with book := b, fmap := fmap }

/-- what one queue visit decides: optional fulfilment (bet amount, payout profit), whether the exposure is
    closed, and the new rounding residual -/
def decide1 (oddsVal : Dec) (thr : Int) (avail pp betAmount : Int) (tr : Dec) : Option (Int × Int) × Bool × Dec :=
  if avail ≤ 0 then (none, true, tr)
  else if avail ≤ pp then
    let r := calcBetAmountInt oddsVal avail tr
    (some (r.1, avail), true, r.2)
  else (some (betAmount, pp), decide (avail - pp ≤ thr), tr)

/-- `fulfill`: SetCurrentRound on the exposure and on the participation -/
def applyFul (oddsCur : Nat) (p : Part) (e : PExp) (bAmt π : Int) : Part × PExp :=
  let e := { e with exposure := e.exposure + π, bet := e.bet + bAmt }
  let p := { p with totalBet := p.totalBet + bAmt, crTotalBet := p.crTotalBet + bAmt }
  (setMaxLoss p e oddsCur bAmt, e)

/-- checkFullfillmentForOtherOdds for one other outcome (multiplier from the ticket's odds map) -/
def secondaryOne (oddsCur : Nat) (thr : Int) (allExp : List PExp) (mults : List (Nat × Dec))
    (acc : Part × Book × Bool) (o : Nat) : Part × Book × Bool :=
  if o == oddsCur then acc else
  match allExp.find? (fun x => x.odds == o && x.idx == acc.1.idx) with
  | none => (acc.1, acc.2.1, true)                         -- ErrParticipationExposuresNotFound
  | some x =>
    if x.fulfilled then acc
    else match (mults.filter (fun m => m.1 == o)).getLast? with
      | none => (acc.1, acc.2.1, true)                     -- ErrOddsDataNotFound
      | some m =>
        if availLiq m.2 acc.1 x ≤ thr then
          let b := acc.2.1.setExp { x with fulfilled := true }
          -- removeFromFulfillmentQueue: the closed exposure no longer waits in its outcome's queue
          let b := match b.getQueue o with
            | some q => b.setQueue o (q.filter (fun i => i != acc.1.idx))
            | none => b
          ({ acc.1 with notFilled := wrapDec acc.1.notFilled }, b, acc.2.2)
        else acc

/-- stage 1: decide and apply the fulfilment to the in-process item `pe` -/
def stage1 (oddsCur : Nat) (oddsVal mult : Dec) (thr : Int) (f : FInfo) (pe : Part × PExp) : Part × PExp × Bool × FInfo :=
  let avail := availLiq mult pe.1 pe.2
  let pp := f.payoutProfit.truncInt
  let d := decide1 oddsVal thr avail pp f.betAmount f.trunc
  match d.1 with
  | some (bAmt, π) =>
    let r := applyFul oddsCur pe.1 pe.2 bAmt π
    let fl : Fulf := { addr := r.1.addr, idx := r.1.idx, bet := bAmt, profit := π }
    (r.1, r.2, d.2.1,
      { f with trunc := d.2.2, fulfs := f.fulfs ++ [fl], betAmount := f.betAmount - bAmt,
               fulfilled := f.fulfilled + bAmt, payoutProfit := f.payoutProfit.sub (Dec.ofInt π),
               book := f.book.addPair r.1.idx f.betId })
  | none => (pe.1, pe.2, d.2.1, { f with trunc := d.2.2 })

/-- stage 2: close the exposure, drop the queue head, secondary closing of the other outcomes -/
def stage2 (oddsCur : Nat) (marketOdds : List Nat) (mults : List (Nat × Dec)) (thr : Int)
    (x : Part × PExp × Bool × FInfo) : Part × PExp × FInfo :=
  if x.2.2.1 then
    let e := { x.2.1 with fulfilled := true }
    let p := { x.1 with notFilled := wrapDec x.1.notFilled }
    let f := { x.2.2.2 with uq := x.2.2.2.uq.drop 1 }
    if p.eligiblePre && p.notFilled != 0 then
      let r := marketOdds.foldl (secondaryOne oddsCur thr f.allExp mults) (p, f.book, f.err)
      (r.1, e, { f with book := r.2.1, err := r.2.2 })
    else (p, e, f)
  else (x.1, x.2.1, x.2.2.2)

/-- stage 3: write back and re-queue when every exposure is closed -/
def stage3 (oddsCur : Nat) (x : Part × PExp × FInfo) : FInfo :=
  let f := { x.2.2 with book := (x.2.2.book.setExp x.2.1).setPart x.1 }
  if x.1.notFilled == 0 && x.1.eligiblePre then requeue f x.1 x.2.1 oddsCur else f

def visit (oddsCur : Nat) (oddsVal mult : Dec) (marketOdds : List Nat) (mults : List (Nat × Dec)) (thr : Int)
    (f : FInfo) (i : Nat) : FInfo :=
  match f.item i with
  | none => { f with err := true }
  | some pe => stage3 oddsCur (stage2 oddsCur marketOdds mults thr (stage1 oddsCur oddsVal mult thr f pe))

/-- fulfillBetByParticipationQueue: the loop runs over the queue as read at the start of the wager -/
def loop (oddsCur : Nat) (oddsVal mult : Dec) (marketOdds : List Nat) (mults : List (Nat × Dec)) (thr : Int)
    : List Nat → FInfo → FInfo
  | [], f => f
  | i :: rest, f =>
    let f := visit oddsCur oddsVal mult marketOdds mults thr f i
    if f.err then f
    else if f.payoutProfit.raw < PREC || rest.isEmpty then f
    else loop oddsCur oddsVal mult marketOdds mults thr rest f

/-- initFulfillmentInfo: the consistency checks and the in-memory fulfilment map -/
def initFInfo (b : Book) (oddsCur betId : Nat) (betAmount : Int) (payoutProfit : Dec) (q : List Nat) : Option FInfo := do
  let pes := b.expsOfOdds oddsCur
  let idxs := (b.pexps.map (·.idx)).eraseDups
  chk (b.parts.length == b.partCount)
  chk (pes.length == b.partCount)
  chk (idxs.length == b.partCount)
  chk (b.parts.all (fun p => idxs.contains p.idx))
  pure { book := b, betId := betId, betAmount := betAmount, payoutProfit := payoutProfit, uq := q,
         fmap := b.parts.map fun p => (p.idx, p, (pes.find? (fun e => e.idx == p.idx)).getD default),
         allExp := b.pexps }

/-- the end of ProcessWager: error propagation, ErrInsufficientLiquidityInOrderBook, final queue write -/
def finishWager (oddsCur : Nat) (f : FInfo) : Option (Book × List Fulf × Int) :=
  if f.err then none
  else if f.payoutProfit.raw ≥ PREC then none
  else some (f.book.setQueue oddsCur f.uq, f.fulfs, f.fulfilled)

/-- ProcessWager without the bank part: returns the updated book, the parts and the stake taken -/
def processWager (b : Book) (oddsCur betId : Nat) (oddsVal mult : Dec) (marketOdds : List Nat)
    (mults : List (Nat × Dec)) (thr : Int) (betAmount : Int) (payoutProfit : Dec)
    : Option (Book × List Fulf × Int) := do
  let q ← b.getQueue oddsCur
  let f0 ← initFInfo b oddsCur betId betAmount payoutProfit q
  finishWager oddsCur (loop oddsCur oddsVal mult marketOdds mults thr q f0)

-- ---------------------------------------------------------------------------------------------
-- deposits and withdrawals

/-- initParticipationExposures -/
def initExposures (idx : Nat) (b : Book) (oq : Nat × List Nat) : Book :=
  (b.setQueue oq.1 (oq.2 ++ [idx])).setExp
    { odds := oq.1, idx := idx, exposure := 0, bet := 0, fulfilled := false, round := 1 }

/-- NewOrderBookParticipation for the next index of the book -/
def Book.newPart (b : Book) (addr : Nat) (liquidity fee : Int) : Part :=
  { idx := b.partCount + 1, addr := addr, liq := liquidity, fee := fee, crl := liquidity,
    notFilled := b.oddsCount, totalBet := 0, crTotalBet := 0, maxLoss := 0, crMaxLoss := 0,
    crMaxLossOdds := 0, actualProfit := 0 }

/-- the book part of InitiateOrderBookParticipation -/
def Book.addParticipation (b : Book) (addr : Nat) (liquidity fee : Int) : Book × Nat :=
  let b1 := b.setPart (b.newPart addr liquidity fee)
  let b2 := b1.queues.foldl (initExposures (b.partCount + 1)) b1
  ({ b2 with partCount := b.partCount + 1 }, b.partCount + 1)

/-- WithdrawableAmount: full mode takes everything withdrawable (must be positive), partial mode the requested
    amount (must not exceed the withdrawable amount) -/
def withdrawable (mode : Nat) (mx amount : Int) : Option Int :=
  if mode == WM_FULL then (if mx ≤ 0 then none else some mx)
  else if mode == WM_PARTIAL then (if mx < amount then none else some amount)
  else none

/-- CalcWithdrawalAmount (participation side) -/
def calcWithdrawal (b : Book) (idx depositor : Nat) (mode : Nat) (amount totalWithdrawn : Int) : Option Int := do
  let p ← b.getPart idx
  chk (!p.isSettled)
  chk (p.addr == depositor)
  let e0 ← (b.expsOfIdx idx).head?
  chk (e0.round == 1)
  chk (!(mode == WM_PARTIAL && decide (p.liq - totalWithdrawn < amount)))
  withdrawable mode p.maxWithdraw amount

/-- removeNotWithdrawableFromFulfillmentQueue over all outcomes; `none` = the Go slice expression panics -/
def removeFromQueues (idx : Nat) : List (Nat × List Nat) → Book → Option Book
  | [], b => some b
  | oq :: rest, b =>
    match goRemove oq.2 idx with
    | none => none
    | some q => removeFromQueues idx rest (b.setQueue oq.1 q)

/-- the book part of WithdrawOrderBookParticipation -/
def Book.withdraw (b : Book) (idx : Nat) (w : Int) : Option Book :=
  match b.getPart idx with
  | none => none
  | some p =>
    let p := { p with crl := p.crl - w, liq := p.liq - w }
    let b := b.setPart p
    if p.crl > 0 then some b else removeFromQueues idx b.queues b

end Sge.Core
