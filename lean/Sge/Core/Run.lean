/- the core slice as a state machine: operations, `step`, `run` -/
import Sge.Core.Chain
namespace Sge.Core
open Sge

/-- validators of x/bet, x/house, x/orderbook parameters (types/params.go of the three modules) -/
def Params.valid (p : Params) : Bool :=
  decide (0 < p.betBatch) && decide (1 < p.betMin) && decide (0 ≤ p.betFee) &&
  decide (1 < p.houseMin) && decide (0 ≤ p.houseFee.raw) && decide (1 ≤ p.houseMaxW) &&
  decide (0 < p.obMaxPart) && decide (0 < p.obBatch)

inductive Op where
  | marketAdd (creator : Nat) (tk : Tk) (uid startTS endTS : Nat) (odds : List Nat) (status : Nat)
  | marketUpdate (tk : Tk) (uid startTS endTS status : Nat)
  | marketResolve (tk : Tk) (uid resolutionTS status : Nat) (winners : List Nat)
  | deposit (creator : Nat) (tk : Tk) (market : Nat) (amount : Int) (payloadDepositor : Nat)
  | withdraw (creator : Nat) (tk : Tk) (market idx mode : Nat) (amount : Int) (payloadDepositor : Nat)
  | wager (creator : Nat) (tk : Tk) (uid : Nat) (amount : Int) (pl : WagerPayload)
  | grant (granter grantee kind : Nat) (limit : Int) (expiry : Option Nat)   -- authz MsgGrant (environment)
  | revoke (granter grantee kind : Nat)                                      -- authz MsgRevoke (environment)
  | send (src dst : Nat) (amount : Int)                                      -- any other bank traffic between accounts
  | setParams (p : Params)                                                   -- MsgUpdateParams of bet / house / orderbook
  | endBlock
  | newBlock (height time : Nat)

/-- user accounts are the ids below the module accounts; `send` to a module account is rejected (blocked address) -/
def isModuleAcc (a : Nat) : Bool := a == ACC_POOL || a == ACC_BETFEE || a == ACC_HOUSEFEE

def step (s : State) : Op → State × Res
  | .marketAdd c tk u st en o stt => marketAdd s c tk u st en o stt
  | .marketUpdate tk u st en stt => marketUpdate s tk u st en stt
  | .marketResolve tk u ts stt w => marketResolve s tk u ts stt w
  | .deposit c tk m a pd => let r := houseDeposit s c tk m a pd; (r.1, r.2.1)
  | .withdraw c tk m i md a pd => houseWithdraw s c tk m i md a pd
  | .wager c tk u a pl => wager s c tk u a pl
  | .grant g e k l x =>
    let s1 := dropGrant s g e k
    ({ s1 with grants := s1.grants ++ [{ granter := g, grantee := e, kind := k, limit := l, expiry := x }] }, .ok)
  | .revoke g e k => (dropGrant s g e k, .ok)
  | .send a b x =>
    if isModuleAcc a || isModuleAcc b then (s, .err)
    else commit s (bankSend s a b x)
  | .setParams p => if p.valid then ({ s with params := p }, .ok) else (s, .err)
  | .endBlock => endBlock s
  | .newBlock h t => ({ s with height := h, time := t }, .ok)

def run (s : State) (ops : List Op) : State := ops.foldl (fun s op => (step s op).1) s

end Sge.Core
