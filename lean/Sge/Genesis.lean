/-
  Genesis export / validation / import of the eight custom modules (property C16), written collection by collection
  after x/*/genesis.go (ExportGenesis, InitGenesis) and x/*/types/genesis.go (Validate) of /repo.

  For every module `m`:
    `exportM  : state → genesis`            what ExportGenesis returns,
    `validateM : genesis → Nat`             the checks of `Validate` in the order of the code; `0` = no error, otherwise the
                                            number of the first failing check (the harness maps the error text to it),
    `importM  : genesis → state → state`    every `Set*` call of InitGenesis, in order, on the state of a fresh chain.

  Module states.  market, bet, house and orderbook live in the core `State` (lean/Sge/Core/Types.lean); the bet id
  (a key component, not a field of the stored record) is the `id` field of `Bet`, the uid → id store (0x01) is the
  pair of fields (`uid`, `id`); the two participation-exposure stores (by odds 0x03, by index 0x04) are the one list
  `Book.pexps` of the core model (the core suite's monitor `index_equal` checks that the real stores agree) — what the
  genesis code does with the two stores *separately* is modelled by `ExpStores` below.
  ovm: `Sge.Ovm.State`; subaccount: `Sge.Subaccount.State`; mint: `Sge.Mint.Minter × Sge.Mint.Params`;
  reward: `RewardStores`, the seven collections of x/reward with the fields the genesis code looks at and an opaque
  digest for the rest of every record.

  Variants (`Cfg`): `false` = the code as it is in /repo, `true` = the code with the corresponding patch
    houseFixed  : repo_patches/genesis_house_withdrawal_depositor.diff
    obFixed     : repo_patches/genesis_orderbook_validate_per_book.diff
    rewardFixed : repo_patches/genesis_reward_export_promoters.diff
    ovmFixed    : repo_patches/ovm_key_governance.diff (validatePubKeys rejects two encodings of one key)
-/
import Sge.Core.Run
import Sge.Ovm
import Sge.Subaccount
import Sge.Mint

namespace Sge.Genesis
open Sge Sge.Core

structure Cfg where
  houseFixed : Bool := false
  obFixed : Bool := false
  rewardFixed : Bool := false
  ovmFixed : Bool := false
deriving Repr, Inhabited, DecidableEq

/-- a list has two equal entries (the `map[string]struct{}` duplicate checks of the validators) -/
def hasDup : List Nat → Bool
  | [] => false
  | x :: xs => xs.contains x || hasDup xs

/-- write a list of records into a store, one `Set` per record, in list order -/
def setAll {α : Type} (key : α → List Nat) (l : List α) (store : List α) : List α :=
  l.foldl (fun acc x => upsert key x acc) store

/-- strictly increasing keys: the shape of a KV-store prefix scan (decidable; `Sorted` in SgeProofs is the Prop) -/
def sortedB {α : Type} (key : α → List Nat) : List α → Bool
  | [] => true
  | x :: xs => xs.all (fun y => ltL (key x) (key y)) && sortedB key xs

/-- first non-zero code of a list of checks -/
def firstErr : List Nat → Nat
  | [] => 0
  | c :: cs => if c != 0 then c else firstErr cs

-- =============================================================================================
-- x/market

structure MarketGen where
  markets : List Market
  stats : List Nat                 -- MarketStats.ResolvedUnsettled
deriving Repr, Inhabited

def exportMarket (s : State) : MarketGen := { markets := s.markets, stats := s.mqueue }

/-- 1 = duplicated market uid. (`Params` of x/market is empty and its `Validate` returns nil.) -/
def validateMarket (g : MarketGen) : Nat := if hasDup (g.markets.map (·.uid)) then 1 else 0

/-- `SetMarket` for every market, then `SetMarketStats` -/
def importMarket (g : MarketGen) (s : State) : State :=
  { s with markets := setAll Market.key g.markets s.markets, mqueue := g.stats }

-- =============================================================================================
-- x/bet

structure BetGen where
  bets : List Bet                  -- `id` is not part of the exported record (0 here)
  pending : List (Nat × Nat)       -- PendingBet (uid, creator)
  settled : List (Nat × Nat)       -- SettledBet (uid, bettor address)
  uid2id : List (Nat × Nat)        -- UID2ID (uid, id), in uid order
  count : Nat                      -- BetStats.Count
  batch : Nat
  minAmount : Int
  fee : Int
deriving Repr, Inhabited

def pendKey (x : Nat × Nat × Nat × Nat) : List Nat := [x.1, x.2.1]

def exportBet (s : State) : BetGen :=
  { bets := s.bets.map (fun b => { b with id := 0 }),
    pending := s.pending.map (fun x => (x.2.2.1, x.2.2.2)),
    settled := s.settled.map (fun x => (x.2.2.1, x.2.2.2)),
    uid2id := setAll (fun (x : Nat × Nat) => [x.1]) (s.bets.map (fun b => (b.uid, b.id))) [],
    count := s.betCount,
    batch := s.params.betBatch, minAmount := s.params.betMin, fee := s.params.betFee }

/-- the id the genesis code finds for a bet uid: the loop over `Uid2IdList` does not stop at the first match, the last
    one wins; 0 when there is none -/
def idOf (m : List (Nat × Nat)) (uid : Nat) : Nat :=
  m.foldl (fun acc x => if x.1 == uid then x.2 else acc) 0

/-- the per-bet part of `Validate`: 4 missing id, 5 settled status with height 0, 6 pending entry with height ≠ 0,
    7 settled entry with height 0, 8 in neither list -/
def validateOneBet (g : BetGen) (b : Bet) : Nat :=
  if idOf g.uid2id b.uid == 0 then 4
  else if b.settleHeight == 0 && b.status == BS_SETTLED then 5
  else if g.pending.any (fun p => p.1 == b.uid) && b.settleHeight != 0 then 6
  else if g.settled.any (fun p => p.1 == b.uid) && b.settleHeight == 0 then 7
  else if !(g.pending.any (fun p => p.1 == b.uid)) && !(g.settled.any (fun p => p.1 == b.uid)) then 8
  else 0

def betParamsOk (g : BetGen) : Bool := decide (0 < g.batch) && decide (1 < g.minAmount) && decide (0 ≤ g.fee)

/-- 1 stats count, 2 pending + settled ≠ bets, 3 duplicated uid, 4–8 per bet (first failing bet), 9 params -/
def validateBet (g : BetGen) : Nat :=
  if g.bets.length != g.count then 1
  else if g.pending.length + g.settled.length != g.bets.length then 2
  else if hasDup (g.bets.map (·.uid)) then 3
  else
    let c := firstErr (g.bets.map (validateOneBet g))
    if c != 0 then c else if betParamsOk g then 0 else 9

/-- InitGenesis, one bet: `SetPendingBet` for every pending entry with this uid (key: the bet's market and id),
    `SetSettledBet` for every settled entry with this uid (key: the bet's settlement height and id), `SetBet`
    (which also writes uid → id) -/
def importOneBet (g : BetGen) (s : State) (b : Bet) : State :=
  let id := idOf g.uid2id b.uid
  let s1 := (g.pending.filter (fun p => p.1 == b.uid)).foldl
    (fun (acc : State) p => { acc with pending := upsert pendKey (b.market, id, p.1, p.2) acc.pending }) s
  let s2 := (g.settled.filter (fun p => p.1 == b.uid)).foldl
    (fun (acc : State) p => { acc with settled := upsert pendKey (b.settleHeight, id, p.1, p.2) acc.settled }) s1
  { s2 with bets := upsert Bet.key { b with id := id } s2.bets }

def importBet (g : BetGen) (s : State) : State :=
  let s1 := { s with betCount := g.count }
  let s2 := g.bets.foldl (importOneBet g) s1
  { s2 with params := { s2.params with betBatch := g.batch, betMin := g.minAmount, betFee := g.fee } }

-- =============================================================================================
-- x/house

structure HouseGen where
  deposits : List Deposit
  withdrawals : List Withdrawal
  minDeposit : Int
  fee : Dec
  maxW : Nat
deriving Repr, Inhabited

def exportHouse (s : State) : HouseGen :=
  { deposits := s.deposits, withdrawals := s.withdrawals,
    minDeposit := s.params.houseMin, fee := s.params.houseFee, maxW := s.params.houseMaxW }

/-- the address `Validate` compares a withdrawal's address with: the deposit's *creator* in the code as it is, its
    depositor in the patched code -/
def depositOwner (fixed : Bool) (d : Deposit) : Nat := if fixed then d.depositor else d.creator

def withdrawalHasDeposit (fixed : Bool) (ds : List Deposit) (w : Withdrawal) : Bool :=
  ds.any (fun d => depositOwner fixed d == w.addr && d.market == w.market && d.idx == w.idx)

def houseParamsOk (g : HouseGen) : Bool := decide (1 < g.minDeposit) && decide (0 ≤ g.fee.raw) && decide (1 ≤ g.maxW)

/-- 1 = no deposit found for a withdrawal, 9 = params -/
def validateHouse (fixed : Bool) (g : HouseGen) : Nat :=
  if !(g.withdrawals.all (withdrawalHasDeposit fixed g.deposits)) then 1
  else if houseParamsOk g then 0 else 9

def importHouse (g : HouseGen) (s : State) : State :=
  { s with params := { s.params with houseMin := g.minDeposit, houseFee := g.fee, houseMaxW := g.maxW },
           deposits := setAll Deposit.key g.deposits s.deposits,
           withdrawals := setAll Withdrawal.key g.withdrawals s.withdrawals }

-- =============================================================================================
-- x/orderbook

structure BookRec where
  uid : Nat
  partCount : Nat
  oddsCount : Nat
  status : Nat
deriving Repr, Inhabited, DecidableEq

structure ObGen where
  books : List BookRec
  parts : List (Nat × Part)              -- (book uid, participation)
  queues : List (Nat × Nat × List Nat)   -- OrderBookOddsExposure (book, odds, fulfilment queue)
  pexps : List (Nat × PExp)              -- ParticipationExposureList
  pexpsByIdx : List (Nat × PExp)         -- ParticipationExposureByIndexList
  hist : List (Nat × PExp)
  pairs : List (Nat × Nat × Nat)         -- ParticipationBetPair (book, participation index, bet *uid*)
  stats : List Nat
  maxPart : Nat
  batch : Nat
  threshold : Nat
deriving Repr, Inhabited

def Book.header (b : Book) : BookRec := { uid := b.uid, partCount := b.partCount, oddsCount := b.oddsCount, status := b.status }

def betUidOf (s : State) (id : Nat) : Nat :=
  match s.bets.find? (fun b => b.id == id) with
  | some b => b.uid
  | none => 0

/-- ExportGenesis: every list is a prefix scan of the module store (keys start with the book uid, so the scan is the
    concatenation over the books). Both exposure lists are read from the by-odds store (`GetAllParticipationExposures`
    is called twice). -/
def exportOb (s : State) : ObGen :=
  { books := s.books.map Book.header,
    parts := (s.books.map (fun b => b.parts.map (fun p => (b.uid, p)))).flatten,
    queues := (s.books.map (fun b => b.queues.map (fun q => (b.uid, q)))).flatten,
    pexps := (s.books.map (fun b => b.pexps.map (fun e => (b.uid, e)))).flatten,
    pexpsByIdx := (s.books.map (fun b => b.pexps.map (fun e => (b.uid, e)))).flatten,
    hist := (s.books.map (fun b => b.hist.map (fun e => (b.uid, e)))).flatten,
    pairs := (s.books.map (fun b => b.pairs.map (fun x => (b.uid, x.1, betUidOf s x.2)))).flatten,
    stats := s.obqueue,
    maxPart := s.params.obMaxPart, batch := s.params.obBatch, threshold := s.params.obThreshold }

def sameExp (a b : Nat × PExp) : Bool := a.1 == b.1 && a.2.odds == b.2.odds && a.2.idx == b.2.idx

/-- the loop over the books of `Validate`, one book.
    As it is: *every* odds exposure of the genesis (of any book) must have a participation exposure in this book with
    that odds uid (2); afterwards the number of odds exposures of this book must equal `OddsCount` (3).
    Patched: only the odds exposures of this book are looked at, and participation exposures are required only when
    the book has participations. -/
def validateBook (fixed : Bool) (g : ObGen) (b : BookRec) : Nat :=
  let relevant := if fixed then g.queues.filter (fun q => q.1 == b.uid) else g.queues
  let needExp := !fixed || b.partCount != 0
  if needExp && !(relevant.all (fun q => g.pexps.any (fun e => e.1 == b.uid && e.2.odds == q.2.1))) then 2
  else if (g.queues.filter (fun q => q.1 == b.uid)).length != b.oddsCount then 3
  else 0

def obParamsOk (g : ObGen) : Bool := decide (0 < g.maxPart) && decide (0 < g.batch)

/-- 1 participation of an unknown book, 2 / 3 per book (first failing book), 4 by-index entry without exposure,
    5 exposure without by-index entry, 6 historical exposure without current exposure, 7 bet pair of an unknown book,
    9 params -/
def validateOb (fixed : Bool) (g : ObGen) : Nat :=
  if !(g.parts.all (fun p => g.books.any (fun b => b.uid == p.1))) then 1
  else
    let c := firstErr (g.books.map (validateBook fixed g))
    if c != 0 then c
    else if !(g.pexpsByIdx.all (fun x => g.pexps.any (sameExp x))) then 4
    else if !(g.pexps.all (fun x => g.pexpsByIdx.any (sameExp x))) then 5
    else if !(g.hist.all (fun x => g.pexps.any (sameExp x))) then 6
    else if !(g.pairs.all (fun x => g.books.any (fun b => b.uid == x.1))) then 7
    else if obParamsOk g then 0 else 9

/-- apply `f` to the book `uid` (records of a book that is not in the store cannot be represented in the nested core
    state: they are dropped; `Validate` rejects them for participations and bet pairs, and an export never has them) -/
def onBook (s : State) (uid : Nat) (f : Book → Book) : State :=
  match getBook s uid with
  | some b => setBook s (f b)
  | none => s

def setBookRec (s : State) (r : BookRec) : State :=
  match getBook s r.uid with
  | some b => setBook s { b with partCount := r.partCount, oddsCount := r.oddsCount, status := r.status }
  | none => setBook s { uid := r.uid, partCount := r.partCount, oddsCount := r.oddsCount, status := r.status, queues := [] }

/-- `GetBetID(uid)` on the bet store that was imported before (app/modules.go: bet precedes orderbook) -/
def betIdOf (s : State) (uid : Nat) : Option Nat := (s.bets.find? (fun b => b.uid == uid)).map (·.id)

def importPair (acc : Option State) (x : Nat × Nat × Nat) : Option State :=
  match acc with
  | none => none
  | some s =>
    match betIdOf s x.2.2 with
    | none => none                       -- panic("bet uid … of the participation bet pair list not found")
    | some id => some (onBook s x.1 (fun b => b.addPair x.2.1 id))

/-- InitGenesis of x/orderbook; `none` = panic -/
def importOb (g : ObGen) (s : State) : Option State :=
  let s1 := g.books.foldl setBookRec s
  let s2 := g.parts.foldl (fun acc p => onBook acc p.1 (fun b => b.setPart p.2)) s1
  let s3 := g.queues.foldl (fun acc q => onBook acc q.1 (fun b => b.setQueue q.2.1 q.2.2)) s2
  -- SetParticipationExposure writes the by-odds and the by-index store; SetParticipationExposureByIndex the latter only
  let s4 := g.pexps.foldl (fun acc e => onBook acc e.1 (fun b => b.setExp e.2)) s3
  let s5 := g.pexpsByIdx.foldl (fun acc e => onBook acc e.1 (fun b => b.setExp e.2)) s4
  let s6 := g.hist.foldl (fun acc e => onBook acc e.1 (fun b => b.setHist e.2)) s5
  match g.pairs.foldl importPair (some s6) with
  | none => none
  | some s7 =>
    some { s7 with obqueue := g.stats,
                   params := { s7.params with obMaxPart := g.maxPart, obBatch := g.batch, obThreshold := g.threshold } }

/-! ### the two participation-exposure stores, separately

  Store 0x03 is keyed (book, odds, index), store 0x04 (book, index, odds); both hold the same record type.  A store is
  listed here in the order of (book, odds, index) (as a finite map the order is immaterial).
  `ExportGenesis` fills *both* genesis lists from store 0x03; `InitGenesis` writes list 1 into both stores
  (`SetParticipationExposure` calls `SetParticipationExposureByIndex`) and then list 2 into store 0x04. -/

structure ExpStores where
  byOdds : List (Nat × PExp)
  byIdx : List (Nat × PExp)
deriving Repr, Inhabited

def expKey (x : Nat × PExp) : List Nat := [x.1, x.2.odds, x.2.idx]

def exportExp (st : ExpStores) : List (Nat × PExp) × List (Nat × PExp) := (st.byOdds, st.byOdds)

def importExp (g : List (Nat × PExp) × List (Nat × PExp)) : ExpStores :=
  { byOdds := setAll expKey g.1 [], byIdx := setAll expKey g.2 (setAll expKey g.1 []) }

-- =============================================================================================
-- the four core modules together, in the order of app/modules.go (bet, market, orderbook, house)

structure CoreGen where
  bet : BetGen
  market : MarketGen
  ob : ObGen
  house : HouseGen
deriving Repr, Inhabited

def exportCore (s : State) : CoreGen :=
  { bet := exportBet s, market := exportMarket s, ob := exportOb s, house := exportHouse s }

/-- the custom-module part of a fresh chain: bank balances, authz grants and the block clock come from the SDK
    modules' own genesis / the new chain's header and are kept -/
def freshCore (s : State) : State :=
  { bal := s.bal, grants := s.grants, height := s.height, time := s.time }

def importCore (g : CoreGen) (base : State) : Option State :=
  importOb g.ob (importMarket g.market (importBet g.bet base)) |>.map (importHouse g.house)

-- =============================================================================================
-- x/ovm

structure OvmGen where
  vault : List Ovm.Pem
  proposals : List (Bool × Ovm.Proposal)   -- (status = finished?, proposal) in store order: active ids, then finished ids
  count : Nat
deriving Repr, Inhabited

def exportOvm (s : Ovm.State) : OvmGen :=
  { vault := s.vault, proposals := s.active.map (fun p => (false, p)) ++ s.finished.map (fun p => (true, p)), count := s.count }

/-- `KeyVault.validatePubKeys`: 1 fewer than 4 keys, 2 more than 5, 3 a string that is not an Ed25519 public key PEM,
    4 (patched code only) two encodings of one key. The proposals are not validated. `Params` of x/ovm is empty. -/
def validateOvm (fixed : Bool) (g : OvmGen) : Nat :=
  if g.vault.length < Ovm.minKeys then 1
  else if g.vault.length > Ovm.maxKeys then 2
  else if !(g.vault.all (fun k => (Ovm.decode k).isSome)) then 3
  else if fixed && !(Ovm.distinctKeys g.vault) then 4
  else 0

def importProposal (s : Ovm.State) (x : Bool × Ovm.Proposal) : Ovm.State :=
  if x.1 then { s with finished := Ovm.setP s.finished x.2 } else { s with active := Ovm.setP s.active x.2 }

def importOvm (g : OvmGen) : Ovm.State :=
  let s0 : Ovm.State := { vault := g.vault, active := [], finished := [], count := 0 }
  { g.proposals.foldl importProposal s0 with count := g.count }

-- =============================================================================================
-- x/subaccount

structure SubGenAcc where
  addr : Nat
  owner : Nat
  sum : Subaccount.Summary
  locks : List Subaccount.Lock        -- in unlock-time order (the store iteration order)
deriving Repr, Inhabited

structure SubGen where
  id : Nat
  accounts : List SubGenAcc
  wagerEnabled : Bool
  depositEnabled : Bool
deriving Repr, Inhabited

def insertLock (l : Subaccount.Lock) : List Subaccount.Lock → List Subaccount.Lock
  | [] => [l]
  | x :: xs => if l.1 ≤ x.1 then l :: x :: xs else x :: insertLock l xs

def sortLocks (ls : List Subaccount.Lock) : List Subaccount.Lock := ls.foldr insertLock []

/-- `GetAllSubaccounts`: iterate the subaccount → owner store; the summary must exist (`none` = panic
    "subaccount balance does not exist"). The model enumerates the subaccount addresses by id (the real order is the
    byte order of the address hashes; `importSub` does not depend on the order). -/
def exportSubAcc (s : Subaccount.State) (a : Nat) : Option (Option SubGenAcc) :=
  match s.subMap a with
  | none => some none
  | some o =>
    match s.subs a with
    | none => none
    | some sub => some (some { addr := a, owner := o, sum := sub.sum, locks := sortLocks sub.locks })

def exportSubAccs (s : Subaccount.State) : List Nat → Option (List SubGenAcc)
  | [] => some []
  | a :: rest =>
    match exportSubAcc s a, exportSubAccs s rest with
    | some (some x), some xs => some (x :: xs)
    | some none, some xs => some xs
    | _, _ => none

def subAddrs (s : Subaccount.State) : List Nat := (List.range s.nextId).map Subaccount.addrOf

def exportSub (s : Subaccount.State) : Option SubGen :=
  (exportSubAccs s (subAddrs s)).map fun accs =>
    { id := s.nextId, accounts := accs, wagerEnabled := s.wagerEnabled, depositEnabled := s.depositEnabled }

/-- `GenesisState.Validate` of x/subaccount returns nil -/
def validateSub (_ : SubGen) : Nat := 0

def importSubAcc (s : Subaccount.State) (x : SubGenAcc) : Subaccount.State :=
  { s with ownerMap := Subaccount.upd s.ownerMap x.owner (some x.addr),
           subMap := Subaccount.upd s.subMap x.addr (some x.owner),
           subs := Subaccount.upd s.subs x.addr (some { sum := x.sum, locks := Subaccount.setLocks [] x.locks }) }

/-- InitGenesis on a fresh chain `base` (no subaccounts; the bank, the clock and the model-variant flags are not part
    of this module): `SetParams`, `SetID` unless the exported id is 0, then per account the two owner maps, the locked
    balances and the summary -/
def importSub (g : SubGen) (base : Subaccount.State) : Subaccount.State :=
  let s0 : Subaccount.State :=
    { base with nextId := if g.id != 0 then g.id else 1, wagerEnabled := g.wagerEnabled, depositEnabled := g.depositEnabled,
                ownerMap := fun _ => none, subMap := fun _ => none, subs := fun _ => none }
  g.accounts.foldl importSubAcc s0

-- =============================================================================================
-- x/mint

structure MintGen where
  minter : Mint.Minter
  params : Mint.Params
deriving Repr, Inhabited

def exportMint (m : Mint.Minter) (p : Mint.Params) : MintGen := { minter := m, params := p }

/-- `Params.Validate` then `ValidateMinter` (negative inflation): 1 params, 2 minter -/
def validateMint (g : MintGen) : Nat :=
  if !(Mint.paramsValid g.params) then 1
  else if g.minter.inflation.raw < 0 then 2
  else 0

def importMint (g : MintGen) : Mint.Minter × Mint.Params := (g.minter, g.params)

-- =============================================================================================
-- x/reward: which collections are exported and what InitGenesis rebuilds

structure Campaign where
  uid : Nat
  promoter : Nat       -- promoter *address*
  capCount : Nat
  digest : Nat         -- all other fields
deriving Repr, Inhabited, DecidableEq

structure Reward where
  uid : Nat
  campaign : Nat
  receiver : Nat
  digest : Nat
deriving Repr, Inhabited, DecidableEq

/-- RewardByCategory record (uid, receiver address, category); its store key additionally starts with the promoter uid -/
structure ByCat where
  promoterUid : Nat
  receiver : Nat
  category : Nat
  uid : Nat
deriving Repr, Inhabited, DecidableEq

structure RewardStores where
  promoters : List (Nat × Nat)          -- 0x04 (promoter uid, digest)
  byAddress : List (Nat × Nat)          -- 0x05 (address, promoter uid)
  campaigns : List Campaign             -- 0x00
  rewards : List Reward                 -- 0x01
  byCategory : List ByCat               -- 0x02 key (promoter uid, receiver, category, reward uid)
  byCampaign : List (Nat × Nat)         -- 0x03 (campaign uid, reward uid)
  grantStats : List (Nat × Nat × Nat)   -- 0x06 (campaign uid, address, count)
deriving Repr, Inhabited, DecidableEq

structure RewardGen where
  promoters : List (Nat × Nat)
  byAddress : List (Nat × Nat)
  campaigns : List Campaign
  rewards : List Reward
  byCategory : List (Nat × Nat × Nat)   -- (receiver, category, reward uid): the promoter uid is not in the record
  byCampaign : List (Nat × Nat)
deriving Repr, Inhabited, DecidableEq

def emptyReward : RewardStores :=
  { promoters := [], byAddress := [], campaigns := [], rewards := [], byCategory := [], byCampaign := [], grantStats := [] }

/-- ExportGenesis. As it is: promoters and promoters-by-address are not exported. The grant counters have no genesis
    field in either variant. -/
def exportReward (fixed : Bool) (st : RewardStores) : RewardGen :=
  { promoters := if fixed then st.promoters else [],
    byAddress := if fixed then st.byAddress else [],
    campaigns := st.campaigns, rewards := st.rewards,
    byCategory := st.byCategory.map (fun x => (x.receiver, x.category, x.uid)),
    byCampaign := st.byCampaign }

/-- 1 duplicated campaign uid, 2 duplicated reward uid, 3 duplicated uid in the by-category list, 4 in the
    by-campaign list. (`Params` of x/reward is empty.) -/
def validateReward (g : RewardGen) : Nat :=
  if hasDup (g.campaigns.map (·.uid)) then 1
  else if hasDup (g.rewards.map (·.uid)) then 2
  else if hasDup (g.byCategory.map (·.2.2)) then 3
  else if hasDup (g.byCampaign.map (·.2)) then 4
  else 0

def ByCat.key (x : ByCat) : List Nat := [x.promoterUid, x.receiver, x.category, x.uid]
def statKey (x : Nat × Nat × Nat) : List Nat := [x.1, x.2.1]

def getStat (l : List (Nat × Nat × Nat)) (c a : Nat) : Nat :=
  match l.find? (fun x => x.1 == c && x.2.1 == a) with
  | some x => x.2.2
  | none => 0

/-- patched InitGenesis: one grant is counted for every reward of a campaign with a cap -/
def countGrant (st : RewardStores) (r : Reward) : RewardStores :=
  match st.campaigns.find? (fun c => c.uid == r.campaign) with
  | some c =>
    if c.capCount > 0 then
      { st with grantStats := upsert statKey (r.campaign, r.receiver, getStat st.grantStats r.campaign r.receiver + 1) st.grantStats }
    else st
  | none => st

def importRewardRec (fixed : Bool) (st : RewardStores) (r : Reward) : RewardStores :=
  let st1 := { st with rewards := upsert (fun (x : Reward) => [x.uid]) r st.rewards }
  if fixed then countGrant st1 r else st1

/-- the lookups of the by-category loop: reward → its campaign → the campaign's promoter address → promoter uid;
    `none` = one of the three panics ("reward is not valid", "campaign is not valid", "promoter is not valid") -/
def promoterOfReward (st : RewardStores) (rewardUid : Nat) : Option Nat :=
  match st.rewards.find? (fun r => r.uid == rewardUid) with
  | none => none
  | some r =>
    match st.campaigns.find? (fun c => c.uid == r.campaign) with
    | none => none
    | some c =>
      match st.byAddress.find? (fun p => p.1 == c.promoter) with
      | none => none
      | some p => some p.2

def importByCat (acc : Option RewardStores) (x : Nat × Nat × Nat) : Option RewardStores :=
  match acc with
  | none => none
  | some st =>
    match promoterOfReward st x.2.2 with
    | none => none
    | some pu =>
      some { st with byCategory := upsert ByCat.key { promoterUid := pu, receiver := x.1, category := x.2.1, uid := x.2.2 } st.byCategory }

/-- InitGenesis of x/reward on an empty store; `none` = panic -/
def importReward (fixed : Bool) (g : RewardGen) : Option RewardStores :=
  let st1 : RewardStores :=
    { emptyReward with promoters := setAll (fun (x : Nat × Nat) => [x.1]) g.promoters [],
                       byAddress := setAll (fun (x : Nat × Nat) => [x.1]) g.byAddress [],
                       campaigns := setAll (fun (c : Campaign) => [c.uid]) g.campaigns [] }
  let st2 := g.rewards.foldl (importRewardRec fixed) st1
  match g.byCategory.foldl importByCat (some st2) with
  | none => none
  | some st3 => some { st3 with byCampaign := setAll (fun (x : Nat × Nat) => [x.1, x.2]) g.byCampaign [] }

-- =============================================================================================
-- Invariants of reachable states that the C16 theorems assume (decidable; the driver evaluates them at every export
-- point of every history, so a reachable state that violates one shows up as a correspondence difference)

def marketInv (s : State) : Bool := sortedB Market.key s.markets

/-- deposits and withdrawals are keyed stores; every withdrawal belongs to a deposit of the same depositor, market and
    participation (a withdrawal is only ever created from its deposit) -/
def houseInv (s : State) : Bool :=
  sortedB Deposit.key s.deposits && sortedB Withdrawal.key s.withdrawals &&
  s.withdrawals.all (withdrawalHasDeposit true s.deposits)

def pendEntry (b : Bet) : Nat × Nat × Nat × Nat := (b.market, b.id, b.uid, b.creator)
def settEntry (b : Bet) : Nat × Nat × Nat × Nat := (b.settleHeight, b.id, b.uid, b.creator)

/-- the bet store is keyed by (creator, id); uids are unique, ids non-zero, the counter counts the bets; a settled bet
    has a settlement height; the pending / settled stores are the two indexes of the bet store: a bet without
    settlement height is indexed under (market, id), the others under (settlement height, id) -/
def betInv (s : State) : Bool :=
  sortedB Bet.key s.bets && !hasDup (s.bets.map (·.uid)) && s.bets.all (fun b => b.id != 0) &&
  s.betCount == s.bets.length &&
  s.bets.all (fun b => !(b.settleHeight == 0 && b.status == BS_SETTLED)) &&
  s.pending == setAll pendKey ((s.bets.filter (fun b => b.settleHeight == 0)).map pendEntry) [] &&
  s.settled == setAll pendKey ((s.bets.filter (fun b => b.settleHeight != 0)).map settEntry) [] &&
  s.bets.all (fun b => s.pending.filter (fun x => x.2.2.1 == b.uid) == (if b.settleHeight == 0 then [pendEntry b] else [])) &&
  s.bets.all (fun b => s.settled.filter (fun x => x.2.2.1 == b.uid) == (if b.settleHeight != 0 then [settEntry b] else [])) &&
  s.pending.length + s.settled.length == s.bets.length

/-- per book: the nested stores are keyed stores; the odds-exposure store has one entry per outcome (`OddsCount`);
    once a book has a participation, every outcome has a participation exposure; every historical exposure belongs
    to a (participation, outcome) that still has a current exposure -/
def bookInv (b : Book) : Bool :=
  sortedB (fun (q : Nat × List Nat) => [q.1]) b.queues && sortedB Part.key b.parts && sortedB PExp.key b.pexps &&
  sortedB PExp.hkey b.hist && sortedB (fun (x : Nat × Nat) => [x.1, x.2]) b.pairs &&
  b.queues.length == b.oddsCount &&
  (b.partCount == 0 || b.queues.all (fun q => b.pexps.any (fun e => e.odds == q.1))) &&
  (b.partCount != 0 || b.parts.isEmpty) &&
  b.hist.all (fun h => b.pexps.any (fun e => e.odds == h.odds && e.idx == h.idx))

def obInv (s : State) : Bool :=
  sortedB Book.key s.books && s.books.all bookInv &&
  -- every bet of a participation–bet pair is in the bet store, and bet ids are unique
  !hasDup (s.bets.map (·.id)) &&
  s.books.all (fun b => b.pairs.all (fun x => s.bets.any (fun t => t.id == x.2)))

/-- the decidable part of `SubInv` (SgeProofs/Properties/C16.lean) on the addresses the stores can be non-empty at:
    subaccount addresses up to the id counter, owners among the given candidates -/
def subInvB (s : Subaccount.State) (owners : List Nat) : Bool :=
  let addrs := (List.range (s.nextId + 1)).map Subaccount.addrOf
  s.nextId != 0 &&
  addrs.all (fun a => (s.subMap a).isSome == (s.subs a).isSome) &&
  (s.subMap (Subaccount.addrOf s.nextId)).isNone &&
  addrs.all (fun a => match s.subMap a with | some o => s.ownerMap o == some a | none => true) &&
  (owners ++ addrs).all (fun o => match s.ownerMap o with | some a => s.subMap a == some o | none => true) &&
  addrs.all (fun a => match s.subs a with | some sub => !hasDup (sub.locks.map (·.1)) | none => true)

def sortedIds : List Ovm.Proposal → Bool
  | [] => true
  | p :: ps => ps.all (fun q => decide (p.id < q.id)) && sortedIds ps

def ovmInv (s : Ovm.State) : Bool := sortedIds s.active && sortedIds s.finished

/-- grant counters as the patched InitGenesis rebuilds them -/
def rebuiltStats (st : RewardStores) : List (Nat × Nat × Nat) :=
  (st.rewards.foldl countGrant { emptyReward with campaigns := st.campaigns }).grantStats

def rewardInv (st : RewardStores) : Bool :=
  sortedB (fun (x : Nat × Nat) => [x.1]) st.promoters && sortedB (fun (x : Nat × Nat) => [x.1]) st.byAddress &&
  sortedB (fun (c : Campaign) => [c.uid]) st.campaigns && sortedB (fun (r : Reward) => [r.uid]) st.rewards &&
  sortedB ByCat.key st.byCategory && sortedB (fun (x : Nat × Nat) => [x.1, x.2]) st.byCampaign &&
  -- the by-category index is filed under the promoter of the reward's campaign
  st.byCategory.all (fun x => promoterOfReward st x.uid == some x.promoterUid) &&
  -- one grant was counted for every reward of a capped campaign
  st.grantStats == rebuiltStats st

end Sge.Genesis
