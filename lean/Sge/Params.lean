/-
  Parameter validation of every custom module (types/params.go, keeper/msg_server_params.go,
  types/messages_params.go, types/genesis.go of x/mint, x/bet, x/house, x/orderbook, x/subaccount,
  x/reward, x/market, x/ovm), as the code is.

  There are three ways a parameter value reaches the store, and they do not validate the same thing:

  1. genesis:          `GenesisState.Validate` → `Params.Validate()`   (subaccount: no call at all),
                       then `InitGenesis` → `k.SetParams` → `Subspace.SetParamSet`, which runs the per-field
                       `ValidatorFn` of every `ParamSetPair` and PANICS when one fails;
  2. `MsgUpdateParams`: `ValidateBasic` and the handler both call `Params.Validate()`, the handler compares
                       `req.Authority` with the keeper's authority (the gov module account), then `k.SetParams`
                       (same per-field validators, a panic inside a transaction = the message fails);
  3. legacy `ParameterChangeProposal` (the x/params handler is routed in app/keepers/keepers.go):
                       `Subspace.Update` runs ONLY the per-field `ValidatorFn` of the changed key.

  For every module:  `validate`  = `Params.Validate()`;  `fields` = the per-field validators in
  `ParamSetPairs` order;  `accepted` = `validate ∧ all fields` = what `MsgUpdateParams` with the right
  authority stores, and what a genesis file that passes `Validate` starts a chain with.
  Where the two differ today:  x/house `Params.Validate` does not call `validateMaxWithdrawalCount`
  (`MaxWithdrawalCount = 0` passes `Validate` and then panics in `SetParamSet`).

  A nil `Int`/`Dec` makes the validators panic (nil pointer): never accepted; the driver answers 0 for it.

  `Cfg` selects the tree: the code as it is (all flags false) or with a `repo_patches/params_*.diff` applied.
  Core Lean only.
-/
import Sge.Mint
import Sge.Core.Run
namespace Sge.Params
open Sge

/-- which `repo_patches/params_*.diff` the tree under test contains (probed by the harness, `CFG` lines) -/
structure Cfg where
  /-- params_mint_validate.diff: `validatePhases` rejects a negative inflation, `Params.Validate` rejects a
      phase shorter than one block -/
  mintValidate : Bool := false
  /-- params_mint_exclude_clamp.diff: `NextPhaseProvisions` takes `max(0, supply − ExcludeAmount)` -/
  mintClamp : Bool := false
  /-- params_bet_fee_lt_min.diff: `validateConstraints` requires `Fee < MinAmount` -/
  betFee : Bool := false
  /-- params_house_validate.diff, first hunk: `Params.Validate` also calls `validateMaxWithdrawalCount` -/
  house : Bool := false
  /-- params_house_validate.diff, second hunk (hardening only, not applied as a fix):
      `validateHouseParticipationFee` requires `fee ≤ 1` -/
  houseFeeCap : Bool := false
deriving Repr, Inhabited, DecidableEq

/-- the code with every proposed patch -/
def Cfg.patched : Cfg := { mintValidate := true, mintClamp := true, betFee := true, house := true, houseFeeCap := true }

-- ---------------------------------------------------------------------------------------------
-- x/mint

/-- `sdk.ValidateDenom`: `^[a-zA-Z][a-zA-Z0-9/:._-]{2,127}$` (the default regular expression; the app does not
    replace it). A blank string fails `validateMintDenom` earlier with another error. -/
def denomCharOk (c : Char) : Bool :=
  c.isAlphanum || c == '/' || c == ':' || c == '.' || c == '_' || c == '-'

def denomOk : List Char → Bool
  | [] => false
  | c :: rest => c.isAlpha && decide (2 ≤ rest.length) && decide (rest.length ≤ 127) && rest.all denomCharOk

structure MintParams where
  denom : List Char
  p : Mint.Params
deriving Repr, Inhabited

namespace MintParams

def maxInt64 : Int := 9223372036854775807

/-- number of blocks of a phase: `getPhaseBlocks` = trunc(YearCoefficient · BlocksPerYear) -/
def phaseLen (p : Mint.Params) (ph : Mint.Phase) : Int := (Mint.phaseBlocks p ph).truncInt

/-- `validatePhases` -/
def phasesValid (cfg : Cfg) (phs : List Mint.Phase) : Bool :=
  Mint.phasesValid phs && (!cfg.mintValidate || phs.all (fun ph => decide (0 ≤ ph.inflation.raw)))

/-- the cross-field check added to `Params.Validate` by params_mint_validate.diff -/
def phasesLongEnough (p : Mint.Params) : Bool := p.phases.all (fun ph => decide (1 ≤ phaseLen p ph))

/-- the per-field validators in `ParamSetPairs` order: MintDenom, BlocksPerYear, Phases, ExcludeAmount -/
def fields (cfg : Cfg) (m : MintParams) : List Bool :=
  [denomOk m.denom, decide (0 < m.p.blocksPerYear), phasesValid cfg m.p.phases, decide (0 ≤ m.p.exclude)]

/-- `Params.Validate()` -/
def validate (cfg : Cfg) (m : MintParams) : Bool :=
  (fields cfg m).all id && (!cfg.mintValidate || phasesLongEnough m.p)

def accepted (cfg : Cfg) (m : MintParams) : Bool := validate cfg m && (fields cfg m).all id

end MintParams

/-- `BeginBlocker` of the tree selected by `cfg`: with the clamp patch the inflation base is
    `max(0, supply − exclude)`, i.e. the unpatched block function run on `max(supply, exclude)`
    (the supply enters `beginBlock` only through `NextPhaseProvisions`) -/
def mintBeginBlock (cfg : Cfg) (p : Mint.Params) (m : Mint.Minter) (height supply : Int) : Mint.Minter × Mint.BlockRes :=
  Mint.beginBlock p m height (if cfg.mintClamp && decide (supply < p.exclude) then p.exclude else supply)

/-- BeginBlock of x/mint on the chain (supply, fee collector, minter) of the tree selected by `cfg`;
    with no patch this is `Mint.Chain.begin` -/
def mintChainBegin (cfg : Cfg) (p : Mint.Params) (c : Mint.Chain) (h : Int) : Mint.Chain :=
  if c.halted then c else
  match mintBeginBlock cfg p c.minter h c.supply with
  | (m, .ok n) => { supply := c.supply + n, collector := c.collector + n, minter := m, halted := false }
  | (_, .halt) => { c with halted := true }

/-- `n` consecutive blocks starting at height `h` -/
def mintRun (cfg : Cfg) (p : Mint.Params) : Nat → Int → Mint.Chain → Mint.Chain
  | 0, _, c => c
  | n + 1, h, c => mintRun cfg p n (h + 1) (mintChainBegin cfg p c h)

/-- consecutive blocks with a parameter set per block (a `MsgUpdateParams` may arrive between any two blocks) -/
def mintRunUpd (cfg : Cfg) : List Mint.Params → Int → Mint.Chain → Mint.Chain
  | [], _, c => c
  | p :: rest, h, c => mintRunUpd cfg rest (h + 1) (mintChainBegin cfg p c h)

-- ---------------------------------------------------------------------------------------------
-- x/bet

structure BetParams where
  batch : Nat          -- BatchSettlementCount (uint32)
  maxQuery : Nat       -- MaxBetByUidQueryCount (uint32)
  minAmount : Int      -- Constraints.MinAmount
  fee : Int            -- Constraints.Fee
deriving Repr, Inhabited, DecidableEq

namespace BetParams

/-- `validateConstraints` -/
def constraintsValid (cfg : Cfg) (b : BetParams) : Bool :=
  decide (1 < b.minAmount) && decide (0 ≤ b.fee) && (!cfg.betFee || decide (b.fee < b.minAmount))

/-- BatchSettlementCount, MaxBetByUidQueryCount, WagerConstraints -/
def fields (cfg : Cfg) (b : BetParams) : List Bool :=
  [decide (0 < b.batch), decide (0 < b.maxQuery), constraintsValid cfg b]

def validate (cfg : Cfg) (b : BetParams) : Bool := (fields cfg b).all id
def accepted (cfg : Cfg) (b : BetParams) : Bool := validate cfg b && (fields cfg b).all id

end BetParams

-- ---------------------------------------------------------------------------------------------
-- x/house

structure HouseParams where
  minDeposit : Int
  fee : Dec            -- HouseParticipationFee
  maxWithdrawals : Nat -- MaxWithdrawalCount (uint64)
deriving Repr, Inhabited, DecidableEq

namespace HouseParams

/-- `validateHouseParticipationFee` -/
def feeValid (cfg : Cfg) (h : HouseParams) : Bool :=
  decide (0 ≤ h.fee.raw) && (!cfg.houseFeeCap || decide (h.fee.raw ≤ PREC))

/-- MinDeposit, HouseParticipationFee, MaxWithdrawalCount -/
def fields (cfg : Cfg) (h : HouseParams) : List Bool :=
  [decide (1 < h.minDeposit), feeValid cfg h, decide (1 ≤ h.maxWithdrawals)]

/-- `Params.Validate()`: as the code is, the withdrawal count is NOT checked here -/
def validate (cfg : Cfg) (h : HouseParams) : Bool :=
  decide (1 < h.minDeposit) && feeValid cfg h && (!cfg.house || decide (1 ≤ h.maxWithdrawals))

def accepted (cfg : Cfg) (h : HouseParams) : Bool := validate cfg h && (fields cfg h).all id

end HouseParams

-- ---------------------------------------------------------------------------------------------
-- x/orderbook

structure ObParams where
  maxParticipations : Nat  -- MaxOrderBookParticipations
  batch : Nat              -- BatchSettlementCount
  threshold : Nat          -- RequeueThreshold (any uint64)
deriving Repr, Inhabited, DecidableEq

namespace ObParams
def fields (_ : Cfg) (o : ObParams) : List Bool := [decide (o.maxParticipations ≠ 0), decide (o.batch ≠ 0), true]
def validate (cfg : Cfg) (o : ObParams) : Bool := (fields cfg o).all id
def accepted (cfg : Cfg) (o : ObParams) : Bool := validate cfg o && (fields cfg o).all id
end ObParams

-- ---------------------------------------------------------------------------------------------
-- x/subaccount (two switches; both validators only check the Go type), x/reward, x/market, x/ovm (empty)

structure SubParams where
  wagerEnabled : Bool
  depositEnabled : Bool
deriving Repr, Inhabited, DecidableEq

namespace SubParams
def fields (_ : Cfg) (_ : SubParams) : List Bool := [true, true]
def validate (_ : Cfg) (_ : SubParams) : Bool := true
def accepted (cfg : Cfg) (s : SubParams) : Bool := validate cfg s && (fields cfg s).all id
end SubParams

/-- x/reward, x/market, x/ovm: `Params` has no field, `Validate` returns nil, `ParamSetPairs` is empty -/
def emptyParamsAccepted : Bool := true

-- ---------------------------------------------------------------------------------------------
-- MsgUpdateParams (all eight handlers have the same shape)

/-- the handler stores the parameters iff the authority matches and they are accepted -/
def updateOk (authorityOk accepted : Bool) : Bool := authorityOk && accepted

-- ---------------------------------------------------------------------------------------------
-- tie to the parameter record of the core model

def toCore (b : BetParams) (h : HouseParams) (o : ObParams) : Core.Params :=
  { betBatch := b.batch, betMin := b.minAmount, betFee := b.fee,
    houseMin := h.minDeposit, houseFee := h.fee, houseMaxW := h.maxWithdrawals,
    obMaxPart := o.maxParticipations, obBatch := o.batch, obThreshold := o.threshold }

/-- validity of core parameters on the tree selected by `cfg` -/
def coreValid (cfg : Cfg) (p : Core.Params) : Bool :=
  p.valid && (!cfg.betFee || decide (p.betFee < p.betMin)) && (!cfg.houseFeeCap || decide (p.houseFee.raw ≤ PREC))

end Sge.Params
