/-
  Model of x/mint: types/minter.go (CurrentPhase, NextPhaseProvisions, BlockProvisions),
  types/params.go (getPhaseBlocks, GetPhaseAtStep, EndPhase, validators) and abci.go (BeginBlocker).
  The bank is modelled by its contract: MintCoins adds to the supply and to the mint module account,
  SendCoinsFromModuleToModule moves the same coins to the fee collector.
-/
import Sge.Dec
namespace Sge.Mint
open Sge

structure Phase where
  inflation : Dec
  yearCoef : Dec
deriving DecidableEq, Repr, Inhabited

structure Params where
  blocksPerYear : Int
  exclude : Int
  phases : List Phase
deriving Repr, Inhabited

structure Minter where
  inflation : Dec
  phaseStep : Int
  phaseProvisions : Dec
  truncated : Dec
deriving DecidableEq, Repr, Inhabited

def maxUInt64 : Int := 18446744073709551615
def endPhase : Phase := { inflation := Dec.zero, yearCoef := Dec.ofInt maxUInt64 }
def nonePhase : Phase := { inflation := Dec.zero, yearCoef := Dec.zero }
def endPhaseAlias : Int := -1

/-- `params.getPhaseBlocks` for a given phase: trunc(yearCoefficient * blocksPerYear) as a Dec -/
def phaseBlocks (p : Params) (ph : Phase) : Dec := (ph.yearCoef.mul (Dec.ofInt p.blocksPerYear)).truncDec

/-- the loop of `CurrentPhase`: walk the phases accumulating blocks; `step` is the 1-based index -/
def findPhase (p : Params) (block : Int) : List Phase → Dec → Int → Option (Phase × Int)
  | [], _, _ => none
  | ph :: rest, cum, step =>
    let cum' := cum.add (phaseBlocks p ph)
    if (Dec.ofInt block).raw ≤ cum'.raw then some (ph, step) else findPhase p block rest cum' (step + 1)

def getPhaseAtStep1 (p : Params) : Phase :=
  match p.phases with
  | ph :: _ => ph
  | [] => endPhase

def currentPhase (p : Params) (block : Int) : Phase × Int :=
  if block = 1 then (getPhaseAtStep1 p, 1)
  else match findPhase p block p.phases Dec.zero 1 with
    | some r => r
    | none => (endPhase, endPhaseAlias)

def nextPhaseProvisions (infl : Dec) (supply exclude : Int) (ph : Phase) : Dec :=
  (infl.mulInt (supply - exclude)).mul ph.yearCoef

inductive BlockRes where
  | ok (minted : Int)
  | halt
deriving DecidableEq, Repr

/-- `BlockProvisions`: integer part minted, fractional part carried; `none` = Quo by zero panic -/
def blockProvisions (m : Minter) (blocks : Dec) : Option (Int × Dec) :=
  let bpp := blocks.truncDec
  if bpp.raw = 0 then none else
  let prov := (m.phaseProvisions.quo bpp).add m.truncated
  let intPart := prov.truncDec
  some (intPart.truncInt, prov.sub intPart)

/-- `BeginBlocker`: returns the new minter and the amount minted to the fee collector -/
def beginBlock (p : Params) (m : Minter) (height supply : Int) : Minter × BlockRes :=
  let (ph, step) := currentPhase p height
  let m1 : Minter :=
    if step ≠ m.phaseStep ∨ m.inflation ≠ ph.inflation then
      { m with inflation := ph.inflation, phaseStep := step,
               phaseProvisions := nextPhaseProvisions ph.inflation supply p.exclude ph }
    else m
  if m1.inflation.raw = 0 then (m1, .ok 0)
  else
    match blockProvisions m1 (phaseBlocks p ph) with
    | none => (m, .halt)
    | some (amt, tr) =>
      if amt < 0 then (m, .halt)     -- sdk.NewCoin panics on a negative amount
      else ({ m1 with truncated := tr }, .ok amt)

/-- `validatePhases` + `validateBlocksPerYear` + `validateExcludeAmount` (denom not modelled) -/
def isEndPhase (ph : Phase) : Bool := ph.inflation == endPhase.inflation && ph.yearCoef == endPhase.yearCoef
def phasesValid (phs : List Phase) : Bool :=
  !phs.isEmpty && phs.all (fun ph => decide (0 < ph.yearCoef.raw) && !isEndPhase ph)
def paramsValid (p : Params) : Bool :=
  decide (0 < p.blocksPerYear) && phasesValid p.phases && decide (0 ≤ p.exclude)

end Sge.Mint
