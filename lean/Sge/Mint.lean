/-
  Model of x/mint: types/minter.go (CurrentPhase, NextPhaseProvisions, BlockProvisions),
  types/params.go (getPhaseBlocks, GetPhaseAtStep, EndPhase, validators) and abci.go (BeginBlocker).
  The bank is modelled by its contract: MintCoins adds to the supply and to the mint module account,
  SendCoinsFromModuleToModule moves the same coins to the fee collector.
-/
import Sge.Dec
namespace Sge.Mint
open Sge

structure Phase where
  inflation : Dec
  yearCoef : Dec
deriving DecidableEq, Repr, Inhabited

structure Params where
  blocksPerYear : Int
  exclude : Int
  phases : List Phase
deriving Repr, Inhabited

structure Minter where
  inflation : Dec
  phaseStep : Int
  phaseProvisions : Dec
  truncated : Dec
deriving DecidableEq, Repr, Inhabited

def maxUInt64 : Int := 18446744073709551615
def endPhase : Phase := { inflation := Dec.zero, yearCoef := Dec.ofInt maxUInt64 }
def nonePhase : Phase := { inflation := Dec.zero, yearCoef := Dec.zero }
def endPhaseAlias : Int := -1

/-- `params.getPhaseBlocks` for a given phase: trunc(yearCoefficient * blocksPerYear) as a Dec -/
def phaseBlocks (p : Params) (ph : Phase) : Dec := (ph.yearCoef.mul (Dec.ofInt p.blocksPerYear)).truncDec

/-- the loop of `CurrentPhase`: walk the phases accumulating blocks; `step` is the 1-based index -/
def findPhase (p : Params) (block : Int) : List Phase → Dec → Int → Option (Phase × Int)
  | [], _, _ => none
  | ph :: rest, cum, step =>
    let cum' := cum.add (phaseBlocks p ph)
    if (Dec.ofInt block).raw ≤ cum'.raw then some (ph, step) else findPhase p block rest cum' (step + 1)

def getPhaseAtStep1 (p : Params) : Phase :=
  match p.phases with
  | ph :: _ => ph
  | [] => endPhase

def currentPhase (p : Params) (block : Int) : Phase × Int :=
  if block = 1 then (getPhaseAtStep1 p, 1)
  else match findPhase p block p.phases Dec.zero 1 with
    | some r => r
    | none => (endPhase, endPhaseAlias)

def nextPhaseProvisions (infl : Dec) (supply exclude : Int) (ph : Phase) : Dec :=
  (infl.mulInt (supply - exclude)).mul ph.yearCoef

inductive BlockRes where
  | ok (minted : Int)
  | halt
deriving DecidableEq, Repr

/-- `BlockProvisions`: integer part minted, fractional part carried; `none` = Quo by zero panic -/
def blockProvisions (m : Minter) (blocks : Dec) : Option (Int × Dec) :=
  let bpp := blocks.truncDec
  if bpp.raw = 0 then none else
  let prov := (m.phaseProvisions.quo bpp).add m.truncated
  let intPart := prov.truncDec
  some (intPart.truncInt, prov.sub intPart)

/-- first half of `BeginBlocker`: on a phase change (or inflation mismatch) re-initialise the minter -/
def refresh (p : Params) (m : Minter) (ph : Phase) (step supply : Int) : Minter :=
  if step ≠ m.phaseStep ∨ m.inflation ≠ ph.inflation then
    { m with inflation := ph.inflation, phaseStep := step,
             phaseProvisions := nextPhaseProvisions ph.inflation supply p.exclude ph }
  else m

/-- second half of `BeginBlocker`: mint the block provision. `m0` is the minter before the block
    (a panic discards every write of the block). -/
def provision (m0 m1 : Minter) (blocks : Dec) : Minter × BlockRes :=
  if m1.inflation.raw = 0 then (m1, .ok 0)
  else
    match blockProvisions m1 blocks with
    | none => (m0, .halt)
    | some (amt, tr) =>
      if amt < 0 then (m0, .halt)     -- sdk.NewCoin panics on a negative amount
      else ({ m1 with truncated := tr }, .ok amt)

/-- `BeginBlocker`: returns the new minter and the amount minted to the fee collector -/
def beginBlock (p : Params) (m : Minter) (height supply : Int) : Minter × BlockRes :=
  let cp := currentPhase p height
  provision m (refresh p m cp.1 cp.2 supply) (phaseBlocks p cp.1)

/-- `validatePhases` + `validateBlocksPerYear` + `validateExcludeAmount` (denom not modelled) -/
def isEndPhase (ph : Phase) : Bool := ph.inflation == endPhase.inflation && ph.yearCoef == endPhase.yearCoef
def phasesValid (phs : List Phase) : Bool :=
  !phs.isEmpty && phs.all (fun ph => decide (0 < ph.yearCoef.raw) && !isEndPhase ph)
def paramsValid (p : Params) : Bool :=
  decide (0 < p.blocksPerYear) && phasesValid p.phases && decide (0 ≤ p.exclude)

end Sge.Mint

namespace Sge.Mint
open Sge

/-- the part of the chain x/mint touches: total supply, fee-collector balance, minter record -/
structure Chain where
  supply : Int
  collector : Int
  minter : Minter
  halted : Bool := false
deriving Repr, Inhabited

/-- BeginBlock of the mint module on the chain: MintCoins + SendCoinsFromModuleToModule(mint → fee collector) -/
def Chain.begin (p : Params) (c : Chain) (h : Int) : Chain :=
  if c.halted then c else
  match beginBlock p c.minter h c.supply with
  | (m, .ok n) => { supply := c.supply + n, collector := c.collector + n, minter := m, halted := false }
  | (_, .halt) => { c with halted := true }

/-- `n` consecutive blocks starting at height `h` -/
def runBlocks (p : Params) : Nat → Int → Chain → Chain
  | 0, _, c => c
  | n + 1, h, c => runBlocks p n (h + 1) (c.begin p h)

end Sge.Mint
