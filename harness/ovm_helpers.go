package harness

// Helpers of the ovm (C14) suite: a pool of Ed25519 oracle keys with several textual encodings each, the
// numbering of key strings shared with lean/Sge/Ovm.lean, hand-assembled JWTs (so that header, segments and
// signature can be varied), decoded-key comparisons for the monitors.

import (
	"bytes"
	"crypto/ed25519"
	"crypto/hmac"
	"crypto/sha256"
	"crypto/x509"
	"encoding/base64"
	"encoding/json"
	"encoding/pem"
	"fmt"
	"strings"

	"github.com/golang-jwt/jwt/v4"

	ovmtypes "github.com/sge-network/sge/x/ovm/types"
)

const (
	ovmPoolKeys = 10 // Ed25519 keys 0..9
	ovmVariants = 8  // string id = 8*key + variant; variants 0..3 parse, 4..7 do not
)

type ovmPool struct {
	priv []ed25519.PrivateKey
	pub  []ed25519.PublicKey
	str  [][]string     // [key][variant]
	id   map[string]int // exact string -> id
}

func rewrap(b64 string, width int) string {
	var sb strings.Builder
	for len(b64) > width {
		sb.WriteString(b64[:width])
		sb.WriteByte('\n')
		b64 = b64[width:]
	}
	sb.WriteString(b64)
	return sb.String()
}

func newOvmPool() *ovmPool {
	p := &ovmPool{id: map[string]int{}}
	for k := 0; k < ovmPoolKeys; k++ {
		pub, priv, pemStr := detKey(fmt.Sprintf("pool-%d", k))
		der, err := x509.MarshalPKIXPublicKey(pub)
		must(err)
		b64 := base64.StdEncoding.EncodeToString(der)
		v := make([]string, ovmVariants)
		v[0] = strings.TrimSpace(pemStr)                                                       // what a proposal stores
		v[1] = pemStr                                                                          // pem.EncodeToMemory output (trailing newline), as in genesis files
		v[2] = "-----BEGIN PUBLIC KEY-----\n" + rewrap(b64, 20) + "\n-----END PUBLIC KEY-----" // other line width
		v[3] = "oracle key\n" + string(bytes.TrimSpace(pem.EncodeToMemory(&pem.Block{Type: "ED25519 PUBLIC KEY", Bytes: der})))
		v[4] = fmt.Sprintf("not-a-pem-%d", k)
		v[5] = strings.TrimSpace(string(pem.EncodeToMemory(&pem.Block{Type: "PUBLIC KEY", Bytes: der[:len(der)-3]}))) // truncated DER
		v[6] = fmt.Sprintf("-----BEGIN PUBLIC KEY-----\n%%%d%%\n-----END PUBLIC KEY-----", k)                         // not base64
		v[7] = fmt.Sprintf("-----BEGIN PUBLIC KEY-----\n%s\n-----END PUBLIC KEY-----", base64.StdEncoding.EncodeToString([]byte(fmt.Sprintf("junk-%d", k))))
		if k == 0 {
			v[7] = "" // the empty string (what a blank entry trims to)
		}
		for i, s := range v {
			if _, dup := p.id[s]; dup {
				panic("ovm pool: duplicate string")
			}
			p.id[s] = ovmVariants*k + i
			_, perr := jwt.ParseEdPublicKeyFromPEM([]byte(s))
			if (perr == nil) != (i < 4) {
				panic(fmt.Sprintf("ovm pool: variant %d of key %d: parse error = %v", i, k, perr))
			}
		}
		p.priv = append(p.priv, priv)
		p.pub = append(p.pub, pub)
		p.str = append(p.str, v)
	}
	return p
}

// ID of an exact string; -1 for a string the pool does not know (never expected).
func (p *ovmPool) ID(s string) int {
	if id, ok := p.id[s]; ok {
		return id
	}
	return -1
}

func (p *ovmPool) IDs(ss []string) string {
	var sb strings.Builder
	for _, s := range ss {
		fmt.Fprintf(&sb, " %d", p.ID(s))
	}
	return sb.String()
}

// decodedKey returns the raw Ed25519 key a stored string denotes ("" if it does not parse).
func decodedKey(s string) string {
	k, err := jwt.ParseEdPublicKeyFromPEM([]byte(s))
	if err != nil {
		return ""
	}
	pk, ok := k.(ed25519.PublicKey)
	if !ok {
		return ""
	}
	return string(pk)
}

// ---------------------------------------------------------------------------------------------
// tickets

// tkDesc is what the model is told about a ticket.
type tkDesc struct {
	Fmt    bool  // NewJwtTicket accepts it
	Exp    int64 // exp claim (0 when absent)
	Alg    bool  // header alg = EdDSA
	Signer int   // pool key whose EdDSA signature over header.payload the token carries, -1 = none
	POk    bool  // payload decodes into the message's payload type
}

func (d tkDesc) String() string {
	return fmt.Sprintf("%d %d %d %d %d", b2i(d.Fmt), d.Exp, b2i(d.Alg), d.Signer, b2i(d.POk))
}

type tkShape int

const (
	tkGood        tkShape = iota
	tkBadSig              // signature bytes flipped
	tkAlgNone             // alg "none", empty signature
	tkAlgHS256            // HS256 keyed with the PEM string of the signer
	tkTwoSegs             // header.payload only
	tkNoExp               // no exp claim
	tkNotJSON             // payload segment is not JSON
	tkNotB64              // payload segment is not base64url
	tkExtraSeg            // a fourth segment appended to a good token
	tkSigOtherMsg         // good signature of another payload (signature transplant)
)

func b64u(b []byte) string { return base64.RawURLEncoding.EncodeToString(b) }

// makeTicket assembles a JWT. claims must not contain exp (taken from exp unless shape says otherwise).
func (p *ovmPool) makeTicket(shape tkShape, signer int, exp int64, claims map[string]interface{}, payloadOk bool) (string, tkDesc) {
	d := tkDesc{Fmt: true, Exp: exp, Alg: true, Signer: signer, POk: payloadOk}
	hdr := map[string]interface{}{"alg": "EdDSA", "typ": "JWT"}
	cl := map[string]interface{}{}
	for k, v := range claims {
		cl[k] = v
	}
	cl["exp"] = exp
	cl["iat"] = exp - 1000
	switch shape {
	case tkAlgNone:
		hdr["alg"] = "none"
		d.Alg, d.Signer = false, -1
	case tkAlgHS256:
		hdr["alg"] = "HS256"
		d.Alg, d.Signer = false, -1
	case tkNoExp:
		delete(cl, "exp")
		d.Fmt, d.Exp = false, 0
	}
	hb, err := json.Marshal(hdr)
	must(err)
	pb, err := json.Marshal(cl)
	must(err)
	h, pl := b64u(hb), b64u(pb)
	switch shape {
	case tkNotJSON:
		pl = b64u([]byte("exp=" + fmt.Sprint(exp)))
		d.Fmt = false
	case tkNotB64:
		pl = "%%%" + pl
		d.Fmt = false
	}
	input := h + "." + pl
	var sig []byte
	switch shape {
	case tkAlgNone:
		sig = nil
	case tkAlgHS256:
		m := hmac.New(sha256.New, []byte(p.str[signer][0]))
		m.Write([]byte(input))
		sig = m.Sum(nil)
	case tkSigOtherMsg:
		sig = ed25519.Sign(p.priv[signer], []byte(h+"."+b64u([]byte(`{"exp":1}`))))
		d.Signer = -1
	default:
		sig = ed25519.Sign(p.priv[signer], []byte(input))
	}
	if shape == tkBadSig {
		sig[5] ^= 0x40
		d.Signer = -1
	}
	tok := input + "." + b64u(sig)
	switch shape {
	case tkTwoSegs:
		tok = input
		d.Fmt = false
	case tkExtraSeg:
		tok += ".extra"
	}
	return tok, d
}

// ---------------------------------------------------------------------------------------------
// reading the implementation state

type ovmSnap struct {
	Vault []string
	Props []ovmtypes.PublicKeysChangeProposal // store order: active by id, then finished by id
	Count uint64
}

func (s *ovmSnap) find(status ovmtypes.ProposalStatus, id uint64) *ovmtypes.PublicKeysChangeProposal {
	for i := range s.Props {
		if s.Props[i].Status == status && s.Props[i].Id == id {
			return &s.Props[i]
		}
	}
	return nil
}

func (s *ovmSnap) byStatus(status ovmtypes.ProposalStatus) []*ovmtypes.PublicKeysChangeProposal {
	var l []*ovmtypes.PublicKeysChangeProposal
	for i := range s.Props {
		if s.Props[i].Status == status {
			l = append(l, &s.Props[i])
		}
	}
	return l
}

func sameStrs(a, b []string) bool {
	if len(a) != len(b) {
		return false
	}
	for i := range a {
		if a[i] != b[i] {
			return false
		}
	}
	return true
}

// distinctDecoded returns the set of decoded keys of a list of strings (unparsable strings are skipped).
func distinctDecoded(ss []string) map[string]bool {
	m := map[string]bool{}
	for _, s := range ss {
		if k := decodedKey(s); k != "" {
			m[k] = true
		}
	}
	return m
}

// leaderFirst is the vault the property prescribes after approval of a proposal.
func leaderFirst(keys []string, leader uint32) []string {
	if int(leader) >= len(keys) {
		return nil
	}
	out := []string{keys[leader]}
	for i, k := range keys {
		if i != int(leader) {
			out = append(out, k)
		}
	}
	return out
}

func ceilTwoThirds(n int) int { return (2*n + 2) / 3 }
