package harness

// Suite "ovm" (property C14): random histories of key-change proposals, votes and end-blocks through the real
// x/ovm message servers and the real ovm.EndBlocker; the same operations are replayed on lean/Sge/Ovm.lean.
//
// The model has two variants (lean/Sge/Ovm.lean, `fixed`): the tree as it is, and the tree after
// repo_patches/ovm_key_governance.diff. The suite probes two pure functions of /repo to see which tree it was
// built against (ovmPatched) and tells the driver in the genesis line; VERIF_OVM_FIXED=0|1 overrides the probe.

import (
	"fmt"
	"strings"

	sdk "github.com/cosmos/cosmos-sdk/types"

	"github.com/sge-network/sge/x/ovm"
	ovmkeeper "github.com/sge-network/sge/x/ovm/keeper"
	ovmtypes "github.com/sge-network/sge/x/ovm/types"
)

func init() { suites["ovm"] = runOvm; suites["ovm_scripted"] = runOvmScripted }

const ovmExpiry int64 = 1800

type ovmRun struct {
	e      *Env
	k      ovmkeeper.Keeper
	srv    ovmtypes.MsgServer
	pool   *ovmPool
	out    *Out
	r      *Rng
	h      int
	now    int64
	everIn map[int]bool // pool keys that have been in the vault at some time
	sent   []ovmSent    // messages sent so far (for replays)
}

type ovmSent struct {
	vote    bool
	creator int
	idx     uint32
	ticket  string
	desc    tkDesc
	// decoded payload as the harness built it
	keys   []string // trimmed
	leader uint32
	pid    uint64
	vv     int64
}

func (x *ovmRun) snap() *ovmSnap {
	s := &ovmSnap{}
	kv, _ := x.k.GetKeyVault(x.e.Ctx)
	s.Vault = kv.PublicKeys
	ps, err := x.k.GetAllPubkeysChangeProposals(x.e.Ctx)
	must(err)
	s.Props = ps
	s.Count = x.k.GetProposalStats(x.e.Ctx).PubkeysChangeCount
	return s
}

// printState writes the canonical ovm state (same lines as Driver/Ovm.lean showState).
func (x *ovmRun) printState(s *ovmSnap) {
	x.out.Impl("v%s", x.pool.IDs(s.Vault))
	x.out.Impl("c %d", s.Count)
	for _, p := range s.Props {
		tag := "a"
		if p.Status == ovmtypes.ProposalStatus_PROPOSAL_STATUS_FINISHED {
			tag = "f"
		} else if p.Status != ovmtypes.ProposalStatus_PROPOSAL_STATUS_ACTIVE {
			tag = "?"
		}
		creator := -1
		for i, a := range x.e.Accts {
			if a.String() == p.Creator {
				creator = i
			}
		}
		var ws strings.Builder
		for _, v := range p.Votes {
			fmt.Fprintf(&ws, " %d:%d", x.pool.ID(v.PublicKey), int32(v.Vote))
		}
		x.out.Impl("p %s %d %d %d %d %d %d k%s w%s", tag, p.Id, creator, p.StartTS, p.FinishTS, int32(p.Result),
			p.Modifications.LeaderIndex, x.pool.IDs(p.Modifications.PublicKeys), ws.String())
	}
}

func (x *ovmRun) fail(mon, class, format string, a ...interface{}) {
	x.out.Fail(MonFail{Property: "C14", Monitor: mon, Class: class, History: x.h, Detail: fmt.Sprintf(format, a...)})
}

// ---------------------------------------------------------------------------------------------
// monitors (evaluated on the implementation state only)

func (x *ovmRun) keyName(dec string) string {
	for k, pub := range x.pool.pub {
		if string(pub) == dec {
			return fmt.Sprintf("K%d", k)
		}
	}
	return "K?"
}

// monVotes: the vote just accepted on proposal pid is the first vote of its (decoded) key and is yes or no.
func (x *ovmRun) monVotes(s *ovmSnap, pid uint64) {
	p := s.find(ovmtypes.ProposalStatus_PROPOSAL_STATUS_ACTIVE, pid)
	if p == nil || len(p.Votes) == 0 {
		return
	}
	last := p.Votes[len(p.Votes)-1]
	if last.Vote != ovmtypes.ProposalVote_PROPOSAL_VOTE_YES && last.Vote != ovmtypes.ProposalVote_PROPOSAL_VOTE_NO {
		x.fail("one_vote_per_key", "vote-value-not-yes-no", "proposal %d holds vote value %d", p.Id, last.Vote)
	}
	dk := decodedKey(last.PublicKey)
	for _, v := range p.Votes[:len(p.Votes)-1] {
		if v.PublicKey == last.PublicKey {
			x.fail("one_vote_per_key", "same-key-string-twice", "proposal %d holds two votes of string %d", p.Id, x.pool.ID(v.PublicKey))
			return
		}
		if dk != "" && decodedKey(v.PublicKey) == dk {
			x.fail("one_vote_per_key", "same-key-two-encodings", "proposal %d holds two votes of key %s (under strings %d and %d):%s",
				p.Id, x.keyName(dk), x.pool.ID(v.PublicKey), x.pool.ID(last.PublicKey), voteStr(x.pool, p.Votes))
			return
		}
	}
}

func voteStr(pool *ovmPool, vs []*ovmtypes.Vote) string {
	var sb strings.Builder
	for _, v := range vs {
		fmt.Fprintf(&sb, " %d:%d", pool.ID(v.PublicKey), int32(v.Vote))
	}
	return sb.String()
}

// monShape: the vault after a change.
func (x *ovmRun) monShape(vault []string, p *ovmtypes.PublicKeysChangeProposal) {
	n := len(vault)
	if n < ovmtypes.MinPubKeysCount || n > ovmtypes.MaxPubKeysCount {
		x.fail("vault_shape", "size-out-of-range", "vault has %d keys after approval of proposal %d", n, p.Id)
	}
	seen := map[string]bool{}
	for _, s := range vault {
		dk := decodedKey(s)
		if dk == "" {
			x.fail("vault_shape", "invalid-key", "vault holds unparsable key string %d after approval of proposal %d", x.pool.ID(s), p.Id)
			continue
		}
		if seen[dk] {
			x.fail("vault_shape", "duplicate-key-two-encodings", "vault%s holds key %s twice after approval of proposal %d", x.pool.IDs(vault), x.keyName(dk), p.Id)
		}
		seen[dk] = true
	}
	want := leaderFirst(p.Modifications.PublicKeys, p.Modifications.LeaderIndex)
	if want == nil || len(vault) == 0 || vault[0] != want[0] {
		x.fail("vault_shape", "leader-not-first", "vault%s after approval of proposal %d with keys%s leader %d", x.pool.IDs(vault), p.Id,
			x.pool.IDs(p.Modifications.PublicKeys), p.Modifications.LeaderIndex)
	}
}

// monMessage: a message never changes the vault; an accepted message carried the right ticket.
func (x *ovmRun) monMessage(before, after *ovmSnap, m *ovmSent, ok bool) {
	if !sameStrs(before.Vault, after.Vault) {
		x.fail("vault_change_only_by_approval", "message-changed-vault", "vault%s ->%s by a message", x.pool.IDs(before.Vault), x.pool.IDs(after.Vault))
	}
	if !ok {
		if len(before.Props) != len(after.Props) || before.Count != after.Count {
			x.fail("vault_change_only_by_approval", "failed-message-wrote-state", "a rejected message changed the proposal stores")
		}
		return
	}
	reg := distinctDecoded(before.Vault)
	signerKey := ""
	if m.desc.Signer >= 0 {
		signerKey = string(x.pool.pub[m.desc.Signer])
	}
	authentic := m.desc.Fmt && m.desc.Alg && m.desc.Signer >= 0 && m.desc.Exp > x.now
	if !m.vote {
		if !authentic || !reg[signerKey] {
			x.fail("proposal_ticket_by_registered_key", "submit-accepted-without-registered-signature",
				"proposal accepted with ticket %s, vault%s", m.desc, x.pool.IDs(before.Vault))
		}
		return
	}
	// accepted vote: exactly one vote appended to an active proposal, under the key that signed the ticket
	pa := after.find(ovmtypes.ProposalStatus_PROPOSAL_STATUS_ACTIVE, m.pid)
	pb := before.find(ovmtypes.ProposalStatus_PROPOSAL_STATUS_ACTIVE, m.pid)
	if pa == nil || pb == nil || len(pa.Votes) != len(pb.Votes)+1 {
		x.fail("vote_ticket_by_voting_key", "vote-accepted-without-active-proposal", "vote on proposal %d accepted", m.pid)
		return
	}
	v := pa.Votes[len(pa.Votes)-1]
	dk := decodedKey(v.PublicKey)
	if !authentic || dk == "" || dk != signerKey || !reg[dk] {
		x.fail("vote_ticket_by_voting_key", "vote-accepted-without-voter-signature",
			"vote recorded for string %d with ticket %s, vault%s", x.pool.ID(v.PublicKey), m.desc, x.pool.IDs(before.Vault))
	}
	if int(m.idx) >= len(before.Vault) || before.Vault[m.idx] != v.PublicKey {
		x.fail("vote_ticket_by_voting_key", "vote-recorded-for-other-index", "vote recorded for string %d, index %d", x.pool.ID(v.PublicKey), m.idx)
	}
}

// monEndBlock: the vault changes only by approval of a proposal that holds, at the moment of its decision,
// yes votes of ceil(2n/3) of the n registered keys and is at most 1800 s old; decisions in store (id) order.
func (x *ovmRun) monEndBlock(before, after *ovmSnap) {
	dv := before.Vault // vault at the moment of the next decision
	approvals := 0
	var last *ovmtypes.PublicKeysChangeProposal
	for _, pb := range before.byStatus(ovmtypes.ProposalStatus_PROPOSAL_STATUS_ACTIVE) {
		pf := after.find(ovmtypes.ProposalStatus_PROPOSAL_STATUS_FINISHED, pb.Id)
		pa := after.find(ovmtypes.ProposalStatus_PROPOSAL_STATUS_ACTIVE, pb.Id)
		if (pf == nil) == (pa == nil) {
			x.fail("vault_change_only_by_approval", "proposal-lost-or-duplicated", "proposal %d after end-block: active=%v finished=%v", pb.Id, pa != nil, pf != nil)
			continue
		}
		if pf == nil {
			continue
		}
		x.out.Count(fmt.Sprintf("finished.%d", int32(pf.Result)))
		if pf.Result != ovmtypes.ProposalResult_PROPOSAL_RESULT_APPROVED {
			continue
		}
		// decision of pb against dv
		reg := distinctDecoded(dv)
		n := len(reg)
		need := ceilTwoThirds(n)
		yes := map[string]bool{}
		rawYes, regYesVotes := 0, 0
		for _, v := range pb.Votes {
			if v.Vote == ovmtypes.ProposalVote_PROPOSAL_VOTE_YES {
				rawYes++
				if dk := decodedKey(v.PublicKey); dk != "" && reg[dk] {
					yes[dk] = true
					regYesVotes++
				}
			}
		}
		if len(yes) < need {
			class := "votes-of-removed-keys-counted"
			if regYesVotes >= need {
				class = "two-votes-of-one-key-counted"
			} else if approvals > 0 {
				class = "votes-of-keys-removed-in-same-block-counted"
				if len(yes) >= ceilTwoThirds(len(distinctDecoded(before.Vault))) {
					class = "majority-of-vault-size-before-the-block"
				}
			}
			x.fail("majority_of_registered_keys", class,
				"proposal %d approved with yes votes of %d of the %d keys registered at its decision (need %d; %d yes votes recorded:%s; vault at decision%s; approvals earlier in this block: %d)",
				pb.Id, len(yes), n, need, rawYes, voteStr(x.pool, pb.Votes), x.pool.IDs(dv), approvals)
		}
		if x.now-pb.StartTS > ovmExpiry {
			x.fail("decided_within_expiry", "approved-after-expiry", "proposal %d approved %d s after its start", pb.Id, x.now-pb.StartTS)
		}
		approvals++
		last = pf
		dv = leaderFirst(pf.Modifications.PublicKeys, pf.Modifications.LeaderIndex)
	}
	if approvals == 0 {
		if !sameStrs(before.Vault, after.Vault) {
			x.fail("rejected_or_expired_no_change", "vault-changed-without-approval", "vault%s ->%s in an end-block that approved nothing",
				x.pool.IDs(before.Vault), x.pool.IDs(after.Vault))
		}
		return
	}
	x.out.Count(fmt.Sprintf("endblock.approvals.%d", approvals))
	if !sameStrs(dv, after.Vault) {
		x.fail("vault_change_only_by_approval", "vault-differs-from-approved-proposal", "vault%s after approval of proposal %d (expected%s)",
			x.pool.IDs(after.Vault), last.Id, x.pool.IDs(dv))
	}
	if !sameStrs(before.Vault, after.Vault) {
		x.out.Count("vault.changed")
		x.monShape(after.Vault, last)
	}
}

// ---------------------------------------------------------------------------------------------
// operations

func (x *ovmRun) sendSubmit(m *ovmSent) {
	before := x.snap()
	var ids strings.Builder
	for _, s := range m.keys {
		fmt.Fprintf(&ids, " %d", x.pool.ID(s))
	}
	if m.desc.POk {
		x.out.Op("S %d %d %s %d %d%s", x.now, m.creator, m.desc, m.leader, len(m.keys), ids.String())
	} else {
		x.out.Op("S %d %d %s 0 0", x.now, m.creator, m.desc)
	}
	msg := &ovmtypes.MsgSubmitPubkeysChangeProposalRequest{Creator: x.e.Accts[m.creator].String(), Ticket: m.ticket}
	must(msg.ValidateBasic())
	err, _ := x.e.Tx(func(ctx sdk.Context) error {
		_, err := x.srv.SubmitPubkeysChangeProposal(sdk.WrapSDKContext(ctx), msg)
		return err
	})
	x.result("submit", err == nil)
	after := x.snap()
	x.printState(after)
	x.monMessage(before, after, m, err == nil)
}

func (x *ovmRun) sendVote(m *ovmSent) {
	before := x.snap()
	if m.desc.POk {
		x.out.Op("V %d %d %s %d %d", x.now, m.idx, m.desc, m.pid, m.vv)
	} else {
		x.out.Op("V %d %d %s 0 0", x.now, m.idx, m.desc)
	}
	msg := &ovmtypes.MsgVotePubkeysChangeRequest{Creator: x.e.Accts[m.creator].String(), Ticket: m.ticket, VoterKeyIndex: m.idx}
	must(msg.ValidateBasic())
	err, _ := x.e.Tx(func(ctx sdk.Context) error {
		_, err := x.srv.VotePubkeysChange(sdk.WrapSDKContext(ctx), msg)
		return err
	})
	x.result("vote", err == nil)
	after := x.snap()
	x.printState(after)
	x.monMessage(before, after, m, err == nil)
	if err == nil {
		x.monVotes(after, m.pid) // evaluated where the vote enters the record
	}
}

func (x *ovmRun) result(kind string, ok bool) {
	if ok {
		x.out.Impl("r ok")
		x.out.Count(kind + ".ok")
	} else {
		x.out.Impl("r err")
		x.out.Count(kind + ".err")
	}
}

func (x *ovmRun) endBlock() {
	before := x.snap()
	x.out.Op("E %d", x.now)
	halt, what := x.e.Block(func(ctx sdk.Context) { ovm.EndBlocker(ctx, x.k) })
	after := x.snap()
	if halt {
		x.out.Impl("r halt")
		x.out.Count("endblock.halt")
		x.fail("endblock_no_halt", "endblocker-panic", "ovm.EndBlocker panicked: %s", what)
	} else {
		x.out.Impl("r ok")
		x.out.Count("endblock.ok")
	}
	x.printState(after)
	x.monEndBlock(before, after)
	for _, s := range after.Vault {
		if id := x.pool.ID(s); id >= 0 && id%ovmVariants < 4 {
			x.everIn[id/ovmVariants] = true
		}
	}
}

// ---------------------------------------------------------------------------------------------
// generators

// vaultKeys returns the pool key index of every vault entry (-1 if it does not parse).
func (x *ovmRun) vaultKeys(vault []string) []int {
	var ks []int
	for _, s := range vault {
		id := x.pool.ID(s)
		if id >= 0 && id%ovmVariants < 4 {
			ks = append(ks, id/ovmVariants)
		} else {
			ks = append(ks, -1)
		}
	}
	return ks
}

func contains(xs []int, v int) bool {
	for _, x := range xs {
		if x == v {
			return true
		}
	}
	return false
}

func (x *ovmRun) pickShape(pctBad int) tkShape {
	if !x.r.Chance(pctBad) {
		return tkGood
	}
	return tkShape(1 + x.r.Intn(int(tkSigOtherMsg)))
}

func (x *ovmRun) pickExp() int64 {
	switch x.r.Intn(20) {
	case 0:
		return x.now - 1
	case 1:
		return x.now
	case 2:
		return x.now + 1
	case 3:
		return x.now + x.r.Range(2, 60)
	default:
		return x.now + x.r.Range(300, 4000)
	}
}

// pickSigner: a registered key (pct), else a removed or a foreign key.
func (x *ovmRun) pickSigner(vk []int, pctRegistered int) int {
	var regd []int
	for _, k := range vk {
		if k >= 0 {
			regd = append(regd, k)
		}
	}
	if len(regd) > 0 && x.r.Chance(pctRegistered) {
		return regd[x.r.Intn(len(regd))]
	}
	var removed, foreign []int
	for k := 0; k < ovmPoolKeys; k++ {
		if contains(regd, k) {
			continue
		}
		if x.everIn[k] {
			removed = append(removed, k)
		} else {
			foreign = append(foreign, k)
		}
	}
	if len(removed) > 0 && (len(foreign) == 0 || x.r.Chance(60)) {
		return removed[x.r.Intn(len(removed))]
	}
	if len(foreign) > 0 {
		return foreign[x.r.Intn(len(foreign))]
	}
	return x.r.Intn(ovmPoolKeys)
}

// genKeySet proposes a new key list derived from the current vault.
func (x *ovmRun) genKeySet(vk []int) (raw []string, leader uint32) {
	var cur []int
	for _, k := range vk {
		if k >= 0 {
			cur = append(cur, k)
		}
	}
	keys := append([]int{}, cur...)
	// removals
	nrem := 0
	switch x.r.Intn(8) {
	case 0, 1, 2:
		nrem = 1
	case 3:
		nrem = 2
	case 4:
		nrem = 3 // rotates a majority of the voters out
	case 5:
		nrem = len(keys)
	}
	for i := 0; i < nrem && len(keys) > 0; i++ {
		j := x.r.Intn(len(keys))
		keys = append(keys[:j], keys[j+1:]...)
	}
	// additions up to a target size
	target := 4 + x.r.Intn(2)
	switch x.r.Intn(14) {
	case 0:
		target = 3
	case 1:
		target = 6
	case 2:
		target = 2
	}
	for guard := 0; len(keys) < target && guard < 40; guard++ {
		k := x.r.Intn(ovmPoolKeys)
		if !contains(keys, k) {
			keys = append(keys, k)
		}
	}
	for len(keys) > target {
		keys = keys[:len(keys)-1]
	}
	// shuffle
	for i := len(keys) - 1; i > 0; i-- {
		j := x.r.Intn(i + 1)
		keys[i], keys[j] = keys[j], keys[i]
	}
	for _, k := range keys {
		v := 0
		if x.r.Chance(6) {
			v = 2 + x.r.Intn(2)
		}
		if x.r.Chance(2) {
			v = 4 + x.r.Intn(4)
		}
		raw = append(raw, x.pool.str[k][v])
	}
	// duplicates: same string, or the same key in another encoding
	if len(raw) > 0 && x.r.Chance(12) {
		j := x.r.Intn(len(raw))
		dup := raw[j]
		if x.r.Chance(60) {
			k := keys[j]
			dup = x.pool.str[k][[]int{0, 2, 3}[x.r.Intn(3)]]
		}
		at := x.r.Intn(len(raw) + 1)
		raw = append(raw[:at], append([]string{dup}, raw[at:]...)...)
	}
	// surrounding white space (trimmed by the handler)
	for i := range raw {
		if x.r.Chance(8) {
			raw[i] = []string{"\n", " ", "\t\n", ""}[x.r.Intn(4)] + raw[i] + []string{"\n", "  ", "\r\n"}[x.r.Intn(3)]
		}
	}
	n := len(raw)
	leader = uint32(x.r.Intn(n + 1))
	if n > 0 && x.r.Chance(94) {
		leader = uint32(x.r.Intn(n))
	}
	if x.r.Chance(2) {
		leader = uint32(n + x.r.Intn(3))
	}
	return
}

func (x *ovmRun) genSubmit(s *ovmSnap) *ovmSent {
	vk := x.vaultKeys(s.Vault)
	raw, leader := x.genKeySet(vk)
	m := &ovmSent{creator: x.r.Intn(NAcct), leader: leader}
	for _, k := range raw {
		m.keys = append(m.keys, strings.TrimSpace(k))
	}
	signer := x.pickSigner(vk, 80)
	claims := map[string]interface{}{"public_keys": raw, "leader_index": leader}
	pok := true
	if x.r.Chance(4) {
		pok = false
		switch x.r.Intn(3) {
		case 0:
			claims["leader_index"] = -1
		case 1:
			claims["public_keys"] = "k1,k2,k3,k4"
		case 2:
			claims["leader_index"] = "0"
		}
	}
	m.ticket, m.desc = x.pool.makeTicket(x.pickShape(8), signer, x.pickExp(), claims, pok)
	return m
}

// genVote: votes on proposal pid. mode 0 = a registered key that has not voted yet (if any) with its own
// index and signature; other modes are the wrong-signer / wrong-index / repeated kinds.
func (x *ovmRun) genVote(s *ovmSnap) *ovmSent {
	vk := x.vaultKeys(s.Vault)
	m := &ovmSent{vote: true, creator: x.r.Intn(NAcct)}
	active := s.byStatus(ovmtypes.ProposalStatus_PROPOSAL_STATUS_ACTIVE)
	finished := s.byStatus(ovmtypes.ProposalStatus_PROPOSAL_STATUS_FINISHED)
	var target *ovmtypes.PublicKeysChangeProposal
	switch {
	case len(active) > 0 && x.r.Chance(90):
		target = active[x.r.Intn(len(active))]
		m.pid = target.Id
	case len(finished) > 0 && x.r.Chance(50):
		m.pid = finished[x.r.Intn(len(finished))].Id
	default:
		m.pid = uint64(x.r.Intn(int(s.Count) + 3))
	}
	m.vv = 2
	pctNo := 15
	if m.pid%4 == 3 {
		pctNo = 80 // an unpopular proposal
	}
	switch v := x.r.Intn(100); {
	case v < 3:
		m.vv = int64([]int{0, 3, 7}[x.r.Intn(3)])
	case v < 3+pctNo:
		m.vv = 1
	case false:
		m.vv = int64([]int{0, 3, 7}[x.r.Intn(3)])
	}
	// voter index
	n := len(s.Vault)
	idx := x.r.Intn(n)
	if target != nil && x.r.Chance(75) {
		// prefer a key string that has not voted on the target yet
		var fresh []int
		for i, str := range s.Vault {
			voted := false
			for _, v := range target.Votes {
				if v.PublicKey == str {
					voted = true
				}
			}
			if !voted {
				fresh = append(fresh, i)
			}
		}
		if len(fresh) > 0 {
			idx = fresh[x.r.Intn(len(fresh))]
		}
	}
	m.idx = uint32(idx)
	signer := vk[idx]
	switch v := x.r.Intn(100); {
	case v < 5: // signed by the key at another index
		signer = vk[(idx+1+x.r.Intn(n-1))%n]
	case v < 12: // signed by a removed or foreign key
		signer = x.pickSigner(vk, 0)
	case v < 15: // index out of range
		m.idx = []uint32{uint32(n), uint32(n + 1), 4294967295}[x.r.Intn(3)]
	}
	if signer < 0 {
		signer = x.r.Intn(ovmPoolKeys)
	}
	claims := map[string]interface{}{"proposal_id": m.pid, "vote": m.vv}
	pok := true
	if x.r.Chance(3) {
		pok = false
		if x.r.Chance(50) {
			claims["vote"] = "yes"
		} else {
			claims["proposal_id"] = -1
		}
	}
	m.ticket, m.desc = x.pool.makeTicket(x.pickShape(6), signer, x.pickExp(), claims, pok)
	return m
}

// burst: in this block most registered keys vote yes on every active proposal (several proposals reach their
// majority in the same end-block).
func (x *ovmRun) burst() {
	x.out.Count("burst")
	s := x.snap()
	vk := x.vaultKeys(s.Vault)
	for _, p := range s.byStatus(ovmtypes.ProposalStatus_PROPOSAL_STATUS_ACTIVE) {
		for i := range s.Vault {
			if vk[i] < 0 || !x.r.Chance(85) {
				continue
			}
			m := &ovmSent{vote: true, creator: x.r.Intn(NAcct), pid: p.Id, vv: 2, idx: uint32(i)}
			if x.r.Chance(10) {
				m.vv = 1
			}
			m.ticket, m.desc = x.pool.makeTicket(tkGood, vk[i], x.now+600, map[string]interface{}{"proposal_id": m.pid, "vote": m.vv}, true)
			x.sent = append(x.sent, *m)
			x.send(m)
		}
	}
}

func (x *ovmRun) send(m *ovmSent) {
	if m.vote {
		x.sendVote(m)
	} else {
		x.sendSubmit(m)
	}
}

// genesisVault draws the initial key vault.
func (x *ovmRun) genesisVault() []string {
	n := 4 + x.r.Intn(2)
	if x.r.Chance(6) {
		n = []int{3, 6}[x.r.Intn(2)] // outside the range a valid genesis has; exercises MajorityCount
	}
	perm := make([]int, ovmPoolKeys)
	for i := range perm {
		perm[i] = i
	}
	for i := len(perm) - 1; i > 0; i-- {
		j := x.r.Intn(i + 1)
		perm[i], perm[j] = perm[j], perm[i]
	}
	style := x.r.Intn(10) // 0..4: as pem.EncodeToMemory writes them (trailing newline); 5..8: trimmed; 9: mixed
	var vault []string
	for i := 0; i < n; i++ {
		v := 1
		if style >= 5 {
			v = 0
		}
		if style == 9 {
			v = x.r.Intn(4)
		}
		vault = append(vault, x.pool.str[perm[i]][v])
	}
	return vault
}

// advance moves the block time: small steps, or exactly around the expiry of an active proposal.
func (x *ovmRun) advance(s *ovmSnap) {
	active := s.byStatus(ovmtypes.ProposalStatus_PROPOSAL_STATUS_ACTIVE)
	if len(active) > 0 && x.r.Chance(18) {
		p := active[x.r.Intn(len(active))]
		t := p.StartTS + ovmExpiry + x.r.Range(-1, 1)
		if t >= x.now {
			x.now = t
			return
		}
	}
	switch x.r.Intn(10) {
	case 0:
		// same second
	case 1:
		x.now += x.r.Range(600, 1900)
	default:
		x.now += x.r.Range(1, 240)
	}
}

// ovmPatched probes the tree: does DecideResult ignore votes of unregistered keys, does genesis validation
// reject one key in two encodings?
func ovmPatched(pool *ovmPool, out *Out) bool {
	vault := ovmtypes.KeyVault{PublicKeys: []string{pool.str[0][0], pool.str[1][0], pool.str[2][0], pool.str[3][0]}}
	p := ovmtypes.PublicKeysChangeProposal{}
	for k := 4; k < 7; k++ {
		p.Votes = append(p.Votes, ovmtypes.NewVote(pool.str[k][0], ovmtypes.ProposalVote_PROPOSAL_VOTE_YES))
	}
	a := p.DecideResult(&vault) != ovmtypes.ProposalResult_PROPOSAL_RESULT_APPROVED
	gs := ovmtypes.GenesisState{KeyVault: ovmtypes.KeyVault{PublicKeys: []string{pool.str[0][0], pool.str[0][2], pool.str[1][0], pool.str[2][0]}},
		Params: ovmtypes.DefaultParams()}
	b := gs.Validate() != nil
	if a != b {
		out.Count("variant.probes-disagree")
		return false
	}
	return a
}

func runOvm(seed uint64, n int, out *Out) {
	pool := newOvmPool()
	fixed := ovmPatched(pool, out)
	if v := envInt("VERIF_OVM_FIXED", -1); v >= 0 {
		fixed = v == 1
	}
	if fixed {
		out.Count("variant.patched-tree")
	} else {
		out.Count("variant.tree-as-it-is")
	}
	base := NewEnv(1_000_000, 4)
	baseCtx := base.Ctx
	h0 := base.Height
	for h := 0; h < n; h++ {
		if skipHist(h) {
			continue
		}
		r := NewRng(seed*1_000_003 + uint64(h))
		// every history runs on its own cache context of the pristine chain
		hctx, _ := baseCtx.CacheContext()
		base.Ctx = hctx
		x := &ovmRun{e: base, k: *base.App.OVMKeeper, pool: pool, out: out, r: r, h: h, now: BaseTime, everIn: map[int]bool{}}
		x.srv = ovmkeeper.NewMsgServerImpl(x.k)
		out.Op("N %d", h)
		out.Impl("n %d", h)

		vault := x.genesisVault()
		x.k.SetKeyVault(base.Ctx, ovmtypes.KeyVault{PublicKeys: vault})
		for _, k := range x.vaultKeys(vault) {
			x.everIn[k] = true
		}
		out.Op("G %d %d%s", b2i(fixed), len(vault), pool.IDs(vault))
		out.Impl("r ok")
		x.printState(x.snap())
		out.Count(fmt.Sprintf("genesis.size.%d", len(vault)))

		nBlocks := 2 + r.Intn(9)
		height := h0
		for b := 0; b < nBlocks; b++ {
			height++
			x.advance(x.snap())
			base.SetBlock(height, x.now)
			nMsgs := r.Intn(8)
			for i := 0; i < nMsgs; i++ {
				s := x.snap()
				nActive := len(s.byStatus(ovmtypes.ProposalStatus_PROPOSAL_STATUS_ACTIVE))
				var m *ovmSent
				switch v := r.Intn(100); {
				case v < 8 && len(x.sent) > 0: // replay of an earlier message (same ticket, possibly another sender / index)
					c := x.sent[r.Intn(len(x.sent))]
					m = &c
					if r.Chance(30) {
						m.creator = r.Intn(NAcct)
					}
					if m.vote && r.Chance(25) && len(s.Vault) > 0 {
						m.idx = uint32(r.Intn(len(s.Vault)))
					}
					out.Count("replay")
				case nActive == 0 && v < 70, nActive == 1 && v < 35, v < 20 && nActive < 4:
					m = x.genSubmit(s)
				default:
					m = x.genVote(s)
				}
				x.sent = append(x.sent, *m)
				x.send(m)
			}
			if r.Chance(15) {
				x.burst()
			}
			x.endBlock()
		}
		out.Count("histories")
	}
}

// ---------------------------------------------------------------------------------------------
// scripted histories: exactly the histories of the counter-example theorems C14.X1 - C14.X5
// (lean/SgeProofs/Lemmas/OvmExamples.lean), run on the real code with the same monitors.

type ovmStep struct {
	kind   byte // 'S', 'V', 'E'
	now    int64
	signer int
	keys   []int // S: string ids
	leader uint32
	idx    uint32 // V
	pid    uint64
	vote   int64
}

func sS(now int64, signer int, keys []int, leader uint32) ovmStep {
	return ovmStep{kind: 'S', now: now, signer: signer, keys: keys, leader: leader}
}
func sV(now int64, idx uint32, signer int, pid uint64, vote int64) ovmStep {
	return ovmStep{kind: 'V', now: now, idx: idx, signer: signer, pid: pid, vote: vote}
}
func sE(now int64) ovmStep { return ovmStep{kind: 'E', now: now} }

type ovmScript struct {
	name  string
	vault []int
	steps []ovmStep
}

var ovmScripts = []ovmScript{
	{"X1-removed-keys-same-block", []int{0, 8, 16, 24}, []ovmStep{
		sS(10, 0, []int{0, 32, 40, 48}, 0), sS(10, 1, []int{8, 16, 24, 56}, 0),
		sV(20, 1, 1, 1, 2), sV(20, 2, 2, 1, 2), sV(20, 3, 3, 1, 2),
		sV(20, 1, 1, 2, 2), sV(20, 2, 2, 2, 2), sV(20, 3, 3, 2, 2), sE(30)}},
	{"X2-removed-keys-earlier-block", []int{0, 8, 16, 24}, []ovmStep{
		sS(10, 0, []int{0, 32, 40, 48}, 0), sS(10, 1, []int{8, 16, 24, 56}, 0),
		sV(20, 1, 1, 1, 2), sV(20, 2, 2, 1, 2), sV(20, 3, 3, 1, 2),
		sV(20, 1, 1, 2, 2), sV(20, 2, 2, 2, 2), sE(30), sV(40, 1, 4, 2, 2), sE(50)}},
	{"X3-stale-vault-size", []int{0, 8, 16, 24}, []ovmStep{
		sS(10, 0, []int{0, 8, 16, 24, 32}, 0), sS(10, 0, []int{0, 8, 16, 40}, 0),
		sV(20, 0, 0, 1, 2), sV(20, 1, 1, 1, 2), sV(20, 2, 2, 1, 2),
		sV(20, 0, 0, 2, 2), sV(20, 1, 1, 2, 2), sV(20, 2, 2, 2, 2), sE(30)}},
	{"X4-double-vote", []int{1, 9, 17, 25}, []ovmStep{
		sS(10, 0, []int{0, 8, 16, 24}, 0), sS(10, 0, []int{0, 8, 32, 40}, 0),
		sV(20, 0, 0, 1, 2), sV(20, 1, 1, 1, 2), sV(20, 2, 2, 1, 2), sV(20, 0, 0, 2, 2), sE(30),
		sV(40, 0, 0, 2, 2), sV(40, 1, 1, 2, 2), sE(50)}},
	{"X5-duplicate-key", []int{0, 8, 16, 24}, []ovmStep{
		sS(10, 0, []int{0, 2, 8, 16}, 1), sV(20, 0, 0, 1, 2), sV(20, 1, 1, 1, 2), sV(20, 2, 2, 1, 2), sE(30)}},
}

func runOvmScripted(_ uint64, _ int, out *Out) {
	pool := newOvmPool()
	fixed := ovmPatched(pool, out)
	if v := envInt("VERIF_OVM_FIXED", -1); v >= 0 {
		fixed = v == 1
	}
	base := NewEnv(1_000_000, 4)
	baseCtx := base.Ctx
	h0 := base.Height
	str := func(id int) string { return pool.str[id/ovmVariants][id%ovmVariants] }
	for h, sc := range ovmScripts {
		if skipHist(h) {
			continue
		}
		hctx, _ := baseCtx.CacheContext()
		base.Ctx = hctx
		x := &ovmRun{e: base, k: *base.App.OVMKeeper, pool: pool, out: out, r: NewRng(uint64(h)), h: h, everIn: map[int]bool{}}
		x.srv = ovmkeeper.NewMsgServerImpl(x.k)
		out.Op("N %d", h)
		out.Impl("n %d", h)
		var vault []string
		for _, id := range sc.vault {
			vault = append(vault, str(id))
		}
		x.k.SetKeyVault(base.Ctx, ovmtypes.KeyVault{PublicKeys: vault})
		out.Op("G %d %d%s", b2i(fixed), len(vault), pool.IDs(vault))
		out.Impl("r ok")
		x.printState(x.snap())
		height := h0
		for _, st := range sc.steps {
			if st.now != x.now {
				height++
			}
			x.now = st.now
			base.SetBlock(height, x.now)
			switch st.kind {
			case 'S':
				m := &ovmSent{creator: 0, leader: st.leader}
				for _, id := range st.keys {
					m.keys = append(m.keys, str(id))
				}
				m.ticket, m.desc = pool.makeTicket(tkGood, st.signer, x.now+100, map[string]interface{}{"public_keys": m.keys, "leader_index": st.leader}, true)
				x.sendSubmit(m)
			case 'V':
				m := &ovmSent{vote: true, creator: 0, idx: st.idx, pid: st.pid, vv: st.vote}
				m.ticket, m.desc = pool.makeTicket(tkGood, st.signer, x.now+100, map[string]interface{}{"proposal_id": st.pid, "vote": st.vote}, true)
				x.sendVote(m)
			case 'E':
				x.endBlock()
			}
		}
		out.Count("script." + sc.name)
	}
}
