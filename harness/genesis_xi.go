package harness

// Export / re-import of the complete application state on the real code (property C16):
//   Commit -> ExportAppStateAndValidators -> Validate() of every custom module's exported genesis ->
//   InitChain of a fresh in-process app from the exported JSON -> raw KV comparison of the custom-module stores.

import (
	"bytes"
	"encoding/json"
	"fmt"
	"sort"
	"strings"
	"time"

	tmdb "github.com/cometbft/cometbft-db"
	abci "github.com/cometbft/cometbft/abci/types"
	"github.com/cometbft/cometbft/libs/log"
	tmproto "github.com/cometbft/cometbft/proto/tendermint/types"
	"github.com/cosmos/cosmos-sdk/codec"
	simtestutil "github.com/cosmos/cosmos-sdk/testutil/sims"
	sdk "github.com/cosmos/cosmos-sdk/types"
	paramstypes "github.com/cosmos/cosmos-sdk/x/params/types"

	wasmkeeper "github.com/CosmWasm/wasmd/x/wasm/keeper"

	"github.com/sge-network/sge/app"
	"github.com/sge-network/sge/testutil/simapp"
	"github.com/sge-network/sge/x/bet"
	bettypes "github.com/sge-network/sge/x/bet/types"
	"github.com/sge-network/sge/x/house"
	housetypes "github.com/sge-network/sge/x/house/types"
	"github.com/sge-network/sge/x/market"
	markettypes "github.com/sge-network/sge/x/market/types"
	"github.com/sge-network/sge/x/mint"
	minttypes "github.com/sge-network/sge/x/mint/types"
	"github.com/sge-network/sge/x/orderbook"
	obtypes "github.com/sge-network/sge/x/orderbook/types"
	"github.com/sge-network/sge/x/ovm"
	ovmtypes "github.com/sge-network/sge/x/ovm/types"
	"github.com/sge-network/sge/x/reward"
	rewardtypes "github.com/sge-network/sge/x/reward/types"
	"github.com/sge-network/sge/x/subaccount"
	subtypes "github.com/sge-network/sge/x/subaccount/types"
)

// genesisModules: the custom modules in the order of app.orderInitBlockers (mint is imported long before the others).
var genesisModules = []string{"mint", "bet", "market", "orderbook", "ovm", "house", "reward", "subaccount"}

// prefixNames: readable names of the store prefixes (first key byte) of every custom module; used as monitor class.
var prefixNames = map[string]map[byte]string{
	"bet":        {0x00: "bet", 0x01: "uid2id", 0x02: "stats", 0x03: "pending", 0x04: "settled"},
	"house":      {0x00: "deposit", 0x01: "withdrawal"},
	"market":     {0x00: "market", 0x01: "stats"},
	"orderbook":  {0x00: "book", 0x01: "participation", 0x02: "odds-exposure", 0x03: "participation-exposure", 0x04: "participation-exposure-by-index", 0x05: "historical-exposure", 0x06: "stats", 0x07: "participation-bet-pair", 0x08: "fee-grant", 0x09: "settled-participation"},
	"ovm":        {0x00: "key-vault", 0x01: "proposal", 0x02: "proposal-stats"},
	"reward":     {0x00: "campaign", 0x01: "reward", 0x02: "reward-by-receiver-category", 0x03: "reward-by-campaign", 0x04: "promoter", 0x05: "promoter-by-address", 0x06: "grant-stats"},
	"subaccount": {0x00: "id", 0x01: "owner", 0x02: "owner-reverse", 0x03: "locked-balance", 0x04: "account-summary"},
	"mint":       {0x00: "minter"},
}

type kvPair struct{ k, v []byte }

// storeDump returns every key/value pair of one module store plus the module's parameter subspace (x/params store,
// keys "<module>/…", reported under the pseudo prefix "params").
func storeDump(e *Env, module string) []kvPair {
	var out []kvPair
	it := e.Ctx.KVStore(e.App.GetKey(module)).Iterator(nil, nil)
	for ; it.Valid(); it.Next() {
		out = append(out, kvPair{append([]byte{}, it.Key()...), append([]byte{}, it.Value()...)})
	}
	it.Close()
	pfx := []byte(module + "/")
	pit := sdk.KVStorePrefixIterator(e.Ctx.KVStore(e.App.GetKey(paramstypes.StoreKey)), pfx)
	for ; pit.Valid(); pit.Next() {
		out = append(out, kvPair{append([]byte("\xffparams/"), pit.Key()...), append([]byte{}, pit.Value()...)})
	}
	pit.Close()
	return out
}

func prefixName(module string, key []byte) string {
	if len(key) == 0 {
		return "empty-key"
	}
	if key[0] == 0xff {
		return "params"
	}
	if n, ok := prefixNames[module][key[0]]; ok {
		return n
	}
	return fmt.Sprintf("prefix-%02x", key[0])
}

// storeDiff compares two store dumps; returns "" when equal, else (prefix name, kind, detail) of the first difference.
// Benign representation differences are normalised first (see normaliseStore).
func storeDiff(module string, a, b []kvPair) (pfx, kind, detail string) {
	a, b = normaliseStore(module, a), normaliseStore(module, b)
	i, j := 0, 0
	for i < len(a) || j < len(b) {
		switch {
		case j >= len(b) || (i < len(a) && bytes.Compare(a[i].k, b[j].k) < 0):
			return prefixName(module, a[i].k), "missing-after-import", fmt.Sprintf("key %x present before export, absent after import", a[i].k)
		case i >= len(a) || bytes.Compare(a[i].k, b[j].k) > 0:
			return prefixName(module, b[j].k), "extra-after-import", fmt.Sprintf("key %x absent before export, present after import", b[j].k)
		default:
			if !bytes.Equal(a[i].v, b[j].v) {
				return prefixName(module, a[i].k), "value-differs", fmt.Sprintf("key %x: %x before export, %x after import", a[i].k, a[i].v, b[j].v)
			}
			i++
			j++
		}
	}
	return "", "", ""
}

// normaliseStore removes differences of representation that no keeper function can observe:
//   - subaccount: an absent id counter reads as 1 (Keeper.Peek), export writes 1, import stores it.
func normaliseStore(module string, a []kvPair) []kvPair {
	if module == "subaccount" {
		one := sdk.Uint64ToBigEndian(1)
		if len(a) == 0 || !bytes.Equal(a[0].k, subtypes.SubaccountIDPrefix) {
			return append([]kvPair{{append([]byte{}, subtypes.SubaccountIDPrefix...), one}}, a...)
		}
	}
	return a
}

type xiOutcome struct {
	Gen        map[string]json.RawMessage
	Validate   map[string]string // module -> "" (ok) or error text
	PanicMod   []string          // modules whose InitGenesis panicked (their genesis was replaced by the default to go on)
	PanicText  map[string]string
	ExportErr  string
	New        *Env
	Diff       map[string][3]string // module -> prefix, kind, detail
	OldStores  map[string][]kvPair
	WholePanic string // InitChain failed for a reason that could not be attributed to a custom module
	HdrChecked int      // modules also exported in a context carrying the block header
	HdrDiffers []string // modules whose header-context export differs from the app export (imported and compared separately)
}

func unmarshalGenesis(cdc codec.Codec, module string, raw json.RawMessage) (validate func() error, initOn func(e *Env, ctx sdk.Context), err error) {
	defer func() {
		if r := recover(); r != nil {
			err = fmt.Errorf("unmarshal panic: %v", r)
		}
	}()
	switch module {
	case "bet":
		var g bettypes.GenesisState
		cdc.MustUnmarshalJSON(raw, &g)
		return g.Validate, func(e *Env, ctx sdk.Context) { bet.InitGenesis(ctx, *e.App.BetKeeper, g) }, nil
	case "market":
		var g markettypes.GenesisState
		cdc.MustUnmarshalJSON(raw, &g)
		return g.Validate, func(e *Env, ctx sdk.Context) { market.InitGenesis(ctx, *e.App.MarketKeeper, g) }, nil
	case "orderbook":
		var g obtypes.GenesisState
		cdc.MustUnmarshalJSON(raw, &g)
		return g.Validate, func(e *Env, ctx sdk.Context) { orderbook.InitGenesis(ctx, *e.App.OrderbookKeeper, &g) }, nil
	case "house":
		var g housetypes.GenesisState
		cdc.MustUnmarshalJSON(raw, &g)
		return g.Validate, func(e *Env, ctx sdk.Context) { house.InitGenesis(ctx, *e.App.HouseKeeper, &g) }, nil
	case "ovm":
		var g ovmtypes.GenesisState
		cdc.MustUnmarshalJSON(raw, &g)
		return g.Validate, func(e *Env, ctx sdk.Context) { ovm.InitGenesis(ctx, *e.App.OVMKeeper, g) }, nil
	case "reward":
		var g rewardtypes.GenesisState
		cdc.MustUnmarshalJSON(raw, &g)
		return g.Validate, func(e *Env, ctx sdk.Context) { reward.InitGenesis(ctx, *e.App.RewardKeeper, g) }, nil
	case "subaccount":
		var g subtypes.GenesisState
		cdc.MustUnmarshalJSON(raw, &g)
		return g.Validate, func(e *Env, ctx sdk.Context) { subaccount.InitGenesis(ctx, *e.App.SubaccountKeeper, g) }, nil
	case "mint":
		var g minttypes.GenesisState
		cdc.MustUnmarshalJSON(raw, &g)
		return g.Validate, func(e *Env, ctx sdk.Context) { mint.InitGenesis(ctx, e.App.MintKeeper, g) }, nil
	}
	return nil, nil, fmt.Errorf("unknown module %s", module)
}

// exportModules: every module of the app except the 08-wasm light client.  That module keeps its store key in a
// process-wide variable (ibc-go internal/ibcwasm), which always points to the most recently constructed app; with several
// apps in one process its ExportGenesis panics on all but the newest.  It holds no state in these runs.
func exportModules() []string {
	if exportModuleNames == nil {
		// the module names of the app = the keys of a full export (taken on a fresh app, the newest in the process)
		e := NewEnv(1, 4)
		e.App.Commit()
		x, err := e.App.ExportAppStateAndValidators(false, nil, nil)
		must(err)
		var gs map[string]json.RawMessage
		must(json.Unmarshal(x.AppState, &gs))
		for name := range gs {
			if name != "08-wasm" {
				exportModuleNames = append(exportModuleNames, name)
			}
		}
		sort.Strings(exportModuleNames)
	}
	return exportModuleNames
}

var exportModuleNames []string

func newBareApp() *app.SgeApp {
	return app.NewSgeApp(log.NewNopLogger(), tmdb.NewMemDB(), nil, true, map[int64]bool{}, "", 0, app.MakeEncodingConfig(),
		simtestutil.EmptyAppOptions{}, []wasmkeeper.Option{})
}

// commitAndBegin closes the current block of the in-process chain (Commit of the deliver state; the custom end-blockers
// are driven by the suites themselves) and begins the next one, keeping the suite's own block height / time on the context.
func (e *Env) commitAndBegin() {
	e.App.Commit()
	e.beginNext()
}

func (e *Env) beginNext() {
	hdr := tmproto.Header{Height: e.App.LastBlockHeight() + 1, Time: time.Unix(e.Time, 0).UTC(), AppHash: e.App.LastCommitID().Hash}
	e.App.BeginBlock(abci.RequestBeginBlock{Header: hdr})
	e.Ctx = e.App.NewContext(false, hdr).WithBlockHeight(e.Height).WithBlockTime(time.Unix(e.Time, 0).UTC())
}

// initChainFrom starts a fresh app from an exported application state; returns the panic text ("" = ok).
func initChainFrom(old *Env, appState []byte, exp int64) (ne *Env, panicText string) {
	a := newBareApp()
	func() {
		defer func() {
			if r := recover(); r != nil {
				panicText = fmt.Sprint(r)
			}
		}()
		a.InitChain(abci.RequestInitChain{
			ConsensusParams: simapp.DefaultConsensusParams,
			AppStateBytes:   appState,
			InitialHeight:   exp - 1,
			Time:            time.Unix(old.Time, 0).UTC(),
		})
		a.Commit()
	}()
	if panicText != "" {
		return nil, panicText
	}
	ne = &Env{App: &simapp.TestApp{SgeApp: *a}, Accts: old.Accts, OvmPriv: old.OvmPriv, OvmPub: old.OvmPub, Height: old.Height, Time: old.Time}
	hdr := tmproto.Header{Height: a.LastBlockHeight(), Time: time.Unix(old.Time, 0).UTC()}
	ne.Ctx = ne.App.NewContext(true, hdr).WithBlockHeight(old.Height).WithBlockTime(time.Unix(old.Time, 0).UTC())
	return ne, ""
}

// exportWithHeader exports one custom module through its own ExportGenesis in a context that carries the header of the
// block boundary (height and block time), as a node does that exports inside a running chain (upgrade handlers,
// in-place forks, simulation); `app export` itself uses a context with a zero block time.
func exportWithHeader(e *Env, ctx sdk.Context, module string) (raw json.RawMessage, err error) {
	defer func() {
		if r := recover(); r != nil {
			err = fmt.Errorf("export panic: %v", r)
		}
	}()
	cdc := e.App.AppCodec()
	switch module {
	case "bet":
		return cdc.MustMarshalJSON(bet.ExportGenesis(ctx, *e.App.BetKeeper)), nil
	case "market":
		return cdc.MustMarshalJSON(market.ExportGenesis(ctx, *e.App.MarketKeeper)), nil
	case "orderbook":
		return cdc.MustMarshalJSON(orderbook.ExportGenesis(ctx, *e.App.OrderbookKeeper)), nil
	case "house":
		return cdc.MustMarshalJSON(house.ExportGenesis(ctx, *e.App.HouseKeeper)), nil
	case "ovm":
		return cdc.MustMarshalJSON(ovm.ExportGenesis(ctx, *e.App.OVMKeeper)), nil
	case "reward":
		return cdc.MustMarshalJSON(reward.ExportGenesis(ctx, *e.App.RewardKeeper)), nil
	case "subaccount":
		return cdc.MustMarshalJSON(subaccount.ExportGenesis(ctx, *e.App.SubaccountKeeper)), nil
	case "mint":
		return cdc.MustMarshalJSON(mint.ExportGenesis(ctx, e.App.MintKeeper)), nil
	}
	return nil, fmt.Errorf("unknown module %s", module)
}

func canonJSON(raw json.RawMessage) string {
	var v interface{}
	if json.Unmarshal(raw, &v) != nil {
		return string(raw)
	}
	bz, _ := json.Marshal(v)
	return string(bz)
}

// ExportImport performs the export / validate / import cycle at the current block boundary of `e`:
// the block of `e` is committed, the committed state exported, validated and imported into a fresh app (`o.New`, whose
// context reads the committed state of the new chain; call `o.New.beginNext()` before using it further).
// On return `e` is at the beginning of its next block.
func (e *Env) ExportImport() *xiOutcome {
	mods := exportModules() // before anything else: may construct an app
	o := &xiOutcome{Validate: map[string]string{}, PanicText: map[string]string{}, Diff: map[string][3]string{}, OldStores: map[string][]kvPair{}}
	for _, m := range genesisModules {
		o.OldStores[m] = storeDump(e, m) // the deliver state that is committed next
	}
	e.App.Commit()
	exported, err := func() (ex []byte, err error) {
		defer func() {
			if r := recover(); r != nil {
				err = fmt.Errorf("export panic: %v", r)
			}
		}()
		x, err := e.App.ExportAppStateAndValidators(false, nil, mods)
		return x.AppState, err
	}()
	expHeight := e.App.LastBlockHeight() + 1
	// second export of the same committed state, module by module, in a context carrying the block header
	hdrCtx := e.App.NewContext(true, tmproto.Header{Height: e.App.LastBlockHeight(), Time: time.Unix(e.Time, 0).UTC()}).
		WithBlockHeight(e.Height).WithBlockTime(time.Unix(e.Time, 0).UTC())
	hdrGen := map[string]json.RawMessage{}
	hdrErr := map[string]string{}
	for _, m := range genesisModules {
		raw, herr := exportWithHeader(e, hdrCtx, m)
		if herr != nil {
			hdrErr[m] = herr.Error()
		} else {
			hdrGen[m] = raw
		}
	}
	e.beginNext()
	if err != nil {
		o.ExportErr = err.Error()
		return o
	}
	must(json.Unmarshal(exported, &o.Gen))
	cdc := e.App.AppCodec()
	for _, m := range genesisModules {
		v, _, uerr := unmarshalGenesis(cdc, m, o.Gen[m])
		if uerr != nil {
			o.Validate[m] = uerr.Error()
			continue
		}
		func() {
			defer func() {
				if r := recover(); r != nil {
					o.Validate[m] = fmt.Sprintf("validate panic: %v", r)
				}
			}()
			if verr := v(); verr != nil {
				o.Validate[m] = verr.Error()
			} else {
				o.Validate[m] = ""
			}
		}()
	}
	// import; when a custom module's InitGenesis panics, name it, replace its genesis by the default one and retry so that
	// the remaining modules are still compared
	gen := map[string]json.RawMessage{}
	for k, v := range o.Gen {
		gen[k] = v
	}
	for attempt := 0; attempt <= len(genesisModules); attempt++ {
		bz, merr := json.Marshal(gen)
		must(merr)
		ne, ptxt := initChainFrom(e, bz, expHeight)
		if ptxt == "" {
			o.New = ne
			break
		}
		mod := e.blameModule(gen)
		if mod == "" {
			o.WholePanic = ptxt
			return o
		}
		o.PanicMod = append(o.PanicMod, mod)
		o.PanicText[mod] = ptxt
		gen[mod] = app.ModuleBasics.DefaultGenesis(cdc)[mod]
	}
	if o.New == nil {
		return o
	}
	for _, m := range genesisModules {
		if p, k, d := storeDiff(m, o.OldStores[m], storeDump(o.New, m)); p != "" {
			o.Diff[m] = [3]string{p, k, d}
		}
	}
	// the export taken in a context with the block header must restart the same chain as well: where it differs from
	// the app export, it is validated and imported on its own and the stores are compared again
	o.HdrChecked = len(hdrGen)
	for _, m := range genesisModules {
		if _, bad := o.Diff[m]; bad {
			continue
		}
		if t, failed := hdrErr[m]; failed {
			o.Diff[m] = [3]string{"export-with-block-header", "export-panic", t}
			continue
		}
		if canonJSON(hdrGen[m]) == canonJSON(o.Gen[m]) {
			continue
		}
		o.HdrDiffers = append(o.HdrDiffers, m)
		if v, _, uerr := unmarshalGenesis(cdc, m, hdrGen[m]); uerr != nil {
			o.Diff[m] = [3]string{"export-with-block-header", "unmarshal", uerr.Error()}
			continue
		} else if verr := func() (err error) {
			defer func() {
				if r := recover(); r != nil {
					err = fmt.Errorf("validate panic: %v", r)
				}
			}()
			return v()
		}(); verr != nil {
			o.Diff[m] = [3]string{"export-with-block-header", "invalid", verr.Error()}
			continue
		}
		gen2 := map[string]json.RawMessage{}
		for k, v := range gen {
			gen2[k] = v
		}
		gen2[m] = hdrGen[m]
		bz, merr := json.Marshal(gen2)
		must(merr)
		ne2, ptxt := initChainFrom(e, bz, expHeight)
		if ptxt != "" {
			o.Diff[m] = [3]string{"export-with-block-header", "import-panic", ptxt}
			continue
		}
		if p, k, d := storeDiff(m, o.OldStores[m], storeDump(ne2, m)); p != "" {
			o.Diff[m] = [3]string{"export-with-block-header:" + p, k, d}
		}
	}
	return o
}

// blameModule finds the first custom module whose InitGenesis panics on the given genesis (modules imported in app
// order on a scratch chain, each in a cache context).
func (e *Env) blameModule(gen map[string]json.RawMessage) string {
	scratch := NewEnv(1, 4)
	order := []string{"mint", "bet", "market", "orderbook", "ovm", "house", "reward", "subaccount"}
	for _, m := range order {
		_, initOn, err := unmarshalGenesis(scratch.App.AppCodec(), m, gen[m])
		if err != nil {
			return m
		}
		bad := false
		func() {
			defer func() {
				if r := recover(); r != nil {
					bad = true
				}
			}()
			initOn(scratch, scratch.Ctx)
		}()
		if bad {
			return m
		}
	}
	return ""
}

// allBalances: every account's balances as "addr denom amount" lines, sorted.
func allBalances(e *Env) []string {
	var out []string
	e.App.BankKeeper.IterateAllBalances(e.Ctx, func(a sdk.AccAddress, c sdk.Coin) bool {
		out = append(out, fmt.Sprintf("%s %s %s", a.String(), c.Denom, c.Amount))
		return false
	})
	sort.Strings(out)
	return out
}

func firstLineDiff(a, b []string) string {
	for i := 0; i < len(a) || i < len(b); i++ {
		var x, y string
		if i < len(a) {
			x = a[i]
		}
		if i < len(b) {
			y = b[i]
		}
		if x != y {
			return fmt.Sprintf("[%s] vs [%s]", x, y)
		}
	}
	return ""
}

// validateClass maps a genesis validation error to a stable class: module + which check failed.
func validateClass(module, errText string) string {
	t := errText
	switch {
	case module == "house" && strings.Contains(t, "not found for the withdrawal"):
		return "house/withdrawal-deposit-not-found"
	case module == "orderbook" && strings.Contains(t, "not found for odds with uid"):
		return "orderbook/participation-exposure-of-every-odds-in-every-book"
	case module == "orderbook" && strings.Contains(t, "count does not match the odds exposure count"):
		return "orderbook/odds-count"
	case module == "orderbook" && strings.Contains(t, "participation index for the book"):
		return "orderbook/exposure-by-index-without-exposure"
	case module == "orderbook" && strings.Contains(t, "participation history for the book"):
		return "orderbook/historical-exposure-without-current-exposure"
	case module == "orderbook" && strings.Contains(t, "participation for the book"):
		return "orderbook/exposure-without-by-index"
	case module == "orderbook" && strings.Contains(t, "participation bet pair not found"):
		return "orderbook/bet-pair-book"
	case module == "orderbook" && strings.Contains(t, "not found for participation"):
		return "orderbook/participation-book"
	case module == "bet":
		for _, kv := range [][2]string{
			{bettypes.ErrTextInitGenesisFailedBecauseOfNotEqualStats, "stats-count"},
			{bettypes.ErrTextInitGenesisFailedBetCountNotEqualActiveAndSettled, "pending-plus-settled-count"},
			{bettypes.ErrTextInitGenesisFailedBecauseOfMissingBetID, "missing-bet-id"},
			{bettypes.ErrTextInitGenesisFailedSettlementHeightIsZeroForList, "settled-list-height-zero"},
			{bettypes.ErrTextInitGenesisFailedSettlementHeightIsZero, "settled-height-zero"},
			{bettypes.ErrTextInitGenesisFailedSettlementHeightIsNotZero, "pending-height-not-zero"},
			{bettypes.ErrTextInitGenesisFailedNotActiveOrSettled, "neither-pending-nor-settled"},
		} {
			if strings.Contains(t, kv[0]) {
				return "bet/" + kv[1]
			}
		}
	}
	if i := strings.Index(t, ":"); i > 0 && i < 60 {
		t = t[:i]
	}
	return module + "/" + trunc(strings.ReplaceAll(t, " ", "-"), 60)
}
